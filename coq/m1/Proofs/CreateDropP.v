(* C06 on the sub-class "tables are only added and removed": the baseline is a consistent normalisation
   fix-point, the tables common to baseline and target are unchanged, the dropped tables have no FK cycle.
   The plan is then [CreateTable ... (FK order); DeleteTable ... (reverse FK order)] and every prefix of it
   is a consistent schema (C06_core_partial2). *)
From VV.M1 Require Import Diff Validate Revision Oracles BtP NormalizeP DiffP SortKeyP KahnP CreateOnlyP.
From Coq Require Import Lia Permutation Sorted.

(* ---------- lists of CreateTable / DeleteTable actions pass through the enum and filling passes ---------- *)
Definition simple (a : action) : bool :=
  match a with CreateTable _ _ _ | DeleteTable _ => true | _ => false end.
Definition all_simple (l : list action) : Prop := forall a, In a l -> simple a = true.

Lemma all_simple_cons a l : all_simple (a :: l) -> simple a = true /\ all_simple l.
Proof. intro H. split; [apply H; now left | intros b Hb; apply H; now right]. Qed.
Lemma all_simple_app a b : all_simple a -> all_simple b -> all_simple (a ++ b).
Proof. intros Ha Hb x Hx. apply in_app_or in Hx. destruct Hx; auto. Qed.

Lemma collect_changes_simple : forall acts i tc dc, all_simple acts -> collect_changes i acts tc dc = (tc, dc).
Proof.
  induction acts as [|a r IH]; intros i tc dc H; [reflexivity|].
  apply all_simple_cons in H. destruct H as [Ha Hr]. cbn [collect_changes].
  destruct a; try discriminate; now apply IH.
Qed.
Lemma sort_enum_simple acts fm : all_simple acts -> sort_enum_default_dependencies acts fm = acts.
Proof.
  intro H. unfold sort_enum_default_dependencies, enum_swaps.
  rewrite collect_changes_simple by exact H. reflexivity.
Qed.
Lemma refuses_simple acts : all_simple acts -> refuses acts = false.
Proof.
  intro H. unfold refuses. cbn zeta.
  induction acts as [|a r IH]; [reflexivity|]. apply all_simple_cons in H. destruct H as [Ha Hr].
  cbn [existsb]. destruct a; try discriminate; cbn [orb]; cbn [flat_map app] in *; now apply IH.
Qed.
Lemma collect_fills_simple s : forall acts, all_simple acts -> collect_fills acts s = [].
Proof.
  induction acts as [|a r IH]; intro H; [reflexivity|]. apply all_simple_cons in H. destruct H as [Ha Hr].
  destruct a; try discriminate; cbn [collect_fills]; now apply IH.
Qed.
Lemma find_missing_enum_simple s : forall acts i, all_simple acts -> find_missing_enum_fill_with_aux i acts s = [].
Proof.
  induction acts as [|a r IH]; intros i H; [reflexivity|]. apply all_simple_cons in H. destruct H as [Ha Hr].
  destruct a; try discriminate; cbn [find_missing_enum_fill_with_aux]; now apply IH.
Qed.
Lemma apply_enum_fills_simple missing : forall acts i, all_simple acts -> apply_enum_fills i acts missing = acts.
Proof.
  induction acts as [|a r IH]; intros i H; [reflexivity|]. apply all_simple_cons in H. destruct H as [Ha Hr].
  destruct a; try discriminate; cbn [apply_enum_fills]; f_equal; now apply IH.
Qed.
Lemma default_as_fill_simple s : forall acts, all_simple acts -> map (default_as_fill s) acts = acts.
Proof.
  induction acts as [|a r IH]; intro H; [reflexivity|]. apply all_simple_cons in H. destruct H as [Ha Hr].
  destruct a; try discriminate; cbn [map default_as_fill]; f_equal; now apply IH.
Qed.
Lemma filled_actions_simple acts s : all_simple acts -> filled_actions (mkPlan "" None None 0 acts) s = acts.
Proof.
  intro H. unfold filled_actions, revision_fill. cbn [p_actions].
  rewrite (refuses_simple _ H), (collect_fills_simple _ _ H). cbn zeta. cbv iota.
  unfold find_missing_enum_fill_with. cbn [p_actions].
  rewrite (find_missing_enum_simple _ _ _ H), (apply_enum_fills_simple _ _ _ H). now apply default_as_fill_simple.
Qed.

(* ---------- the create-before-add-constraint sort on such a list: creations first, then drops ---------- *)
Lemma filter_all {A} (p : A -> bool) : forall l, (forall x, In x l -> p x = true) -> filter p l = l.
Proof.
  induction l as [|x r IH]; intro H; [reflexivity|]. cbn [filter]. rewrite (H x (or_introl eq_refl)).
  f_equal. apply IH. intros; apply H; now right.
Qed.

Lemma sorted01 {A} (key : A -> nat) : forall l, StronglySorted (key_le key) l ->
  (forall x, In x l -> key x = 0 \/ key x = 1) ->
  l = filter (fun y => Nat.eqb (key y) 0) l ++ filter (fun y => Nat.eqb (key y) 1) l.
Proof.
  induction 1 as [|x r Hr IH Hall]; intro H01; [reflexivity|].
  assert (H01r : forall y, In y r -> key y = 0 \/ key y = 1) by (intros; apply H01; now right).
  cbn [filter]. destruct (H01 x (or_introl eq_refl)) as [E|E]; rewrite E; cbn [Nat.eqb].
  - cbn [app]. f_equal. now apply IH.
  - rewrite Forall_forall in Hall.
    assert (K1 : forall y, In y r -> key y = 1).
    { intros y Hy. specialize (Hall y Hy). unfold key_le in Hall. destruct (H01r y Hy); lia. }
    rewrite filter_app_nil, filter_all; [reflexivity| |].
    + intros y Hy. rewrite (K1 y Hy). reflexivity.
    + intros y Hy. rewrite (K1 y Hy). reflexivity.
Qed.

Lemma simple_cases a : simple a = true -> (is_create a = true /\ is_delete_table a = false) \/
                                          (is_create a = false /\ is_delete_table a = true).
Proof. destruct a; try discriminate; auto. Qed.

Lemma sort_create_simple acts : all_simple acts ->
  sort_create_before_add_constraint acts = filter is_create acts ++ filter is_delete_table acts.
Proof.
  intro H. unfold sort_create_before_add_constraint. destruct (created_tables acts) as [|c0 cr] eqn:Ec.
  - assert (Hn : forall a, In a acts -> is_create a = false).
    { intros a Ha. destruct (is_create a) eqn:E; [|reflexivity]. destruct a; try discriminate.
      assert (Hin : In table (created_tables acts)) by (apply created_tables_in; eauto).
      rewrite Ec in Hin. destruct Hin. }
    rewrite filter_app_nil by exact Hn. rewrite filter_all; [reflexivity|].
    intros a Ha. destruct (simple_cases a (H a Ha)) as [[E _]|[_ E]]; [rewrite (Hn a Ha) in E; discriminate|exact E].
  - rewrite <- Ec. set (key := create_rank (created_tables acts)).
    assert (K : forall a, In a acts -> (Nat.eqb (key a) 0 = is_create a) /\ (Nat.eqb (key a) 1 = is_delete_table a)).
    { intros a Ha. specialize (H a Ha). destruct a; try discriminate; split; reflexivity. }
    assert (K01 : forall a, In a (sort_by_key key acts) -> key a = 0 \/ key a = 1).
    { intros a Ha. apply (Permutation_in _ (sort_by_key_perm key acts)) in Ha. specialize (H a Ha).
      destruct a; try discriminate; [left|right]; reflexivity. }
    rewrite (sorted01 key _ (sort_by_key_sorted key acts) K01) at 1.
    rewrite !sort_by_key_stable. f_equal; apply filter_ext_in; intros a Ha; apply (K a Ha).
Qed.

Lemma put_back_in : forall acts sorted a, In a (put_back acts sorted) -> In a acts \/ In a sorted.
Proof.
  induction acts as [|x r IH]; intros sorted a H; [destruct H|]. cbn [put_back] in H.
  destruct (is_delete_table x).
  - destruct sorted as [|s ss].
    + destruct H as [<-|H]; [left; now left|]. destruct (IH _ _ H) as [H'|[]]. left. now right.
    + destruct H as [<-|H]; [right; now left|]. destruct (IH _ _ H) as [H'|H']; [left|right]; now right.
  - destruct H as [<-|H]; [left; now left|]. destruct (IH _ _ H) as [H'|H']; [left; now right|now right].
Qed.

Lemma sort_delete_tables_in acts all a : In a (sort_delete_tables acts all) -> In a acts.
Proof.
  rewrite sort_delete_tables_unfold. cbn zeta. destruct (Nat.leb _ 1); [auto|].
  destruct (kahn _); [|auto]. intro H. apply put_back_in in H. destruct H as [H|H]; [exact H|].
  apply (Permutation_in _ (sort_by_key_perm _ _)) in H. apply filter_In in H. tauto.
Qed.

(* ---------- the shape of the plan ---------- *)
Lemma normalize_all_fix B : (forall b, In b B -> normalize b = Ok b) -> normalize_all B = Ok B.
Proof.
  unfold normalize_all. intro H. apply map_result_forall2. revert H.
  induction B as [|b0 r IH]; intro H; constructor.
  - now rewrite (H b0 (or_introl eq_refl)).
  - apply IH. intros; apply H; now right.
Qed.

Lemma table_group_cols n ft a b : t_columns a = t_columns b -> t_constraints a = t_constraints b ->
  table_group n ft a = table_group n ft b.
Proof. intros E1 E2. unfold table_group. rewrite E1, E2. reflexivity. Qed.

Lemma map_delete_names dels : (forall a, In a dels -> is_delete_table a = true) ->
  dels = map DeleteTable (map delete_name dels).
Proof.
  induction dels as [|a r IH]; intro H; [reflexivity|]. cbn [map].
  rewrite <- (is_delete_name a (H a (or_introl eq_refl))). f_equal. apply IH. intros; apply H; now right.
Qed.

Lemma deletes_names (fm tm : list (string * table_def)) : NoDup (map fst fm) ->
  let dl := flat_map (fun kv : string * table_def => if bt_mem (fst kv) tm then [] else [DeleteTable (fst kv)]) fm in
  (forall a, In a dl -> is_delete_table a = true) /\
  NoDup (map delete_name dl) /\
  (forall x, In x (map delete_name dl) <-> In x (map fst fm) /\ ~ In x (map fst tm)).
Proof.
  cbn zeta. induction fm as [|[k v] r IH]; intro Hnd.
  - cbn [flat_map map]. split; [intros a []|]. split; [constructor|]. intro x. cbn [In]. tauto.
  - cbn [map fst] in Hnd. inversion Hnd as [|? ? Hk Hr]; subst. destruct (IH Hr) as [I1 [I2 I3]].
    cbn [flat_map fst]. destruct (bt_mem k tm) eqn:Em; cbn [app map fst].
    + split; [exact I1|]. split; [exact I2|]. intro x. rewrite I3. apply bt_mem_spec in Em.
      split; [intros [H1 H2]; split; [now right|exact H2]|].
      intros [[<-|H1] H2]; [contradiction|tauto].
    + apply bt_mem_false in Em. split; [intros a [<-|Ha]; [reflexivity|now apply I1]|].
      cbn [delete_name]. split.
      * constructor; [|exact I2]. intro H. apply I3 in H. tauto.
      * intro x. cbn [In]. rewrite I3. split; [intros [<-|[H1 H2]]; tauto|]. intros [[<-|H1] H2]; tauto.
Qed.

Lemma diff_shape B T ns acts :
  (forall b, In b B -> normalize b = Ok b) -> NoDup (map t_name B) ->
  normalize_all T = Ok ns ->
  (forall b n, In b B -> In n ns -> t_name b = t_name n ->
     t_columns b = t_columns n /\ t_constraints b = t_constraints n) ->
  diff_actions B T = Ok acts ->
  exists sorted dn,
    topo_sort (flat_map (fun kv : string * table_def =>
                           if bt_mem (fst kv) (bt_of_list (map (fun t => (t_name t, t)) B)) then [] else [snd kv])
                        (bt_of_list (map (fun t => (t_name t, t)) ns))) = TopoOk sorted /\
    acts = flat_map (mk_create T) sorted ++ map DeleteTable dn /\
    map delete_name (filter is_delete_table acts) = dn /\
    NoDup dn /\ (forall x, In x dn <-> In x (map t_name B) /\ ~ In x (map t_name ns)).
Proof.
  intros BF BN EN CM H. unfold diff_actions in H.
  rewrite (normalize_all_fix B BF), EN in H. cbn zeta in H.
  set (fm := bt_of_list (map (fun t => (t_name t, t)) B)) in *.
  set (tm := bt_of_list (map (fun t => (t_name t, t)) ns)) in *.
  assert (U : flat_map (fun kv : string * table_def =>
                          match bt_get (fst kv) fm with
                          | Some ft => table_group (fst kv) ft (snd kv) | None => [] end) tm = []).
  { apply flat_map_nil. intros [k v] Hkv. cbn [fst snd].
    destruct (bt_get k fm) as [ft|] eqn:Eg; [|reflexivity].
    apply bt_get_in, bt_of_list_in, in_map_iff in Eg. destruct Eg as [b [Eb Hb]]. injection Eb as Ek Ef. subst ft k.
    apply bt_of_list_in, in_map_iff in Hkv. destruct Hkv as [n [En Hn]]. injection En as E1 E2. subst v.
    destruct (CM b n Hb Hn (eq_sym E1)) as [C1 C2].
    rewrite <- (table_group_cols _ _ b n C1 C2). apply table_group_self. }
  rewrite U in H. cbn [app] in H.
  destruct (topo_sort _) as [sorted| |] eqn:Et; try discriminate.
  set (deletes := flat_map (fun kv : string * table_def => if bt_mem (fst kv) tm then [] else [DeleteTable (fst kv)]) fm) in *.
  change (flat_map _ sorted) with (flat_map (mk_create T) sorted) in H.
  set (creates := flat_map (mk_create T) sorted) in *.
  destruct (deletes_names fm tm (bt_sorted_nodup _ (bt_of_list_sorted _))) as [D1 [D2 D3]]. fold deletes in D1, D2, D3.
  assert (Cc : forall a, In a creates -> is_create a = true).
  { intros a Ha. unfold creates in Ha. apply in_flat_map in Ha. destruct Ha as [t [_ Ha]]. unfold mk_create in Ha.
    destruct (bt_get _ _); [destruct Ha as [<-|[]]; reflexivity | destruct Ha]. }
  assert (S0 : all_simple (deletes ++ creates)).
  { intros a Ha. apply in_app_or in Ha. destruct Ha as [Ha|Ha].
    - specialize (D1 a Ha). destruct a; try discriminate; reflexivity.
    - specialize (Cc a Ha). destruct a; try discriminate; reflexivity. }
  set (a1 := sort_delete_tables (deletes ++ creates) fm) in *.
  assert (S1 : all_simple a1) by (intros a Ha; apply S0; eapply sort_delete_tables_in; exact Ha).
  rewrite (sort_create_simple a1 S1) in H.
  assert (S2 : all_simple (filter is_create a1 ++ filter is_delete_table a1)).
  { intros a Ha. apply S1. apply in_app_or in Ha. destruct Ha as [Ha|Ha]; apply filter_In in Ha; tauto. }
  rewrite (sort_enum_simple _ _ S2) in H. inversion H as [Hacts]; clear H.
  assert (E1 : filter is_create a1 = creates).
  { unfold a1. rewrite sort_delete_tables_creates, filter_app, filter_app_nil, filter_all; auto.
    intros a Ha. specialize (D1 a Ha). destruct a; try discriminate; reflexivity. }
  set (dels := filter is_delete_table a1) in *.
  assert (Dd : forall a, In a dels -> is_delete_table a = true) by (intros a Ha; apply filter_In in Ha; tauto).
  assert (P : Permutation (map delete_name dels) (map delete_name deletes)).
  { eapply Permutation_trans; [apply (sort_delete_tables_perm (deletes ++ creates) fm)|].
    unfold deleted_tables. rewrite filter_app, filter_all, filter_app_nil, app_nil_r; auto.
    intros a Ha. specialize (Cc a Ha). destruct a; try discriminate; reflexivity. }
  exists sorted, (map delete_name dels). split; [reflexivity|]. rewrite E1.
  split; [f_equal; now apply map_delete_names|]. split.
  - rewrite filter_app, filter_app_nil, filter_all; auto.
    intros a Ha. specialize (Cc a Ha). destruct a; try discriminate; reflexivity.
  - split; [eapply Permutation_NoDup; [apply Permutation_sym; exact P|exact D2]|].
    intro x. split.
    + intro Hx. apply (Permutation_in _ P), D3 in Hx. unfold fm, tm in Hx.
      rewrite !bt_keys_of_list, !keys_name_map in Hx. exact Hx.
    + intro Hx. apply (Permutation_in _ (Permutation_sym P)), D3. unfold fm, tm.
      rewrite !bt_keys_of_list, !keys_name_map. exact Hx.
Qed.

(* ---------- schema facts used by both phases ---------- *)
Lemma find_app {A} (p : A -> bool) (a b : list A) :
  find p (a ++ b) = match find p a with Some x => Some x | None => find p b end.
Proof. induction a as [|x r IH]; [reflexivity|]. cbn [app find]. destruct (p x); [reflexivity|exact IH]. Qed.

Lemma find_name_none rt (s : schema) : ~ In rt (map t_name s) -> find (fun x => String.eqb (t_name x) rt) s = None.
Proof.
  intro H. destruct (find _ s) as [x|] eqn:E; [|reflexivity]. apply find_some in E. destruct E as [Hx Ex].
  apply String.eqb_eq in Ex. exfalso. apply H. rewrite <- Ex. now apply in_map.
Qed.

Lemma find_name_some rt (s : schema) : In rt (map t_name s) ->
  exists x, find (fun x => String.eqb (t_name x) rt) s = Some x /\ In x s /\ t_name x = rt.
Proof.
  intro H. apply in_map_iff in H. destruct H as [r [Er Hr]].
  destruct (find_some_exists (fun x => String.eqb (t_name x) rt) s) as [x Hx].
  { exists r. split; [exact Hr|]. rewrite Er. apply String.eqb_refl. }
  exists x. split; [exact Hx|]. apply find_some in Hx. destruct Hx as [Hx Ex]. apply String.eqb_eq in Ex. auto.
Qed.

Lemma find_filter_neq rt x : rt <> x -> forall s : schema,
  find (fun t => String.eqb (t_name t) rt) (filter (fun t => negb (String.eqb (t_name t) x)) s)
  = find (fun t => String.eqb (t_name t) rt) s.
Proof.
  intros Hne. induction s as [|t r IH]; [reflexivity|]. cbn [filter find].
  destruct (String.eqb (t_name t) x) eqn:Ex; cbn [negb].
  - apply String.eqb_eq in Ex. assert (E : String.eqb (t_name t) rt = false) by (apply String.eqb_neq; congruence).
    now rewrite E.
  - cbn [find]. destruct (String.eqb (t_name t) rt); [reflexivity|exact IH].
Qed.

Lemma table_consistent_app B X b : table_consistent B b = true -> table_consistent (B ++ X) b = true.
Proof.
  unfold table_consistent. destruct (normalize b) as [n|e]; [|discriminate]. intro H.
  apply forallb_forall. intros k Hk. rewrite forallb_forall in H. specialize (H k Hk).
  apply Bool.andb_true_iff in H. destruct H as [H1 H2]. rewrite H1. cbn [andb].
  destruct k; try reflexivity. rewrite find_app.
  destruct (find _ B); [exact H2|discriminate].
Qed.

Lemma table_consistent_filter s x u : table_consistent s u = true ->
  (forall n, normalize u = Ok n -> forall rt, In rt (fk_targets n) -> rt <> x) ->
  table_consistent (filter (fun t => negb (String.eqb (t_name t) x)) s) u = true.
Proof.
  unfold table_consistent. destruct (normalize u) as [n|e]; [|discriminate]. intros H Hne.
  apply forallb_forall. intros k Hk. rewrite forallb_forall in H. specialize (H k Hk).
  apply Bool.andb_true_iff in H. destruct H as [H1 H2]. rewrite H1. cbn [andb].
  destruct k as [| |nm cols rt rcols od ou| |]; try reflexivity.
  rewrite find_filter_neq; [exact H2|]. apply (Hne n eq_refl). eapply fk_targets_in; eauto.
Qed.

Lemma has_table_true n (s : schema) : In n (map t_name s) -> has_table n s = true.
Proof.
  intro H. apply in_map_iff in H. destruct H as [t [E Ht]]. unfold has_table. apply existsb_exists.
  exists t. split; [exact Ht|]. rewrite E. apply String.eqb_refl.
Qed.

Lemma fk_targets_constraints a b : t_constraints a = t_constraints b -> fk_targets a = fk_targets b.
Proof. intro E. unfold fk_targets. now rewrite E. Qed.

(* ---------- phase 2: dropping tables in an order compatible with the references ---------- *)
Definition ref_ok (s : schema) (dn : list string) : Prop :=
  forall u n rt, In u s -> normalize u = Ok n -> In rt (fk_targets n) -> rt <> t_name u -> In rt dn ->
    exists l1 l2 l3, dn = l1 ++ t_name u :: l2 ++ rt :: l3.

Lemma stepwise_deletes : forall dn s,
  consistent s = true -> NoDup dn -> incl dn (map t_name s) -> ref_ok s dn ->
  stepwise_ok s (map DeleteTable dn) = true.
Proof.
  induction dn as [|x dn IH]; intros s Hc Hnd Hin Hr; [reflexivity|].
  cbn [map stepwise_ok target_present andb apply_action].
  rewrite (has_table_true x s (Hin x (or_introl eq_refl))).
  set (s' := filter (fun t => negb (String.eqb (t_name t) x)) s).
  inversion Hnd as [|? ? Hx Hnd']; subst.
  unfold consistent in Hc. apply Bool.andb_true_iff in Hc. destruct Hc as [Hc1 Hc2].
  apply nodup_str_spec in Hc1. rewrite forallb_forall in Hc2.
  assert (Hs' : forall u, In u s' -> In u s /\ t_name u <> x).
  { intros u Hu. apply filter_In in Hu. destruct Hu as [Hu E]. split; [exact Hu|].
    apply Bool.negb_true_iff, String.eqb_neq in E. exact E. }
  assert (Hsplit : forall (a : string) l1 l2 l3, a <> x -> x :: dn = l1 ++ a :: l2 ++ l3 -> exists l1', l1 = x :: l1').
  { intros a l1 l2 l3 Ha E. destruct l1 as [|y l1']; cbn [app] in E; inversion E; subst; [congruence|eauto]. }
  apply Bool.andb_true_iff. split; [apply Bool.andb_true_iff; split|].
  - apply nodup_str_spec. now apply nodup_map_filter.
  - apply forallb_forall. intros u Hu. destruct (Hs' u Hu) as [Hus Hux].
    apply table_consistent_filter; [now apply Hc2|]. intros n Hn rt Hrt ->.
    destruct (Hr u n x Hus Hn Hrt (fun E => Hux (eq_sym E)) (or_introl eq_refl)) as [l1 [l2 [l3 E]]].
    destruct (Hsplit (t_name u) l1 l2 (x :: l3) Hux E) as [l1' ->]. cbn [app] in E. inversion E as [E'].
    apply Hx. rewrite E'. apply in_or_app. right. right. apply in_or_app. right. now left.
  - apply IH; auto.
    + unfold consistent. apply Bool.andb_true_iff. split.
      * apply nodup_str_spec. now apply nodup_map_filter.
      * apply forallb_forall. intros u Hu. destruct (Hs' u Hu) as [Hus Hux].
        apply table_consistent_filter; [now apply Hc2|]. intros n Hn rt Hrt ->.
        destruct (Hr u n x Hus Hn Hrt (fun E => Hux (eq_sym E)) (or_introl eq_refl)) as [l1 [l2 [l3 E]]].
        destruct (Hsplit (t_name u) l1 l2 (x :: l3) Hux E) as [l1' ->]. cbn [app] in E. inversion E as [E'].
        apply Hx. rewrite E'. apply in_or_app. right. right. apply in_or_app. right. now left.
    + intros y Hy. assert (Hyx : y <> x) by (intros ->; contradiction).
      specialize (Hin y (or_intror Hy)). apply in_map_iff in Hin. destruct Hin as [t [E Ht]].
      apply in_map_iff. exists t. split; [exact E|]. apply filter_In. split; [exact Ht|].
      apply Bool.negb_true_iff, String.eqb_neq. congruence.
    + intros u n rt Hu Hn Hrt Hne Hrd. destruct (Hs' u Hu) as [Hus Hux].
      destruct (Hr u n rt Hus Hn Hrt Hne (or_intror Hrd)) as [l1 [l2 [l3 E]]].
      destruct (Hsplit (t_name u) l1 l2 (rt :: l3) Hux E) as [l1' ->]. cbn [app] in E. inversion E as [E'].
      now exists l1', l2, l3.
Qed.

(* ---------- phase 1: creating the new tables next to the untouched baseline ---------- *)
Section Phase1.
  Variables (B T ns : list table_def).
  Hypothesis BC : consistent B = true.
  Hypothesis F : Forall2 (fun o n => normalize o = Ok n) T ns.
  Hypothesis SV : schema_valid ns.
  Hypothesis CM : forall b n, In b B -> In n ns -> t_name b = t_name n ->
     t_columns b = t_columns n /\ t_constraints b = t_constraints n.
  Variable sorted : list table_def.
  Hypothesis Sin : incl sorted ns.
  Hypothesis Snd : NoDup (map t_name sorted).
  Hypothesis Sfresh : forall t, In t sorted -> ~ In (t_name t) (map t_name B).
  Hypothesis Hcl : forall pre u post, sorted = pre ++ u :: post -> forall rt, In rt (fk_targets u) ->
     rt <> t_name u -> ~ In rt (map t_name B) -> In rt (map t_name pre).

  Lemma BN : NoDup (map t_name B).
  Proof. unfold consistent in BC. apply Bool.andb_true_iff in BC. now apply nodup_str_spec. Qed.

  Lemma fk_target_known u rt : In u ns -> In rt (fk_targets u) -> exists z, In z ns /\ t_name z = rt.
  Proof.
    intros Hu Hrt. destruct (fk_targets_inv _ _ Hrt) as [n [c [rc [od [ou Hk]]]]].
    destruct (proj2 SV u _ Hu Hk) as [_ [e [He _]]].
    apply find_some in He. destruct He as [He Ee]. apply String.eqb_eq in Ee.
    apply in_map_iff in He. destruct He as [z [<- Hz]]. cbn [fst] in Ee. eauto.
  Qed.

  Lemma table_consistent_gen s u : In u ns ->
    (forall rt, In rt (fk_targets u) ->
       exists x z, find (fun x => String.eqb (t_name x) rt) s = Some x /\ In z ns /\ t_name z = rt /\
                   t_columns x = t_columns z) ->
    table_consistent s (erase u) = true.
  Proof.
    intros Hu Hres. unfold table_consistent.
    assert (En : normalize (erase u) = Ok (erase u)).
    { pose proof (ns_idem T ns F u Hu) as Hi. unfold normalize in *. cbn [erase t_name t_description t_columns t_constraints].
      destruct (normalize_constraints _ _); [|discriminate]. inversion Hi as [Hc]. unfold erase. now rewrite <- Hc at 2. }
    rewrite En. cbn [erase t_columns t_constraints]. apply forallb_forall. intros k Hk.
    destruct SV as [ND V]. destruct (V u k Hu Hk) as [Hcols Hfk].
    apply Bool.andb_true_iff. split; [exact Hcols|].
    destruct k as [| |nm cols rt rcols od ou| |]; try reflexivity.
    destruct Hfk as [e [He [Hr [Hl Hn]]]].
    destruct (Hres rt (fk_targets_in _ _ _ _ _ _ _ Hk)) as [x [z [Hx [Hz [Ez Ec]]]]].
    rewrite Hx. apply find_some in He. destruct He as [He Ee]. apply String.eqb_eq in Ee.
    apply in_map_iff in He. destruct He as [z' [<- Hz']]. cbn [fst snd] in *.
    assert (z' = z) by (apply (nodup_map_inj t_name ns); auto; congruence). subst z'.
    unfold colnames in Hr. rewrite Ec, Hr, Hn. cbn [andb]. rewrite Bool.andb_true_r.
    now apply PeanoNat.Nat.eqb_eq.
  Qed.

  Lemma cons_ext P rest : sorted = P ++ rest -> consistent (B ++ map erase P) = true.
  Proof.
    intro Es. pose proof BN as HBN.
    assert (HP : forall t, In t P -> In t sorted) by (intros t Ht; rewrite Es; apply in_or_app; now left).
    assert (PN : NoDup (map t_name P)).
    { rewrite Es, map_app in Snd. eapply nodup_app_l. exact Snd. }
    unfold consistent. apply Bool.andb_true_iff. split.
    - apply nodup_str_spec. rewrite map_app, map_erase_names. apply nodup_app_intro; auto.
      intros x Hx HxB. apply in_map_iff in Hx. destruct Hx as [t [<- Ht]]. exact (Sfresh t (HP t Ht) HxB).
    - apply forallb_forall. intros x Hx. apply in_app_or in Hx. destruct Hx as [Hx|Hx].
      + apply table_consistent_app. unfold consistent in BC. apply Bool.andb_true_iff in BC.
        destruct BC as [_ BC2]. rewrite forallb_forall in BC2. now apply BC2.
      + apply in_map_iff in Hx. destruct Hx as [u [<- Hu]].
        assert (Hun : In u ns) by (apply Sin, HP, Hu).
        apply table_consistent_gen; [exact Hun|]. intros rt Hrt.
        destruct (fk_target_known u rt Hun Hrt) as [z [Hz Ez]]. rewrite find_app.
        destruct (in_dec string_dec rt (map t_name B)) as [HB|HB].
        * destruct (find_name_some rt B HB) as [b [Hf [Hb Eb]]]. rewrite Hf. exists b, z.
          split; [reflexivity|]. split; [exact Hz|]. split; [exact Ez|].
          apply (CM b z Hb Hz). congruence.
        * rewrite (find_name_none rt B HB).
          assert (HrP : In rt (map t_name P)).
          { destruct (string_dec rt (t_name u)) as [->|Hne]; [now apply in_map|].
            apply in_split in Hu. destruct Hu as [p [q Epq]].
            assert (Esp : sorted = p ++ u :: (q ++ rest)) by (rewrite Es, Epq, <- app_assoc; reflexivity).
            pose proof (Hcl _ _ _ Esp rt Hrt Hne HB) as Hp. rewrite Epq, map_app. apply in_or_app. now left. }
          rewrite <- map_erase_names in HrP.
          destruct (find_name_some rt (map erase P) HrP) as [x [Hf [Hx Ex]]]. rewrite Hf.
          apply in_map_iff in Hx. destruct Hx as [r' [<- Hr']]. cbn [erase t_name] in Ex.
          exists (erase r'), z. split; [reflexivity|]. split; [exact Hz|]. split; [exact Ez|].
          cbn [erase t_columns]. f_equal.
          apply (nodup_map_inj t_name ns); [exact (proj1 SV) | apply Sin, HP, Hr' | exact Hz | congruence].
  Qed.

  Lemma stepwise_phase1 rest :
    stepwise_ok (B ++ map erase sorted) rest = true ->
    forall todo done, sorted = done ++ todo ->
    stepwise_ok (B ++ map erase done) (flat_map (mk_create T) todo ++ rest) = true.
  Proof.
    intros Hrest. induction todo as [|t r IH]; intros done Es.
    - rewrite app_nil_r in Es. subst done. exact Hrest.
    - assert (Hts : In t sorted) by (rewrite Es; apply in_or_app; right; now left).
      assert (Ht : In t ns) by (apply Sin, Hts).
      destruct (orig_lookup T ns F SV t Ht) as [o [Hg Hn]].
      cbn [flat_map]. unfold mk_create at 1. rewrite Hg. cbn [app stepwise_ok]. unfold create_of at 1 2.
      cbn [target_present andb apply_action].
      assert (En : t_name o = t_name t) by (symmetry; now destruct (normalize_lossless _ _ Hn)).
      assert (Hfresh : ~ In (t_name t) (map t_name (B ++ map erase done))).
      { rewrite map_app, map_erase_names. intro H. apply in_app_or in H. destruct H as [H|H].
        - exact (Sfresh t Hts H).
        - rewrite Es, map_app in Snd. cbn [map] in Snd. apply NoDup_remove_2 in Snd.
          apply Snd. apply in_or_app. now left. }
      rewrite En, (has_table_false _ _ Hfresh). rewrite <- En, (normalize_erase _ _ Hn).
      replace ((B ++ map erase done) ++ [erase t]) with (B ++ map erase (done ++ [t]))
        by (rewrite map_app, app_assoc; reflexivity).
      rewrite IH by (rewrite <- app_assoc; exact Es). rewrite Bool.andb_true_r.
      apply (cons_ext (done ++ [t]) r). rewrite <- app_assoc. exact Es.
  Qed.
End Phase1.

Lemma normalize_erase_fix t : normalize t = Ok t -> normalize (erase t) = Ok (erase t).
Proof.
  intro Hi. unfold normalize in *. cbn [erase t_name t_description t_columns t_constraints].
  destruct (normalize_constraints _ _); [|discriminate]. inversion Hi as [Hc]. unfold erase. now rewrite <- Hc at 2.
Qed.

Lemma loader_accepts_ok' T : loader_accepts T = true ->
  exists ns, Forall2 (fun o n => normalize o = Ok n) T ns /\ normalize_all T = Ok ns /\ schema_valid ns.
Proof.
  intro H. destruct T as [|t0 tr] eqn:ET; [|rewrite <- ET in *; apply loader_accepts_ok; [exact H|rewrite ET; discriminate]].
  exists []. split; [constructor|]. split; [reflexivity|]. split; [constructor|intros t k []].
Qed.

(* C06 for "tables are only added and removed".
   PARTIAL: what is missing for C06_full is every plan that alters a table common to baseline and target
   (columns, constraints), where D1/D2 and the other known classes live.  That no surviving table references a
   dropped one is not a hypothesis: it follows from "common tables unchanged" and the loader accepting T. *)
Theorem C06_core_partial2 B T acts (rank : string -> nat) :
  (forall b, In b B -> normalize b = Ok b) ->
  consistent B = true ->
  loader_accepts T = true ->
  (forall Tn b n, normalize_all T = Ok Tn -> In b B -> In n Tn -> t_name b = t_name n ->
     t_columns b = t_columns n /\ t_constraints b = t_constraints n) ->
  diff_actions B T = Ok acts ->
  (forall b rt, In b B -> ~ In (t_name b) (map t_name T) -> In rt (fk_targets b) -> rt <> t_name b ->
     In rt (map t_name B) -> ~ In rt (map t_name T) -> rank rt < rank (t_name b)) ->
  (forall a, In a acts -> is_create a = true \/ is_delete_table a = true) /\
  plan_stepwise_ok B T = true.
Proof.
  intros BF BC HL CM0 Hd Hrank.
  destruct (loader_accepts_ok' T HL) as [ns [F [EN SV]]].
  assert (CM : forall b n, In b B -> In n ns -> t_name b = t_name n ->
            t_columns b = t_columns n /\ t_constraints b = t_constraints n) by (intros b n; apply (CM0 ns b n EN)).
  clear CM0. pose proof (BN B BC) as HBN.
  pose proof (ns_names T ns F) as Enames.
  destruct (diff_shape B T ns acts BF HBN EN CM Hd) as [sorted [dn [Et [Ea [Edn [Dnd Diff]]]]]].
  set (fm := bt_of_list (map (fun t => (t_name t, t)) B)) in *.
  set (tm := bt_of_list (map (fun t => (t_name t, t)) ns)) in *.
  match type of Et with topo_sort ?x = _ => set (NT := x) in * end.
  assert (NTin : forall t, In t NT <-> In t ns /\ ~ In (t_name t) (map t_name B)).
  { intro t. unfold NT. rewrite in_flat_map. split.
    - intros [[k v] [Hkv Hin]]. cbn [fst snd] in Hin. destruct (bt_mem k fm) eqn:Em; [destruct Hin|].
      destruct Hin as [<-|[]]. pose proof (name_keyed_of_list ns k v Hkv) as Ek. subst k.
      apply bt_of_list_in, in_map_iff in Hkv. destruct Hkv as [t' [E Ht']]. injection E as _ E. subst t'.
      split; [exact Ht'|]. apply bt_mem_false in Em. unfold fm in Em. now rewrite bt_keys_of_list, keys_name_map in Em.
    - intros [Ht Hn]. exists (t_name t, t). split.
      + apply bt_of_list_in_nodup; [rewrite keys_name_map; exact (proj1 SV)|]. apply in_map_iff. now exists t.
      + cbn [fst snd]. assert (Em : bt_mem (t_name t) fm = false).
        { apply bt_mem_false. unfold fm. now rewrite bt_keys_of_list, keys_name_map. }
        rewrite Em. now left. }
  assert (NTnd : NoDup (map t_name NT)).
  { apply new_tables_names; [apply name_keyed_of_list | apply bt_sorted_nodup, bt_of_list_sorted]. }
  destruct (topo_sort_sound _ _ NTnd Et) as [P Ord].
  assert (Sin : incl sorted ns) by (intros x Hx; apply (Permutation_in _ P), NTin in Hx; tauto).
  assert (Snd : NoDup (map t_name sorted)).
  { eapply Permutation_NoDup; [apply Permutation_sym, Permutation_map; exact P|exact NTnd]. }
  assert (Sfresh : forall t, In t sorted -> ~ In (t_name t) (map t_name B)).
  { intros t Ht. apply (Permutation_in _ P), NTin in Ht. tauto. }
  assert (Hcl : forall pre u post, sorted = pre ++ u :: post -> forall rt, In rt (fk_targets u) ->
            rt <> t_name u -> ~ In rt (map t_name B) -> In rt (map t_name pre)).
  { intros pre u post Es rt Hrt Hne HB.
    assert (Hu : In u sorted) by (rewrite Es; apply in_or_app; right; now left).
    destruct (fk_target_known ns SV u rt (Sin u Hu) Hrt) as [z [Hz Ez]].
    assert (Hrn : In rt (map t_name NT)).
    { rewrite <- Ez. apply in_map. apply NTin. split; [exact Hz|now rewrite Ez]. }
    destruct (Ord u rt Hu Hrt Hne Hrn) as [r [l1 [l2 [l3 [Er Es']]]]].
    assert (Epre : pre = l1 ++ r :: l2).
    { apply (nodup_split_unique u pre post (l1 ++ r :: l2) l3).
      - rewrite <- Es. eapply NoDup_map_inv. exact Snd.
      - rewrite <- Es, Es', <- app_assoc. reflexivity. }
    rewrite Epre, map_app. apply in_or_app. right. left. exact Er. }
  assert (Cc : forall a, In a (flat_map (mk_create T) sorted) -> is_create a = true).
  { intros a Ha. apply in_flat_map in Ha. destruct Ha as [t [_ Ha]]. unfold mk_create in Ha.
    destruct (bt_get _ _); [destruct Ha as [<-|[]]; reflexivity | destruct Ha]. }
  assert (Hsimple : forall a, In a acts -> is_create a = true \/ is_delete_table a = true).
  { intros a Ha. rewrite Ea in Ha. apply in_app_or in Ha. destruct Ha as [Ha|Ha]; [left; now apply Cc|].
    right. apply in_map_iff in Ha. destruct Ha as [x [<- _]]. reflexivity. }
  split; [exact Hsimple|].
  unfold plan_stepwise_ok. rewrite Hd. rewrite filled_actions_simple.
  2:{ intros a Ha. destruct (Hsimple a Ha) as [H|H]; destruct a; try discriminate; reflexivity. }
  rewrite Ea.
  assert (Dn_not : forall x, In x dn -> ~ In x (map t_name ns)) by (intros x Hx; apply Diff in Hx; tauto).
  assert (Tgt_not_dropped : forall z rt, In z ns -> In rt (fk_targets z) -> ~ In rt dn).
  { intros z rt Hz Hrt Hrd. destruct (fk_target_known ns SV z rt Hz Hrt) as [z' [Hz' Ez']].
    apply (Dn_not rt Hrd). rewrite <- Ez'. now apply in_map. }
  assert (Hrest : stepwise_ok (B ++ map erase sorted) (map DeleteTable dn) = true).
  { apply stepwise_deletes.
    - apply (cons_ext B T ns BC F SV CM sorted Sin Snd Sfresh Hcl sorted []). now rewrite app_nil_r.
    - exact Dnd.
    - intros x Hx. rewrite map_app. apply in_or_app. left. apply Diff in Hx. tauto.
    - intros u n rt Hu Hn Hrt Hne Hrd. apply in_app_or in Hu. destruct Hu as [Hu|Hu].
      + rewrite (BF u Hu) in Hn. injection Hn as <-.
        destruct (in_dec string_dec (t_name u) dn) as [Hud|Hud].
        * rewrite <- Edn. apply (diff_deletes_in_fk_order B T B acts rank HBN (normalize_all_fix B BF) Hd); auto;
            unfold deleted_tables; rewrite Edn; auto.
          intros t r Ht Htd Hr Hner Hrd'. apply Diff in Htd. apply Diff in Hrd'. rewrite Enames in Htd, Hrd'.
          apply Hrank; tauto.
        * exfalso. destruct (in_dec string_dec (t_name u) (map t_name ns)) as [Hun|Hun].
          -- apply in_map_iff in Hun. destruct Hun as [z [Ez Hz]].
             destruct (CM u z Hu Hz (eq_sym Ez)) as [_ C2].
             rewrite (fk_targets_constraints u z C2) in Hrt. exact (Tgt_not_dropped z rt Hz Hrt Hrd).
          -- apply Hud. apply Diff. split; [now apply in_map|exact Hun].
      + exfalso. apply in_map_iff in Hu. destruct Hu as [t [<- Ht]].
        rewrite (normalize_erase_fix t (ns_idem T ns F t (Sin t Ht))) in Hn. injection Hn as <-.
        exact (Tgt_not_dropped t rt (Sin t Ht) Hrt Hrd). }
  pose proof (stepwise_phase1 B T ns BC F SV CM sorted Sin Snd Sfresh Hcl _ Hrest sorted [] eq_refl) as S1.
  cbn [map] in S1. rewrite app_nil_r in S1. exact S1.
Qed.

(* the hypotheses are satisfiable: drop c -> b (b referenced by c), keep user, add post -> user *)
Definition w_cd_B : schema :=
  [mkTable "b" None [w_pkcol "id"] [CPrimaryKey false ["id"]];
   mkTable "c" None [w_pkcol "id"; w_fkcol "b_id" "b.id"]
     [CPrimaryKey false ["id"]; CForeignKey None ["b_id"] "b" ["id"] None None];
   mkTable "user" None [w_pkcol "id"] [CPrimaryKey false ["id"]]].
Definition w_cd_T : schema :=
  [mkTable "post" None [w_pkcol "id"; w_fkcol "user_id" "user.id"] [];
   mkTable "user" None [w_pkcol "id"] []].

Example C06_core_partial2_nonvacuous :
  (forall b, In b w_cd_B -> normalize b = Ok b) /\ consistent w_cd_B = true /\ loader_accepts w_cd_T = true /\
  (exists acts, diff_actions w_cd_B w_cd_T = Ok acts /\ List.length acts = 3 /\
                created_tables acts = ["post"] /\ map delete_name (filter is_delete_table acts) = ["c"; "b"]) /\
  plan_stepwise_ok w_cd_B w_cd_T = true.
Proof.
  split; [intros b [<-|[<-|[<-|[]]]]; vm_compute; reflexivity|].
  split; [vm_compute; reflexivity|]. split; [vm_compute; reflexivity|].
  split; [eexists; split; [vm_compute; reflexivity|repeat split]|].
  vm_compute; reflexivity.
Qed.
