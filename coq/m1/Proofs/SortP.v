(* The stable insertion sort of Base/Str.v (insert_le / sort_le / sort_by_key) and sort_plans
   (Model/Validate.v): the result is an ascending permutation of the input, and for pairwise
   distinct keys it does not depend on the order of the input (C08, load order). *)
From VV.M1 Require Import Str Validate.
From Coq Require Import Lia Permutation Sorted.

Section Sort.
  Context {A : Type} (le : A -> A -> bool).

  Lemma insert_le_perm x : forall l, Permutation (insert_le le x l) (x :: l).
  Proof.
    induction l as [|y r IH]; cbn [insert_le]; [apply Permutation_refl|].
    destruct (le x y); [apply Permutation_refl|].
    eapply Permutation_trans; [apply perm_skip, IH|apply perm_swap].
  Qed.

  Lemma sort_le_perm : forall l, Permutation (sort_le le l) l.
  Proof.
    unfold sort_le. induction l as [|x l IH]; cbn [fold_right]; [apply Permutation_refl|].
    eapply Permutation_trans; [apply insert_le_perm|now apply perm_skip].
  Qed.

  Hypothesis le_total : forall a b, le a b = true \/ le b a = true.
  Hypothesis le_trans : forall a b c, le a b = true -> le b c = true -> le a c = true.

  Definition leP (a b : A) : Prop := le a b = true.

  Lemma insert_le_sorted x : forall l, StronglySorted leP l -> StronglySorted leP (insert_le le x l).
  Proof.
    induction l as [|y r IH]; intro Hs; cbn [insert_le].
    - constructor; constructor.
    - inversion Hs as [|? ? Hr Hall]; subst. destruct (le x y) eqn:E.
      + constructor; [exact Hs|]. constructor; [exact E|].
        rewrite Forall_forall in *. intros z Hz. unfold leP in *. eapply le_trans; [exact E|now apply Hall].
      + constructor; [now apply IH|].
        rewrite Forall_forall in *. intros z Hz.
        apply (Permutation_in _ (insert_le_perm x r)) in Hz. destruct Hz as [<-|Hz].
        * unfold leP. destruct (le_total x y) as [H|H]; congruence.
        * now apply Hall.
  Qed.

  Lemma sort_le_sorted : forall l, StronglySorted leP (sort_le le l).
  Proof.
    unfold sort_le. induction l as [|x l IH]; cbn [fold_right]; [constructor|].
    now apply insert_le_sorted.
  Qed.
End Sort.

(* two sorted permutations of each other coincide as soon as the order is antisymmetric on them *)
Lemma sorted_perm_unique {A} (R : A -> A -> Prop) : forall l l',
  StronglySorted R l -> StronglySorted R l' -> Permutation l l' ->
  (forall a b, In a l -> In b l -> R a b -> R b a -> a = b) -> l = l'.
Proof.
  induction l as [|a r IH]; intros [|a' r'] Hs Hs' Hp Hanti.
  - reflexivity.
  - apply Permutation_nil in Hp. discriminate.
  - apply Permutation_sym, Permutation_nil in Hp. discriminate.
  - inversion Hs as [|? ? Hr Hall]; subst. inversion Hs' as [|? ? Hr' Hall']; subst.
    rewrite Forall_forall in Hall, Hall'.
    assert (Ea : a = a').
    { assert (H1 : In a (a' :: r')) by (eapply Permutation_in; [exact Hp|now left]).
      assert (H2 : In a' (a :: r)) by (eapply Permutation_in; [apply Permutation_sym, Hp|now left]).
      destruct H1 as [H1|H1]; [congruence|]. destruct H2 as [H2|H2]; [congruence|].
      apply Hanti; [now left|now right|now apply Hall|now apply Hall']. }
    subst a'. f_equal. apply IH; [exact Hr|exact Hr'|eapply Permutation_cons_inv; exact Hp|].
    intros x y Hx Hy. apply Hanti; now right.
Qed.

(* generic order-independence of sort_le for keys that are pairwise distinct on the input *)
Theorem sort_le_perm_unique {A} (le : A -> A -> bool) (l l' : list A) :
  (forall a b, le a b = true \/ le b a = true) ->
  (forall a b c, le a b = true -> le b c = true -> le a c = true) ->
  (forall a b, In a l -> In b l -> le a b = true -> le b a = true -> a = b) ->
  Permutation l l' -> sort_le le l = sort_le le l'.
Proof.
  intros Htot Htr Hanti Hp.
  apply (sorted_perm_unique (leP le)); try now apply sort_le_sorted.
  - eapply Permutation_trans; [apply sort_le_perm|].
    eapply Permutation_trans; [exact Hp|apply Permutation_sym, sort_le_perm].
  - intros a b Ha Hb H1 H2. apply Hanti; [| |exact H1|exact H2].
    + eapply Permutation_in; [apply (sort_le_perm le)|exact Ha].
    + eapply Permutation_in; [apply (sort_le_perm le)|exact Hb].
Qed.

Lemma NoDup_map_inj {A B} (f : A -> B) : forall l a b,
  NoDup (map f l) -> In a l -> In b l -> f a = f b -> a = b.
Proof.
  induction l as [|x l IH]; intros a b Hnd Ha Hb E; [destruct Ha|].
  cbn [map] in Hnd. inversion Hnd as [|? ? Hni Hnd']; subst.
  destruct Ha as [->|Ha], Hb as [->|Hb].
  - reflexivity.
  - exfalso. apply Hni. rewrite E. now apply in_map.
  - exfalso. apply Hni. rewrite <- E. now apply in_map.
  - now apply IH.
Qed.

(* ---------- sort_by_key ---------- *)
Lemma sort_by_key_perm {A} (key : A -> nat) l : Permutation (sort_by_key key l) l.
Proof. apply sort_le_perm. Qed.

Lemma sort_by_key_sorted {A} (key : A -> nat) l :
  StronglySorted (fun a b => key a <= key b) (sort_by_key key l).
Proof.
  unfold sort_by_key.
  eapply StronglySorted_ind with (P := StronglySorted (fun a b => key a <= key b));
    [constructor| |apply (sort_le_sorted (fun x y => Nat.leb (key x) (key y)))].
  - intros a l0 _ IH Hall. constructor; [exact IH|].
    eapply Forall_impl; [|exact Hall]. intros b Hb. unfold leP in Hb. now apply Nat.leb_le.
  - intros a b. rewrite !Nat.leb_le. lia.
  - intros a b c. rewrite !Nat.leb_le. lia.
Qed.

(* ---------- sort_plans ---------- *)
Definition plan_le (a b : plan) : bool := N.leb (p_version a) (p_version b).

Lemma plan_le_total a b : plan_le a b = true \/ plan_le b a = true.
Proof. unfold plan_le. rewrite !N.leb_le. lia. Qed.
Lemma plan_le_trans a b c : plan_le a b = true -> plan_le b c = true -> plan_le a c = true.
Proof. unfold plan_le. rewrite !N.leb_le. lia. Qed.

Theorem sort_plans_permutation ps : Permutation (sort_plans ps) ps.
Proof. apply sort_le_perm. Qed.

Theorem sort_plans_sorted ps :
  StronglySorted (fun a b => (p_version a <= p_version b)%N) (sort_plans ps).
Proof.
  pose proof (sort_le_sorted plan_le plan_le_total plan_le_trans ps) as H.
  change (sort_le plan_le ps) with (sort_plans ps) in H.
  induction H as [|a l _ IH Hall]; constructor; [exact IH|].
  eapply Forall_impl; [|exact Hall]. intros b Hb. unfold leP, plan_le in Hb. now apply N.leb_le.
Qed.

(* with pairwise distinct versions the order is strict *)
Theorem sort_plans_strict ps : NoDup (map p_version ps) ->
  StronglySorted (fun a b => (p_version a < p_version b)%N) (sort_plans ps).
Proof.
  intro Hnd.
  assert (Hnd' : NoDup (map p_version (sort_plans ps))).
  { eapply Permutation_NoDup; [|exact Hnd]. apply Permutation_map, Permutation_sym, sort_plans_permutation. }
  pose proof (sort_plans_sorted ps) as H. induction H as [|a l _ IH Hall]; constructor.
  - apply IH. cbn [map] in Hnd'. now inversion Hnd'.
  - rewrite Forall_forall in *. intros b Hb. specialize (Hall b Hb).
    cbn [map] in Hnd'. inversion Hnd' as [|? ? Hni _]; subst.
    assert (p_version a <> p_version b) by (intro E; apply Hni; rewrite E; now apply in_map).
    lia.
Qed.

Theorem sort_plans_perm : forall ps ps',
  NoDup (map p_version ps) -> Permutation ps ps' -> sort_plans ps = sort_plans ps'.
Proof.
  intros ps ps' Hnd Hp. unfold sort_plans. apply sort_le_perm_unique.
  - exact plan_le_total.
  - exact plan_le_trans.
  - intros a b Ha Hb H1 H2. apply (NoDup_map_inj p_version ps); try assumption.
    apply N.leb_le in H1, H2. lia.
  - exact Hp.
Qed.
