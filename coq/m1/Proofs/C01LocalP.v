(* C01, reduction to single tables: a plan closes the gap on the whole schema as soon as, for every
   table name, the subsequence of the plan naming that table — run on that table alone — ends in a
   normalisation fix-point the planner cannot tell from the model's table.  Other tables never
   interfere (apply_local), whatever the three re-ordering passes did to the interleaving. *)
From VV.M1 Require Import Oracles Hyp NormalizeP BtP SortP DiffP DiffEqP KahnP ApplyLocalP DiffPermP AttrsP C01P WitnessP.
From Coq Require Import Lia Permutation.

Theorem by_tables B T Tn acts :
  NoDup (map t_name B) -> (forall t, In t B -> normalize t = Ok t) ->
  NoDup (map t_name T) -> normalize_all T = Ok Tn -> diff_actions B T = Ok acts ->
  (forall n, exists o, proj_all (find_t n B) (filter (on_table n) acts) = Ok o /\ good n o (find_t n Tn)) ->
  exists B', apply_all B acts = Ok B' /\ baseline_ok B' = true
             /\ diff_actions B' T = Ok [] /\ diff_actions T B' = Ok [].
Proof.
  intros HndB HfixB HT ETn Ed Hpt.
  pose proof Ed as Ec. rewrite diff_actions_core, (normalize_all_fix B HfixB), ETn in Ec.
  destruct (diff_core_perm _ _ _ _ Ec) as [sorted [Htopo Hperm]].
  set (r := fun n => match proj_all (find_t n B) (filter (on_table n) acts) with Ok o => o | Err _ => None end).
  destruct (apply_all_proj acts B r HndB) as [B' [Happ [Hfind HndB']]].
  { intros a Ha. eapply diff_blocks_single. eapply Permutation_in; [exact Hperm|exact Ha]. }
  { intro n. destruct (Hpt n) as [o [Ho _]]. unfold r. now rewrite Ho. }
  assert (Hgood : forall n, good n (find_t n B') (find_t n Tn)).
  { intro n. destruct (Hpt n) as [o [Ho Hg]]. rewrite Hfind. unfold r. now rewrite Ho. }
  assert (HfixB' : forall t, In t B' -> normalize t = Ok t).
  { intros t Ht. pose proof (Hgood (t_name t)) as Hg.
    rewrite (find_t_in_nodup _ _ t HndB' Ht eq_refl) in Hg. unfold good in Hg.
    destruct (find_t (t_name t) Tn); [|discriminate].
    destruct Hg as [t' [E [_ [Hn _]]]]. inversion E; subst. exact Hn. }
  assert (Heq : schema_equiv B' T).
  { exists B', Tn. split; [now apply normalize_all_fix|split; [exact ETn|]].
    intro k. rewrite (table_named_find k B' HndB').
    rewrite (table_named_find k Tn) by now rewrite (normalize_all_names T Tn ETn).
    specialize (Hgood k). unfold good in Hgood. destruct (find_t k Tn) as [tn|].
    - destruct Hgood as [t' [-> [_ [_ He]]]]. exact He.
    - rewrite Hgood. exact I. }
  exists B'. split; [exact Happ|split; [|split]].
  - apply baseline_ok_spec. auto.
  - now apply diff_equiv_empty.
  - now apply diff_equiv_empty, schema_equiv_sym.
Qed.

(* no action of the plan names a table that is neither in the baseline nor in the models *)
Lemma filter_plan_absent B T Tn acts n :
  NoDup (map t_name B) -> (forall t, In t B -> normalize t = Ok t) ->
  NoDup (map t_name T) -> normalize_all T = Ok Tn -> diff_actions B T = Ok acts ->
  find_t n B = None -> find_t n T = None -> filter (on_table n) acts = [].
Proof.
  intros HndB HfixB HT ETn Ed EB ET.
  pose proof Ed as Ec. rewrite diff_actions_core, (normalize_all_fix B HfixB), ETn in Ec.
  destruct (diff_core_perm _ _ _ _ Ec) as [sorted [Htopo Hperm]].
  assert (HndTn : NoDup (map t_name Tn)) by now rewrite (normalize_all_names T Tn ETn).
  pose proof (filter_perm (on_table n) _ _ Hperm) as P.
  rewrite !filter_app in P.
  rewrite filter_deletes in P by apply bt_sorted_nodup, bt_of_list_sorted.
  rewrite filter_updates in P by apply bt_sorted_nodup, bt_of_list_sorted.
  rewrite filter_creates in P; [|exact (sorted_nodup B Tn sorted Htopo)|].
  2:{ intros k v Hg. symmetry. apply (name_keyed_of_list T k v). now apply bt_get_in. }
  rewrite (name_map_get B n HndB), (name_map_get Tn n HndTn),
    (sorted_find B T Tn sorted HndB HT ETn Htopo n) in P.
  rewrite (find_t_normalize_all n T Tn ETn), ET, EB in P. cbn [app] in P.
  now apply Permutation_sym, Permutation_nil in P.
Qed.

Theorem c01_local_sound B T : c01_local B T = true ->
  exists acts B',
    diff_actions B T = Ok acts /\ apply_all B acts = Ok B' /\ baseline_ok B' = true
    /\ diff_actions B' T = Ok [] /\ diff_actions T B' = Ok [].
Proof.
  unfold c01_local. rewrite !andb_true_iff. intros [[HB HT] H].
  apply baseline_ok_spec in HB. destruct HB as [HndB HfixB]. apply nodup_str_NoDup in HT.
  destruct (diff_actions B T) as [acts|e] eqn:Ed; [|discriminate].
  destruct (normalize_all T) as [Tn|e] eqn:ETn; [|discriminate].
  rewrite forallb_forall in H. exists acts.
  destruct (by_tables B T Tn acts HndB HfixB HT ETn Ed) as [B' HB'].
  - intro n. destruct (in_dec string_dec n (map t_name B ++ map t_name T)) as [Hin|Hout].
    + specialize (H n Hin). unfold local_ok in H.
      destruct (proj_all (find_t n B) (filter (on_table n) acts)) as [o|e]; [|discriminate].
      exists o. split; [reflexivity|]. unfold good.
      destruct o as [t'|], (find_t n Tn) as [tn|]; try discriminate; [|reflexivity].
      rewrite !andb_true_iff in H. destruct H as [[H1 H2] H3].
      exists t'. split; [reflexivity|]. split; [now apply String.eqb_eq|].
      split; [now apply is_fixpoint_spec|].
      unfold unchanged in H3. apply (table_group_nil_inv (t_name t')).
      destruct (table_group (t_name t') t' tn); [reflexivity|discriminate].
    + assert (EB : find_t n B = None) by (apply find_t_none; intro; apply Hout, in_or_app; now left).
      assert (ET : find_t n T = None) by (apply find_t_none; intro; apply Hout, in_or_app; now right).
      rewrite (filter_plan_absent B T Tn acts n HndB HfixB HT ETn Ed EB ET), EB.
      exists None. split; [reflexivity|].
      rewrite (find_t_normalize_all n T Tn ETn), ET. reflexivity.
  - exists B'. tauto.
Qed.

Theorem C01_local B T : c01_local B T = true -> closes_gap B T = true.
Proof.
  intro H. destruct (c01_local_sound B T H) as (acts & B' & H1 & H2 & _ & H3 & H4).
  eapply closes_gap_unfold; eassumption.
Qed.


(* ---------- witnesses ---------- *)
Ltac vm_conj := repeat match goal with |- _ /\ _ => split end; try (vm_compute; reflexivity).

(* a step outside c01_step that the reduction covers: table created, table dropped, column dropped
   together with its single-column index, column retyped, column added with an inline index, unique
   constraint added *)
Definition w_local_ixcol (n : string) : column_def :=
  mkCol n (TSimple Integer) true None None None None (Some (SBool true)) None.
Definition w_local_B : schema := Eval vm_compute in
  map normalized_or_self [mkTable "t" None [pkcol "id"; icol "a"; w_local_ixcol "b"] [];
                          mkTable "gone" None [pkcol "id"] []].
Definition w_local_T : schema :=
  [mkTable "t" None [pkcol "id"; mkCol "a" (TSimple Text) true None None None None None None; w_local_ixcol "c"]
     [CUnique (Some "ua") ["a"]];
   mkTable "new" None [pkcol "id"; fkcol "t_id" "t" "id"] []].
Lemma w_local_hyp :
  c01_local w_local_B w_local_T = true /\ c01_step w_local_B w_local_T = false /\
  loader_accepts w_local_T = true /\
  diff_actions w_local_B w_local_T =
    Ok [CreateTable "new" [pkcol "id"; fkcol "t_id" "t" "id"] []; DeleteTable "gone";
        DeleteColumn "t" "b"; ModifyColumnType "t" "a" (TSimple Text) None;
        AddColumn "t" (w_local_ixcol "c") None;
        AddConstraint "t" (CUnique (Some "ua") ["a"]); AddConstraint "t" (CIndex None ["c"])].
Proof. vm_conj. Qed.

(* on the D1 pair the table "t" already fails on its own *)
Lemma w_local_d1 :
  baseline_ok d1_base = true /\ c01_local d1_base d1_target = false /\
  match diff_actions d1_base d1_target, normalize_all d1_target with
  | Ok acts, Ok Tn => local_ok d1_base Tn acts "t" = false
  | _, _ => False
  end.
Proof. vm_conj. Qed.
