(* Library facts about the sorted association lists of Base/Str.v (bt_insert / bt_of_list / bt_get /
   bt_mem / bs_of_list) which model BTreeMap<String,V> / BTreeSet<String>:
   keys are strictly ascending w.r.t. String.compare, lookup returns the LAST binding of the input
   list, and the map built from a list with pairwise distinct keys does not depend on the order of
   the list (bt_perm). *)
From VV.M1 Require Import Str.
From Coq Require Import Lia Permutation Sorted.

(* ---------- String.compare is a strict total order ---------- *)
Lemma ascii_compare_lt_trans a b c :
  Ascii.compare a b = Lt -> Ascii.compare b c = Lt -> Ascii.compare a c = Lt.
Proof. unfold Ascii.compare. rewrite !N.compare_lt_iff. lia. Qed.

Lemma str_compare_refl s : String.compare s s = Eq.
Proof.
  induction s as [|a s IH]; cbn [String.compare]; [reflexivity|].
  unfold Ascii.compare. now rewrite N.compare_refl.
Qed.

Lemma str_lt_trans : forall a b c,
  String.compare a b = Lt -> String.compare b c = Lt -> String.compare a c = Lt.
Proof.
  induction a as [|x a IH]; intros [|y b] [|z c] H1 H2; cbn [String.compare] in *;
    try discriminate; try reflexivity.
  destruct (Ascii.compare x y) eqn:Exy; try discriminate.
  - apply Ascii.compare_eq_iff in Exy. subst y.
    destruct (Ascii.compare x z) eqn:Exz; try discriminate; eauto.
  - destruct (Ascii.compare y z) eqn:Eyz; try discriminate.
    + apply Ascii.compare_eq_iff in Eyz. subst z. rewrite Exy. reflexivity.
    + rewrite (ascii_compare_lt_trans _ _ _ Exy Eyz). reflexivity.
Qed.

Lemma str_gt_lt a b : String.compare a b = Gt -> String.compare b a = Lt.
Proof. intro H. rewrite String.compare_antisym, H. reflexivity. Qed.
Lemma str_lt_gt a b : String.compare a b = Lt -> String.compare b a = Gt.
Proof. intro H. rewrite String.compare_antisym, H. reflexivity. Qed.
Lemma str_lt_irrefl a : String.compare a a <> Lt.
Proof. rewrite str_compare_refl. discriminate. Qed.
Lemma str_lt_neq a b : String.compare a b = Lt -> a <> b.
Proof. intros H ->. exact (str_lt_irrefl _ H). Qed.
Lemma str_lt_asym a b : String.compare a b = Lt -> String.compare b a = Lt -> False.
Proof. intros H1 H2. exact (str_lt_irrefl _ (str_lt_trans _ _ _ H1 H2)). Qed.
Lemma str_lt_eqb a b : String.compare a b = Lt -> String.eqb a b = false.
Proof. intro H. apply String.eqb_neq. now apply str_lt_neq. Qed.
Lemma str_eqb_sym a b : String.eqb a b = String.eqb b a.
Proof.
  destruct (String.eqb a b) eqn:E.
  - apply String.eqb_eq in E. subst. symmetry. apply String.eqb_refl.
  - symmetry. apply String.eqb_neq. apply String.eqb_neq in E. congruence.
Qed.

(* ---------- sortedness ---------- *)
Definition klt {V} (a b : string * V) : Prop := String.compare (fst a) (fst b) = Lt.
Definition bt_sorted {V} (m : list (string * V)) : Prop := StronglySorted klt m.

Lemma bt_insert_in {V} k (v : V) : forall m e, In e (bt_insert k v m) -> e = (k, v) \/ In e m.
Proof.
  induction m as [|[k' v'] r IH]; intros e H; cbn [bt_insert] in H.
  - destruct H as [<-|[]]. now left.
  - destruct (String.compare k k').
    + destruct H as [<-|H]; [now left|right; now right].
    + destruct H as [<-|H]; [now left|now right].
    + destruct H as [<-|H]; [right; now left|].
      destruct (IH _ H) as [->|H']; [now left|right; now right].
Qed.

Lemma bt_insert_sorted {V} k (v : V) : forall m, bt_sorted m -> bt_sorted (bt_insert k v m).
Proof.
  unfold bt_sorted.
  induction m as [|[k' v'] r IH]; intro Hs; cbn [bt_insert].
  - constructor; constructor.
  - inversion Hs as [|? ? Hr Hall]; subst.
    destruct (String.compare k k') eqn:E.
    + apply String.compare_eq_iff in E. subst k'. constructor; assumption.
    + constructor; [exact Hs|]. constructor; [exact E|].
      rewrite Forall_forall in *. intros e He. unfold klt in *. cbn [fst] in *.
      eapply str_lt_trans; [exact E|]. exact (Hall e He).
    + constructor; [now apply IH|].
      rewrite Forall_forall in *. intros e He.
      destruct (bt_insert_in _ _ _ _ He) as [->|He'].
      * unfold klt. cbn [fst]. now apply str_gt_lt.
      * now apply Hall.
Qed.

Lemma bt_fold_sorted {V} (l : list (string * V)) : forall m, bt_sorted m ->
  bt_sorted (fold_left (fun m kv => bt_insert (fst kv) (snd kv) m) l m).
Proof.
  induction l as [|[k v] l IH]; intros m Hm; cbn [fold_left]; [exact Hm|].
  apply IH. now apply bt_insert_sorted.
Qed.

Theorem bt_of_list_sorted {V} (l : list (string * V)) : bt_sorted (bt_of_list l).
Proof. unfold bt_of_list. apply bt_fold_sorted. constructor. Qed.

(* ---------- lookup ---------- *)
Lemma bt_get_app {V} k (a b : list (string * V)) :
  bt_get k (a ++ b) = match bt_get k a with Some v => Some v | None => bt_get k b end.
Proof.
  induction a as [|[k' v'] a IH]; cbn [bt_get app]; [reflexivity|].
  destruct (String.eqb k k'); [reflexivity|exact IH].
Qed.

Lemma bt_get_in {V} k (v : V) : forall m, bt_get k m = Some v -> In (k, v) m.
Proof.
  induction m as [|[k' v'] r IH]; cbn [bt_get]; [discriminate|].
  destruct (String.eqb k k') eqn:E.
  - apply String.eqb_eq in E. subst k'. intro H. inversion H. now left.
  - intro H. right. now apply IH.
Qed.

Lemma bt_get_none {V} k : forall m : list (string * V), bt_get k m = None <-> ~ In k (map fst m).
Proof.
  induction m as [|[k' v'] r IH]; cbn [bt_get map fst In]; [tauto|].
  destruct (String.eqb k k') eqn:E.
  - apply String.eqb_eq in E. subst k'. split; [discriminate|]. intro H. exfalso. apply H. now left.
  - apply String.eqb_neq in E. rewrite IH. split; [intros H [H1|H1]; [congruence|tauto]|tauto].
Qed.

Lemma bt_get_some_key {V} k : forall m : list (string * V),
  In k (map fst m) -> exists v, bt_get k m = Some v.
Proof.
  intros m H. destruct (bt_get k m) as [v|] eqn:E; [eauto|].
  apply bt_get_none in E. contradiction.
Qed.

Lemma bt_get_nodup {V} k (v : V) : forall m, NoDup (map fst m) -> In (k, v) m -> bt_get k m = Some v.
Proof.
  induction m as [|[k' v'] r IH]; intros Hnd Hin; [destruct Hin|].
  cbn [map fst] in Hnd. inversion Hnd as [|? ? Hni Hnd']; subst. cbn [bt_get].
  destruct Hin as [H|H].
  - inversion H; subst. now rewrite String.eqb_refl.
  - destruct (String.eqb k k') eqn:E.
    + apply String.eqb_eq in E. subst k'. exfalso. apply Hni.
      change k with (fst (k, v)). now apply in_map.
    + now apply IH.
Qed.

Lemma bt_sorted_nodup {V} (m : list (string * V)) : bt_sorted m -> NoDup (map fst m).
Proof.
  unfold bt_sorted. induction 1 as [|[k v] r Hr IH Hall]; cbn [map fst]; constructor; [|exact IH].
  intro Hin. apply in_map_iff in Hin. destruct Hin as [[k' v'] [Hk Hin]]. cbn [fst] in Hk. subst k'.
  rewrite Forall_forall in Hall. specialize (Hall _ Hin). unfold klt in Hall. cbn [fst] in Hall.
  exact (str_lt_irrefl _ Hall).
Qed.

Lemma bt_sorted_get {V} k (v : V) m : bt_sorted m -> In (k, v) m -> bt_get k m = Some v.
Proof. intros Hs. apply bt_get_nodup. now apply bt_sorted_nodup. Qed.

Lemma bt_get_insert {V} k k' (v : V) : forall m,
  bt_get k (bt_insert k' v m) = if String.eqb k k' then Some v else bt_get k m.
Proof.
  induction m as [|[k2 v2] r IH]; cbn [bt_insert bt_get]; [reflexivity|].
  destruct (String.compare k' k2) eqn:E; cbn [bt_get].
  - apply String.compare_eq_iff in E. subst k2. destruct (String.eqb k k'); reflexivity.
  - reflexivity.
  - rewrite IH. destruct (String.eqb k k2) eqn:E2; [|reflexivity].
    apply String.eqb_eq in E2. subst k2.
    destruct (String.eqb k k') eqn:E3; [|reflexivity].
    apply String.eqb_eq in E3. subst k'. rewrite str_compare_refl in E. discriminate.
Qed.

Lemma bt_get_fold {V} k : forall (l m : list (string * V)),
  bt_get k (fold_left (fun m kv => bt_insert (fst kv) (snd kv) m) l m)
  = match bt_get k (rev l) with Some v => Some v | None => bt_get k m end.
Proof.
  induction l as [|[k' v'] l IH]; intro m; cbn [fold_left rev]; [reflexivity|].
  rewrite IH, bt_get_app. cbn [fst snd bt_get]. rewrite bt_get_insert.
  destruct (bt_get k (rev l)); [reflexivity|]. destruct (String.eqb k k'); reflexivity.
Qed.

(* the map built from l binds k to the value of the LAST pair of l whose key is k *)
Theorem bt_get_of_list {V} k (l : list (string * V)) : bt_get k (bt_of_list l) = bt_get k (rev l).
Proof. unfold bt_of_list. rewrite bt_get_fold. destruct (bt_get k (rev l)); reflexivity. Qed.

Corollary bt_get_of_list_last {V} k (v : V) l1 l2 :
  ~ In k (map fst l2) -> bt_get k (bt_of_list (l1 ++ (k, v) :: l2)) = Some v.
Proof.
  intro H. rewrite bt_get_of_list, rev_app_distr. cbn [rev]. rewrite <- app_assoc, bt_get_app.
  assert (E : bt_get k (rev l2) = None).
  { apply bt_get_none. rewrite map_rev, <- in_rev. exact H. }
  rewrite E. cbn [app bt_get]. now rewrite String.eqb_refl.
Qed.

(* ---------- membership ---------- *)
Theorem bt_mem_spec {V} k (m : list (string * V)) : bt_mem k m = true <-> In k (map fst m).
Proof.
  unfold bt_mem. destruct (bt_get k m) as [v|] eqn:E.
  - split; [intros _|reflexivity]. apply bt_get_in in E. change k with (fst (k, v)). now apply in_map.
  - apply bt_get_none in E. split; [discriminate|contradiction].
Qed.

Lemma bt_mem_false {V} k (m : list (string * V)) : bt_mem k m = false <-> ~ In k (map fst m).
Proof. rewrite <- bt_mem_spec. destruct (bt_mem k m); split; congruence. Qed.

Theorem bt_mem_of_list {V} k (l : list (string * V)) :
  bt_mem k (bt_of_list l) = true <-> In k (map fst l).
Proof.
  unfold bt_mem. rewrite bt_get_of_list. fold (bt_mem k (rev l)).
  rewrite bt_mem_spec, map_rev, <- in_rev. reflexivity.
Qed.

Lemma bt_keys_of_list {V} k (l : list (string * V)) :
  In k (map fst (bt_of_list l)) <-> In k (map fst l).
Proof. rewrite <- bt_mem_spec. apply bt_mem_of_list. Qed.

Lemma bt_mem_self {V} (m : list (string * V)) kv : In kv m -> bt_mem (fst kv) m = true.
Proof. intro H. apply bt_mem_spec. now apply in_map. Qed.

(* every binding of the built map is a pair of the input list *)
Lemma bt_of_list_in {V} (l : list (string * V)) kv : In kv (bt_of_list l) -> In kv l.
Proof.
  intro H. destruct kv as [k v].
  pose proof (bt_sorted_get k v _ (bt_of_list_sorted l) H) as G.
  rewrite bt_get_of_list in G. apply bt_get_in in G. now apply in_rev.
Qed.

(* ---------- extensionality: a strictly sorted list is determined by its lookups ---------- *)
Lemma bt_get_none_lt {V} k (m : list (string * V)) :
  Forall (fun e => String.compare k (fst e) = Lt) m -> bt_get k m = None.
Proof.
  induction 1 as [|[k' v'] r H _ IH]; cbn [bt_get]; [reflexivity|].
  cbn [fst] in H. now rewrite (str_lt_eqb _ _ H).
Qed.

Theorem bt_ext {V} : forall m m' : list (string * V), bt_sorted m -> bt_sorted m' ->
  (forall k, bt_get k m = bt_get k m') -> m = m'.
Proof.
  unfold bt_sorted.
  induction m as [|[k v] r IH]; intros [|[k' v'] r'] Hs Hs' Hg.
  - reflexivity.
  - specialize (Hg k'). cbn [bt_get] in Hg. rewrite String.eqb_refl in Hg. discriminate.
  - specialize (Hg k). cbn [bt_get] in Hg. rewrite String.eqb_refl in Hg. discriminate.
  - inversion Hs as [|? ? Hr Hall]; subst. inversion Hs' as [|? ? Hr' Hall']; subst.
    assert (Hlt : forall (a b : string) (w : V) (t : list (string * V)),
               Forall (klt (b, w)) t -> String.compare a b = Lt ->
               bt_get a ((b, w) :: t) = None).
    { intros a b w t Ht Hab. apply bt_get_none_lt. constructor; [exact Hab|].
      rewrite Forall_forall in *. intros e He. specialize (Ht e He). unfold klt in Ht. cbn [fst] in Ht.
      eapply str_lt_trans; eassumption. }
    destruct (String.compare k k') eqn:E.
    + apply String.compare_eq_iff in E. subst k'.
      pose proof (Hg k) as G. cbn [bt_get] in G. rewrite String.eqb_refl in G. inversion G; subst v'.
      f_equal. apply IH; [exact Hr|exact Hr'|]. intro x.
      destruct (String.eqb x k) eqn:Ex.
      * apply String.eqb_eq in Ex. subst x.
        rewrite !bt_get_none_lt; [reflexivity| |].
        -- eapply Forall_impl; [|exact Hall']. intros e He. exact He.
        -- eapply Forall_impl; [|exact Hall]. intros e He. exact He.
      * specialize (Hg x). cbn [bt_get] in Hg. now rewrite Ex in Hg.
    + exfalso. pose proof (Hg k) as G. rewrite (Hlt k k' v' r' Hall' E) in G.
      cbn [bt_get] in G. rewrite String.eqb_refl in G. discriminate.
    + exfalso. apply str_gt_lt in E. pose proof (Hg k') as G. rewrite (Hlt k' k v r Hall E) in G.
      cbn [bt_get] in G. rewrite String.eqb_refl in G. discriminate.
Qed.

(* ---------- order independence ---------- *)
Lemma bt_get_perm {V} k (l l' : list (string * V)) :
  NoDup (map fst l) -> Permutation l l' -> bt_get k l = bt_get k l'.
Proof.
  intros Hnd Hp.
  assert (Hnd' : NoDup (map fst l')).
  { eapply Permutation_NoDup; [|exact Hnd]. now apply Permutation_map. }
  destruct (bt_get k l) as [v|] eqn:E.
  - symmetry. apply bt_get_nodup; [exact Hnd'|]. eapply Permutation_in; [exact Hp|]. now apply bt_get_in.
  - symmetry. apply bt_get_none. apply bt_get_none in E. intro H. apply E.
    eapply Permutation_in; [|exact H]. apply Permutation_map. now apply Permutation_sym.
Qed.

Theorem bt_perm {V} (l l' : list (string * V)) :
  NoDup (map fst l) -> Permutation l l' -> bt_of_list l = bt_of_list l'.
Proof.
  intros Hnd Hp. apply bt_ext; try apply bt_of_list_sorted.
  intro k. rewrite !bt_get_of_list. apply bt_get_perm.
  - rewrite map_rev. eapply Permutation_NoDup; [apply Permutation_rev|exact Hnd].
  - eapply Permutation_trans; [apply Permutation_sym, Permutation_rev|].
    eapply Permutation_trans; [exact Hp|apply Permutation_rev].
Qed.

(* with pairwise distinct keys the built map is a permutation of the input *)
Lemma bt_insert_perm {V} k (v : V) : forall m, ~ In k (map fst m) ->
  Permutation (bt_insert k v m) ((k, v) :: m).
Proof.
  induction m as [|[k' v'] r IH]; intro Hni; cbn [bt_insert]; [apply Permutation_refl|].
  destruct (String.compare k k') eqn:E.
  - apply String.compare_eq_iff in E. subst k'. exfalso. apply Hni. now left.
  - apply Permutation_refl.
  - eapply Permutation_trans; [apply perm_skip, IH|apply perm_swap].
    intro H. apply Hni. now right.
Qed.

Theorem bt_of_list_perm {V} (l : list (string * V)) :
  NoDup (map fst l) -> Permutation (bt_of_list l) l.
Proof.
  unfold bt_of_list.
  assert (G : forall (l m : list (string * V)), NoDup (map fst (m ++ l)) ->
     Permutation (fold_left (fun m kv => bt_insert (fst kv) (snd kv) m) l m) (m ++ l)).
  { clear l. induction l as [|[k v] l IH]; intros m Hnd; cbn [fold_left].
    - rewrite app_nil_r. apply Permutation_refl.
    - cbn [fst snd].
      assert (Hk : ~ In k (map fst m)).
      { rewrite map_app in Hnd. cbn [map fst] in Hnd. apply NoDup_remove_2 in Hnd.
        intro H. apply Hnd. apply in_or_app. now left. }
      pose proof (bt_insert_perm k v m Hk) as P.
      eapply Permutation_trans; [apply IH|].
      + eapply Permutation_NoDup; [|exact Hnd]. rewrite !map_app. cbn [map fst].
        apply Permutation_sym. eapply Permutation_trans; [apply Permutation_app_tail, Permutation_map, P|].
        cbn [map fst app]. apply Permutation_middle.
      + eapply Permutation_trans; [apply Permutation_app_tail, P|].
        cbn [app]. apply Permutation_middle. }
  intro Hnd. exact (G l [] Hnd).
Qed.

(* ---------- BTreeSet ---------- *)
Lemma bs_of_list_in k l : In k (bs_of_list l) <-> In k l.
Proof.
  unfold bs_of_list. rewrite bt_keys_of_list, map_map. cbn [fst]. now rewrite map_id.
Qed.
