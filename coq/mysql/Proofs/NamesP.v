(* C19 for the MySQL backend: the name (and table) under which gen creates a constraint / index equals the one
   under which gen drops it — AddConstraint path and CreateTable path (inline UNIQUE KEY included) against the
   RemoveConstraint path (ALTER TABLE DROP INDEX for unique keys, DROP INDEX ON for indexes). *)
From VV.MYSQL Require Import Names.

Theorem add_remove_symmetric : forall t k, add_path_names t k = remove_path_names t k.
Proof. intros t k. destruct k; reflexivity. Qed.

(* CreateTable path; explicit CHECK constraints are the exception (never created: D11) *)
Theorem create_remove_symmetric : forall t k, is_check k = false -> create_path_names t k = remove_path_names t k.
Proof. intros t k H. destruct k; try reflexivity. discriminate. Qed.

Theorem create_check_asymmetric : forall t n e,
  create_path_names t (CCheck n e) = [] /\ remove_path_names t (CCheck n e) = [Some (t, n)].
Proof. intros. split; reflexivity. Qed.

(* the clauses of a table are the concatenation of the clauses of its constraints *)
Lemma create_keys_flat : forall t ks, create_keys t ks = flat_map (fun k => create_keys t [k]) ks.
Proof.
  intros t ks. unfold create_keys. induction ks as [|k r IH]; [reflexivity|].
  cbn [flat_map]. rewrite app_nil_r. f_equal. exact IH.
Qed.
Lemma create_fks_flat : forall t ks, create_fks t ks = flat_map (fun k => create_fks t [k]) ks.
Proof.
  intros t ks. unfold create_fks. induction ks as [|k r IH]; [reflexivity|].
  cbn [flat_map]. rewrite app_nil_r. f_equal. exact IH.
Qed.
Lemma create_indexes_flat : forall t ks, create_indexes t ks = flat_map (fun k => create_indexes t [k]) ks.
Proof.
  intros t ks. unfold create_indexes. induction ks as [|k r IH]; [reflexivity|].
  cbn [flat_map]. rewrite app_nil_r. f_equal. exact IH.
Qed.

(* ... and they are what gen emits for CreateTable *)
Theorem create_table_clauses : forall s P t cols ks n,
  normalize (mkTable t None cols ks) = Ok n ->
  exists coldefs,
    gen s P (CreateTable t cols ks)
    = Ok (SCreateTable t coldefs (flat_map (fun k => create_keys t [k]) (t_constraints n))
                       (flat_map (fun k => create_fks t [k]) (t_constraints n)) []
          :: flat_map (fun k => create_indexes t [k]) (t_constraints n)).
Proof.
  intros s P t cols ks n H. cbn [gen]. unfold gen_create_table. rewrite H.
  eexists. rewrite <- create_keys_flat, <- create_fks_flat, <- create_indexes_flat. reflexivity.
Qed.

(* across RenameTable the symmetry is lost: the drop path derives the name from the NEW table name *)
Theorem rename_table_breaks_symmetry : exists t t' k n n',
  t <> t' /\ add_path_names t k = [Some (t, n)] /\ remove_path_names t' k = [Some (t', n')] /\ n <> n'.
Proof.
  exists "t", "t2", (CUnique None ["a"]), "uq_t__a", "uq_t2__a".
  repeat split; try reflexivity; discriminate.
Qed.
