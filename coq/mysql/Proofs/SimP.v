(* Simulation lemmas for the MYSQL layer: if the engine catalog is the believed one (Sim s c), executing the
   statements generated for one action leaves the believed catalog of the schema after the action — per action
   kind, under the decidable side conditions whose negations are the known-finding classes of Model/Known.v. *)
From VV.MYSQL Require Import Spec ModifyP.
From Coq Require Import Lia.

(* ---------- catalog_of commutes with the list operations apply_action uses ---------- *)
Lemma tb_name_catalog_of_table : forall td, tb_name (catalog_of_table td) = t_name td.
Proof. reflexivity. Qed.

Lemma find_tb_catalog_of : forall t s,
  find_tb t (catalog_of s) = option_map catalog_of_table (find_table t s).
Proof.
  intros t s. unfold find_tb, find_table, catalog_of. induction s as [|x r IH]; [reflexivity|].
  cbn [map find]. rewrite tb_name_catalog_of_table. destruct (String.eqb (t_name x) t); [reflexivity|exact IH].
Qed.

Lemma has_table_find : forall t s, has_table t s = true -> exists td, find_table t s = Some td.
Proof.
  intros t s. unfold has_table, find_table. induction s as [|x r IH]; cbn [existsb find]; intro H; [discriminate|].
  destruct (String.eqb (t_name x) t); [eexists; reflexivity|]. apply IH. exact H.
Qed.

Lemma filter_catalog_of : forall t s,
  filter (fun x => negb (String.eqb (tb_name x) t)) (catalog_of s)
  = catalog_of (filter (fun td => negb (String.eqb (t_name td) t)) s).
Proof.
  intros t s. unfold catalog_of. induction s as [|x r IH]; [reflexivity|].
  cbn [map filter]. rewrite tb_name_catalog_of_table. destruct (negb (String.eqb (t_name x) t)); cbn [map]; rewrite IH; reflexivity.
Qed.

(* foreign keys of the believed catalog are the FOREIGN KEY constraints of the schema *)
Lemma in_create_fks : forall table ks f,
  In f (create_fks table ks) ->
  exists n cols rt rcols od ou, In (CForeignKey n cols rt rcols od ou) ks /\ f = fk_of_constraint table n cols rt rcols od ou.
Proof.
  intros table ks f H. unfold create_fks in H. apply in_flat_map in H. destruct H as [k [Hk Hf]].
  destruct k; cbn in Hf; try contradiction. destruct Hf as [Hf|[]]. subst f.
  do 6 eexists. split; [exact Hk|reflexivity].
Qed.

Lemma no_inbound_from_others : forall s t,
  referenced_by_other s t = false ->
  existsb (fun tf : string * fkdef => negb (String.eqb (fst tf) t)) (inbound_fks t (catalog_of s)) = false.
Proof.
  intros s t H. destruct (existsb _ (inbound_fks t (catalog_of s))) eqn:E; [|reflexivity].
  exfalso. apply existsb_exists in E. destruct E as [[n f] [Hin Hne]]. cbn [fst] in Hne.
  unfold inbound_fks in Hin. apply in_flat_map in Hin. destruct Hin as [tb [Htb Hin]].
  apply in_map_iff in Hin. destruct Hin as [f' [Heq Hf]]. inversion Heq; subst n f'. clear Heq.
  apply filter_In in Hf. destruct Hf as [Hf Hrt].
  unfold catalog_of in Htb. apply in_map_iff in Htb. destruct Htb as [td [Htd Hs]]. subst tb.
  cbn [catalog_of_table tb_fks tb_name] in *.
  destruct (in_create_fks _ _ _ Hf) as [n [cols [rt [rcols [od [ou [Hk Hfe]]]]]]]. subst f.
  cbn [fk_of_constraint fk_rtable] in Hrt.
  assert (R : referenced_by_other s t = true).
  { unfold referenced_by_other. apply existsb_exists. exists td. split; [exact Hs|].
    rewrite Hne. cbn [andb]. apply existsb_exists. eexists. split; [exact Hk|]. exact Hrt. }
  rewrite R in H. discriminate.
Qed.

(* ---------- DeleteTable ---------- *)
Theorem sim_delete_table : forall s P t s' c,
  Sim s c ->
  apply_action s (DeleteTable t) = Ok s' ->
  referenced_by_other s t = false ->                     (* negation of the class D2 *)
  exists st, gen s P (DeleteTable t) = Ok st /\ run c st = RunOk (catalog_of s').
Proof.
  intros s P t s' c Hsim Ha Href. unfold Sim in Hsim. subst c.
  exists [SDropTable t]. split; [reflexivity|].
  cbn [apply_action] in Ha. destruct (has_table t s) eqn:Ht; [|discriminate]. inversion Ha; subst s'. clear Ha.
  destruct (has_table_find t s Ht) as [td Ftd].
  unfold run. cbn [run_from exec]. unfold with_tb. rewrite find_tb_catalog_of, Ftd. cbn [option_map].
  rewrite (no_inbound_from_others s t Href). rewrite filter_catalog_of. reflexivity.
Qed.

Lemma schema_at_S_cons : forall s a r i, schema_at s (a :: r) (S i) = schema_at (step s a) r i.
Proof. reflexivity. Qed.

(* ---------- running statement lists ---------- *)
Lemma run_from_ok_shift : forall l i j c c', run_from i c l = RunOk c' -> run_from j c l = RunOk c'.
Proof.
  induction l as [|x r IH]; intros i j c c' H; cbn [run_from] in *; [exact H|].
  destruct (exec c x) as [c1|e]; [|discriminate]. eapply IH. exact H.
Qed.

Lemma run_from_app_ok : forall l1 i j l2 c c1 c2,
  run_from i c l1 = RunOk c1 -> run_from j c1 l2 = RunOk c2 -> run_from i c (l1 ++ l2) = RunOk c2.
Proof.
  induction l1 as [|x r IH]; intros i j l2 c c1 c2 H1 H2; cbn [run_from app] in *.
  - inversion H1; subst. eapply run_from_ok_shift. exact H2.
  - destruct (exec c x) as [c'|e]; [|discriminate]. eapply IH; eassumption.
Qed.
Lemma run_app_ok : forall l1 l2 c c1 c2,
  run c l1 = RunOk c1 -> run c1 l2 = RunOk c2 -> run c (l1 ++ l2) = RunOk c2.
Proof. unfold run. intros. eapply run_from_app_ok; eassumption. Qed.

(* ---------- Sim_plan: the invariant carried through build_plan_queries' loop ---------- *)
Theorem Sim_plan : forall acts s s',
  (forall i a, nth_error acts i = Some a -> action_sim (schema_at s acts i) a) ->
  apply_all s acts = Ok s' ->
  exists L, gen_plan s acts = Ok L /\ run (catalog_of s) (List.concat L) = RunOk (catalog_of s').
Proof.
  induction acts as [|a r IH]; intros s s' Hall Happ.
  - cbn in Happ. inversion Happ; subst. exists []. split; reflexivity.
  - cbn [apply_all] in Happ. destruct (apply_action s a) as [s1|e] eqn:A; [|discriminate].
    destruct (Hall 0%nat a eq_refl s1 A (pending_constraints a r)) as [st [G R]].
    assert (St : step s a = s1) by (unfold step; rewrite A; reflexivity).
    destruct (IH s1 s') as [L [GP RP]].
    + intros i b Hn. specialize (Hall (S i) b Hn). rewrite schema_at_S_cons in Hall. rewrite St in Hall. exact Hall.
    + exact Happ.
    + exists (st :: L). split.
      * cbn [gen_plan]. unfold schema_at in G. cbn [firstn fold_left] in G. rewrite G. rewrite A. rewrite GP. reflexivity.
      * cbn [List.concat]. eapply run_app_ok; [exact R|exact RP].
Qed.

Lemma apply_all_app : forall l1 l2 s s',
  apply_all s (l1 ++ l2) = Ok s' -> exists s1, apply_all s l1 = Ok s1 /\ apply_all s1 l2 = Ok s'.
Proof.
  induction l1 as [|a r IH]; intros l2 s s' H; cbn [app apply_all] in *.
  - exists s. split; [reflexivity|exact H].
  - destruct (apply_action s a) as [s1|e]; [|discriminate]. apply IH. exact H.
Qed.

Lemma apply_all_fold_step : forall acts s s', apply_all s acts = Ok s' -> fold_left step acts s = s'.
Proof.
  induction acts as [|a r IH]; intros s s' H; cbn [apply_all fold_left] in *.
  - inversion H. reflexivity.
  - destruct (apply_action s a) as [s1|e] eqn:A; [|discriminate].
    unfold step at 2. rewrite A. apply IH. exact H.
Qed.

(* ---------- Sim_history: migration after migration ---------- *)
Theorem Sim_history : forall plans s s',
  (forall k p sb, nth_error plans k = Some p ->
                  apply_all s (flat_map p_actions (firstn k plans)) = Ok sb ->
                  forall i a, nth_error (p_actions p) i = Some a -> action_sim (schema_at sb (p_actions p) i) a) ->
  apply_all s (flat_map p_actions plans) = Ok s' ->
  run_history (catalog_of s) s plans = Some (catalog_of s').
Proof.
  induction plans as [|p r IH]; intros s s' Hall Happ.
  - cbn in Happ. inversion Happ; subst. reflexivity.
  - cbn [flat_map] in Happ. destruct (apply_all_app _ _ _ _ Happ) as [s1 [A1 A2]].
    destruct (Sim_plan (p_actions p) s s1 (Hall 0%nat p s eq_refl eq_refl) A1) as [L [GP RP]].
    cbn [run_history]. rewrite GP, RP. rewrite (apply_all_fold_step _ _ _ A1).
    apply IH; [|exact A2].
    intros k q sb Hn Hsb. apply (Hall (S k) q sb Hn).
    cbn [firstn flat_map]. clear -A1 Hsb.
    revert s A1. generalize (p_actions p) as l. induction l as [|a l IHl]; intros s A1; cbn [app apply_all] in *.
    + inversion A1; subst. exact Hsb.
    + destruct (apply_action s a) as [sx|e]; [|discriminate]. apply IHl. exact A1.
Qed.

(* ---------- frame: apply_action rewrites the first table of a name, the engine every table of that name ---------- *)
Lemma replace_tb_notin : forall tb' t r,
  mem_str t (map t_name r) = false -> replace_tb tb' t (catalog_of r) = catalog_of r.
Proof.
  intros tb' t r. unfold replace_tb, catalog_of. induction r as [|x r IH]; intro H; [reflexivity|].
  cbn [map mem_str existsb] in *. unfold mem_str in H. cbn [map existsb] in H.
  apply Bool.orb_false_iff in H. destruct H as [H1 H2].
  rewrite tb_name_catalog_of_table. rewrite String.eqb_sym in H1. rewrite H1. f_equal. apply IH. exact H2.
Qed.

Lemma frame : forall s t f td td',
  nodup_str (map t_name s) = true ->
  find_table t s = Some td -> f td = Ok td' -> t_name td' = t_name td ->
  exists s', update_table t f s = Ok s' /\
             catalog_of s' = replace_tb (catalog_of_table td') t (catalog_of s).
Proof.
  intros s t f td td'. unfold find_table. induction s as [|x r IH]; intros Hnd Hf Hfd Hn; cbn [find] in Hf; [discriminate|].
  cbn [map nodup_str] in Hnd. apply Bool.andb_true_iff in Hnd. destruct Hnd as [Hx Hr].
  cbn [update_table].
  destruct (String.eqb (t_name x) t) eqn:E.
  - inversion Hf; subst x. rewrite Hfd. eexists. split; [reflexivity|].
    apply String.eqb_eq in E.
    cbn [catalog_of map replace_tb]. rewrite tb_name_catalog_of_table. rewrite E, String.eqb_refl. f_equal.
    symmetry. apply replace_tb_notin. rewrite <- E. apply Bool.negb_true_iff in Hx. exact Hx.
  - destruct (IH Hr Hf Hfd Hn) as [s' [U C]]. rewrite U. eexists. split; [reflexivity|].
    cbn [catalog_of map replace_tb]. rewrite tb_name_catalog_of_table, E. f_equal. exact C.
Qed.

(* ---------- RawSql ---------- *)
Theorem sim_raw_sql : forall s sql, action_sim s (RawSql sql).
Proof.
  intros s sql s' Ha P. cbn in Ha. inversion Ha; subst s'. cbn [gen].
  destruct (String.eqb sql ""); eexists; split; reflexivity.
Qed.

(* ---------- ModifyColumn{Type,Nullable,Default,Comment} ---------- *)
Definition mk_mcol (ks : list table_constraint) (c : column_def) : mcol :=
  mkMCol (c_name c) (mysql_type_text (c_type c))
         (negb (c_nullable c) || mem_str (c_name c) (match first_pk ks with Some p => p | None => [] end))%bool
         (option_map (mysql_default_text (c_type c)) (c_default c))
         (mem_str (c_name c) (auto_increment_columns ks) && supports_auto_increment (c_type c))%bool.

Lemma catalog_of_table_cols : forall td, tb_cols (catalog_of_table td) = map (mk_mcol (t_constraints td)) (t_columns td).
Proof. reflexivity. Qed.

Lemma catalog_of_table_same_constraints : forall n d cols cols' ks,
  catalog_of_table (mkTable n d cols' ks) =
  mkMTable n (map (mk_mcol ks) cols') (tb_pk (catalog_of_table (mkTable n d cols ks)))
           (tb_indexes (catalog_of_table (mkTable n d cols ks))) (tb_fks (catalog_of_table (mkTable n d cols ks)))
           (tb_checks (catalog_of_table (mkTable n d cols ks))).
Proof. reflexivity. Qed.

Lemma mc_name_mk : forall ks x, mc_name (mk_mcol ks x) = c_name x.
Proof. reflexivity. Qed.

Lemma map_replace_id : forall (m : mcol) c ks r,
  mem_str c (map c_name r) = false ->
  map (fun x => if String.eqb (mc_name x) c then m else x) (map (mk_mcol ks) r) = map (mk_mcol ks) r.
Proof.
  intros m c ks r. induction r as [|y r IH]; intro H; [reflexivity|].
  unfold mem_str in H. cbn [map existsb] in H. apply Bool.orb_false_iff in H. destruct H as [H1 H2].
  cbn [map]. rewrite mc_name_mk. rewrite String.eqb_sym in H1. rewrite H1. f_equal. apply IH. exact H2.
Qed.

Lemma cols_update : forall c g ks (m : mcol) cols col cols',
  nodup_str (map c_name cols) = true ->
  find (fun x => String.eqb (c_name x) c) cols = Some col ->
  update_first_col c g cols = Some cols' ->
  mk_mcol ks (g col) = m ->
  map (mk_mcol ks) cols' = map (fun x => if String.eqb (mc_name x) c then m else x) (map (mk_mcol ks) cols).
Proof.
  intros c g ks m cols. induction cols as [|x r IH]; intros col cols' Hnd Hf Hu Hm; cbn [find update_first_col] in *; [discriminate|].
  cbn [map nodup_str] in Hnd. apply Bool.andb_true_iff in Hnd. destruct Hnd as [Hx Hr].
  destruct (String.eqb (c_name x) c) eqn:E.
  - inversion Hf; subst x. inversion Hu; subst cols'. cbn [map]. rewrite mc_name_mk, E.
    rewrite Hm. f_equal. symmetry. apply map_replace_id.
    apply String.eqb_eq in E. rewrite <- E. apply Bool.negb_true_iff in Hx. exact Hx.
  - destruct (update_first_col c g r) as [r'|] eqn:U; [|discriminate]. cbn [option_map] in Hu. inversion Hu; subst cols'.
    cbn [map]. rewrite mc_name_mk, E. f_equal. eapply IH; eauto.
Qed.

Lemma has_mcol_catalog : forall c td, has_mcol c (catalog_of_table td) = has_column c td.
Proof.
  intros c td. unfold has_mcol, has_column. rewrite catalog_of_table_cols.
  induction (t_columns td) as [|x r IH]; [reflexivity|]. cbn [map existsb]. cbn [mk_mcol mc_name]. rewrite IH. reflexivity.
Qed.

Lemma find_column_has : forall c td col, find_column c td = Some col -> has_column c td = true.
Proof.
  unfold find_column, has_column. intros c td col H. apply existsb_exists. exists col.
  apply find_some in H. exact H.
Qed.

Lemma find_table_in : forall t s td, find_table t s = Some td -> In td s /\ t_name td = t.
Proof.
  unfold find_table. intros t s td H. apply find_some in H. destruct H as [H1 H2]. split; [exact H1|].
  apply String.eqb_eq. exact H2.
Qed.

Definition is_update_on (t c : string) (x : stmt) : bool :=
  match x with
  | SUpdate t' c' _ w =>
      (String.eqb t' t && String.eqb c' c
       && match w with None => true | Some (WIsNull y) | Some (WEq y _) => String.eqb y c end)%bool
  | _ => false
  end.

Lemma run_updates : forall t c cat tb pre,
  find_tb t cat = Some tb -> has_mcol c tb = true ->
  forallb (is_update_on t c) pre = true -> run cat pre = RunOk cat.
Proof.
  intros t c cat tb pre Ft Hc. unfold run. generalize 0%nat. induction pre as [|x r IH]; intros i H; [reflexivity|].
  cbn [forallb] in H. apply Bool.andb_true_iff in H. destruct H as [Hx Hr].
  destruct x; cbn [is_update_on] in Hx; try discriminate.
  apply Bool.andb_true_iff in Hx. destruct Hx as [Hx Hw]. apply Bool.andb_true_iff in Hx. destruct Hx as [Ht Hcol].
  apply String.eqb_eq in Ht. apply String.eqb_eq in Hcol. subst t0 col.
  cbn [run_from exec]. unfold with_tb. rewrite Ft.
  assert (A : all_cols_exist (c :: match w with Some (WIsNull x) | Some (WEq x _) => [x] | None => [] end) tb = true).
  { unfold all_cols_exist. destruct w as [[y|y v]|]; cbn [forallb]; try (apply String.eqb_eq in Hw; subst y); rewrite Hc; reflexivity. }
  rewrite A. apply IH. exact Hr.
Qed.

Lemma fill_with_updates_on : forall t c fw, forallb (is_update_on t c) (fill_with_updates t c fw) = true.
Proof.
  intros t c fw. unfold fill_with_updates. destruct fw as [l|]; [|reflexivity].
  induction l as [|x r IH]; [reflexivity|]. cbn [map forallb is_update_on]. rewrite !String.eqb_refl. cbn [andb]. exact IH.
Qed.

Lemma modify_pre_updates : forall s P a t c col,
  modify_target a = Some (t, c) -> lookup_column s t c = Some col ->
  forall pre d, gen s P a = Ok (pre ++ [SModifyColumn t d]) -> forallb (is_update_on t c) pre = true.
Proof.
  intros s P a t c col Ht Hl pre d G.
  destruct (lookup_found s t c col Hl) as [td [Ft Fc]].
  destruct a as [tb cols ks|tb|tb cl fw|tb f2 t2|tb cn|tb cn ty fw|tb cn nl fw|tb cn nd|tb cn nc|tb k|tb k|f2 t2|sql];
    cbn [modify_target] in Ht; try discriminate; inversion Ht; subst tb cn; clear Ht; cbn [gen] in G.
  - (* type *) unfold gen_modify_type in G. inversion G as [G']. apply app_inj_tail in G'. destruct G' as [G' _]. subst pre.
    apply fill_with_updates_on.
  - (* nullable *) unfold gen_modify_nullable, with_column in G. rewrite Ft, Fc in G. inversion G as [G'].
    apply app_inj_tail in G'. destruct G' as [G' _]. subst pre.
    destruct nl; [reflexivity|]. destruct (normalize_fill_with fw); [|reflexivity].
    cbn [forallb is_update_on]. rewrite !String.eqb_refl. reflexivity.
  - unfold gen_modify_default, with_column in G. rewrite Ft, Fc in G. inversion G as [G'].
    change [SModifyColumn t (sea_coldef (set_default (option_map default_of_string nd) col))]
      with ([] ++ [SModifyColumn t (sea_coldef (set_default (option_map default_of_string nd) col))]) in G'.
    apply app_inj_tail in G'. destruct G' as [G' _]. subst pre. reflexivity.
  - unfold gen_modify_comment, with_column in G. rewrite Ft, Fc in G. inversion G as [G'].
    change [SModifyColumn t (with_comment nc (sea_coldef (set_comment nc col)))]
      with ([] ++ [SModifyColumn t (with_comment nc (sea_coldef (set_comment nc col)))]) in G'.
    apply app_inj_tail in G'. destruct G' as [G' _]. subst pre. reflexivity.
Qed.

Theorem sim_modify_column : forall s a, modify_sim_hyp s a = true -> action_sim s a.
Proof.
  intros s a H s' Ha P. unfold modify_sim_hyp in H.
  destruct (modify_target a) as [[t c]|] eqn:Ht; [|discriminate].
  destruct (lookup_column s t c) as [col|] eqn:Hl; [|discriminate].
  rewrite Ha in H.
  apply Bool.andb_true_iff in H; destruct H as [H Hwfa].
  apply Bool.andb_true_iff in H; destruct H as [H Hpknn].
  apply Bool.andb_true_iff in H; destruct H as [H Hdef].
  apply Bool.andb_true_iff in H; destruct H as [H Hauto].
  unfold wf_names in H. apply Bool.andb_true_iff in H. destruct H as [Hndt Hndc].
  destruct (modify_preserves s P a t c col s' Ht Hl Ha Hdef) as [pre [d [col' [G [_ [Hl' [Hname [Hrest [Hda [_ _]]]]]]]]]].
  pose proof (apply_modify_lookup s a t c col s' Ht Hl Ha) as Hl2. rewrite Hl' in Hl2. inversion Hl2; subst col'. clear Hl2.
  pose proof (modify_pre_updates s P a t c col Ht Hl pre d G) as Hpre.
  destruct (lookup_found s t c col Hl) as [td [Ft Fc]].
  destruct (find_table_in t s td Ft) as [Hin Htn].
  assert (Hcols : nodup_str (map c_name (t_columns td)) = true).
  { rewrite forallb_forall in Hndc. apply Hndc. exact Hin. }
  (* the table after the action *)
  assert (Hup : exists g, (forall x, c_name (g x) = c_name x) /\ g col = after_col a col /\
                          apply_action s a = update_table t (update_column t c g) s).
  { destruct a as [tb cols ks|tb|tb cl fw|tb f2 t2|tb cn|tb cn ty fw|tb cn nl fw|tb cn nd|tb cn nc|tb k|tb k|f2 t2|sql];
      cbn [modify_target] in Ht; try discriminate; inversion Ht; subst tb cn.
    - exists (set_type ty). split; [intro; reflexivity|split; reflexivity].
    - exists (set_nullable nl). split; [intro; reflexivity|split; reflexivity].
    - exists (set_default (option_map default_of_string nd)). split; [intro; reflexivity|split; reflexivity].
    - exists (set_comment nc). split; [intro; reflexivity|split; reflexivity]. }
  destruct Hup as [g [Hg [Hgc Hap]]].
  unfold find_column in Fc.
  destruct (update_first_col_find c g (t_columns td) col Hg Fc) as [cols' [U Fc']].
  set (td' := mkTable (t_name td) (t_description td) cols' (t_constraints td)).
  destruct (frame s t (update_column t c g) td td' Hndt Ft) as [s2 [Us Cs]].
  { unfold update_column. rewrite U. reflexivity. }
  { reflexivity. }
  rewrite Hap in Ha. rewrite Us in Ha. inversion Ha; subst s2. clear Ha.
  (* the statements *)
  exists (pre ++ [SModifyColumn t d]). split; [exact G|].
  assert (Ftb : find_tb t (catalog_of s) = Some (catalog_of_table td)).
  { rewrite find_tb_catalog_of, Ft. reflexivity. }
  assert (Hhas : has_mcol c (catalog_of_table td) = true).
  { rewrite has_mcol_catalog. eapply find_column_has. exact Fc. }
  eapply run_app_ok; [eapply run_updates; eassumption|].
  unfold run. cbn [run_from exec]. unfold with_tb. rewrite Ftb. rewrite Hname, Hhas. cbn [negb].
  (* the restated attributes *)
  unfold restated, declared in Hrest. inversion Hrest as [[Hty Hnn Hdf]].
  assert (Hpk : tb_pk (catalog_of_table td) = first_pk (t_constraints td)) by reflexivity.
  assert (Hpkc : pk_cols_of_table s t = match first_pk (t_constraints td) with Some p => p | None => [] end).
  { unfold pk_cols_of_table, constraints_of. rewrite Ft. reflexivity. }
  assert (M9 : (negb (cd_notnull d) && match tb_pk (catalog_of_table td) with Some p => mem_str c p | None => false end)%bool = false).
  { rewrite Hnn, Hpk. rewrite Hpkc in Hpknn. rewrite Bool.negb_involutive.
    destruct (first_pk (t_constraints td)) as [p|]; [|apply Bool.andb_false_r].
    destruct (mem_str c p); cbn [negb orb] in Hpknn; [|apply Bool.andb_false_r].
    apply Bool.negb_true_iff in Hpknn. rewrite Hpknn. reflexivity. }
  rewrite M9.
  (* the engine's table is the believed table of the new schema *)
  assert (Hm : mk_mcol (t_constraints td) (g col) = mcol_of_def d).
  { rewrite Hgc. unfold mk_mcol, mcol_of_def. rewrite Hname, Hty, Hnn, Hdf, Hda.
    assert (Hn2 : c_name (after_col a col) = c).
    { rewrite <- Hgc, Hg. eapply find_column_name. unfold find_column. exact Fc. }
    rewrite Hn2. f_equal.
    - rewrite Hpkc in Hpknn. destruct (mem_str c _); cbn [negb orb] in Hpknn.
      + apply Bool.negb_true_iff in Hpknn. rewrite Hpknn. reflexivity.
      + apply Bool.orb_false_r.
    - unfold is_auto_col, constraints_of in Hauto. rewrite Ft in Hauto. apply Bool.negb_true_iff in Hauto.
      rewrite Hauto. reflexivity. }
  assert (Htb : mkMTable (tb_name (catalog_of_table td))
                  (map (fun x => if String.eqb (mc_name x) c then mcol_of_def d else x) (tb_cols (catalog_of_table td)))
                  (tb_pk (catalog_of_table td)) (tb_indexes (catalog_of_table td)) (tb_fks (catalog_of_table td))
                  (tb_checks (catalog_of_table td)) = catalog_of_table td').
  { unfold td'. destruct td as [n ds cols ks]. cbn [t_name t_description t_columns t_constraints] in *.
    rewrite (catalog_of_table_same_constraints n ds cols cols' ks). rewrite catalog_of_table_cols. cbn [t_constraints t_columns].
    f_equal. symmetry. eapply cols_update; eauto. }
  rewrite Htb.
  assert (Hao : auto_ok (catalog_of_table td') = true).
  { unfold wf_auto in Hwfa. rewrite forallb_forall in Hwfa. apply Hwfa.
    assert (F2 : find_table t s' = Some td').
    { destruct (update_table_find t (update_column t c g) s td td' Ft) as [s3 [U3 F3]].
      - unfold update_column. rewrite U. reflexivity.
      - reflexivity.
      - rewrite Us in U3. inversion U3; subst s3. exact F3. }
    apply (find_table_in t s' td' F2). }
  rewrite Hao. rewrite Cs. reflexivity.
Qed.
