(* Simulation lemmas for the MYSQL layer: if the engine catalog is the believed one (Sim s c), executing the
   statements generated for one action leaves the believed catalog of the schema after the action — per action
   kind, under the decidable side conditions whose negations are the known-finding classes of Model/Known.v. *)
From VV.MYSQL Require Import Spec ModifyP.
From Coq Require Import Lia.

(* ---------- catalog_of commutes with the list operations apply_action uses ---------- *)
Lemma tb_name_catalog_of_table : forall td, tb_name (catalog_of_table td) = t_name td.
Proof. reflexivity. Qed.

Lemma find_tb_catalog_of : forall t s,
  find_tb t (catalog_of s) = option_map catalog_of_table (find_table t s).
Proof.
  intros t s. unfold find_tb, find_table, catalog_of. induction s as [|x r IH]; [reflexivity|].
  cbn [map find]. rewrite tb_name_catalog_of_table. destruct (String.eqb (t_name x) t); [reflexivity|exact IH].
Qed.

Lemma has_table_find : forall t s, has_table t s = true -> exists td, find_table t s = Some td.
Proof.
  intros t s. unfold has_table, find_table. induction s as [|x r IH]; cbn [existsb find]; intro H; [discriminate|].
  destruct (String.eqb (t_name x) t); [eexists; reflexivity|]. apply IH. exact H.
Qed.

Lemma filter_catalog_of : forall t s,
  filter (fun x => negb (String.eqb (tb_name x) t)) (catalog_of s)
  = catalog_of (filter (fun td => negb (String.eqb (t_name td) t)) s).
Proof.
  intros t s. unfold catalog_of. induction s as [|x r IH]; [reflexivity|].
  cbn [map filter]. rewrite tb_name_catalog_of_table. destruct (negb (String.eqb (t_name x) t)); cbn [map]; rewrite IH; reflexivity.
Qed.

(* foreign keys of the believed catalog are the FOREIGN KEY constraints of the schema *)
Lemma in_create_fks : forall table ks f,
  In f (create_fks table ks) ->
  exists n cols rt rcols od ou, In (CForeignKey n cols rt rcols od ou) ks /\ f = fk_of_constraint table n cols rt rcols od ou.
Proof.
  intros table ks f H. unfold create_fks in H. apply in_flat_map in H. destruct H as [k [Hk Hf]].
  destruct k; cbn in Hf; try contradiction. destruct Hf as [Hf|[]]. subst f.
  do 6 eexists. split; [exact Hk|reflexivity].
Qed.

Lemma no_inbound_from_others : forall s t,
  referenced_by_other s t = false ->
  existsb (fun tf : string * fkdef => negb (String.eqb (fst tf) t)) (inbound_fks t (catalog_of s)) = false.
Proof.
  intros s t H. destruct (existsb _ (inbound_fks t (catalog_of s))) eqn:E; [|reflexivity].
  exfalso. apply existsb_exists in E. destruct E as [[n f] [Hin Hne]]. cbn [fst] in Hne.
  unfold inbound_fks in Hin. apply in_flat_map in Hin. destruct Hin as [tb [Htb Hin]].
  apply in_map_iff in Hin. destruct Hin as [f' [Heq Hf]]. inversion Heq; subst n f'. clear Heq.
  apply filter_In in Hf. destruct Hf as [Hf Hrt].
  unfold catalog_of in Htb. apply in_map_iff in Htb. destruct Htb as [td [Htd Hs]]. subst tb.
  cbn [catalog_of_table tb_fks tb_name] in *.
  destruct (in_create_fks _ _ _ Hf) as [n [cols [rt [rcols [od [ou [Hk Hfe]]]]]]]. subst f.
  cbn [fk_of_constraint fk_rtable] in Hrt.
  assert (R : referenced_by_other s t = true).
  { unfold referenced_by_other. apply existsb_exists. exists td. split; [exact Hs|].
    rewrite Hne. cbn [andb]. apply existsb_exists. eexists. split; [exact Hk|]. exact Hrt. }
  rewrite R in H. discriminate.
Qed.

(* ---------- DeleteTable ---------- *)
Theorem sim_delete_table : forall s P t s' c,
  Sim s c ->
  apply_action s (DeleteTable t) = Ok s' ->
  referenced_by_other s t = false ->                     (* negation of the class D2 *)
  exists st, gen s P (DeleteTable t) = Ok st /\ run c st = RunOk (catalog_of s').
Proof.
  intros s P t s' c Hsim Ha Href. unfold Sim in Hsim. subst c.
  exists [SDropTable t]. split; [reflexivity|].
  cbn [apply_action] in Ha. destruct (has_table t s) eqn:Ht; [|discriminate]. inversion Ha; subst s'. clear Ha.
  destruct (has_table_find t s Ht) as [td Ftd].
  unfold run. cbn [run_from exec]. unfold with_tb. rewrite find_tb_catalog_of, Ftd. cbn [option_map].
  rewrite (no_inbound_from_others s t Href). rewrite filter_catalog_of. reflexivity.
Qed.

Lemma schema_at_S_cons : forall s a r i, schema_at s (a :: r) (S i) = schema_at (step s a) r i.
Proof. reflexivity. Qed.

(* ---------- running statement lists ---------- *)
Lemma run_from_ok_shift : forall l i j c c', run_from i c l = RunOk c' -> run_from j c l = RunOk c'.
Proof.
  induction l as [|x r IH]; intros i j c c' H; cbn [run_from] in *; [exact H|].
  destruct (exec c x) as [c1|e]; [|discriminate]. eapply IH. exact H.
Qed.

Lemma run_from_app_ok : forall l1 i j l2 c c1 c2,
  run_from i c l1 = RunOk c1 -> run_from j c1 l2 = RunOk c2 -> run_from i c (l1 ++ l2) = RunOk c2.
Proof.
  induction l1 as [|x r IH]; intros i j l2 c c1 c2 H1 H2; cbn [run_from app] in *.
  - inversion H1; subst. eapply run_from_ok_shift. exact H2.
  - destruct (exec c x) as [c'|e]; [|discriminate]. eapply IH; eassumption.
Qed.
Lemma run_app_ok : forall l1 l2 c c1 c2,
  run c l1 = RunOk c1 -> run c1 l2 = RunOk c2 -> run c (l1 ++ l2) = RunOk c2.
Proof. unfold run. intros. eapply run_from_app_ok; eassumption. Qed.

(* ---------- Sim_plan: the invariant carried through build_plan_queries' loop ---------- *)
Theorem Sim_plan : forall acts s s',
  (forall i a, nth_error acts i = Some a -> action_sim (schema_at s acts i) a) ->
  apply_all s acts = Ok s' ->
  exists L, gen_plan s acts = Ok L /\ run (catalog_of s) (List.concat L) = RunOk (catalog_of s').
Proof.
  induction acts as [|a r IH]; intros s s' Hall Happ.
  - cbn in Happ. inversion Happ; subst. exists []. split; reflexivity.
  - cbn [apply_all] in Happ. destruct (apply_action s a) as [s1|e] eqn:A; [|discriminate].
    destruct (Hall 0%nat a eq_refl s1 A (pending_constraints a r)) as [st [G R]].
    assert (St : step s a = s1) by (unfold step; rewrite A; reflexivity).
    destruct (IH s1 s') as [L [GP RP]].
    + intros i b Hn. specialize (Hall (S i) b Hn). rewrite schema_at_S_cons in Hall. rewrite St in Hall. exact Hall.
    + exact Happ.
    + exists (st :: L). split.
      * cbn [gen_plan]. unfold schema_at in G. cbn [firstn fold_left] in G. rewrite G. rewrite A. rewrite GP. reflexivity.
      * cbn [List.concat]. eapply run_app_ok; [exact R|exact RP].
Qed.

Lemma apply_all_app : forall l1 l2 s s',
  apply_all s (l1 ++ l2) = Ok s' -> exists s1, apply_all s l1 = Ok s1 /\ apply_all s1 l2 = Ok s'.
Proof.
  induction l1 as [|a r IH]; intros l2 s s' H; cbn [app apply_all] in *.
  - exists s. split; [reflexivity|exact H].
  - destruct (apply_action s a) as [s1|e]; [|discriminate]. apply IH. exact H.
Qed.

Lemma apply_all_fold_step : forall acts s s', apply_all s acts = Ok s' -> fold_left step acts s = s'.
Proof.
  induction acts as [|a r IH]; intros s s' H; cbn [apply_all fold_left] in *.
  - inversion H. reflexivity.
  - destruct (apply_action s a) as [s1|e] eqn:A; [|discriminate].
    unfold step at 2. rewrite A. apply IH. exact H.
Qed.

(* ---------- Sim_history: migration after migration ---------- *)
Theorem Sim_history : forall plans s s',
  (forall k p sb, nth_error plans k = Some p ->
                  apply_all s (flat_map p_actions (firstn k plans)) = Ok sb ->
                  forall i a, nth_error (p_actions p) i = Some a -> action_sim (schema_at sb (p_actions p) i) a) ->
  apply_all s (flat_map p_actions plans) = Ok s' ->
  run_history (catalog_of s) s plans = Some (catalog_of s').
Proof.
  induction plans as [|p r IH]; intros s s' Hall Happ.
  - cbn in Happ. inversion Happ; subst. reflexivity.
  - cbn [flat_map] in Happ. destruct (apply_all_app _ _ _ _ Happ) as [s1 [A1 A2]].
    destruct (Sim_plan (p_actions p) s s1 (Hall 0%nat p s eq_refl eq_refl) A1) as [L [GP RP]].
    cbn [run_history]. rewrite GP, RP. rewrite (apply_all_fold_step _ _ _ A1).
    apply IH; [|exact A2].
    intros k q sb Hn Hsb. apply (Hall (S k) q sb Hn).
    cbn [firstn flat_map]. clear -A1 Hsb.
    revert s A1. generalize (p_actions p) as l. induction l as [|a l IHl]; intros s A1; cbn [app apply_all] in *.
    + inversion A1; subst. exact Hsb.
    + destruct (apply_action s a) as [sx|e]; [|discriminate]. apply IHl. exact A1.
Qed.

(* ---------- frame: apply_action rewrites the first table of a name, the engine every table of that name ---------- *)
Lemma replace_tb_notin : forall tb' t r,
  mem_str t (map t_name r) = false -> replace_tb tb' t (catalog_of r) = catalog_of r.
Proof.
  intros tb' t r. unfold replace_tb, catalog_of. induction r as [|x r IH]; intro H; [reflexivity|].
  cbn [map mem_str existsb] in *. unfold mem_str in H. cbn [map existsb] in H.
  apply Bool.orb_false_iff in H. destruct H as [H1 H2].
  rewrite tb_name_catalog_of_table. rewrite String.eqb_sym in H1. rewrite H1. f_equal. apply IH. exact H2.
Qed.

Lemma frame : forall s t f td td',
  nodup_str (map t_name s) = true ->
  find_table t s = Some td -> f td = Ok td' -> t_name td' = t_name td ->
  exists s', update_table t f s = Ok s' /\
             catalog_of s' = replace_tb (catalog_of_table td') t (catalog_of s).
Proof.
  intros s t f td td'. unfold find_table. induction s as [|x r IH]; intros Hnd Hf Hfd Hn; cbn [find] in Hf; [discriminate|].
  cbn [map nodup_str] in Hnd. apply Bool.andb_true_iff in Hnd. destruct Hnd as [Hx Hr].
  cbn [update_table].
  destruct (String.eqb (t_name x) t) eqn:E.
  - inversion Hf; subst x. rewrite Hfd. eexists. split; [reflexivity|].
    apply String.eqb_eq in E.
    cbn [catalog_of map replace_tb]. rewrite tb_name_catalog_of_table. rewrite E, String.eqb_refl. f_equal.
    symmetry. apply replace_tb_notin. rewrite <- E. apply Bool.negb_true_iff in Hx. exact Hx.
  - destruct (IH Hr Hf Hfd Hn) as [s' [U C]]. rewrite U. eexists. split; [reflexivity|].
    cbn [catalog_of map replace_tb]. rewrite tb_name_catalog_of_table, E. f_equal. exact C.
Qed.

(* ---------- RawSql ---------- *)
Theorem sim_raw_sql : forall s sql, action_sim s (RawSql sql).
Proof.
  intros s sql s' Ha P. cbn in Ha. inversion Ha; subst s'. cbn [gen].
  destruct (String.eqb sql ""); eexists; split; reflexivity.
Qed.

(* ---------- ModifyColumn{Type,Nullable,Default,Comment} ---------- *)
Definition mk_mcol (ks : list table_constraint) (c : column_def) : mcol :=
  mkMCol (c_name c) (mysql_type_text (c_type c))
         (negb (c_nullable c) || mem_str (c_name c) (match first_pk ks with Some p => p | None => [] end))%bool
         (option_map (mysql_default_text (c_type c)) (c_default c))
         (mem_str (c_name c) (auto_increment_columns ks) && supports_auto_increment (c_type c))%bool.

Lemma catalog_of_table_cols : forall td, tb_cols (catalog_of_table td) = map (mk_mcol (t_constraints td)) (t_columns td).
Proof. reflexivity. Qed.

Lemma catalog_of_table_same_constraints : forall n d cols cols' ks,
  catalog_of_table (mkTable n d cols' ks) =
  mkMTable n (map (mk_mcol ks) cols') (tb_pk (catalog_of_table (mkTable n d cols ks)))
           (tb_indexes (catalog_of_table (mkTable n d cols ks))) (tb_fks (catalog_of_table (mkTable n d cols ks)))
           (tb_checks (catalog_of_table (mkTable n d cols ks))).
Proof. reflexivity. Qed.

Lemma mc_name_mk : forall ks x, mc_name (mk_mcol ks x) = c_name x.
Proof. reflexivity. Qed.

Lemma map_replace_id : forall (m : mcol) c ks r,
  mem_str c (map c_name r) = false ->
  map (fun x => if String.eqb (mc_name x) c then m else x) (map (mk_mcol ks) r) = map (mk_mcol ks) r.
Proof.
  intros m c ks r. induction r as [|y r IH]; intro H; [reflexivity|].
  unfold mem_str in H. cbn [map existsb] in H. apply Bool.orb_false_iff in H. destruct H as [H1 H2].
  cbn [map]. rewrite mc_name_mk. rewrite String.eqb_sym in H1. rewrite H1. f_equal. apply IH. exact H2.
Qed.

Lemma cols_update : forall c g ks (m : mcol) cols col cols',
  nodup_str (map c_name cols) = true ->
  find (fun x => String.eqb (c_name x) c) cols = Some col ->
  update_first_col c g cols = Some cols' ->
  mk_mcol ks (g col) = m ->
  map (mk_mcol ks) cols' = map (fun x => if String.eqb (mc_name x) c then m else x) (map (mk_mcol ks) cols).
Proof.
  intros c g ks m cols. induction cols as [|x r IH]; intros col cols' Hnd Hf Hu Hm; cbn [find update_first_col] in *; [discriminate|].
  cbn [map nodup_str] in Hnd. apply Bool.andb_true_iff in Hnd. destruct Hnd as [Hx Hr].
  destruct (String.eqb (c_name x) c) eqn:E.
  - inversion Hf; subst x. inversion Hu; subst cols'. cbn [map]. rewrite mc_name_mk, E.
    rewrite Hm. f_equal. symmetry. apply map_replace_id.
    apply String.eqb_eq in E. rewrite <- E. apply Bool.negb_true_iff in Hx. exact Hx.
  - destruct (update_first_col c g r) as [r'|] eqn:U; [|discriminate]. cbn [option_map] in Hu. inversion Hu; subst cols'.
    cbn [map]. rewrite mc_name_mk, E. f_equal. eapply IH; eauto.
Qed.

Lemma has_mcol_catalog : forall c td, has_mcol c (catalog_of_table td) = has_column c td.
Proof.
  intros c td. unfold has_mcol, has_column. rewrite catalog_of_table_cols.
  induction (t_columns td) as [|x r IH]; [reflexivity|]. cbn [map existsb]. cbn [mk_mcol mc_name]. rewrite IH. reflexivity.
Qed.

Lemma find_column_has : forall c td col, find_column c td = Some col -> has_column c td = true.
Proof.
  unfold find_column, has_column. intros c td col H. apply existsb_exists. exists col.
  apply find_some in H. exact H.
Qed.

Lemma find_table_in : forall t s td, find_table t s = Some td -> In td s /\ t_name td = t.
Proof.
  unfold find_table. intros t s td H. apply find_some in H. destruct H as [H1 H2]. split; [exact H1|].
  apply String.eqb_eq. exact H2.
Qed.

Definition is_update_on (t c : string) (x : stmt) : bool :=
  match x with
  | SUpdate t' c' _ w =>
      (String.eqb t' t && String.eqb c' c
       && match w with None => true | Some (WIsNull y) | Some (WEq y _) => String.eqb y c end)%bool
  | _ => false
  end.

Lemma run_updates : forall t c cat tb pre,
  find_tb t cat = Some tb -> has_mcol c tb = true ->
  forallb (is_update_on t c) pre = true -> run cat pre = RunOk cat.
Proof.
  intros t c cat tb pre Ft Hc. unfold run. generalize 0%nat. induction pre as [|x r IH]; intros i H; [reflexivity|].
  cbn [forallb] in H. apply Bool.andb_true_iff in H. destruct H as [Hx Hr].
  destruct x; cbn [is_update_on] in Hx; try discriminate.
  apply Bool.andb_true_iff in Hx. destruct Hx as [Hx Hw]. apply Bool.andb_true_iff in Hx. destruct Hx as [Ht Hcol].
  apply String.eqb_eq in Ht. apply String.eqb_eq in Hcol. subst t0 col.
  cbn [run_from exec]. unfold with_tb. rewrite Ft.
  assert (A : all_cols_exist (c :: match w with Some (WIsNull x) | Some (WEq x _) => [x] | None => [] end) tb = true).
  { unfold all_cols_exist. destruct w as [[y|y v]|]; cbn [forallb]; try (apply String.eqb_eq in Hw; subst y); rewrite Hc; reflexivity. }
  rewrite A. apply IH. exact Hr.
Qed.

Lemma fill_with_updates_on : forall t c fw, forallb (is_update_on t c) (fill_with_updates t c fw) = true.
Proof.
  intros t c fw. unfold fill_with_updates. destruct fw as [l|]; [|reflexivity].
  induction l as [|x r IH]; [reflexivity|]. cbn [map forallb is_update_on]. rewrite !String.eqb_refl. cbn [andb]. exact IH.
Qed.

Lemma app_single {A} : forall (x y : A) pre, [x] = pre ++ [y] -> pre = [].
Proof.
  intros x y pre H. destruct pre as [|p0 pre']; [reflexivity|]. cbn in H. inversion H as [[H1 H2]].
  destruct pre'; discriminate.
Qed.

(* the types that support auto_increment render as integer types *)
Lemma supports_auto_type_ok : forall ty, supports_auto_increment ty = true -> auto_type_ok (mysql_type_text ty) = true.
Proof. intros ty H. destruct ty as [st| | | | |]; try discriminate. destruct st; try discriminate; reflexivity. Qed.

Lemma modify_pre_updates : forall s P a t c col,
  modify_target a = Some (t, c) -> lookup_column s t c = Some col ->
  forall pre d, gen s P a = Ok (pre ++ [SModifyColumn t d]) -> forallb (is_update_on t c) pre = true.
Proof.
  intros s P a t c col Ht Hl pre d G.
  destruct (lookup_found s t c col Hl) as [td [Ft Fc]].
  destruct a as [tb cols ks|tb|tb cl fw|tb f2 t2|tb cn|tb cn ty fw|tb cn nl fw|tb cn nd|tb cn nc|tb k|tb k|f2 t2|sql];
    cbn [modify_target] in Ht; try discriminate; inversion Ht; subst tb cn; clear Ht; cbn [gen] in G.
  - (* type *) unfold gen_modify_type in G. inversion G as [G']. apply app_inj_tail in G'. destruct G' as [G' _]. subst pre.
    apply fill_with_updates_on.
  - (* nullable *) unfold gen_modify_nullable, with_column in G. rewrite Ft, Fc in G. inversion G as [G'].
    apply app_inj_tail in G'. destruct G' as [G' _]. subst pre.
    destruct nl; [reflexivity|]. destruct (normalize_fill_with fw); [|reflexivity].
    cbn [forallb is_update_on]. rewrite !String.eqb_refl. reflexivity.
  - unfold gen_modify_default, with_column in G. rewrite Ft, Fc in G. inversion G as [G'].
    cbn zeta in G'. apply app_single in G'. subst pre. reflexivity.
  - unfold gen_modify_comment, with_column in G. rewrite Ft, Fc in G. inversion G as [G'].
    cbn zeta in G'. apply app_single in G'. subst pre. reflexivity.
Qed.

Theorem sim_modify_column : forall s a, modify_sim_hyp s a = true -> action_sim s a.
Proof.
  intros s a H s' Ha P. unfold modify_sim_hyp in H.
  destruct (modify_target a) as [[t c]|] eqn:Ht; [|discriminate].
  destruct (lookup_column s t c) as [col|] eqn:Hl; [|discriminate].
  rewrite Ha in H.
  apply Bool.andb_true_iff in H; destruct H as [H Hwfa].
  apply Bool.andb_true_iff in H; destruct H as [H Hpknn].
  apply Bool.andb_true_iff in H; destruct H as [H Hdef].
  unfold wf_names in H. apply Bool.andb_true_iff in H. destruct H as [Hndt Hndc].
  destruct (modify_preserves s P a t c col s' Ht Hl Ha Hdef) as [pre [d [col' [G [_ [Hl' [Hname [Hrest [Hda [_ _]]]]]]]]]].
  pose proof (apply_modify_lookup s a t c col s' Ht Hl Ha) as Hl2. rewrite Hl' in Hl2. inversion Hl2; subst col'. clear Hl2.
  pose proof (modify_pre_updates s P a t c col Ht Hl pre d G) as Hpre.
  destruct (lookup_found s t c col Hl) as [td [Ft Fc]].
  destruct (find_table_in t s td Ft) as [Hin Htn].
  assert (Hcols : nodup_str (map c_name (t_columns td)) = true).
  { rewrite forallb_forall in Hndc. apply Hndc. exact Hin. }
  (* the table after the action *)
  assert (Hup : exists g, (forall x, c_name (g x) = c_name x) /\ g col = after_col a col /\
                          apply_action s a = update_table t (update_column t c g) s).
  { destruct a as [tb cols ks|tb|tb cl fw|tb f2 t2|tb cn|tb cn ty fw|tb cn nl fw|tb cn nd|tb cn nc|tb k|tb k|f2 t2|sql];
      cbn [modify_target] in Ht; try discriminate; inversion Ht; subst tb cn.
    - exists (set_type ty). split; [intro; reflexivity|split; reflexivity].
    - exists (set_nullable nl). split; [intro; reflexivity|split; reflexivity].
    - exists (set_default (option_map default_of_string nd)). split; [intro; reflexivity|split; reflexivity].
    - exists (set_comment nc). split; [intro; reflexivity|split; reflexivity]. }
  destruct Hup as [g [Hg [Hgc Hap]]].
  unfold find_column in Fc.
  destruct (update_first_col_find c g (t_columns td) col Hg Fc) as [cols' [U Fc']].
  set (td' := mkTable (t_name td) (t_description td) cols' (t_constraints td)).
  destruct (frame s t (update_column t c g) td td' Hndt Ft) as [s2 [Us Cs]].
  { unfold update_column. rewrite U. reflexivity. }
  { reflexivity. }
  rewrite Hap in Ha. rewrite Us in Ha. inversion Ha; subst s2. clear Ha.
  (* the statements *)
  exists (pre ++ [SModifyColumn t d]). split; [exact G|].
  assert (Ftb : find_tb t (catalog_of s) = Some (catalog_of_table td)).
  { rewrite find_tb_catalog_of, Ft. reflexivity. }
  assert (Hhas : has_mcol c (catalog_of_table td) = true).
  { rewrite has_mcol_catalog. eapply find_column_has. exact Fc. }
  eapply run_app_ok; [eapply run_updates; eassumption|].
  unfold run. cbn [run_from exec]. unfold with_tb. rewrite Ftb. rewrite Hname, Hhas. cbn [negb].
  (* the restated attributes *)
  unfold restated, declared in Hrest. inversion Hrest as [[Hty Hnn Hdf]].
  assert (Hpk : tb_pk (catalog_of_table td) = first_pk (t_constraints td)) by reflexivity.
  assert (Hpkc : pk_cols_of_table s t = match first_pk (t_constraints td) with Some p => p | None => [] end).
  { unfold pk_cols_of_table, constraints_of. rewrite Ft. reflexivity. }
  assert (M9 : (negb (cd_notnull d) && match tb_pk (catalog_of_table td) with Some p => mem_str c p | None => false end)%bool = false).
  { rewrite Hnn, Hpk. rewrite Hpkc in Hpknn. rewrite Bool.negb_involutive.
    destruct (first_pk (t_constraints td)) as [p|]; [|apply Bool.andb_false_r].
    destruct (mem_str c p); cbn [negb orb] in Hpknn; [|apply Bool.andb_false_r].
    apply Bool.negb_true_iff in Hpknn. rewrite Hpknn. reflexivity. }
  rewrite M9.
  assert (M9c : auto_spec_ok d = true).
  { unfold auto_spec_ok. rewrite Hda, Hty. destruct (is_auto_col s t c); [|reflexivity]. cbn [andb].
    destruct (supports_auto_increment (c_type (after_col a col))) eqn:Es; [|reflexivity].
    rewrite (supports_auto_type_ok _ Es). reflexivity. }
  rewrite M9c. cbn [negb].
  (* the engine's table is the believed table of the new schema *)
  assert (Hm : mk_mcol (t_constraints td) (g col) = mcol_of_def d).
  { rewrite Hgc. unfold mk_mcol, mcol_of_def. rewrite Hname, Hty, Hnn, Hdf, Hda.
    assert (Hn2 : c_name (after_col a col) = c).
    { rewrite <- Hgc, Hg. eapply find_column_name. unfold find_column. exact Fc. }
    rewrite Hn2. f_equal.
    - rewrite Hpkc in Hpknn. destruct (mem_str c _); cbn [negb orb] in Hpknn.
      + apply Bool.negb_true_iff in Hpknn. rewrite Hpknn. reflexivity.
      + apply Bool.orb_false_r.
    - unfold is_auto_col, constraints_of. rewrite Ft. reflexivity. }
  assert (Htb : mkMTable (tb_name (catalog_of_table td))
                  (map (fun x => if String.eqb (mc_name x) c then mcol_of_def d else x) (tb_cols (catalog_of_table td)))
                  (tb_pk (catalog_of_table td)) (tb_indexes (catalog_of_table td)) (tb_fks (catalog_of_table td))
                  (tb_checks (catalog_of_table td)) = catalog_of_table td').
  { unfold td'. destruct td as [n ds cols ks]. cbn [t_name t_description t_columns t_constraints] in *.
    rewrite (catalog_of_table_same_constraints n ds cols cols' ks). rewrite catalog_of_table_cols. cbn [t_constraints t_columns].
    f_equal. symmetry. eapply cols_update; eauto. }
  rewrite Htb.
  assert (Hao : auto_ok (catalog_of_table td') = true).
  { unfold wf_auto in Hwfa. rewrite forallb_forall in Hwfa. apply Hwfa.
    assert (F2 : find_table t s' = Some td').
    { destruct (update_table_find t (update_column t c g) s td td' Ft) as [s3 [U3 F3]].
      - unfold update_column. rewrite U. reflexivity.
      - reflexivity.
      - rewrite Us in U3. inversion U3; subst s3. exact F3. }
    apply (find_table_in t s' td' F2). }
  rewrite Hao. rewrite Cs. reflexivity.
Qed.

(* ---------- AddColumn of a plain column ---------- *)
Lemma find_tb_replace : forall t cat tb tb',
  find_tb t cat = Some tb -> tb_name tb' = t -> find_tb t (replace_tb tb' t cat) = Some tb'.
Proof.
  intros t cat tb tb'. unfold find_tb, replace_tb. induction cat as [|x r IH]; intros H Hn; cbn [find map] in *; [discriminate|].
  destruct (String.eqb (tb_name x) t) eqn:E.
  - cbn [find]. rewrite Hn, String.eqb_refl. reflexivity.
  - cbn [find]. rewrite E. apply IH; assumption.
Qed.

Lemma replace_replace : forall t a b cat,
  tb_name b = t -> replace_tb a t (replace_tb b t cat) = replace_tb a t cat.
Proof.
  intros t a b cat Hb. unfold replace_tb. rewrite map_map. apply map_ext. intro x.
  destruct (String.eqb (tb_name x) t) eqn:E; [rewrite Hb, String.eqb_refl; reflexivity|rewrite E; reflexivity].
Qed.

Lemma mcols_replace_notin : forall (m : mcol) c l,
  existsb (fun x => String.eqb (mc_name x) c) l = false ->
  map (fun x => if String.eqb (mc_name x) c then m else x) l = l.
Proof.
  intros m c l. induction l as [|x r IH]; intro H; [reflexivity|].
  cbn [existsb] in H. apply Bool.orb_false_iff in H. destruct H as [H1 H2].
  cbn [map]. rewrite H1. f_equal. apply IH. exact H2.
Qed.

Lemma auto_ok_snoc : forall n cs m pk idx fks chk,
  mc_auto m = false ->
  auto_ok (mkMTable n (cs ++ [m]) pk idx fks chk) = auto_ok (mkMTable n cs pk idx fks chk).
Proof.
  intros n cs m pk idx fks chk Hm. unfold auto_ok. cbn [tb_cols]. rewrite filter_app. cbn [filter]. rewrite Hm, app_nil_r.
  reflexivity.
Qed.

Lemma normalize_shape : forall td n, normalize td = Ok n ->
  n = mkTable (t_name td) (t_description td) (t_columns td) (t_constraints n).
Proof.
  intros td n H. unfold normalize in H. destruct (normalize_constraints _ _) as [cs|e]; [|discriminate].
  inversion H; subst. reflexivity.
Qed.

Theorem sim_add_column : forall s a, add_column_sim_hyp s a = true -> action_sim s a.
Proof.
  intros s a H s' Ha P. unfold add_column_sim_hyp in H.
  destruct a as [tb cols0 ks0|tb|t col fw|tb f2 t2|tb cn|tb cn ty fw|tb cn nl fw|tb cn nd|tb cn nc|tb k|tb k|f2 t2|sql]; try discriminate.
  destruct (find_table t s) as [td|] eqn:Ft; [|discriminate].
  apply Bool.andb_true_iff in H; destruct H as [H Hnauto].
  apply Bool.andb_true_iff in H; destruct H as [H Hnpk].
  apply Bool.andb_true_iff in H; destruct H as [H Hnorm].
  apply Bool.andb_true_iff in H; destruct H as [H Hnew].
  apply Bool.andb_true_iff in H; destruct H as [H Hplain].
  apply Bool.andb_true_iff in H; destruct H as [Hwf Hwfa].
  unfold wf_names in Hwf. apply Bool.andb_true_iff in Hwf. destruct Hwf as [Hndt Hndc].
  apply Bool.negb_true_iff in Hnew. apply Bool.negb_true_iff in Hnpk. apply Bool.negb_true_iff in Hnauto.
  destruct (find_table_in t s td Ft) as [Hin Htn].
  destruct (normalize (mkTable (t_name td) (t_description td) (t_columns td ++ [col]) (t_constraints td))) as [n|e] eqn:N; [|discriminate].
  unfold dec_b in Hnorm. destruct (list_eq_dec constraint_eq_dec (t_constraints n) (t_constraints td)) as [Eks|]; [|discriminate].
  pose proof (normalize_shape _ _ N) as Hn. cbn [t_name t_description t_columns] in Hn. rewrite Eks in Hn.
  set (c := c_name col) in *.
  (* the schema after *)
  destruct (frame s t (fun t0 => if has_column c t0 then Err (ColumnExists t c)
                                 else match normalize (mkTable (t_name t0) (t_description t0) (t_columns t0 ++ [col]) (t_constraints t0)) with
                                      | Err _ => Err TableValidation
                                      | Ok n0 => Ok n0
                                      end) td n Hndt Ft) as [s2 [Us Cs]].
  { rewrite Hnew, N. reflexivity. }
  { rewrite Hn. reflexivity. }
  cbn [apply_action] in Ha. fold c in Ha. rewrite Us in Ha. inversion Ha; subst s2. clear Ha.
  (* the believed table after *)
  set (m := mcol_of_def (sea_coldef col)).
  assert (Hmk : mk_mcol (t_constraints td) col = m).
  { unfold mk_mcol, m, mcol_of_def, sea_coldef. cbn [cd_name cd_type cd_notnull cd_default cd_auto]. fold c.
    unfold pk_cols_of_table, constraints_of in Hnpk. rewrite Ft in Hnpk. rewrite Hnpk, Hnauto.
    rewrite Bool.orb_false_r. reflexivity. }
  assert (Htd' : catalog_of_table n =
                 mkMTable (t_name td) (tb_cols (catalog_of_table td) ++ [m]) (tb_pk (catalog_of_table td))
                          (tb_indexes (catalog_of_table td)) (tb_fks (catalog_of_table td)) (tb_checks (catalog_of_table td))).
  { rewrite Hn. destruct td as [n0 ds cols ks]. cbn [t_name t_description t_columns t_constraints] in *.
    rewrite (catalog_of_table_same_constraints n0 ds cols (cols ++ [col]) ks). rewrite catalog_of_table_cols. cbn [t_columns t_constraints].
    rewrite map_app. cbn [map]. rewrite Hmk. reflexivity. }
  assert (Ftb : find_tb t (catalog_of s) = Some (catalog_of_table td)) by (rewrite find_tb_catalog_of, Ft; reflexivity).
  assert (Hno : has_mcol c (catalog_of_table td) = false) by (rewrite has_mcol_catalog; exact Hnew).
  assert (Hao : auto_ok (catalog_of_table td) = true).
  { unfold wf_auto in Hwfa. rewrite forallb_forall in Hwfa. apply Hwfa. exact Hin. }
  assert (Hname : tb_name (catalog_of_table td) = t) by (rewrite tb_name_catalog_of_table; exact Htn).
  cbn [gen]. unfold gen_add_column.
  assert (Hspec : forall x, auto_spec_ok (sea_coldef x) = true) by reflexivity.
  destruct (negb (c_nullable col) && is_none (c_default col) && is_some fw)%bool eqn:Back.
  - (* nullable first, backfill, MODIFY to NOT NULL *)
    eexists. split; [reflexivity|].
    set (m0 := mcol_of_def (sea_coldef (set_nullable true col))).
    set (tb1 := mkMTable (tb_name (catalog_of_table td)) (tb_cols (catalog_of_table td) ++ [m0]) (tb_pk (catalog_of_table td))
                         (tb_indexes (catalog_of_table td)) (tb_fks (catalog_of_table td)) (tb_checks (catalog_of_table td))).
    assert (E1 : exec (catalog_of s) (SAddColumn t (sea_coldef (set_nullable true col))) = Ok (replace_tb tb1 t (catalog_of s))).
    { cbn [exec]. unfold with_tb. rewrite Ftb. rewrite Hspec. cbn [negb]. cbn [sea_coldef cd_name set_nullable c_name]. fold c. rewrite Hno.
      fold m0. fold tb1. unfold tb1. rewrite auto_ok_snoc by reflexivity.
      destruct (catalog_of_table td) as [a1 a2 a3 a4 a5 a6] eqn:Etb. cbn [tb_name tb_cols tb_pk tb_indexes tb_fks tb_checks] in *.
      rewrite Hao. reflexivity. }
    assert (F1 : find_tb t (replace_tb tb1 t (catalog_of s)) = Some tb1).
    { eapply find_tb_replace; [exact Ftb|]. unfold tb1. cbn [tb_name]. exact Hname. }
    assert (Hc1 : has_mcol c tb1 = true).
    { unfold has_mcol, tb1. cbn [tb_cols]. rewrite existsb_app. cbn [existsb]. unfold m0, mcol_of_def, sea_coldef. cbn [cd_name mc_name set_nullable c_name].
      fold c. rewrite String.eqb_refl. rewrite Bool.orb_true_r. reflexivity. }
    assert (Hm0 : mc_name m0 = c) by reflexivity.
    set (upd := match normalize_fill_with fw with
                | Some f => [SUpdate t c (convert_default_mysql f) None]
                | None => []
                end).
    assert (E2 : run (replace_tb tb1 t (catalog_of s)) upd = RunOk (replace_tb tb1 t (catalog_of s))).
    { eapply run_updates; [exact F1|exact Hc1|]. unfold upd. destruct (normalize_fill_with fw); [|reflexivity].
      cbn [forallb is_update_on]. rewrite !String.eqb_refl. reflexivity. }
    assert (E3 : exec (replace_tb tb1 t (catalog_of s)) (SModifyColumn t (sea_coldef col)) = Ok (catalog_of s')).
    { cbn [exec]. unfold with_tb. rewrite F1. rewrite Hspec. cbn [sea_coldef cd_name]. fold c. rewrite Hc1. cbn [negb].
      assert (Hpk1 : tb_pk tb1 = tb_pk (catalog_of_table td)) by reflexivity. rewrite Hpk1.
      assert (Hpkf : match tb_pk (catalog_of_table td) with Some p => mem_str c p | None => false end = false).
      { unfold pk_cols_of_table, constraints_of in Hnpk. rewrite Ft in Hnpk. change (tb_pk (catalog_of_table td)) with (first_pk (t_constraints td)).
        destruct (first_pk (t_constraints td)); [exact Hnpk|reflexivity]. }
      rewrite Hpkf, Bool.andb_false_r.
      match goal with |- (if auto_ok ?T then _ else _) = _ => assert (Ht2 : T = catalog_of_table n) end.
      { unfold tb1. cbn [tb_name tb_cols tb_pk tb_indexes tb_fks tb_checks]. rewrite map_app. cbn [map]. rewrite Hm0, String.eqb_refl.
        rewrite (mcols_replace_notin _ c (tb_cols (catalog_of_table td))) by exact Hno.
        rewrite Htd'. rewrite Hname, Htn. reflexivity. }
      rewrite !Ht2.
      assert (Hao' : auto_ok (catalog_of_table n) = true).
      { rewrite Htd'. rewrite auto_ok_snoc by reflexivity.
        destruct (catalog_of_table td) as [a1 a2 a3 a4 a5 a6] eqn:Etb. cbn [tb_name tb_cols tb_pk tb_indexes tb_fks tb_checks] in *.
        exact Hao. }
      rewrite Hao'. rewrite replace_replace by (unfold tb1; cbn [tb_name]; exact Hname). rewrite Cs. reflexivity. }
    change ([SAddColumn t (sea_coldef (set_nullable true col))] ++ upd ++ [SModifyColumn t (sea_coldef col)])
      with ([SAddColumn t (sea_coldef (set_nullable true col))] ++ (upd ++ [SModifyColumn t (sea_coldef col)])).
    eapply run_app_ok.
    + unfold run. cbn [run_from]. rewrite E1. reflexivity.
    + eapply run_app_ok; [exact E2|]. unfold run. cbn [run_from]. rewrite E3. reflexivity.
  - eexists. split; [reflexivity|].
    assert (E : exec (catalog_of s) (SAddColumn t (sea_coldef col)) = Ok (catalog_of s')).
    { cbn [exec]. unfold with_tb. rewrite Ftb. rewrite Hspec. cbn [negb]. cbn [sea_coldef cd_name]. fold c. rewrite Hno.
      fold (sea_coldef col). fold m.
      assert (Hao' : auto_ok (catalog_of_table n) = true).
      { rewrite Htd'. rewrite auto_ok_snoc by reflexivity.
        destruct (catalog_of_table td) as [a1 a2 a3 a4 a5 a6] eqn:Etb. cbn [tb_name tb_cols tb_pk tb_indexes tb_fks tb_checks] in *.
        exact Hao. }
      match goal with |- (if auto_ok ?T then _ else _) = _ => assert (Ht1 : T = catalog_of_table n) end.
      { rewrite Htd'. rewrite Hname, Htn. reflexivity. }
      rewrite !Ht1, Hao', Cs. reflexivity. }
    unfold run. cbn [run_from]. rewrite E. reflexivity.
Qed.

(* ---------- DeleteColumn of a column that no constraint mentions ---------- *)
Lemma drop_in_notin : forall c l, mem_str c l = false -> drop_in c l = l.
Proof.
  intros c l. unfold drop_in, mem_str. induction l as [|x r IH]; intro H; [reflexivity|].
  cbn [existsb] in H. apply Bool.orb_false_iff in H. destruct H as [H1 H2].
  cbn [filter]. rewrite String.eqb_sym in H1. rewrite H1. cbn [negb]. f_equal. apply IH. exact H2.
Qed.

Lemma drop_constraint_noop : forall c k,
  constraint_mentions c k = false -> constraint_nonempty k = true -> drop_column_from_constraint c k = Some k.
Proof.
  intros c k Hm Hn. destruct k; cbn [constraint_mentions constraint_nonempty constraint_columns drop_column_from_constraint] in *.
  - rewrite (drop_in_notin _ _ Hm), Hn. reflexivity.
  - rewrite (drop_in_notin _ _ Hm), Hn. reflexivity.
  - apply Bool.orb_false_iff in Hm. destruct Hm as [H1 H2].
    rewrite (drop_in_notin _ _ H1), (drop_in_notin _ _ H2), Hn. reflexivity.
  - reflexivity.
  - rewrite (drop_in_notin _ _ Hm), Hn. reflexivity.
Qed.

Lemma drop_constraints_noop : forall c ks,
  forallb (fun k => negb (constraint_mentions c k)) ks = true -> forallb constraint_nonempty ks = true ->
  drop_column_from_constraints c ks = ks.
Proof.
  intros c ks. unfold drop_column_from_constraints. induction ks as [|k r IH]; intros H1 H2; [reflexivity|].
  cbn [forallb] in *. apply Bool.andb_true_iff in H1. destruct H1 as [Hk H1]. apply Bool.andb_true_iff in H2. destruct H2 as [Hn H2].
  apply Bool.negb_true_iff in Hk. cbn [flat_map]. rewrite (drop_constraint_noop c k Hk Hn). cbn [app]. f_equal. apply IH; assumption.
Qed.

Lemma filter_mcols : forall ks c cols,
  filter (fun x => negb (String.eqb (mc_name x) c)) (map (mk_mcol ks) cols)
  = map (mk_mcol ks) (filter (fun x => negb (String.eqb (c_name x) c)) cols).
Proof.
  intros ks c cols. induction cols as [|x r IH]; [reflexivity|].
  cbn [map filter]. rewrite mc_name_mk. destruct (negb (String.eqb (c_name x) c)); cbn [map]; rewrite IH; reflexivity.
Qed.

Lemma first_pk_in : forall ks p, first_pk ks = Some p -> exists a, In (CPrimaryKey a p) ks.
Proof.
  intros ks p. unfold first_pk. induction ks as [|k r IH]; cbn [filter]; intro H; [discriminate|].
  destruct k; cbn [is_pk] in H; try (destruct (IH H) as [a Ha]; exists a; right; exact Ha).
  inversion H; subst. eexists. left. reflexivity.
Qed.

(* every key of the believed table comes from a constraint of the table *)
Lemma index_cols_from_constraints : forall td i,
  In i (tb_indexes (catalog_of_table td)) ->
  exists k, In k (t_constraints td) /\
            match k with
            | CUnique _ cols | CIndex _ cols | CForeignKey _ cols _ _ _ _ => ix_cols i = cols
            | _ => False
            end.
Proof.
  intros td i H. cbn [catalog_of_table tb_indexes] in H. apply in_app_or in H. destruct H as [H|H].
  - unfold explicit_indexes in H. apply in_app_or in H. destruct H as [H|H].
    + unfold unique_indexes in H. apply in_flat_map in H. destruct H as [k [Hk Hi]].
      destruct k; cbn in Hi; try contradiction. destruct Hi as [Hi|[]]. subst i. eexists. split; [exact Hk|reflexivity].
    + unfold plain_indexes in H. apply in_flat_map in H. destruct H as [k [Hk Hi]].
      destruct k; cbn in Hi; try contradiction. destruct Hi as [Hi|[]]. subst i. eexists. split; [exact Hk|reflexivity].
  - assert (G : forall keys fks, In i (generated_indexes keys fks) -> exists f, In f fks /\ ix_cols i = fk_cols f).
    { clear. intros keys fks. revert keys. induction fks as [|f r IH]; intros keys H; cbn [generated_indexes] in H; [contradiction|].
      destruct (nonempty (fk_cols f) && existsb (is_prefix (fk_cols f)) keys)%bool.
      - destruct (IH _ H) as [f' [Hf Hc]]. exists f'. split; [right; exact Hf|exact Hc].
      - destruct H as [H|H].
        + subst i. exists f. split; [left; reflexivity|reflexivity].
        + destruct (IH _ H) as [f' [Hf Hc]]. exists f'. split; [right; exact Hf|exact Hc]. }
    destruct (G _ _ H) as [f [Hf Hc]].
    destruct (in_create_fks _ _ _ Hf) as [n [cols [rt [rcols [od [ou [Hk Hfe]]]]]]]. subst f.
    eexists. split; [exact Hk|]. exact Hc.
Qed.

Lemma shrink_noop : forall c (l : list mindex),
  (forall i, In i l -> mem_str c (ix_cols i) = false /\ nonempty (ix_cols i) = true) ->
  flat_map (fun i => if nonempty (drop_in c (ix_cols i))
                     then [mkMIndex (ix_name i) (drop_in c (ix_cols i)) (ix_unique i) (ix_generated i)] else []) l = l.
Proof.
  intros c l. induction l as [|i r IH]; intro H; [reflexivity|].
  cbn [flat_map]. destruct (H i (or_introl eq_refl)) as [H1 H2].
  rewrite (drop_in_notin _ _ H1), H2. destruct i. cbn. f_equal.
  apply IH. intros j Hj. apply H. right. exact Hj.
Qed.

Lemma filter_auto_drop : forall c (l : list mcol),
  (forall x, In x l -> String.eqb (mc_name x) c = true -> mc_auto x = false) ->
  filter mc_auto (filter (fun x => negb (String.eqb (mc_name x) c)) l) = filter mc_auto l.
Proof.
  intros c l. induction l as [|x r IH]; intro H; [reflexivity|].
  cbn [filter]. destruct (String.eqb (mc_name x) c) eqn:E; cbn [negb].
  - rewrite (H x (or_introl eq_refl) E). apply IH. intros y Hy. apply H. right. exact Hy.
  - cbn [filter]. destruct (mc_auto x); [f_equal|]; apply IH; intros y Hy; apply H; right; exact Hy.
Qed.

Lemma no_inbound_column : forall s t c,
  column_referenced s t c = false ->
  existsb (fun tf : string * fkdef => mem_str c (fk_rcols (snd tf))) (inbound_fks t (catalog_of s)) = false.
Proof.
  intros s t c H. destruct (existsb _ (inbound_fks t (catalog_of s))) eqn:E; [|reflexivity].
  exfalso. apply existsb_exists in E. destruct E as [[n f] [Hin Hm]]. cbn [snd] in Hm.
  unfold inbound_fks in Hin. apply in_flat_map in Hin. destruct Hin as [tb [Htb Hin]].
  apply in_map_iff in Hin. destruct Hin as [f' [Heq Hf]]. inversion Heq; subst n f'. clear Heq.
  apply filter_In in Hf. destruct Hf as [Hf Hrt].
  unfold catalog_of in Htb. apply in_map_iff in Htb. destruct Htb as [td [Htd Hs]]. subst tb.
  cbn [catalog_of_table tb_fks tb_name] in *.
  destruct (in_create_fks _ _ _ Hf) as [n [cols [rt [rcols [od [ou [Hk Hfe]]]]]]]. subst f.
  cbn [fk_of_constraint fk_rtable fk_rcols] in *.
  assert (R : column_referenced s t c = true).
  { unfold column_referenced. apply existsb_exists. exists td. split; [exact Hs|].
    apply existsb_exists. eexists. split; [exact Hk|]. cbn. rewrite Hrt, Hm. reflexivity. }
  rewrite R in H. discriminate.
Qed.

Theorem sim_delete_column : forall s a, delete_column_sim_hyp s a = true -> action_sim s a.
Proof.
  intros s a H s' Ha P. unfold delete_column_sim_hyp in H.
  destruct a as [tb cols0 ks0|tb|tb cl fw|tb f2 t2|t c|tb cn ty fw|tb cn nl fw|tb cn nd|tb cn nc|tb k|tb k|f2 t2|sql]; try discriminate.
  destruct (find_table t s) as [td|] eqn:Ft; [|discriminate].
  apply Bool.andb_true_iff in H; destruct H as [H Hlen].
  apply Bool.andb_true_iff in H; destruct H as [H Hnref].
  apply Bool.andb_true_iff in H; destruct H as [H Hne].
  apply Bool.andb_true_iff in H; destruct H as [H Hnm].
  apply Bool.andb_true_iff in H; destruct H as [H Hhas].
  apply Bool.andb_true_iff in H; destruct H as [Hwf Hwfa].
  unfold wf_names in Hwf. apply Bool.andb_true_iff in Hwf. destruct Hwf as [Hndt Hndc].
  apply Bool.negb_true_iff in Hnref.
  destruct (find_table_in t s td Ft) as [Hin Htn].
  set (td' := mkTable (t_name td) (t_description td) (filter (fun x => negb (String.eqb (c_name x) c)) (t_columns td)) (t_constraints td)).
  destruct (frame s t (fun t0 => if has_column c t0
                                 then Ok (mkTable (t_name t0) (t_description t0)
                                            (filter (fun x => negb (String.eqb (c_name x) c)) (t_columns t0))
                                            (drop_column_from_constraints c (t_constraints t0)))
                                 else Err (ColumnNotFound t c)) td td' Hndt Ft) as [s2 [Us Cs]].
  { rewrite Hhas. rewrite (drop_constraints_noop c _ Hnm Hne). reflexivity. }
  { reflexivity. }
  cbn [apply_action] in Ha. rewrite Us in Ha. inversion Ha; subst s2. clear Ha.
  exists [SDropColumn t c]. split; [reflexivity|].
  assert (Ftb : find_tb t (catalog_of s) = Some (catalog_of_table td)) by (rewrite find_tb_catalog_of, Ft; reflexivity).
  assert (Hao : auto_ok (catalog_of_table td) = true).
  { unfold wf_auto in Hwfa. rewrite forallb_forall in Hwfa. apply Hwfa. exact Hin. }
  (* facts about the constraints *)
  assert (Hk : forall k, In k (t_constraints td) -> constraint_mentions c k = false /\ constraint_nonempty k = true).
  { intros k Ik. rewrite forallb_forall in Hnm, Hne. split; [apply Bool.negb_true_iff; apply Hnm; exact Ik|apply Hne; exact Ik]. }
  assert (Hidx : forall i, In i (tb_indexes (catalog_of_table td)) -> mem_str c (ix_cols i) = false /\ nonempty (ix_cols i) = true).
  { intros i Ii. destruct (index_cols_from_constraints td i Ii) as [k [Ik Hc]]. destruct (Hk k Ik) as [Hm Hn].
    destruct k; try contradiction; rewrite Hc; cbn [constraint_mentions constraint_nonempty constraint_columns] in *.
    - split; assumption.
    - apply Bool.orb_false_iff in Hm. apply Bool.andb_true_iff in Hn. split; [apply Hm|apply Hn].
    - split; assumption. }
  assert (E : exec (catalog_of s) (SDropColumn t c) = Ok (catalog_of s')).
  { cbn [exec]. unfold with_tb. rewrite Ftb. rewrite has_mcol_catalog, Hhas. cbn [negb].
    rewrite catalog_of_table_cols at 1. rewrite map_length.
    assert (L1 : Nat.leb (List.length (t_columns td)) 1 = false).
    { apply Nat.leb_le in Hlen. apply Nat.leb_gt. lia. }
    rewrite L1.
    assert (F1 : existsb (fun f => mem_str c (fk_cols f)) (tb_fks (catalog_of_table td)) = false).
    { destruct (existsb _ (tb_fks (catalog_of_table td))) eqn:E1; [|reflexivity]. exfalso.
      apply existsb_exists in E1. destruct E1 as [f [If Hm]]. cbn [catalog_of_table tb_fks] in If.
      destruct (in_create_fks _ _ _ If) as [n [cols [rt [rcols [od [ou [Ik Hfe]]]]]]]. subst f. cbn [fk_of_constraint fk_cols] in Hm.
      destruct (Hk _ Ik) as [Hmm _]. cbn [constraint_mentions] in Hmm. apply Bool.orb_false_iff in Hmm. destruct Hmm as [Hmm _].
      rewrite Hmm in Hm. discriminate. }
    rewrite F1. rewrite (no_inbound_column s t c Hnref).
    (* primary key unchanged *)
    assert (Hpk : match tb_pk (catalog_of_table td) with
                  | Some p => if nonempty (drop_in c p) then Some (drop_in c p) else None
                  | None => None
                  end = tb_pk (catalog_of_table td)).
    { change (tb_pk (catalog_of_table td)) with (first_pk (t_constraints td)).
      destruct (first_pk (t_constraints td)) as [p|] eqn:Fp; [|reflexivity].
      destruct (first_pk_in _ _ Fp) as [a Ia]. destruct (Hk _ Ia) as [Hm Hn]. cbn [constraint_mentions constraint_nonempty constraint_columns] in *.
      rewrite (drop_in_notin _ _ Hm), Hn. reflexivity. }
    cbn zeta. rewrite Hpk. rewrite (shrink_noop c _ Hidx).
    match goal with |- (if negb (auto_ok ?T) then _ else _) = _ => assert (Ht : T = catalog_of_table td') end.
    { unfold td'. destruct td as [n ds cols ks]. cbn [t_name t_description t_columns t_constraints] in *.
      rewrite (catalog_of_table_same_constraints n ds cols (filter (fun x => negb (String.eqb (c_name x) c)) cols) ks).
      rewrite catalog_of_table_cols. cbn [t_columns t_constraints]. rewrite filter_mcols. reflexivity. }
    rewrite !Ht.
    assert (Hao' : auto_ok (catalog_of_table td') = true).
    { rewrite <- Ht. rewrite <- Hao. unfold auto_ok. cbn [tb_cols tb_pk tb_indexes key_col_lists].
      rewrite filter_auto_drop; [reflexivity|].
      intros x Ix Hx. rewrite catalog_of_table_cols in Ix. apply in_map_iff in Ix. destruct Ix as [cd [Hcd Icd]]. subst x.
      rewrite mc_name_mk in Hx. unfold mk_mcol. cbn [mc_auto]. apply String.eqb_eq in Hx. rewrite Hx.
      assert (Hna : mem_str c (auto_increment_columns (t_constraints td)) = false).
      { destruct (mem_str c (auto_increment_columns (t_constraints td))) eqn:Em; [|reflexivity]. exfalso.
        unfold mem_str in Em. apply existsb_exists in Em. destruct Em as [y [Iy Hy]]. apply String.eqb_eq in Hy. subst y.
        unfold auto_increment_columns in Iy. apply in_flat_map in Iy. destruct Iy as [k [Ik Iy]].
        destruct k as [[|] pc| | | |]; cbn in Iy; try contradiction.
        destruct (Hk _ Ik) as [Hm _]. cbn [constraint_mentions constraint_columns] in Hm.
        assert (M : mem_str c pc = true) by (unfold mem_str; apply existsb_exists; exists c; split; [exact Iy|apply String.eqb_refl]).
        rewrite M in Hm. discriminate. }
      rewrite Hna. reflexivity. }
    rewrite Hao'. cbn [negb]. rewrite Cs. reflexivity. }
  unfold run. cbn [run_from]. rewrite E. reflexivity.
Qed.
