(* Simulation lemmas for the MYSQL layer: if the engine catalog is the believed one (Sim s c), executing the
   statements generated for one action leaves the believed catalog of the schema after the action — per action
   kind, under the decidable side conditions whose negations are the known-finding classes of Model/Known.v. *)
From VV.MYSQL Require Import Spec.
From Coq Require Import Lia.

(* ---------- catalog_of commutes with the list operations apply_action uses ---------- *)
Lemma tb_name_catalog_of_table : forall td, tb_name (catalog_of_table td) = t_name td.
Proof. reflexivity. Qed.

Lemma find_tb_catalog_of : forall t s,
  find_tb t (catalog_of s) = option_map catalog_of_table (find_table t s).
Proof.
  intros t s. unfold find_tb, find_table, catalog_of. induction s as [|x r IH]; [reflexivity|].
  cbn [map find]. rewrite tb_name_catalog_of_table. destruct (String.eqb (t_name x) t); [reflexivity|exact IH].
Qed.

Lemma has_table_find : forall t s, has_table t s = true -> exists td, find_table t s = Some td.
Proof.
  intros t s. unfold has_table, find_table. induction s as [|x r IH]; cbn [existsb find]; intro H; [discriminate|].
  destruct (String.eqb (t_name x) t); [eexists; reflexivity|]. apply IH. exact H.
Qed.

Lemma filter_catalog_of : forall t s,
  filter (fun x => negb (String.eqb (tb_name x) t)) (catalog_of s)
  = catalog_of (filter (fun td => negb (String.eqb (t_name td) t)) s).
Proof.
  intros t s. unfold catalog_of. induction s as [|x r IH]; [reflexivity|].
  cbn [map filter]. rewrite tb_name_catalog_of_table. destruct (negb (String.eqb (t_name x) t)); cbn [map]; rewrite IH; reflexivity.
Qed.

(* foreign keys of the believed catalog are the FOREIGN KEY constraints of the schema *)
Lemma in_create_fks : forall table ks f,
  In f (create_fks table ks) ->
  exists n cols rt rcols od ou, In (CForeignKey n cols rt rcols od ou) ks /\ f = fk_of_constraint table n cols rt rcols od ou.
Proof.
  intros table ks f H. unfold create_fks in H. apply in_flat_map in H. destruct H as [k [Hk Hf]].
  destruct k; cbn in Hf; try contradiction. destruct Hf as [Hf|[]]. subst f.
  do 6 eexists. split; [exact Hk|reflexivity].
Qed.

Lemma no_inbound_from_others : forall s t,
  referenced_by_other s t = false ->
  existsb (fun tf : string * fkdef => negb (String.eqb (fst tf) t)) (inbound_fks t (catalog_of s)) = false.
Proof.
  intros s t H. destruct (existsb _ (inbound_fks t (catalog_of s))) eqn:E; [|reflexivity].
  exfalso. apply existsb_exists in E. destruct E as [[n f] [Hin Hne]]. cbn [fst] in Hne.
  unfold inbound_fks in Hin. apply in_flat_map in Hin. destruct Hin as [tb [Htb Hin]].
  apply in_map_iff in Hin. destruct Hin as [f' [Heq Hf]]. inversion Heq; subst n f'. clear Heq.
  apply filter_In in Hf. destruct Hf as [Hf Hrt].
  unfold catalog_of in Htb. apply in_map_iff in Htb. destruct Htb as [td [Htd Hs]]. subst tb.
  cbn [catalog_of_table tb_fks tb_name] in *.
  destruct (in_create_fks _ _ _ Hf) as [n [cols [rt [rcols [od [ou [Hk Hfe]]]]]]]. subst f.
  cbn [fk_of_constraint fk_rtable] in Hrt.
  assert (R : referenced_by_other s t = true).
  { unfold referenced_by_other. apply existsb_exists. exists td. split; [exact Hs|].
    rewrite Hne. cbn [andb]. apply existsb_exists. eexists. split; [exact Hk|]. exact Hrt. }
  rewrite R in H. discriminate.
Qed.

(* ---------- DeleteTable ---------- *)
Theorem sim_delete_table : forall s P t s' c,
  Sim s c ->
  apply_action s (DeleteTable t) = Ok s' ->
  referenced_by_other s t = false ->                     (* negation of the class D2 *)
  exists st, gen s P (DeleteTable t) = Ok st /\ run c st = RunOk (catalog_of s').
Proof.
  intros s P t s' c Hsim Ha Href. unfold Sim in Hsim. subst c.
  exists [SDropTable t]. split; [reflexivity|].
  cbn [apply_action] in Ha. destruct (has_table t s) eqn:Ht; [|discriminate]. inversion Ha; subst s'. clear Ha.
  destruct (has_table_find t s Ht) as [td Ftd].
  unfold run. cbn [run_from exec]. unfold with_tb. rewrite find_tb_catalog_of, Ftd. cbn [option_map].
  rewrite (no_inbound_from_others s t Href). rewrite filter_catalog_of. reflexivity.
Qed.
