(* Simulation lemma for CreateTable on MySQL: the CREATE TABLE statement (columns, PRIMARY KEY, inline UNIQUE
   KEYs, FOREIGN KEYs with their implicitly created indexes) followed by the CREATE INDEX statements leaves
   exactly the believed table. *)
From VV.M1 Require Import PrefixStrP.
From VV.MYSQL Require Import SpecCreate ModifyP SimP SimKeysP.
From Coq Require Import Lia.

(* ---------- columns ---------- *)
Lemma force_notnull_nil : forall l, force_notnull [] l = l.
Proof. intro l. unfold force_notnull. induction l as [|x r IH]; [reflexivity|]. cbn [map mem_str existsb]. f_equal. exact IH. Qed.

Lemma cols_create : forall ks cols,
  force_notnull (pkc_of ks) (map mcol_of_def (map (create_coldef ks) cols)) = map (mk_mcol ks) cols.
Proof.
  intros ks cols. unfold force_notnull. rewrite !map_map. apply map_ext. intro c.
  unfold create_coldef, with_pk_auto, sea_coldef, mcol_of_def, mk_mcol, pkc_of.
  cbn [cd_name cd_type cd_notnull cd_default cd_auto mc_name mc_type mc_notnull mc_default mc_auto].
  destruct (mem_str (c_name c) match first_pk ks with Some p => p | None => [] end).
  - rewrite Bool.orb_true_r. reflexivity.
  - rewrite Bool.orb_false_r. reflexivity.
Qed.

Lemma has_mcol_force : forall c p n cs pk idx fks chk,
  has_mcol c (mkMTable n (force_notnull p cs) pk idx fks chk) = has_mcol c (mkMTable n cs pk idx fks chk).
Proof.
  intros. unfold has_mcol, force_notnull. cbn [tb_cols]. rewrite existsb_map. apply existsb_ext_in. intros x _.
  destruct (mem_str (mc_name x) p); reflexivity.
Qed.
Lemma all_cols_exist_force : forall l p n cs pk idx fks chk,
  all_cols_exist l (mkMTable n (force_notnull p cs) pk idx fks chk) = all_cols_exist l (mkMTable n cs pk idx fks chk).
Proof.
  intros. unfold all_cols_exist. induction l as [|x r IH]; [reflexivity|]. cbn [forallb]. rewrite has_mcol_force, IH. reflexivity.
Qed.

(* ---------- the key clauses ---------- *)
Definition mkey_valid (cs : list mcol) (k : table_constraint) : bool :=
  match k with
  | CPrimaryKey _ cols | CUnique _ cols =>
      (nonempty cols && all_cols_exist cols (mkMTable "" cs None [] [] []))%bool
  | _ => true
  end.

Lemma all_cols_exist_indep : forall l n cs pk idx fks chk,
  all_cols_exist l (mkMTable n cs pk idx fks chk) = all_cols_exist l (mkMTable "" cs None [] [] []).
Proof. reflexivity. Qed.

Lemma drop_redundant_nogen : forall cols l, (forall i, In i l -> ix_generated i = false) -> drop_redundant_generated cols l = l.
Proof.
  intros cols l H. unfold drop_redundant_generated. apply filter_all. intros i Hi. rewrite (H i Hi). reflexivity.
Qed.

Lemma insert_unique_only : forall i l,
  ix_unique i = true -> (forall j, In j l -> ix_unique j = true /\ ix_generated j = false) -> insert_index i l = l ++ [i].
Proof.
  intros i l Hi Hl. unfold insert_index. rewrite Hi.
  destruct (segments l [] [] Hl) as [S1 [S2 S3]]; try (intros j []).
  cbn [app] in S1, S2, S3. rewrite app_nil_r in S1, S2, S3. rewrite S1, S2, S3. reflexivity.
Qed.

Lemma add_keys_gen : forall t ks cK pk idx,
  (forall i, In i idx -> ix_unique i = true /\ ix_generated i = false) ->
  match pk with None => Nat.leb (List.length (filter is_pk ks)) 1 = true | Some _ => filter is_pk ks = [] end ->
  forallb (mkey_valid cK) ks = true ->
  nodup_str (map ix_name idx ++ map ix_name (unique_indexes t ks)) = true ->
  mem_str "PRIMARY" (map ix_name (unique_indexes t ks)) = false ->
  add_keys (mkMTable t cK pk idx [] []) (create_keys t ks)
  = Ok (mkMTable t (match pk with Some _ => cK | None => force_notnull (pkc_of ks) cK end)
                 (match pk with Some p => Some p | None => first_pk ks end)
                 (idx ++ unique_indexes t ks) [] []).
Proof.
  intros t ks. induction ks as [|k r IH]; intros cK pk idx Hidx Hpk Hval Hnd Hnp.
  - cbn [create_keys flat_map add_keys unique_indexes]. rewrite app_nil_r.
    destruct pk; [reflexivity|]. unfold pkc_of, first_pk. cbn [filter]. rewrite force_notnull_nil. reflexivity.
  - cbn [forallb] in Hval. apply Bool.andb_true_iff in Hval. destruct Hval as [Hk Hr].
    destruct k as [a pcols|un ucols| | |].
    + (* PRIMARY KEY *)
      destruct pk as [p0|]; [cbn [filter is_pk] in Hpk; discriminate|].
      cbn [filter is_pk List.length] in Hpk.
      assert (Hr0 : filter is_pk r = []).
      { destruct (filter is_pk r) as [|y l]; [reflexivity|]. cbn [List.length] in Hpk. discriminate. }
      cbn [create_keys flat_map app]. fold (create_keys t r). cbn [add_keys]. unfold add_pk. cbn [tb_pk].
      cbn [mkey_valid] in Hk. rewrite all_cols_exist_indep. rewrite Hk. cbn [negb].
      cbn [tb_name tb_cols tb_indexes tb_fks tb_checks].
      rewrite (drop_redundant_nogen pcols idx (fun i Hi => proj2 (Hidx i Hi))).
      rewrite (IH (force_notnull pcols cK) (Some pcols) idx Hidx Hr0).
      * unfold pkc_of, first_pk, unique_indexes. cbn [filter is_pk flat_map app]. reflexivity.
      * clear -Hr. induction r as [|x r IH]; [reflexivity|]. cbn [forallb] in *. apply Bool.andb_true_iff in Hr. destruct Hr as [H1 H2].
        rewrite (IH H2), Bool.andb_true_r. destruct x; cbn [mkey_valid] in *; try reflexivity;
          rewrite <- (all_cols_exist_force _ pcols "" cK None [] [] []) in H1; exact H1.
      * exact Hnd.
      * exact Hnp.
    + (* UNIQUE KEY *)
      cbn [create_keys flat_map app]. fold (create_keys t r). cbn [add_keys]. unfold add_index.
      set (name := build_unique_constraint_name t ucols un).
      cbn [unique_indexes flat_map app map ix_name] in Hnd, Hnp. fold (unique_indexes t r) in Hnd, Hnp. fold name in Hnd, Hnp.
      assert (Hfresh : has_index name (mkMTable t cK pk idx [] []) = false).
      { unfold has_index. cbn [tb_indexes].
        assert (N : mem_str name (map ix_name idx) = false).
        { clear -Hnd. induction idx as [|x l IHl]; [reflexivity|]. cbn [map app nodup_str] in Hnd.
          apply Bool.andb_true_iff in Hnd. destruct Hnd as [H1 H2]. apply Bool.negb_true_iff in H1.
          rewrite mem_str_app in H1. apply Bool.orb_false_iff in H1. destruct H1 as [_ H1].
          unfold mem_str in *. cbn [existsb map] in *. apply Bool.orb_false_iff in H1. destruct H1 as [H1 _].
          rewrite String.eqb_sym, H1. cbn [orb]. apply IHl. exact H2. }
        unfold mem_str in N. rewrite existsb_map in N. rewrite <- N. apply existsb_ext_in. intros i _. apply String.eqb_sym. }
      rewrite Hfresh.
      assert (Hnp1 : String.eqb name "PRIMARY" = false).
      { unfold mem_str in Hnp. cbn [existsb] in Hnp. apply Bool.orb_false_iff in Hnp. destruct Hnp as [H1 _]. rewrite String.eqb_sym. exact H1. }
      rewrite Hnp1. cbn [orb]. cbn [mkey_valid] in Hk. rewrite all_cols_exist_indep, Hk. cbn [negb].
      cbn [tb_name tb_cols tb_pk tb_indexes tb_fks tb_checks].
      rewrite (drop_redundant_nogen ucols idx (fun i Hi => proj2 (Hidx i Hi))).
      rewrite (insert_unique_only (mkMIndex name ucols true false) idx eq_refl Hidx).
      rewrite (IH cK pk (idx ++ [mkMIndex name ucols true false])).
      * unfold pkc_of, first_pk, unique_indexes. cbn [filter is_pk flat_map app]. fold name. rewrite <- app_assoc. reflexivity.
      * intros i Hi. apply in_app_or in Hi. destruct Hi as [Hi|[Hi|[]]]; [apply Hidx; exact Hi|subst i; split; reflexivity].
      * destruct pk; exact Hpk.
      * exact Hr.
      * rewrite map_app. cbn [map ix_name]. rewrite <- app_assoc. exact Hnd.
      * unfold mem_str in *. cbn [existsb] in Hnp. apply Bool.orb_false_iff in Hnp. apply Hnp.
    + cbn [create_keys flat_map app]. fold (create_keys t r).
      rewrite (IH cK pk idx Hidx); try assumption; try (destruct pk; exact Hpk).
      unfold pkc_of, first_pk, unique_indexes. cbn [filter is_pk flat_map app]. reflexivity.
    + cbn [create_keys flat_map app]. fold (create_keys t r).
      rewrite (IH cK pk idx Hidx); try assumption; try (destruct pk; exact Hpk).
      unfold pkc_of, first_pk, unique_indexes. cbn [filter is_pk flat_map app]. reflexivity.
    + cbn [create_keys flat_map app]. fold (create_keys t r).
      rewrite (IH cK pk idx Hidx); try assumption; try (destruct pk; exact Hpk).
      unfold pkc_of, first_pk, unique_indexes. cbn [filter is_pk flat_map app]. reflexivity.
Qed.

(* ---------- the FOREIGN KEY clauses: when the engine accepts them, it adds exactly the implicit indexes that
   generated_indexes computes ---------- *)
Lemma key_col_lists_snoc : forall n cs pk idx fks chk i,
  key_col_lists (mkMTable n cs pk (idx ++ [i]) fks chk) = key_col_lists (mkMTable n cs pk idx fks chk) ++ [ix_cols i].
Proof. intros. unfold key_col_lists. cbn [tb_pk tb_indexes]. rewrite map_app. cbn [map]. rewrite app_assoc. reflexivity. Qed.

Lemma add_fks_result : forall fks tb c tb',
  add_fks tb c fks = Ok tb' ->
  tb' = mkMTable (tb_name tb) (tb_cols tb) (tb_pk tb)
                 (tb_indexes tb ++ generated_indexes (key_col_lists tb) fks) (tb_fks tb ++ fks) (tb_checks tb).
Proof.
  induction fks as [|f r IH]; intros tb c tb' H.
  - cbn [add_fks] in H. inversion H; subst. cbn [generated_indexes]. rewrite !app_nil_r. destruct tb' as [n cs pk idx fk0 chk]; reflexivity.
  - cbn [add_fks] in H. destruct (add_fk tb c f) as [t1|e] eqn:A; [|discriminate].
    unfold add_fk in A.
    destruct (mem_str (fk_name f) (all_fk_names c) || mem_str (fk_name f) (map fk_name (tb_fks tb)))%bool; [discriminate|].
    destruct (negb (nonempty (fk_cols f) && Nat.eqb (List.length (fk_cols f)) (List.length (fk_rcols f)))%bool); [discriminate|].
    destruct (negb (all_cols_exist (fk_cols f) tb)); [discriminate|].
    destruct (if String.eqb (fk_rtable f) (tb_name tb) then Some tb else find_tb (fk_rtable f) c) as [rt|]; [|discriminate].
    destruct (negb (all_cols_exist (fk_rcols f) rt)); [discriminate|].
    destruct (negb (covered (fk_rcols f) rt)); [discriminate|].
    inversion A; subst t1. clear A.
    rewrite (IH _ c tb' H). cbn [tb_name tb_cols tb_pk tb_indexes tb_fks tb_checks].
    cbn [generated_indexes]. unfold covered.
    destruct (nonempty (fk_cols f) && existsb (is_prefix (fk_cols f)) (key_col_lists tb))%bool eqn:Cv.
    + destruct tb as [n cs pk idx fk0 chk]. cbn [tb_name tb_cols tb_pk tb_indexes tb_fks tb_checks]. rewrite <- app_assoc. reflexivity.
    + destruct tb as [n cs pk idx fk0 chk]. cbn [tb_name tb_cols tb_pk tb_indexes tb_fks tb_checks].
      rewrite key_col_lists_snoc. cbn [ix_cols]. rewrite <- !app_assoc. reflexivity.
Qed.

(* ---------- repeated key additions and the implicit indexes ---------- *)
Lemma generated_add_keys : forall pcs K fks,
  forallb (fun f => nonempty (fk_cols f)) fks = true ->
  generated_indexes (K ++ pcs) fks
  = fold_left (fun g c => drop_redundant_generated c g) pcs (generated_indexes K fks).
Proof.
  induction pcs as [|c r IH]; intros K fks Hne.
  - rewrite app_nil_r. reflexivity.
  - cbn [fold_left]. change (K ++ c :: r) with (K ++ [c] ++ r). rewrite app_assoc. rewrite (IH (K ++ [c]) fks Hne). f_equal.
    apply generated_add_key; [exact Hne|]. intro x. rewrite existsb_app. cbn [existsb]. rewrite Bool.orb_false_r. reflexivity.
Qed.

Lemma fold_drop_generated : forall pcs G i,
  In i (fold_left (fun g c => drop_redundant_generated c g) pcs G) -> In i G.
Proof.
  induction pcs as [|c r IH]; intros G i H; [exact H|]. cbn [fold_left] in H. apply IH in H.
  unfold drop_redundant_generated in H. apply filter_In in H. apply H.
Qed.

(* ---------- auto column ---------- *)
Lemma auto_by_pk_ok : forall n cs pk idx fks chk idx' fks' chk',
  auto_by_pk (mkMTable n cs pk idx fks chk) = true -> auto_ok (mkMTable n cs pk idx' fks' chk') = true.
Proof.
  intros n cs pk idx fks chk idx' fks' chk' H. unfold auto_by_pk, auto_ok in *. cbn [tb_cols tb_pk] in *.
  destruct (filter mc_auto cs) as [|a [|b l]]; try reflexivity; try discriminate.
  destruct pk as [[|x p]|]; try discriminate. unfold key_col_lists. cbn [tb_pk tb_indexes app existsb]. rewrite H. reflexivity.
Qed.

(* ---------- the CREATE INDEX statements that follow CREATE TABLE ---------- *)
Lemma find_tb_last : forall t cat tb, has_tb t cat = false -> tb_name tb = t -> find_tb t (cat ++ [tb]) = Some tb.
Proof.
  intros t cat tb H Hn. unfold has_tb, find_tb in *. induction cat as [|x r IH]; cbn [app find] in *.
  - rewrite Hn, String.eqb_refl. reflexivity.
  - destruct (String.eqb (tb_name x) t); [discriminate|]. apply IH. exact H.
Qed.
Lemma replace_tb_last : forall t cat tb tb', has_tb t cat = false -> tb_name tb = t ->
  replace_tb tb' t (cat ++ [tb]) = cat ++ [tb'].
Proof.
  intros t cat tb tb' H Hn. unfold has_tb, find_tb, replace_tb in *. induction cat as [|x r IH]; cbn [app map find] in *.
  - rewrite Hn, String.eqb_refl. reflexivity.
  - destruct (String.eqb (tb_name x) t); [discriminate|]. f_equal. apply IH. exact H.
Qed.

Definition plain_cols (ks : list table_constraint) : list (list string) :=
  flat_map (fun k => match k with CIndex _ cols => [cols] | _ => [] end) ks.

Lemma plain_cols_map : forall t ks, map ix_cols (plain_indexes t ks) = plain_cols ks.
Proof.
  intros t ks. unfold plain_indexes, plain_cols. induction ks as [|k r IH]; [reflexivity|].
  cbn [flat_map]. rewrite map_app, IH. destruct k; reflexivity.
Qed.

Lemma mem_names_filter : forall nm (p : mindex -> bool) l,
  mem_str nm (map ix_name l) = false -> mem_str nm (map ix_name (filter p l)) = false.
Proof.
  intros nm p l. unfold mem_str. induction l as [|x r IH]; intro H; [reflexivity|].
  cbn [map existsb] in H. apply Bool.orb_false_iff in H. destruct H as [H1 H2].
  cbn [filter]. destruct (p x); cbn [map existsb]; [rewrite H1|]; apply IH; exact H2.
Qed.

Lemma run_create_indexes : forall t ks cat cs pk U PlK G fks chk,
  has_tb t cat = false ->
  (forall i, In i U -> ix_unique i = true /\ ix_generated i = false) ->
  (forall i, In i PlK -> ix_unique i = false /\ ix_generated i = false) ->
  (forall i, In i G -> ix_generated i = true) ->
  forallb (fun k => match k with CIndex _ cols => (nonempty cols && all_cols_exist cols (mkMTable "" cs None [] [] []))%bool | _ => true end) ks = true ->
  nodup_str (map ix_name (plain_indexes t ks)) = true ->
  forallb (fun nm => negb (mem_str nm (map ix_name (U ++ PlK ++ G)))) (map ix_name (plain_indexes t ks)) = true ->
  mem_str "PRIMARY" (map ix_name (plain_indexes t ks)) = false ->
  auto_by_pk (mkMTable t cs pk [] [] []) = true ->
  run (cat ++ [mkMTable t cs pk (U ++ PlK ++ G) fks chk]) (create_indexes t ks)
  = RunOk (cat ++ [mkMTable t cs pk (U ++ (PlK ++ plain_indexes t ks)
                                      ++ fold_left (fun g c => drop_redundant_generated c g) (plain_cols ks) G) fks chk]).
Proof.
  intros t ks. induction ks as [|k r IH]; intros cat cs pk U PlK G fks chk Hcat HU HP HG Hval Hdist Hdisj Hnp Hauto.
  - cbn [create_indexes flat_map plain_indexes plain_cols fold_left]. rewrite app_nil_r. reflexivity.
  - cbn [forallb] in Hval. apply Bool.andb_true_iff in Hval. destruct Hval as [Hk Hr].
    destruct k as [| | | |inn icols];
      try (cbn [create_indexes flat_map app plain_indexes plain_cols] in *; apply IH; assumption).
    cbn [create_indexes flat_map app]. fold (create_indexes t r).
    set (name := build_index_name t icols inn).
    cbn [plain_indexes flat_map app map ix_name] in Hdist, Hdisj, Hnp. fold (plain_indexes t r) in Hdist, Hdisj, Hnp. fold name in Hdist, Hdisj, Hnp.
    cbn [nodup_str] in Hdist. apply Bool.andb_true_iff in Hdist. destruct Hdist as [Hnew Hdist]. apply Bool.negb_true_iff in Hnew.
    cbn [forallb] in Hdisj. apply Bool.andb_true_iff in Hdisj. destruct Hdisj as [Hfr Hdisj]. apply Bool.negb_true_iff in Hfr.
    set (new := mkMIndex name icols false false).
    set (G' := drop_redundant_generated icols G).
    assert (HG' : forall i, In i G' -> ix_generated i = true).
    { intros i Hi. unfold G', drop_redundant_generated in Hi. apply filter_In in Hi. apply HG. apply Hi. }
    assert (E : exec (cat ++ [mkMTable t cs pk (U ++ PlK ++ G) fks chk]) (SCreateIndex false name t icols)
                = Ok (cat ++ [mkMTable t cs pk (U ++ (PlK ++ [new]) ++ G') fks chk])).
    { cbn [exec]. unfold with_tb. rewrite (find_tb_last t cat (mkMTable t cs pk (U ++ PlK ++ G) fks chk) Hcat eq_refl). unfold set_tb, add_index.
      assert (Hfresh : has_index name (mkMTable t cs pk (U ++ PlK ++ G) fks chk) = false).
      { unfold has_index. cbn [tb_indexes]. unfold mem_str in Hfr. rewrite existsb_map in Hfr. rewrite <- Hfr.
        apply existsb_ext_in. intros i _. apply String.eqb_sym. }
      rewrite Hfresh.
      assert (Hnp1 : String.eqb name "PRIMARY" = false).
      { unfold mem_str in Hnp. cbn [existsb] in Hnp. apply Bool.orb_false_iff in Hnp. destruct Hnp as [H1 _]. rewrite String.eqb_sym. exact H1. }
      rewrite Hnp1. cbn [orb]. rewrite all_cols_exist_indep, Hk. cbn [negb].
      cbn [tb_name tb_cols tb_pk tb_indexes tb_fks tb_checks].
      rewrite (drop_redundant_segments icols U PlK G (fun i Hi => proj2 (HU i Hi)) (fun i Hi => proj2 (HP i Hi))). fold G'.
      destruct (segments U PlK G' HU HP HG') as [S1 [S2 S3]].
      unfold insert_index. cbn [ix_unique]. rewrite S1, S2, S3.
      rewrite (replace_tb_last t cat (mkMTable t cs pk (U ++ PlK ++ G) fks chk) _ Hcat eq_refl). rewrite <- !app_assoc. reflexivity. }
    unfold run. cbn [run_from]. rewrite E.
    assert (R := IH cat cs pk U (PlK ++ [new]) G' fks chk Hcat HU).
    unfold run in R. erewrite run_from_ok_shift; [reflexivity|].
    rewrite R; clear R.
    + cbn [plain_indexes flat_map app plain_cols fold_left]. fold (plain_indexes t r). fold (plain_cols r). fold name. fold new. fold G'.
      rewrite <- !app_assoc. reflexivity.
    + intros i Hi. apply in_app_or in Hi. destruct Hi as [Hi|[Hi|[]]]; [apply HP; exact Hi|subst i; split; reflexivity].
    + exact HG'.
    + exact Hr.
    + exact Hdist.
    + (* the remaining names are still new: not the one just created, and G' is a sublist of G *)
      apply forallb_forall. intros nm Hnm. rewrite forallb_forall in Hdisj. specialize (Hdisj nm Hnm).
      apply Bool.negb_true_iff in Hdisj. apply Bool.negb_true_iff.
      rewrite !map_app, !mem_str_app in *. cbn [map ix_name mem_str existsb] in *.
      apply Bool.orb_false_iff in Hdisj. destruct Hdisj as [D1 D2]. apply Bool.orb_false_iff in D2. destruct D2 as [D2 D3].
      rewrite D1, D2. cbn [orb].
      assert (Ne : String.eqb nm name = false).
      { destruct (String.eqb nm name) eqn:En; [|reflexivity]. apply String.eqb_eq in En. subst nm.
        unfold mem_str in Hnew. assert (T : existsb (String.eqb name) (map ix_name (plain_indexes t r)) = true).
        { apply existsb_exists. exists name. split; [exact Hnm|apply String.eqb_refl]. }
        rewrite T in Hnew. discriminate. }
      change (ix_name new) with name. rewrite Ne. cbn [orb].
      apply mem_names_filter. exact D3.
    + unfold mem_str in *. cbn [existsb] in Hnp. apply Bool.orb_false_iff in Hnp. apply Hnp.
    + exact Hauto.
Qed.

(* ---------- small facts for the main theorem ---------- *)
Lemma has_table_false_find : forall t s, has_table t s = false -> find_table t s = None.
Proof.
  intros t s. unfold has_table, find_table. induction s as [|x r IH]; cbn [existsb find]; intro H; [reflexivity|].
  apply Bool.orb_false_iff in H. destruct H as [H1 H2]. rewrite H1. apply IH. exact H2.
Qed.

Lemma nodup_app_l : forall a b, nodup_str (a ++ b) = true -> nodup_str a = true.
Proof.
  induction a as [|x r IH]; intros b H; [reflexivity|]. cbn [app nodup_str] in *.
  apply Bool.andb_true_iff in H. destruct H as [H1 H2]. apply Bool.negb_true_iff in H1. rewrite mem_str_app in H1.
  apply Bool.orb_false_iff in H1. destruct H1 as [H1 _]. rewrite H1. cbn [negb andb]. eapply IH. exact H2.
Qed.
Lemma nodup_app_r : forall a b, nodup_str (a ++ b) = true -> nodup_str b = true.
Proof.
  induction a as [|x r IH]; intros b H; [exact H|]. cbn [app nodup_str] in H.
  apply Bool.andb_true_iff in H. destruct H as [_ H2]. eapply IH. exact H2.
Qed.
Lemma nodup_app_disj : forall a b x, nodup_str (a ++ b) = true -> In x b -> mem_str x a = false.
Proof.
  induction a as [|y r IH]; intros b x H Hx; [reflexivity|]. cbn [app nodup_str] in H.
  apply Bool.andb_true_iff in H. destruct H as [H1 H2]. apply Bool.negb_true_iff in H1. rewrite mem_str_app in H1.
  apply Bool.orb_false_iff in H1. destruct H1 as [_ H1].
  unfold mem_str. cbn [existsb]. fold (mem_str x r). rewrite (IH b x H2 Hx), Bool.orb_false_r.
  destruct (String.eqb x y) eqn:E; [|reflexivity]. apply String.eqb_eq in E. subst y.
  assert (M : mem_str x b = true) by (unfold mem_str; apply existsb_exists; exists x; split; [exact Hx|apply String.eqb_refl]).
  rewrite M in H1. discriminate.
Qed.

Lemma generated_names_from_fks : forall nm K fks,
  mem_str nm (map fk_name fks) = false -> mem_str nm (map ix_name (generated_indexes K fks)) = false.
Proof.
  intros nm K fks. revert K. induction fks as [|f r IH]; intros K H; [reflexivity|].
  unfold mem_str in H. cbn [map existsb] in H. apply Bool.orb_false_iff in H. destruct H as [H1 H2].
  cbn [generated_indexes]. destruct (nonempty (fk_cols f) && existsb (is_prefix (fk_cols f)) K)%bool; [apply IH; exact H2|].
  unfold mem_str. cbn [map existsb ix_name]. rewrite H1. cbn [orb]. apply IH. exact H2.
Qed.

Lemma checks_of_none : forall ks, existsb is_check ks = false -> checks_of ks = [].
Proof.
  induction ks as [|k r IH]; intro H; [reflexivity|]. cbn [existsb] in H. apply Bool.orb_false_iff in H. destruct H as [H1 H2].
  unfold checks_of. cbn [flat_map]. fold (checks_of r). rewrite (IH H2). destruct k; try reflexivity. discriminate.
Qed.

Lemma cols_exist_names : forall l ks cols,
  all_cols_exist l (mkMTable "" (map mcol_of_def (map (create_coldef ks) cols)) None [] [] [])
  = forallb (fun c => mem_str c (map c_name cols)) l.
Proof.
  intros l ks cols. unfold all_cols_exist. induction l as [|c r IH]; [reflexivity|]. cbn [forallb]. rewrite IH. f_equal.
  unfold has_mcol, mem_str. cbn [tb_cols].
  rewrite !existsb_map. apply existsb_ext_in. intros x _. cbn. apply String.eqb_sym.
Qed.

(* ---------- CreateTable ---------- *)
Theorem sim_create_table : forall s a, create_table_sim_hyp s a = true -> action_sim s a.
Proof.
  intros s a H s' Ha P. unfold create_table_sim_hyp in H.
  destruct a as [t cols ks0|tb|tb cl fw|tb f2 t2|tb cn|tb cn ty fw|tb cn nl fw|tb cn nd|tb cn nc|tb k|tb k|f2 t2|sql]; try discriminate.
  destruct (normalize (mkTable t None cols ks0)) as [n|e] eqn:N; [|discriminate].
  pose proof (normalize_shape _ _ N) as Hn. cbn [t_name t_description t_columns] in Hn.
  set (ks := t_constraints n) in *.
  cbn zeta in H.
  apply Bool.andb_true_iff in H; destruct H as [H Hauto].
  apply Bool.andb_true_iff in H; destruct H as [H Hfks].
  apply Bool.andb_true_iff in H; destruct H as [H Hfkdisj].
  apply Bool.andb_true_iff in H; destruct H as [H Hnoprim].
  apply Bool.andb_true_iff in H; destruct H as [H Hnames].
  apply Bool.andb_true_iff in H; destruct H as [H Hcne].
  apply Bool.andb_true_iff in H; destruct H as [H Hkv].
  apply Bool.andb_true_iff in H; destruct H as [H Hnochk].
  apply Bool.andb_true_iff in H; destruct H as [H Hinl].
  apply Bool.andb_true_iff in H; destruct H as [H Honepk].
  apply Bool.andb_true_iff in H; destruct H as [Hnt Hndc].
  apply Bool.negb_true_iff in Hnt. apply Bool.negb_true_iff in Hnochk. apply Bool.negb_true_iff in Hnoprim.
  (* the schema after *)
  cbn [apply_action] in Ha. rewrite Hnt, N in Ha. inversion Ha; subst s'. clear Ha.
  assert (Cs : catalog_of (s ++ [n]) = catalog_of s ++ [catalog_of_table n]) by (unfold catalog_of; rewrite map_app; reflexivity).
  (* the statements *)
  cbn [gen]. unfold gen_create_table. rewrite N. fold ks.
  assert (Hcn : t_columns n = cols) by (rewrite Hn; reflexivity). rewrite Hcn.
  eexists. split; [reflexivity|].
  set (cat := catalog_of s).
  assert (Hcat : has_tb t cat = false).
  { unfold has_tb, cat. rewrite find_tb_catalog_of, (has_table_false_find t s Hnt). reflexivity. }
  set (U := unique_indexes t ks). set (Pl := plain_indexes t ks). set (fks := create_fks t ks).
  set (pkl := match first_pk ks with Some p => [p] | None => [] end).
  set (cols1 := map (mk_mcol ks) cols).
  set (G0 := generated_indexes (pkl ++ map ix_cols U) fks).
  set (t2 := mkMTable t cols1 (first_pk ks) (U ++ G0) fks []).
  assert (HU : forall i, In i U -> ix_unique i = true /\ ix_generated i = false) by (intros; eapply unique_indexes_shape; eassumption).
  assert (HG0 : forall i, In i G0 -> ix_generated i = true) by (intros; eapply generated_all_generated; eassumption).
  assert (Hnm : nodup_str (map ix_name U ++ map ix_name Pl) = true) by (rewrite <- map_app; exact Hnames).
  (* CREATE TABLE *)
  assert (E1 : exec cat (SCreateTable t (map (create_coldef ks) cols) (create_keys t ks) fks []) = Ok (cat ++ [t2])).
  { cbn [exec]. rewrite Hcat.
    assert (Hnd2 : nodup_str (map cd_name (map (create_coldef ks) cols)) = true).
    { rewrite map_map. rewrite (map_ext (fun x => cd_name (create_coldef ks x)) c_name) by (intro; reflexivity). exact Hndc. }
    rewrite Hnd2. cbn [negb].
    assert (Hspec : forallb auto_spec_ok (map (create_coldef ks) cols) = true).
    { apply forallb_forall. intros d Hd. apply in_map_iff in Hd. destruct Hd as [x [Hx _]]. subst d.
      unfold auto_spec_ok, create_coldef, with_pk_auto, sea_coldef. cbn [cd_auto cd_type].
      destruct (mem_str (c_name x) (auto_increment_columns ks)); [|reflexivity]. cbn [andb].
      destruct (supports_auto_increment (c_type x)) eqn:Es; [|reflexivity]. rewrite (supports_auto_type_ok _ Es). reflexivity. }
    rewrite Hspec. cbn [negb].
    assert (Hip : filter cd_pk (map (create_coldef ks) cols) = []).
    { apply filter_none. intros x Hx. apply in_map_iff in Hx. destruct Hx as [c [Hc Ic]]. subst x.
      rewrite forallb_forall in Hinl. apply Bool.negb_true_iff. apply Hinl. exact Ic. }
    rewrite Hip. cbn [map app].
    rewrite (add_keys_gen t ks (map mcol_of_def (map (create_coldef ks) cols)) None []).
    - cbn [app]. rewrite cols_create. fold cols1. fold U.
      assert (Hfk2 : add_fks (mkMTable t cols1 (first_pk ks) U [] []) cat fks
                     = Ok t2).
      { unfold table_after_keys in Hfks. rewrite Hn in Hfks. cbn [t_name t_constraints] in Hfks. fold ks U in Hfks.
        change (tb_cols (catalog_of_table (mkTable t None cols ks))) with cols1 in Hfks. fold cat fks in Hfks.
        destruct (add_fks (mkMTable t cols1 (first_pk ks) U [] []) cat fks) as [tx|ex] eqn:A; [|discriminate].
        rewrite (add_fks_result _ _ _ _ A). cbn [tb_name tb_cols tb_pk tb_indexes tb_fks tb_checks app].
        unfold key_col_lists. cbn [tb_pk tb_indexes]. fold pkl. fold G0. reflexivity. }
      rewrite Hfk2. cbn [add_checks].
      assert (Hao : auto_ok t2 = true).
      { unfold t2. eapply auto_by_pk_ok. unfold catalog_of_table in Hauto. rewrite Hn in Hauto. cbn [t_name t_columns t_constraints] in Hauto.
        fold ks in Hauto. exact Hauto. }
      rewrite Hao. reflexivity.
    - intros i [].
    - exact Honepk.
    - apply forallb_forall. intros k Ik. rewrite forallb_forall in Hkv. specialize (Hkv k Ik).
      destruct k; cbn [mkey_valid key_valid] in *; try reflexivity; rewrite cols_exist_names; exact Hkv.
    - cbn [map app]. eapply nodup_app_l. exact Hnm.
    - unfold mem_str in *. rewrite map_app, existsb_app in Hnoprim. apply Bool.orb_false_iff in Hnoprim. apply Hnoprim. }
  (* CREATE INDEX ... *)
  assert (E2 : run (cat ++ [t2]) (create_indexes t ks)
               = RunOk (cat ++ [mkMTable t cols1 (first_pk ks)
                                         (U ++ ([] ++ Pl) ++ fold_left (fun g c => drop_redundant_generated c g) (plain_cols ks) G0) fks []])).
  { unfold t2. change (U ++ G0) with (U ++ [] ++ G0).
    apply run_create_indexes; try assumption.
    - intros i [].
    - apply forallb_forall. intros k Ik. rewrite forallb_forall in Hkv. specialize (Hkv k Ik).
      destruct k; cbn [key_valid] in *; try reflexivity.
      unfold cols1. apply Bool.andb_true_iff in Hkv. destruct Hkv as [K1 K2]. rewrite K1. cbn [andb].
      unfold all_cols_exist. rewrite forallb_forall in K2. apply forallb_forall. intros c Ic. specialize (K2 c Ic).
      unfold has_mcol. cbn [tb_cols]. rewrite existsb_map. unfold mem_str in K2. rewrite existsb_map in K2. rewrite <- K2.
      apply existsb_ext_in. intros x _. rewrite mc_name_mk. apply String.eqb_sym.
    - eapply nodup_app_r. exact Hnm.
    - apply forallb_forall. intros nm Inm. apply Bool.negb_true_iff. cbn [app]. rewrite map_app, mem_str_app.
      rewrite (nodup_app_disj _ _ nm Hnm Inm). cbn [orb].
      apply generated_names_from_fks. rewrite forallb_forall in Hfkdisj. apply Bool.negb_true_iff. apply Hfkdisj. exact Inm.
    - unfold mem_str in *. rewrite map_app, existsb_app in Hnoprim. apply Bool.orb_false_iff in Hnoprim. apply Hnoprim.
    - unfold catalog_of_table in Hauto. rewrite Hn in Hauto. cbn [t_name t_columns t_constraints] in Hauto. fold ks in Hauto.
      unfold auto_by_pk in *. cbn [tb_cols tb_pk] in *. exact Hauto. }
  (* the believed table *)
  assert (Hbel : catalog_of_table n
                 = mkMTable t cols1 (first_pk ks) (U ++ ([] ++ Pl) ++ fold_left (fun g c => drop_redundant_generated c g) (plain_cols ks) G0) fks []).
  { rewrite Hn. unfold catalog_of_table. cbn [t_name t_columns t_constraints]. fold ks.
    change (map (fun c => mkMCol (c_name c) (mysql_type_text (c_type c))
                            (negb (c_nullable c) || mem_str (c_name c) match first_pk ks with Some p => p | None => [] end)
                            (option_map (mysql_default_text (c_type c)) (c_default c))
                            (mem_str (c_name c) (auto_increment_columns ks) && supports_auto_increment (c_type c))) cols)
      with cols1.
    fold fks pkl. unfold explicit_indexes. fold U Pl.
    change (flat_map (fun k => match k with CCheck n0 e => [(n0, e)] | _ => [] end) ks) with (checks_of ks).
    rewrite (checks_of_none ks Hnochk).
    rewrite map_app. change (map ix_cols Pl) with (map ix_cols (plain_indexes t ks)). rewrite (plain_cols_map t ks), app_assoc.
    rewrite (generated_add_keys (plain_cols ks) (pkl ++ map ix_cols U) fks).
    - fold G0. cbn [app]. rewrite <- app_assoc. reflexivity.
    - apply forallb_forall. intros f If. unfold fks in If. destruct (in_create_fks _ _ _ If) as [fn [fc [rt [rc [od [ou [Ik Hfe]]]]]]]. subst f.
      cbn [fk_of_constraint fk_cols]. rewrite forallb_forall in Hcne. specialize (Hcne _ Ik). cbn [constraint_nonempty] in Hcne.
      apply Bool.andb_true_iff in Hcne. apply Hcne. }
  unfold run. cbn [run_from]. rewrite E1.
  unfold run in E2. erewrite run_from_ok_shift; [reflexivity|]. rewrite E2. rewrite Cs, Hbel. reflexivity.
Qed.
