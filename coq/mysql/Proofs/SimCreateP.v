(* Simulation lemma for CreateTable on MySQL: the CREATE TABLE statement (columns, PRIMARY KEY, inline UNIQUE
   KEYs, FOREIGN KEYs with their implicitly created indexes) followed by the CREATE INDEX statements leaves
   exactly the believed table. *)
From VV.M1 Require Import PrefixStrP.
From VV.MYSQL Require Import SpecCreate ModifyP SimP SimKeysP.
From Coq Require Import Lia.

(* ---------- columns ---------- *)
Lemma force_notnull_nil : forall l, force_notnull [] l = l.
Proof. intro l. unfold force_notnull. induction l as [|x r IH]; [reflexivity|]. cbn [map mem_str existsb]. f_equal. exact IH. Qed.

Lemma cols_create : forall ks cols,
  force_notnull (pkc_of ks) (map mcol_of_def (map (create_coldef ks) cols)) = map (mk_mcol ks) cols.
Proof.
  intros ks cols. unfold force_notnull. rewrite !map_map. apply map_ext. intro c.
  unfold create_coldef, with_pk_auto, sea_coldef, mcol_of_def, mk_mcol, pkc_of.
  cbn [cd_name cd_type cd_notnull cd_default cd_auto mc_name mc_type mc_notnull mc_default mc_auto].
  destruct (mem_str (c_name c) match first_pk ks with Some p => p | None => [] end).
  - rewrite Bool.orb_true_r. reflexivity.
  - rewrite Bool.orb_false_r. reflexivity.
Qed.

Lemma has_mcol_force : forall c p n cs pk idx fks chk,
  has_mcol c (mkMTable n (force_notnull p cs) pk idx fks chk) = has_mcol c (mkMTable n cs pk idx fks chk).
Proof.
  intros. unfold has_mcol, force_notnull. cbn [tb_cols]. rewrite existsb_map. apply existsb_ext_in. intros x _.
  destruct (mem_str (mc_name x) p); reflexivity.
Qed.
Lemma all_cols_exist_force : forall l p n cs pk idx fks chk,
  all_cols_exist l (mkMTable n (force_notnull p cs) pk idx fks chk) = all_cols_exist l (mkMTable n cs pk idx fks chk).
Proof.
  intros. unfold all_cols_exist. induction l as [|x r IH]; [reflexivity|]. cbn [forallb]. rewrite has_mcol_force, IH. reflexivity.
Qed.

(* ---------- the key clauses ---------- *)
Definition mkey_valid (cs : list mcol) (k : table_constraint) : bool :=
  match k with
  | CPrimaryKey _ cols | CUnique _ cols =>
      (nonempty cols && all_cols_exist cols (mkMTable "" cs None [] [] []))%bool
  | _ => true
  end.

Lemma all_cols_exist_indep : forall l n cs pk idx fks chk,
  all_cols_exist l (mkMTable n cs pk idx fks chk) = all_cols_exist l (mkMTable "" cs None [] [] []).
Proof. reflexivity. Qed.

Lemma drop_redundant_nogen : forall cols l, (forall i, In i l -> ix_generated i = false) -> drop_redundant_generated cols l = l.
Proof.
  intros cols l H. unfold drop_redundant_generated. apply filter_all. intros i Hi. rewrite (H i Hi). reflexivity.
Qed.

Lemma insert_unique_only : forall i l,
  ix_unique i = true -> (forall j, In j l -> ix_unique j = true /\ ix_generated j = false) -> insert_index i l = l ++ [i].
Proof.
  intros i l Hi Hl. unfold insert_index. rewrite Hi.
  destruct (segments l [] [] Hl) as [S1 [S2 S3]]; try (intros j []).
  cbn [app] in S1, S2, S3. rewrite app_nil_r in S1, S2, S3. rewrite S1, S2, S3. reflexivity.
Qed.

Lemma add_keys_gen : forall t ks cK pk idx,
  (forall i, In i idx -> ix_unique i = true /\ ix_generated i = false) ->
  match pk with None => Nat.leb (List.length (filter is_pk ks)) 1 = true | Some _ => filter is_pk ks = [] end ->
  forallb (mkey_valid cK) ks = true ->
  nodup_str (map ix_name idx ++ map ix_name (unique_indexes t ks)) = true ->
  mem_str "PRIMARY" (map ix_name (unique_indexes t ks)) = false ->
  add_keys (mkMTable t cK pk idx [] []) (create_keys t ks)
  = Ok (mkMTable t (match pk with Some _ => cK | None => force_notnull (pkc_of ks) cK end)
                 (match pk with Some p => Some p | None => first_pk ks end)
                 (idx ++ unique_indexes t ks) [] []).
Proof.
  intros t ks. induction ks as [|k r IH]; intros cK pk idx Hidx Hpk Hval Hnd Hnp.
  - cbn [create_keys flat_map add_keys unique_indexes]. rewrite app_nil_r.
    destruct pk; [reflexivity|]. unfold pkc_of, first_pk. cbn [filter]. rewrite force_notnull_nil. reflexivity.
  - cbn [forallb] in Hval. apply Bool.andb_true_iff in Hval. destruct Hval as [Hk Hr].
    destruct k as [a pcols|un ucols| | |].
    + (* PRIMARY KEY *)
      destruct pk as [p0|]; [cbn [filter is_pk] in Hpk; discriminate|].
      cbn [filter is_pk List.length] in Hpk.
      assert (Hr0 : filter is_pk r = []).
      { destruct (filter is_pk r) as [|y l]; [reflexivity|]. cbn [List.length] in Hpk. discriminate. }
      cbn [create_keys flat_map app]. fold (create_keys t r). cbn [add_keys]. unfold add_pk. cbn [tb_pk].
      cbn [mkey_valid] in Hk. rewrite all_cols_exist_indep. rewrite Hk. cbn [negb].
      cbn [tb_name tb_cols tb_indexes tb_fks tb_checks].
      rewrite (drop_redundant_nogen pcols idx (fun i Hi => proj2 (Hidx i Hi))).
      rewrite (IH (force_notnull pcols cK) (Some pcols) idx Hidx Hr0).
      * unfold pkc_of, first_pk, unique_indexes. cbn [filter is_pk flat_map app]. reflexivity.
      * clear -Hr. induction r as [|x r IH]; [reflexivity|]. cbn [forallb] in *. apply Bool.andb_true_iff in Hr. destruct Hr as [H1 H2].
        rewrite (IH H2), Bool.andb_true_r. destruct x; cbn [mkey_valid] in *; try reflexivity;
          rewrite <- (all_cols_exist_force _ pcols "" cK None [] [] []) in H1; exact H1.
      * exact Hnd.
      * exact Hnp.
    + (* UNIQUE KEY *)
      cbn [create_keys flat_map app]. fold (create_keys t r). cbn [add_keys]. unfold add_index.
      set (name := build_unique_constraint_name t ucols un).
      cbn [unique_indexes flat_map app map ix_name] in Hnd, Hnp. fold (unique_indexes t r) in Hnd, Hnp. fold name in Hnd, Hnp.
      assert (Hfresh : has_index name (mkMTable t cK pk idx [] []) = false).
      { unfold has_index. cbn [tb_indexes].
        assert (N : mem_str name (map ix_name idx) = false).
        { clear -Hnd. induction idx as [|x l IHl]; [reflexivity|]. cbn [map app nodup_str] in Hnd.
          apply Bool.andb_true_iff in Hnd. destruct Hnd as [H1 H2]. apply Bool.negb_true_iff in H1.
          rewrite mem_str_app in H1. apply Bool.orb_false_iff in H1. destruct H1 as [_ H1].
          unfold mem_str in *. cbn [existsb map] in *. apply Bool.orb_false_iff in H1. destruct H1 as [H1 _].
          rewrite String.eqb_sym, H1. cbn [orb]. apply IHl. exact H2. }
        unfold mem_str in N. rewrite existsb_map in N. rewrite <- N. apply existsb_ext_in. intros i _. apply String.eqb_sym. }
      rewrite Hfresh.
      assert (Hnp1 : String.eqb name "PRIMARY" = false).
      { unfold mem_str in Hnp. cbn [existsb] in Hnp. apply Bool.orb_false_iff in Hnp. destruct Hnp as [H1 _]. rewrite String.eqb_sym. exact H1. }
      rewrite Hnp1. cbn [orb]. cbn [mkey_valid] in Hk. rewrite all_cols_exist_indep, Hk. cbn [negb].
      cbn [tb_name tb_cols tb_pk tb_indexes tb_fks tb_checks].
      rewrite (drop_redundant_nogen ucols idx (fun i Hi => proj2 (Hidx i Hi))).
      rewrite (insert_unique_only (mkMIndex name ucols true false) idx eq_refl Hidx).
      rewrite (IH cK pk (idx ++ [mkMIndex name ucols true false])).
      * unfold pkc_of, first_pk, unique_indexes. cbn [filter is_pk flat_map app]. fold name. rewrite <- app_assoc. reflexivity.
      * intros i Hi. apply in_app_or in Hi. destruct Hi as [Hi|[Hi|[]]]; [apply Hidx; exact Hi|subst i; split; reflexivity].
      * destruct pk; exact Hpk.
      * exact Hr.
      * rewrite map_app. cbn [map ix_name]. rewrite <- app_assoc. exact Hnd.
      * unfold mem_str in *. cbn [existsb] in Hnp. apply Bool.orb_false_iff in Hnp. apply Hnp.
    + cbn [create_keys flat_map app]. fold (create_keys t r).
      rewrite (IH cK pk idx Hidx); try assumption; try (destruct pk; exact Hpk).
      unfold pkc_of, first_pk, unique_indexes. cbn [filter is_pk flat_map app]. reflexivity.
    + cbn [create_keys flat_map app]. fold (create_keys t r).
      rewrite (IH cK pk idx Hidx); try assumption; try (destruct pk; exact Hpk).
      unfold pkc_of, first_pk, unique_indexes. cbn [filter is_pk flat_map app]. reflexivity.
    + cbn [create_keys flat_map app]. fold (create_keys t r).
      rewrite (IH cK pk idx Hidx); try assumption; try (destruct pk; exact Hpk).
      unfold pkc_of, first_pk, unique_indexes. cbn [filter is_pk flat_map app]. reflexivity.
Qed.
