(* C14 for the MySQL backend: the generator is equivariant under literal table renaming — the statements for
   the project whose tables are literally named prefix+name are the statements of the original project with
   table names and the table part of derived uq_/ix_/fk_ names prefixed, and nothing else changed. *)
From VV.M1 Require Import PrefixStrP PrefixP.
From VV.MYSQL Require Import Names.

Lemma find_ext {A} (f g : A -> bool) (l : list A) : (forall x, f x = g x) -> find f l = find g l.
Proof. intro H. induction l as [|x r IH]; cbn [find]; [reflexivity|]. rewrite H. destruct (g x); [reflexivity|exact IH]. Qed.

(* ---------- names ---------- *)
Lemma rename_name_uq p t cols key :
  rename_name p (build_unique_constraint_name t cols key) = build_unique_constraint_name (p +++ t) cols key.
Proof.
  unfold build_unique_constraint_name, name_with. destruct key; cbn [String.append rename_name mem_str existsb String.eqb Ascii.eqb];
    cbn; rewrite append_assoc; reflexivity.
Qed.
Lemma rename_name_ix p t cols key :
  rename_name p (build_index_name t cols key) = build_index_name (p +++ t) cols key.
Proof.
  unfold build_index_name, name_with. destruct key; cbn; rewrite append_assoc; reflexivity.
Qed.
Lemma rename_name_fk p t cols key :
  rename_name p (build_foreign_key_name t cols key) = build_foreign_key_name (p +++ t) cols key.
Proof.
  unfold build_foreign_key_name, name_with. destruct key; cbn; rewrite append_assoc; reflexivity.
Qed.

(* ---------- lookups in the literally renamed schema ---------- *)
Lemma find_table_literal p t s :
  find_table (p +++ t) (literal_schema p s) = option_map (literal_table p) (find_table t s).
Proof.
  unfold find_table, literal_schema. rewrite find_map. f_equal. apply find_ext. intro x.
  cbn [literal_table t_name]. apply eqb_prefix.
Qed.
Lemma find_column_literal p c td :
  find_column c (literal_table p td) = option_map (literal_col p) (find_column c td).
Proof. unfold find_column. cbn [literal_table t_columns]. rewrite find_map. reflexivity. Qed.
Lemma lookup_column_literal p s t c :
  lookup_column (literal_schema p s) (p +++ t) c = option_map (literal_col p) (lookup_column s t c).
Proof.
  unfold lookup_column. rewrite find_table_literal. destruct (find_table t s) as [td|]; [|reflexivity].
  cbn [option_map]. apply find_column_literal.
Qed.

Lemma sea_coldef_literal p c : sea_coldef (literal_col p c) = sea_coldef c.
Proof. reflexivity. Qed.

(* ---------- CreateTable ---------- *)
Lemma auto_cols_literal p ks : auto_increment_columns (map (literal_constraint p) ks) = auto_increment_columns ks.
Proof.
  unfold auto_increment_columns. rewrite flat_map_map. apply flat_map_ext_in. intros k _. destruct k; reflexivity.
Qed.
Lemma create_coldef_literal p ks c :
  create_coldef (map (literal_constraint p) ks) (literal_col p c) = create_coldef ks c.
Proof.
  unfold create_coldef. rewrite auto_cols_literal, existsb_map.
  rewrite (existsb_ext_in (fun x => is_pk (literal_constraint p x)) is_pk ks) by (intros; apply lk_is_pk).
  reflexivity.
Qed.
Lemma create_keys_literal p t ks :
  create_keys (p +++ t) (map (literal_constraint p) ks) = map (rename_key p) (create_keys t ks).
Proof.
  unfold create_keys. rewrite flat_map_map, map_flat_map. apply flat_map_ext_in. intros k _.
  destruct k; cbn [literal_constraint map rename_key]; try reflexivity. rewrite rename_name_uq. reflexivity.
Qed.
Lemma create_fks_literal p t ks :
  create_fks (p +++ t) (map (literal_constraint p) ks) = map (rename_fk p) (create_fks t ks).
Proof.
  unfold create_fks. rewrite flat_map_map, map_flat_map. apply flat_map_ext_in. intros k _.
  destruct k; cbn [literal_constraint map]; try reflexivity.
  unfold fk_of_constraint, rename_fk. cbn [fk_name fk_cols fk_rtable fk_rcols fk_on_delete fk_on_update]. rewrite rename_name_fk. reflexivity.
Qed.
Lemma create_indexes_literal p t ks :
  create_indexes (p +++ t) (map (literal_constraint p) ks) = map (rename_stmt p) (create_indexes t ks).
Proof.
  unfold create_indexes. rewrite flat_map_map, map_flat_map. apply flat_map_ext_in. intros k _.
  destruct k; cbn [literal_constraint map rename_stmt]; try reflexivity. rewrite rename_name_ix. reflexivity.
Qed.

Lemma gen_create_table_literal p t cols ks : no_dot p ->
  gen_create_table (p +++ t) (map (literal_col p) cols) (map (literal_constraint p) ks)
  = rename_result p (gen_create_table t cols ks).
Proof.
  intro Hp. unfold gen_create_table.
  change (mkTable (p +++ t) None (map (literal_col p) cols) (map (literal_constraint p) ks))
    with (literal_table p (mkTable t None cols ks)).
  rewrite (normalize_literal_full p _ Hp).
  destruct (normalize (mkTable t None cols ks)) as [n|e]; [|reflexivity].
  cbn [rename_result map rename_stmt literal_table t_constraints t_columns].
  rewrite create_keys_literal, create_fks_literal, create_indexes_literal.
  do 2 f_equal. rewrite map_map. f_equal. apply map_ext. intro c. apply create_coldef_literal.
Qed.

(* ---------- the attributes a MODIFY restates (fix N1) read column names and the primary key only ---------- *)
Lemma constraints_of_literal p s t :
  constraints_of (literal_schema p s) (p +++ t) = map (literal_constraint p) (constraints_of s t).
Proof. unfold constraints_of. rewrite find_table_literal. destruct (find_table t s); reflexivity. Qed.
Lemma restated_auto_literal p s t c c' :
  c_name c' = c_name c -> c_type c' = c_type c ->
  restated_auto (literal_schema p s) (p +++ t) c' = restated_auto s t c.
Proof. intros H1 H2. unfold restated_auto. rewrite constraints_of_literal, auto_cols_literal, H1, H2. reflexivity. Qed.
Lemma restate_attrs_literal p s t c c' d :
  c_name c' = c_name c -> c_type c' = c_type c -> c_comment c' = c_comment c ->
  restate_attrs (literal_schema p s) (p +++ t) c' d = restate_attrs s t c d.
Proof. intros H1 H2 H3. unfold restate_attrs. rewrite (restated_auto_literal p s t c c' H1 H2), H3. reflexivity. Qed.
Lemma restate_auto_literal p s t c c' d :
  c_name c' = c_name c -> c_type c' = c_type c ->
  restate_auto (literal_schema p s) (p +++ t) c' d = restate_auto s t c d.
Proof. intros H1 H2. unfold restate_auto. rewrite (restated_auto_literal p s t c c' H1 H2). reflexivity. Qed.

(* ---------- the three builders that look the column up ---------- *)
Lemma with_column_literal p s t c (f : column_def -> list stmt) (g : column_def -> list stmt) :
  (forall col, g (literal_col p col) = map (rename_stmt p) (f col)) ->
  with_column (literal_schema p s) (p +++ t) c g = rename_result p (with_column s t c f).
Proof.
  intro H. unfold with_column. rewrite find_table_literal.
  destruct (find_table t s) as [td|]; [|reflexivity]. cbn [option_map]. rewrite find_column_literal.
  destruct (find_column c td) as [col|]; [|reflexivity]. cbn [option_map rename_result]. rewrite H. reflexivity.
Qed.

Lemma fill_with_updates_literal p t c fw :
  fill_with_updates (p +++ t) c fw = map (rename_stmt p) (fill_with_updates t c fw).
Proof.
  unfold fill_with_updates. destruct fw as [l|]; [|reflexivity]. rewrite map_map. reflexivity.
Qed.

Theorem gen_equivariant : forall p s P P' a, no_dot p ->
  gen (literal_schema p s) P' (literal_action p a) = rename_result p (gen s P a).
Proof.
  intros p s P P' a Hp.
  destruct a as [tb cols ks|tb|tb cl fw|tb f2 t2|tb cn|tb cn ty fw|tb cn nl fw|tb cn nd|tb cn nc|tb k|tb k|f2 t2|sql];
    cbn [literal_action gen].
  - apply gen_create_table_literal. exact Hp.
  - reflexivity.
  - (* AddColumn *) cbn [rename_result]. f_equal. unfold gen_add_column.
    rewrite !sea_coldef_literal.
    change (c_nullable (literal_col p cl)) with (c_nullable cl). change (c_default (literal_col p cl)) with (c_default cl).
    change (c_name (literal_col p cl)) with (c_name cl).
    change (sea_coldef (set_nullable true (literal_col p cl))) with (sea_coldef (set_nullable true cl)).
    destruct (negb (c_nullable cl) && is_none (c_default cl) && is_some fw)%bool; [|reflexivity].
    rewrite !map_app. cbn [map rename_stmt]. destruct (normalize_fill_with fw); reflexivity.
  - reflexivity.
  - reflexivity.
  - (* ModifyColumnType *) cbn [rename_result]. f_equal. unfold gen_modify_type.
    rewrite map_app, fill_with_updates_literal. f_equal. cbn [map rename_stmt]. do 2 f_equal.
    unfold modify_type_coldef. rewrite lookup_column_literal. destruct (lookup_column s tb cn) as [c|]; [|reflexivity].
    cbn [option_map]. rewrite (restate_attrs_literal p s tb (set_type ty c) (set_type ty (literal_col p c)) _ eq_refl eq_refl eq_refl).
    reflexivity.
  - (* ModifyColumnNullable *) unfold gen_modify_nullable. apply with_column_literal. intro col. cbn zeta.
    rewrite map_app. cbn [map rename_stmt]. f_equal.
    + destruct nl; [reflexivity|]. destruct (normalize_fill_with fw); reflexivity.
    + rewrite (restate_attrs_literal p s tb (set_nullable nl col) (set_nullable nl (literal_col p col)) _ eq_refl eq_refl eq_refl).
      reflexivity.
  - unfold gen_modify_default. apply with_column_literal. intro col. cbn zeta. cbn [map rename_stmt].
    rewrite (restate_attrs_literal p s tb (set_default (option_map default_of_string nd) col)
               (set_default (option_map default_of_string nd) (literal_col p col)) _ eq_refl eq_refl eq_refl).
    reflexivity.
  - unfold gen_modify_comment. apply with_column_literal. intro col. cbn zeta. cbn [map rename_stmt].
    rewrite (restate_auto_literal p s tb (set_comment nc col) (set_comment nc (literal_col p col)) _ eq_refl eq_refl).
    reflexivity.
  - (* AddConstraint *) cbn [rename_result]. f_equal.
    destruct k; cbn [literal_constraint gen_add_constraint map rename_stmt]; try reflexivity.
    + rewrite rename_name_uq. reflexivity.
    + unfold fk_of_constraint, rename_fk. cbn [fk_name fk_cols fk_rtable fk_rcols fk_on_delete fk_on_update]. rewrite rename_name_fk. reflexivity.
    + rewrite rename_name_ix. reflexivity.
  - (* RemoveConstraint *) cbn [rename_result]. f_equal.
    destruct k; cbn [literal_constraint gen_remove_constraint map rename_stmt]; try reflexivity.
    + rewrite rename_name_uq. reflexivity.
    + rewrite rename_name_fk. reflexivity.
    + rewrite rename_name_ix. reflexivity.
  - reflexivity.
  - cbn [rename_result]. destruct (String.eqb sql ""); reflexivity.
Qed.

(* ---------- whole plans: the evolving schema is renamed along (VV.M1 apply_equivariant) ---------- *)
From VV.M1 Require Import PrefixApplyP.

Fixpoint side_all_step (p : string) (s : schema) (acts : list action) : bool :=
  match acts with
  | [] => true
  | a :: r => (no_user_name_equals_derived p s a && side_all_step p (step s a) r)%bool
  end.

Definition rename_plan_result (p : string) (r : result (list (list stmt)) gen_error) : result (list (list stmt)) gen_error :=
  match r with Ok L => Ok (map (map (rename_stmt p)) L) | Err e => Err (rename_error p e) end.

Lemma step_equivariant : forall p s a, no_dot p -> no_user_name_equals_derived p s a = true ->
  step (literal_schema p s) (literal_action p a) = literal_schema p (step s a).
Proof.
  intros p s a Hp Hs. unfold step. rewrite (apply_equivariant p s a Hp Hs).
  destruct (apply_action s a); reflexivity.
Qed.

Theorem gen_plan_equivariant : forall p acts s, no_dot p -> side_all_step p s acts = true ->
  gen_plan (literal_schema p s) (map (literal_action p) acts) = rename_plan_result p (gen_plan s acts).
Proof.
  intros p acts. induction acts as [|a r IH]; intros s Hp Hs; [reflexivity|].
  cbn [side_all_step] in Hs. apply andb_prop in Hs. destruct Hs as [Ha Hr].
  cbn [map gen_plan].
  rewrite (gen_equivariant p s (pending_constraints a r) _ a Hp).
  destruct (gen s (pending_constraints a r) a) as [st|e]; cbn [rename_result]; [|reflexivity].
  fold (step (literal_schema p s) (literal_action p a)). fold (step s a).
  rewrite (step_equivariant p s a Hp Ha). rewrite (IH (step s a) Hp Hr).
  destruct (gen_plan (step s a) r); reflexivity.
Qed.
