(* C04, history-dependent part: every MySQL MODIFY COLUMN emitted for a ModifyColumn{Type,Nullable,Default,
   Comment} action re-declares exactly the (type text, nullability, default text) that the column has in the
   schema AFTER the action — for every evolving schema, no bound.  Since fix N1 it also restates AUTO_INCREMENT
   (when the column is in an auto-increment primary key and the type supports it) and the COMMENT; it never
   carries an inline PRIMARY KEY.
   History: before N1 the statement here was "cd_auto d = false /\ cd_comment d = (the new comment, for
   ModifyColumnComment only)", and modify_never_restates_autoinc proved that no MODIFY ever carried AUTO_INCREMENT
   (DESIGN D19, finding C04-autoinc-lost-on-modify). *)
From VV.MYSQL Require Import Spec.
From Coq Require Import Lia.

(* ---------- first-match lookup and first-match update agree ---------- *)
Lemma update_first_col_find : forall c f cols col,
  (forall x, c_name (f x) = c_name x) ->
  find (fun x => String.eqb (c_name x) c) cols = Some col ->
  exists cols', update_first_col c f cols = Some cols' /\
                find (fun x => String.eqb (c_name x) c) cols' = Some (f col).
Proof.
  intros c f cols col Hn. induction cols as [|x r IH]; cbn [find update_first_col]; intro H.
  - discriminate.
  - destruct (String.eqb (c_name x) c) eqn:E.
    + inversion H; subst. eexists; split; [reflexivity|]. cbn [find]. rewrite Hn, E. reflexivity.
    + destruct (IH H) as [cols' [U F]]. rewrite U. cbn [option_map]. eexists; split; [reflexivity|].
      cbn [find]. rewrite E. exact F.
Qed.

Lemma update_table_find : forall t f s td td',
  find_table t s = Some td -> f td = Ok td' -> t_name td' = t_name td ->
  exists s', update_table t f s = Ok s' /\ find_table t s' = Some td'.
Proof.
  intros t f s td td'. unfold find_table. induction s as [|x r IH]; cbn [find update_table]; intros H Hf Hn.
  - discriminate.
  - destruct (String.eqb (t_name x) t) eqn:E.
    + inversion H; subst. rewrite Hf. eexists; split; [reflexivity|]. cbn [find]. rewrite Hn, E. reflexivity.
    + destruct (IH H Hf Hn) as [s' [U F]]. rewrite U. eexists; split; [reflexivity|]. cbn [find]. rewrite E. exact F.
Qed.

Lemma lookup_after_update : forall s t c f col,
  (forall x, c_name (f x) = c_name x) ->
  lookup_column s t c = Some col ->
  exists s', update_table t (update_column t c f) s = Ok s' /\ lookup_column s' t c = Some (f col).
Proof.
  intros s t c f col Hn H. unfold lookup_column in *.
  destruct (find_table t s) as [td|] eqn:Ft; [|discriminate].
  unfold find_column in H.
  destruct (update_first_col_find c f (t_columns td) col Hn H) as [cols' [U F]].
  destruct (update_table_find t (update_column t c f) s td
              (mkTable (t_name td) (t_description td) cols' (t_constraints td)) Ft) as [s' [Us Fs]].
  - unfold update_column. rewrite U. reflexivity.
  - reflexivity.
  - exists s'. split; [exact Us|]. rewrite Fs. unfold find_column. cbn [t_columns]. exact F.
Qed.

Lemma lookup_found : forall s t c col,
  lookup_column s t c = Some col ->
  exists td, find_table t s = Some td /\ find_column c td = Some col.
Proof.
  unfold lookup_column. intros s t c col H. destruct (find_table t s) as [td|]; [|discriminate].
  exists td. auto.
Qed.

Lemma find_column_name : forall c td col, find_column c td = Some col -> c_name col = c.
Proof.
  unfold find_column. intros c td col H. apply find_some in H. destruct H as [_ H].
  apply String.eqb_eq in H. exact H.
Qed.

Lemma apply_modify_lookup : forall s a t c col s',
  modify_target a = Some (t, c) -> lookup_column s t c = Some col -> apply_action s a = Ok s' ->
  lookup_column s' t c = Some (after_col a col).
Proof.
  intros s a t c col s' Ht Hl Ha.
  destruct a; cbn [modify_target] in Ht; try discriminate; inversion Ht; subst; cbn [apply_action] in Ha;
    match type of Ha with
    | update_table _ (update_column _ _ ?f) _ = _ =>
        destruct (lookup_after_update s t c f col (fun x => eq_refl) Hl) as [s2 [U F]];
        rewrite U in Ha; inversion Ha; subst; exact F
    end.
Qed.

Lemma fill_with_updates_are_updates : forall t c fw, forallb is_update (fill_with_updates t c fw) = true.
Proof.
  intros t c fw. unfold fill_with_updates. destruct fw as [l|]; [|reflexivity].
  induction l as [|x r IH]; [reflexivity|]. cbn [map forallb is_update andb]. exact IH.
Qed.

(* ---------- the statement of C04_modify_preserves ---------- *)
Theorem modify_preserves : forall s P a t c col s',
  modify_target a = Some (t, c) ->
  lookup_column s t c = Some col ->
  apply_action s a = Ok s' ->
  modify_default_ok a col = true ->
  exists pre d col',
    gen s P a = Ok (pre ++ [SModifyColumn t d]) /\
    forallb is_update pre = true /\
    lookup_column s' t c = Some col' /\
    cd_name d = c /\
    restated d = declared col' /\
    cd_auto d = (is_auto_col s t c && supports_auto_increment (c_type col'))%bool /\ cd_pk d = false /\
    cd_comment d = comment_body a col'.
Proof.
  intros s P a t c col s' Ht Hl Ha Hd.
  pose proof (apply_modify_lookup s a t c col s' Ht Hl Ha) as Hl'.
  destruct (lookup_found s t c col Hl) as [td [Ft Fc]].
  pose proof (find_column_name c td col Fc) as Hname.
  destruct a; cbn [modify_target] in Ht; try discriminate; inversion Ht; subst table column; clear Ht;
    cbn [after_col] in Hl'.
  - (* ModifyColumnType *)
    exists (fill_with_updates t c fill_with), (modify_type_coldef s t c new_type), (set_type new_type col).
    split; [reflexivity|]. split; [apply fill_with_updates_are_updates|].
    split; [exact Hl'|].
    unfold modify_type_coldef. rewrite Hl. unfold restate_attrs, restated_auto, is_auto_col.
    cbn [cd_name cd_auto cd_pk cd_comment comment_body set_type c_name c_type c_comment]. rewrite Hname.
    repeat split; try reflexivity.
    unfold restated, declared. cbn [cd_type cd_notnull cd_default set_type c_type c_nullable c_default].
    f_equal.
    cbn [modify_default_ok] in Hd. unfold type_default_ok in Hd.
    destruct (c_default col) as [dv|]; [|reflexivity]. cbn [option_map]. f_equal.
    unfold normalize_enum_default, mysql_default_text.
    destruct (is_enum_type new_type); [|reflexivity].
    destruct (needs_quoting (convert_default_mysql (default_to_sql dv))); cbn [andb] in *; [|destruct (is_string_default dv); reflexivity].
    destruct (is_string_default dv); [reflexivity|]. cbn [negb andb] in Hd. discriminate.
  - (* ModifyColumnNullable *)
    exists (match nullable, normalize_fill_with fill_with with
            | false, Some f => [SUpdate t c (convert_default_mysql f) (Some (WIsNull c))]
            | _, _ => []
            end), (restate_attrs s t (set_nullable nullable col) (sea_coldef (set_nullable nullable col))), (set_nullable nullable col).
    split.
    { cbn [gen]. unfold gen_modify_nullable, with_column. rewrite Ft, Fc. reflexivity. }
    split. { destruct nullable; [reflexivity|]. destruct (normalize_fill_with fill_with); reflexivity. }
    split; [exact Hl'|].
    unfold restate_attrs, restated_auto, is_auto_col, sea_coldef.
    cbn [cd_name cd_auto cd_pk cd_comment comment_body set_nullable c_name c_type c_comment]. rewrite Hname.
    repeat split; reflexivity.
  - (* ModifyColumnDefault *)
    exists [], (restate_attrs s t (set_default (option_map default_of_string new_default) col)
                  (sea_coldef (set_default (option_map default_of_string new_default) col))),
           (set_default (option_map default_of_string new_default) col).
    split.
    { cbn [gen]. unfold gen_modify_default, with_column. rewrite Ft, Fc. reflexivity. }
    split; [reflexivity|]. split; [exact Hl'|].
    unfold restate_attrs, restated_auto, is_auto_col, sea_coldef.
    cbn [cd_name cd_auto cd_pk cd_comment comment_body set_default c_name c_type c_comment]. rewrite Hname.
    repeat split; reflexivity.
  - (* ModifyColumnComment *)
    exists [], (with_comment (option_map hand_escape new_comment)
                  (restate_auto s t (set_comment new_comment col) (sea_coldef (set_comment new_comment col)))),
           (set_comment new_comment col).
    split.
    { cbn [gen]. unfold gen_modify_comment, with_column. rewrite Ft, Fc. reflexivity. }
    split; [reflexivity|]. split; [exact Hl'|].
    unfold with_comment, restate_auto, restated_auto, is_auto_col, sea_coldef.
    cbn [cd_name cd_auto cd_pk cd_comment cd_type cd_notnull cd_default comment_body set_comment c_name c_type c_comment]. rewrite Hname.
    repeat split; reflexivity.
Qed.

(* ---------- lift over plans: gen_plan generates action i from the evolving schema before it ---------- *)
Lemma schema_at_S : forall s a r i, schema_at s (a :: r) (S i) = schema_at (step s a) r i.
Proof. reflexivity. Qed.

Lemma schema_at_succ : forall acts s i a,
  nth_error acts i = Some a -> schema_at s acts (S i) = step (schema_at s acts i) a.
Proof.
  induction acts as [|x r IH]; intros s i a Hn.
  - destruct i; discriminate.
  - destruct i as [|i].
    + cbn in Hn. inversion Hn; subst x. reflexivity.
    + cbn [nth_error] in Hn. rewrite (schema_at_S s x r (S i)), (schema_at_S s x r i). apply IH. exact Hn.
Qed.

Lemma gen_plan_nth : forall acts s L i a,
  gen_plan s acts = Ok L -> nth_error acts i = Some a ->
  exists st, nth_error L i = Some st /\
             gen (schema_at s acts i) (pending_constraints a (skipn (S i) acts)) a = Ok st.
Proof.
  induction acts as [|x r IH]; intros s L i a Hg Hn.
  - destruct i; discriminate.
  - cbn [gen_plan] in Hg.
    destruct (gen s (pending_constraints x r) x) as [st|e] eqn:G; [|discriminate].
    fold (step s x) in Hg.
    destruct (gen_plan (step s x) r) as [rest|e] eqn:GP; [|discriminate].
    inversion Hg; subst L.
    destruct i as [|i].
    + cbn in Hn. inversion Hn; subst a. exists st. split; [reflexivity|]. exact G.
    + cbn [nth_error] in Hn. destruct (IH (step s x) rest i a GP Hn) as [st' [N G']].
      exists st'. split; [exact N|]. rewrite schema_at_S. exact G'.
Qed.

Theorem modify_preserves_plan : forall s acts L i a t c col s',
  gen_plan s acts = Ok L ->
  nth_error acts i = Some a ->
  modify_target a = Some (t, c) ->
  lookup_column (schema_at s acts i) t c = Some col ->
  apply_action (schema_at s acts i) a = Ok s' ->
  modify_default_ok a col = true ->
  exists pre d col',
    nth_error L i = Some (pre ++ [SModifyColumn t d]) /\
    forallb is_update pre = true /\
    lookup_column (schema_at s acts (S i)) t c = Some col' /\
    cd_name d = c /\ restated d = declared col' /\
    cd_auto d = (is_auto_col (schema_at s acts i) t c && supports_auto_increment (c_type col'))%bool /\ cd_pk d = false /\
    cd_comment d = comment_body a col'.
Proof.
  intros s acts L i a t c col s' Hg Hn Ht Hl Ha Hd.
  destruct (gen_plan_nth acts s L i a Hg Hn) as [st [N G]].
  destruct (modify_preserves (schema_at s acts i) (pending_constraints a (skipn (S i) acts)) a t c col s' Ht Hl Ha Hd)
    as [pre [d [col' [G' [U [L' R]]]]]].
  rewrite G in G'. inversion G'; subst st.
  exists pre, d, col'. split; [exact N|]. split; [exact U|]. split; [|exact R].
  assert (E : schema_at s acts (S i) = s').
  { rewrite (schema_at_succ acts s i a Hn). unfold step. rewrite Ha. reflexivity. }
  rewrite E. exact L'.
Qed.

(* ---------- lift over histories: when the history replays, the evolving schema of build_plan_queries is the
   replayed schema ---------- *)
Lemma apply_all_step : forall acts s s', apply_all s acts = Ok s' -> fold_left step acts s = s'.
Proof.
  induction acts as [|a r IH]; intros s s' H; cbn [apply_all fold_left] in *.
  - inversion H. reflexivity.
  - destruct (apply_action s a) as [s1|e] eqn:A; [|discriminate].
    unfold step at 2. rewrite A. apply IH. exact H.
Qed.

Theorem modify_preserves_history : forall (H : list plan) k p sb L i a t c col s_i s',
  nth_error H k = Some p ->
  replay (firstn k H) = Ok sb ->                       (* the baseline of migration k *)
  gen_plan sb (p_actions p) = Ok L ->                  (* its MySQL statements *)
  nth_error (p_actions p) i = Some a ->
  apply_all sb (firstn i (p_actions p)) = Ok s_i ->    (* the replayed schema just before action i *)
  modify_target a = Some (t, c) ->
  lookup_column s_i t c = Some col ->
  apply_action s_i a = Ok s' ->
  modify_default_ok a col = true ->
  exists pre d col',
    nth_error L i = Some (pre ++ [SModifyColumn t d]) /\
    forallb is_update pre = true /\
    lookup_column s' t c = Some col' /\
    cd_name d = c /\ restated d = declared col' /\
    cd_auto d = (is_auto_col s_i t c && supports_auto_increment (c_type col'))%bool /\ cd_pk d = false /\
    cd_comment d = comment_body a col'.
Proof.
  intros H k p sb L i a t c col s_i s' _ _ Hg Hn Hs Ht Hl Ha Hd.
  pose proof (apply_all_step _ _ _ Hs) as E. fold (schema_at sb (p_actions p) i) in E.
  rewrite <- E in Hl, Ha.
  destruct (modify_preserves_plan sb (p_actions p) L i a t c col s' Hg Hn Ht Hl Ha Hd)
    as [pre [d [col' [N [U [L' R]]]]]].
  exists pre, d, col'. split; [exact N|]. split; [exact U|]. split; [|rewrite E in R; exact R].
  destruct (modify_preserves (schema_at sb (p_actions p) i) [] a t c col s' Ht Hl Ha Hd)
    as [_ [_ [col2 [_ [_ [L2 _]]]]]].
  (* both are the lookup in the schema after the action *)
  assert (E2 : schema_at sb (p_actions p) (S i) = s').
  { rewrite (schema_at_succ (p_actions p) sb i a Hn). unfold step. rewrite Ha. reflexivity. }
  rewrite E2 in L'. exact L'.
Qed.

(* History (before fix N1): modify_never_restates_autoinc proved here that no statement list of gen ever contains a
   MODIFY COLUMN with AUTO_INCREMENT or PRIMARY KEY — DESIGN D19 as a statement about every input.  The inline PRIMARY
   KEY half still holds and is part of modify_preserves (cd_pk d = false). *)
