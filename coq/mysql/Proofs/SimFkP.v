(* Foreign keys on MySQL: the explicit conditions under which the engine accepts FOREIGN KEY clauses (they follow
   from A1), CreateTable without the "engine accepts" hypothesis, AddConstraint FOREIGN KEY / PRIMARY KEY. *)
From VV.M1 Require Import PrefixStrP.
From VV.MYSQL Require Import SpecFk ModifyP SimP SimKeysP SimCreateP.
From Coq Require Import Lia.

(* ---------- engine-level condition of one foreign key ---------- *)
Definition efk_cond (tb : mtable) (c : catalog) (f : fkdef) : bool :=
  (nonempty (fk_cols f) && Nat.eqb (List.length (fk_cols f)) (List.length (fk_rcols f))
   && all_cols_exist (fk_cols f) tb
   && match (if String.eqb (fk_rtable f) (tb_name tb) then Some tb else find_tb (fk_rtable f) c) with
      | Some r => (all_cols_exist (fk_rcols f) r && covered (fk_rcols f) r)%bool
      | None => false
      end)%bool.

Definition fk_result (tb : mtable) (f : fkdef) : mtable :=
  mkMTable (tb_name tb) (tb_cols tb) (tb_pk tb)
           (if covered (fk_cols f) tb then tb_indexes tb else tb_indexes tb ++ [mkMIndex (fk_name f) (fk_cols f) false true])
           (tb_fks tb ++ [f]) (tb_checks tb).

Lemma add_fk_ok : forall tb c f,
  mem_str (fk_name f) (all_fk_names c) = false -> mem_str (fk_name f) (map fk_name (tb_fks tb)) = false ->
  efk_cond tb c f = true -> add_fk tb c f = Ok (fk_result tb f).
Proof.
  intros tb c f H1 H2 H. unfold efk_cond in H.
  apply Bool.andb_true_iff in H; destruct H as [H Ht].
  apply Bool.andb_true_iff in H; destruct H as [Hsh Hc].
  unfold add_fk. rewrite H1, H2. cbn [orb]. rewrite Hsh. cbn [negb]. rewrite Hc. cbn [negb].
  destruct (if String.eqb (fk_rtable f) (tb_name tb) then Some tb else find_tb (fk_rtable f) c) as [r|]; [|discriminate].
  apply Bool.andb_true_iff in Ht. destruct Ht as [Hr Hcv]. rewrite Hr, Hcv. cbn [negb]. reflexivity.
Qed.

Lemma existsb_app_l {A} (p : A -> bool) a b : existsb p a = true -> existsb p (a ++ b) = true.
Proof. intro H. rewrite existsb_app, H. reflexivity. Qed.

Lemma covered_grow : forall cols n cs pk idx extra fks fks' chk chk',
  covered cols (mkMTable n cs pk idx fks chk) = true -> covered cols (mkMTable n cs pk (idx ++ extra) fks' chk') = true.
Proof.
  intros. unfold covered, key_col_lists in *. cbn [tb_pk tb_indexes] in *.
  apply Bool.andb_true_iff in H. destruct H as [H1 H2]. rewrite H1. cbn [andb].
  rewrite map_app, app_assoc. apply existsb_app_l. exact H2.
Qed.

Lemma efk_cond_grow : forall tb c f extra fks',
  efk_cond tb c f = true ->
  efk_cond (mkMTable (tb_name tb) (tb_cols tb) (tb_pk tb) (tb_indexes tb ++ extra) fks' (tb_checks tb)) c f = true.
Proof.
  intros tb c f extra fks' H. destruct tb as [n cs pk idx fks chk]. unfold efk_cond in *. cbn [tb_name tb_cols tb_pk tb_indexes tb_checks] in *.
  apply Bool.andb_true_iff in H; destruct H as [H Ht].
  apply Bool.andb_true_iff in H; destruct H as [Hsh Hc].
  rewrite Hsh. cbn [andb]. rewrite all_cols_exist_indep in Hc. rewrite all_cols_exist_indep, Hc. cbn [andb].
  destruct (String.eqb (fk_rtable f) n).
  - apply Bool.andb_true_iff in Ht. destruct Ht as [Hr Hcv]. rewrite all_cols_exist_indep in Hr. rewrite all_cols_exist_indep, Hr. cbn [andb].
    eapply covered_grow. exact Hcv.
  - exact Ht.
Qed.

Lemma fk_result_shape : forall tb f, exists extra,
  fk_result tb f = mkMTable (tb_name tb) (tb_cols tb) (tb_pk tb) (tb_indexes tb ++ extra) (tb_fks tb ++ [f]) (tb_checks tb).
Proof.
  intros tb f. unfold fk_result. destruct (covered (fk_cols f) tb).
  - exists []. rewrite app_nil_r. reflexivity.
  - eexists. reflexivity.
Qed.

Lemma add_fks_ok : forall fks tb c,
  (forall f, In f fks -> mem_str (fk_name f) (all_fk_names c) = false) ->
  nodup_str (map fk_name (tb_fks tb) ++ map fk_name fks) = true ->
  forallb (efk_cond tb c) fks = true ->
  exists tb', add_fks tb c fks = Ok tb'.
Proof.
  induction fks as [|f r IH]; intros tb c Hc Hnd Hall.
  - eexists. reflexivity.
  - cbn [forallb] in Hall. apply Bool.andb_true_iff in Hall. destruct Hall as [Hf Hr].
    cbn [add_fks].
    assert (Hown : mem_str (fk_name f) (map fk_name (tb_fks tb)) = false).
    { eapply nodup_app_disj; [exact Hnd|]. left. reflexivity. }
    rewrite (add_fk_ok tb c f (Hc f (or_introl eq_refl)) Hown Hf).
    destruct (fk_result_shape tb f) as [extra E]. rewrite E.
    apply IH.
    + intros g Hg. apply Hc. right. exact Hg.
    + cbn [tb_fks]. rewrite map_app. cbn [map]. rewrite <- app_assoc. exact Hnd.
    + apply forallb_forall. intros g Hg. rewrite forallb_forall in Hr. apply efk_cond_grow. apply Hr. exact Hg.
Qed.

(* ---------- from the schema-level conditions ---------- *)
Lemma all_fk_names_catalog : forall s, all_fk_names (catalog_of s) = flat_map fk_names s.
Proof.
  intro s. unfold all_fk_names, catalog_of. induction s as [|x r IH]; [reflexivity|].
  cbn [map flat_map]. rewrite IH. reflexivity.
Qed.

Lemma nonempty_same_length : forall (a b : list string), nonempty a = true -> Nat.eqb (List.length a) (List.length b) = true -> nonempty b = true.
Proof. intros a b Ha H. destruct a; [discriminate|]. destruct b; [discriminate|reflexivity]. Qed.

Lemma key_col_lists_catalog : forall td,
  key_col_lists (catalog_of_table td) = table_keys td ++ map ix_cols (generated_indexes (table_keys td) (create_fks (t_name td) (t_constraints td))).
Proof.
  intro td. unfold key_col_lists, table_keys. cbn [catalog_of_table tb_pk tb_indexes]. rewrite map_app, app_assoc. reflexivity.
Qed.

Lemma efk_of_fk_cond : forall s self tb keys n cols rt rcols od ou,
  tb_name tb = t_name self -> tb_cols tb = tb_cols (catalog_of_table self) -> key_col_lists tb = keys ->
  fk_cond s self keys (CForeignKey n cols rt rcols od ou) = true ->
  efk_cond tb (catalog_of s) (fk_of_constraint (t_name self) n cols rt rcols od ou) = true.
Proof.
  intros s self tb keys n cols rt rcols od ou Hn Hc Hk H. cbn [fk_cond] in H.
  apply Bool.andb_true_iff in H; destruct H as [H Ht].
  apply Bool.andb_true_iff in H; destruct H as [H Hcols].
  apply Bool.andb_true_iff in H; destruct H as [Hne Hlen].
  unfold efk_cond. cbn [fk_of_constraint fk_cols fk_rcols fk_rtable]. rewrite Hne, Hlen. cbn [andb].
  assert (Hex : forall l, all_cols_exist l tb = forallb (fun c => has_column c self) l).
  { intro l. destruct tb as [a1 a2 a3 a4 a5 a6]. cbn [tb_cols] in Hc. subst a2. rewrite all_cols_exist_indep.
    rewrite <- (all_cols_exist_catalog l self). destruct (catalog_of_table self); reflexivity. }
  rewrite Hex, Hcols. cbn [andb]. rewrite Hn.
  destruct (String.eqb rt (t_name self)).
  - apply Bool.andb_true_iff in Ht. destruct Ht as [Hr Hcv]. rewrite Hex, Hr. cbn [andb].
    unfold covered. rewrite Hk, Hcv, (nonempty_same_length _ _ Hne Hlen). reflexivity.
  - rewrite find_tb_catalog_of. destruct (find_table rt s) as [r|]; [|discriminate]. cbn [option_map].
    apply Bool.andb_true_iff in Ht. destruct Ht as [Hr Hcv]. rewrite all_cols_exist_catalog, Hr. cbn [andb].
    unfold covered. rewrite (nonempty_same_length _ _ Hne Hlen). cbn [andb]. rewrite key_col_lists_catalog. apply existsb_app_l. exact Hcv.
Qed.

(* ---------- CreateTable: the explicit hypothesis implies the one with "the engine accepts" ---------- *)
Theorem create_table_a1_implies : forall s a, create_table_a1_hyp s a = true -> create_table_sim_hyp s a = true.
Proof.
  intros s a H. unfold create_table_a1_hyp in H. unfold create_table_sim_hyp.
  destruct a as [t cols ks0|tb|tb cl fw|tb f2 t2|tb cn|tb cn ty fw|tb cn nl fw|tb cn nd|tb cn nc|tb k|tb k|f2 t2|sql]; try discriminate.
  destruct (normalize (mkTable t None cols ks0)) as [n|e] eqn:N; [|discriminate].
  pose proof (normalize_shape _ _ N) as Hn. cbn [t_name t_description t_columns] in Hn.
  cbn zeta in *.
  apply Bool.andb_true_iff in H; destruct H as [H Hauto].
  apply Bool.andb_true_iff in H; destruct H as [H Hfresh].
  apply Bool.andb_true_iff in H; destruct H as [H Hfknd].
  apply Bool.andb_true_iff in H; destruct H as [H Hfk].
  rewrite H. cbn [andb]. rewrite Hauto, Bool.andb_true_r.
  assert (Htn : t_name n = t) by (rewrite Hn; reflexivity).
  destruct (add_fks_ok (create_fks t (t_constraints n)) (table_after_keys n) (catalog_of s)) as [tb' E].
  - intros f Hf. rewrite all_fk_names_catalog. rewrite forallb_forall in Hfresh. apply Bool.negb_true_iff. apply Hfresh.
    apply in_map. exact Hf.
  - cbn [table_after_keys tb_fks map app]. exact Hfknd.
  - apply forallb_forall. intros f Hf. destruct (in_create_fks _ _ _ Hf) as [fn [fc [rt [rc [od [ou [Ik Hfe]]]]]]]. subst f.
    rewrite forallb_forall in Hfk. specialize (Hfk _ Ik). rewrite <- Htn at 1.
    eapply efk_of_fk_cond; [reflexivity|reflexivity| |exact Hfk].
    unfold key_col_lists, table_after_keys. cbn [tb_pk tb_indexes]. rewrite Htn. reflexivity.
  - rewrite E. reflexivity.
Qed.

Theorem sim_create_table_a1 : forall s a, create_table_a1_hyp s a = true -> action_sim s a.
Proof. intros s a H. apply sim_create_table. apply create_table_a1_implies. exact H. Qed.

(* ---------- AddConstraint FOREIGN KEY ---------- *)
Lemma generated_snoc : forall fks K f,
  generated_indexes K (fks ++ [f])
  = generated_indexes K fks
    ++ (if (nonempty (fk_cols f) && existsb (is_prefix (fk_cols f)) (K ++ map ix_cols (generated_indexes K fks)))%bool
        then [] else [mkMIndex (fk_name f) (fk_cols f) false true]).
Proof.
  induction fks as [|g r IH]; intros K f.
  - cbn [app generated_indexes map]. rewrite app_nil_r. destruct (nonempty (fk_cols f) && existsb (is_prefix (fk_cols f)) K)%bool; reflexivity.
  - cbn [app generated_indexes]. destruct (nonempty (fk_cols g) && existsb (is_prefix (fk_cols g)) K)%bool.
    + apply IH.
    + rewrite IH. cbn [app map ix_cols]. rewrite <- app_assoc. reflexivity.
Qed.

Lemma mem_fk_names_filter : forall nm t s,
  mem_str nm (flat_map fk_names s) = false ->
  mem_str nm (all_fk_names (filter (fun x => negb (String.eqb (tb_name x) t)) (catalog_of s))) = false.
Proof.
  intros nm t s H. rewrite filter_catalog_of, all_fk_names_catalog.
  induction s as [|x r IH]; [reflexivity|]. cbn [flat_map filter] in *. rewrite mem_str_app in H.
  apply Bool.orb_false_iff in H. destruct H as [H1 H2].
  destruct (negb (String.eqb (t_name x) t)); cbn [flat_map]; [rewrite mem_str_app, H1|]; apply IH; exact H2.
Qed.
Lemma mem_fk_names_table : forall nm s td, In td s -> mem_str nm (flat_map fk_names s) = false -> mem_str nm (fk_names td) = false.
Proof.
  intros nm s td Hin H. induction s as [|x r IH]; [contradiction|]. cbn [flat_map] in H. rewrite mem_str_app in H.
  apply Bool.orb_false_iff in H. destruct H as [H1 H2]. destruct Hin as [->|Hin]; [exact H1|apply IH; assumption].
Qed.

Lemma find_tb_filter_other : forall rt t cat, String.eqb rt t = false ->
  find_tb rt (filter (fun x => negb (String.eqb (tb_name x) t)) cat) = find_tb rt cat.
Proof.
  intros rt t cat H. unfold find_tb. induction cat as [|x r IH]; [reflexivity|]. cbn [filter find].
  destruct (String.eqb (tb_name x) t) eqn:E; cbn [negb].
  - destruct (String.eqb (tb_name x) rt) eqn:E2; [|exact IH]. apply String.eqb_eq in E. apply String.eqb_eq in E2.
    rewrite <- E2, E, String.eqb_refl in H. discriminate.
  - cbn [find]. destruct (String.eqb (tb_name x) rt); [reflexivity|exact IH].
Qed.

Theorem sim_add_fk : forall s a, add_fk_sim_hyp s a = true -> action_sim s a.
Proof.
  intros s a H s' Ha P. unfold add_fk_sim_hyp in H.
  destruct a as [tb cols0 ks0|tb|tb cl fw|tb f2 t2|tb cn|tb cn ty fw|tb cn nl fw|tb cn nd|tb cn nc|t k|tb k|f2 t2|sql]; try discriminate.
  destruct k as [| |n cols rt rcols od ou| |]; try discriminate.
  destruct (find_table t s) as [td|] eqn:Ft; [|discriminate].
  apply Bool.andb_true_iff in H; destruct H as [H Hfresh].
  apply Bool.andb_true_iff in H; destruct H as [H Hcond].
  apply Bool.andb_true_iff in H; destruct H as [Hwf Hnc].
  unfold wf_names in Hwf. apply Bool.andb_true_iff in Hwf. destruct Hwf as [Hndt _].
  apply Bool.negb_true_iff in Hnc. apply Bool.negb_true_iff in Hfresh.
  destruct (find_table_in t s td Ft) as [Hin Htn].
  set (k := CForeignKey n cols rt rcols od ou) in *.
  set (td' := mkTable (t_name td) (t_description td) (t_columns td) (t_constraints td ++ [k])).
  destruct (frame s t (fun t0 => if contains_constraint k (t_constraints t0) then Ok t0
                                 else Ok (mkTable (t_name t0) (t_description t0) (t_columns t0) (t_constraints t0 ++ [k])))
                  td td' Hndt Ft) as [s2 [Us Cs]].
  { rewrite Hnc. reflexivity. }
  { reflexivity. }
  cbn [apply_action] in Ha. rewrite Us in Ha. inversion Ha; subst s2. clear Ha.
  set (f := fk_of_constraint t n cols rt rcols od ou).
  exists [SAddFk t f]. split; [reflexivity|].
  assert (Ftb : find_tb t (catalog_of s) = Some (catalog_of_table td)) by (rewrite find_tb_catalog_of, Ft; reflexivity).
  unfold run. cbn [run_from exec]. unfold with_tb. rewrite Ftb. unfold set_tb.
  set (cat' := filter (fun x => negb (String.eqb (tb_name x) t)) (catalog_of s)).
  assert (Hc : efk_cond (catalog_of_table td) cat' f = true).
  { pose proof (efk_of_fk_cond s td (catalog_of_table td) (table_keys td ++ map ix_cols (generated_indexes (table_keys td) (create_fks (t_name td) (t_constraints td))))
                               n cols rt rcols od ou eq_refl eq_refl (key_col_lists_catalog td)) as E.
    assert (Hc2 : fk_cond s td (table_keys td ++ map ix_cols (generated_indexes (table_keys td) (create_fks (t_name td) (t_constraints td)))) k = true).
    { unfold k in *. cbn [fk_cond] in *. 
      destruct (String.eqb rt (t_name td)); [|exact Hcond].
      apply Bool.andb_true_iff in Hcond; destruct Hcond as [Hc1 Hc4].
      rewrite Hc1. cbn [andb]. apply Bool.andb_true_iff in Hc4. destruct Hc4 as [Hc4 Hc5]. rewrite Hc4. cbn [andb].
      apply existsb_app_l. exact Hc5. }
    specialize (E Hc2). rewrite Htn in E. fold f in E.
    unfold efk_cond in *. cbn [tb_name catalog_of_table] in *.
    destruct (String.eqb (fk_rtable f) (t_name td)) eqn:Ert; [exact E|].
    unfold cat'. rewrite find_tb_filter_other; [exact E|]. rewrite <- Htn. exact Ert. }
  rewrite (add_fk_ok (catalog_of_table td) cat' f).
  - (* the resulting table is the believed one *)
    assert (Ht : fk_result (catalog_of_table td) f = catalog_of_table td').
    { unfold fk_result, td'. destruct td as [n0 ds tcols ks]. cbn [t_name t_description t_columns t_constraints] in *. subst n0.
      unfold catalog_of_table. cbn [t_name t_columns t_constraints tb_name tb_cols tb_pk tb_indexes tb_fks tb_checks].
      assert (Hkpk : is_pk k = false) by reflexivity.
      rewrite (first_pk_app_nonpk ks k Hkpk), (auto_cols_app_nonpk ks k Hkpk).
      assert (Hex : explicit_indexes t (ks ++ [k]) = explicit_indexes t ks).
      { unfold explicit_indexes, unique_indexes, plain_indexes. rewrite !flat_map_app. cbn [flat_map]. rewrite !app_nil_r. reflexivity. }
      assert (Hfk : create_fks t (ks ++ [k]) = create_fks t ks ++ [f]).
      { unfold create_fks. rewrite flat_map_app. reflexivity. }
      assert (Hck : flat_map (fun k0 => match k0 with CCheck n1 e => [(n1, e)] | _ => [] end) (ks ++ [k])
                    = flat_map (fun k0 => match k0 with CCheck n1 e => [(n1, e)] | _ => [] end) ks).
      { rewrite flat_map_app. cbn [flat_map]. rewrite app_nil_r. reflexivity. }
      rewrite Hex, Hfk, Hck. rewrite generated_snoc.
      unfold covered, key_col_lists. cbn [tb_pk tb_indexes].
      rewrite map_app, !app_assoc.
      destruct (nonempty (fk_cols f) && existsb (is_prefix (fk_cols f))
                  (((match first_pk ks with Some p => [p] | None => [] end) ++ map ix_cols (explicit_indexes t ks))
                   ++ map ix_cols (generated_indexes ((match first_pk ks with Some p => [p] | None => [] end) ++ map ix_cols (explicit_indexes t ks)) (create_fks t ks))))%bool.
      - rewrite app_nil_r. reflexivity.
      - rewrite <- !app_assoc. reflexivity. }
    rewrite Ht, Cs. reflexivity.
  - unfold cat'. apply mem_fk_names_filter. exact Hfresh.
  - change (map fk_name (tb_fks (catalog_of_table td))) with (fk_names td). eapply mem_fk_names_table; [exact Hin|]. exact Hfresh.
  - exact Hc.
Qed.

(* ---------- AddConstraint PRIMARY KEY ---------- *)
Theorem sim_add_pk : forall s a, add_pk_sim_hyp s a = true -> action_sim s a.
Proof.
  intros s a H s' Ha P. unfold add_pk_sim_hyp in H.
  destruct a as [tb cols0 ks0|tb|tb cl fw|tb f2 t2|tb cn|tb cn ty fw|tb cn nl fw|tb cn nd|tb cn nc|t k|tb k|f2 t2|sql]; try discriminate.
  destruct k as [[|] pcols| | | |]; try discriminate.
  destruct (find_table t s) as [td|] eqn:Ft; [|discriminate].
  apply Bool.andb_true_iff in H; destruct H as [H Hne].
  apply Bool.andb_true_iff in H; destruct H as [H Hex].
  apply Bool.andb_true_iff in H; destruct H as [H Hnec].
  apply Bool.andb_true_iff in H; destruct H as [Hwf Hnopk].
  unfold wf_names in Hwf. apply Bool.andb_true_iff in Hwf. destruct Hwf as [Hndt _].
  apply Bool.negb_true_iff in Hnopk.
  destruct (find_table_in t s td Ft) as [Hin Htn].
  set (k := CPrimaryKey false pcols) in *.
  assert (Hnc : contains_constraint k (t_constraints td) = false).
  { destruct (contains_constraint k (t_constraints td)) eqn:C; [|reflexivity]. exfalso.
    unfold contains_constraint in C. apply existsb_exists in C. destruct C as [k' [Ik Hk]].
    unfold constraint_eqb, dec_b in Hk. destruct (constraint_eq_dec k k') as [E|]; [|discriminate]. subst k'.
    assert (T : existsb is_pk (t_constraints td) = true) by (apply existsb_exists; exists k; split; [exact Ik|reflexivity]).
    rewrite T in Hnopk. discriminate. }
  set (td' := mkTable (t_name td) (t_description td) (t_columns td) (t_constraints td ++ [k])).
  destruct (frame s t (fun t0 => if contains_constraint k (t_constraints t0) then Ok t0
                                 else Ok (mkTable (t_name t0) (t_description t0) (t_columns t0) (t_constraints t0 ++ [k])))
                  td td' Hndt Ft) as [s2 [Us Cs]].
  { rewrite Hnc. reflexivity. }
  { reflexivity. }
  cbn [apply_action] in Ha. rewrite Us in Ha. inversion Ha; subst s2. clear Ha.
  exists [SAddPk t pcols]. split; [reflexivity|].
  assert (Ftb : find_tb t (catalog_of s) = Some (catalog_of_table td)) by (rewrite find_tb_catalog_of, Ft; reflexivity).
  unfold run. cbn [run_from exec]. unfold with_tb. rewrite Ftb. unfold set_tb, add_pk.
  destruct td as [n0 ds tcols ks]. cbn [t_name t_description t_columns t_constraints] in *. subst n0.
  assert (Hfil : filter is_pk ks = []).
  { apply filter_none.
    intros x Hx. destruct (is_pk x) eqn:E; [|reflexivity]. assert (T : existsb is_pk ks = true) by (apply existsb_exists; exists x; split; assumption).
    rewrite T in Hnopk. discriminate. }
  assert (Hfp : first_pk ks = None) by (unfold first_pk; rewrite Hfil; reflexivity).
  change (tb_pk (catalog_of_table (mkTable t ds tcols ks))) with (first_pk ks). rewrite Hfp.
  rewrite all_cols_exist_catalog, Hnec, Hex. cbn [andb negb].
  set (U := unique_indexes t ks). set (Pl := plain_indexes t ks). set (fks := create_fks t ks).
  set (G := generated_indexes ([] ++ map ix_cols (U ++ Pl)) fks).
  assert (Hidx : tb_indexes (catalog_of_table (mkTable t ds tcols ks)) = U ++ Pl ++ G).
  { unfold catalog_of_table. cbn [tb_indexes t_name t_constraints]. rewrite Hfp. unfold explicit_indexes. fold U Pl fks G. rewrite <- app_assoc. reflexivity. }
  rewrite Hidx.
  assert (HU : forall i, In i U -> ix_unique i = true /\ ix_generated i = false) by (intros; eapply unique_indexes_shape; eassumption).
  assert (HP : forall i, In i Pl -> ix_unique i = false /\ ix_generated i = false) by (intros; eapply plain_indexes_shape; eassumption).
  rewrite (drop_redundant_segments pcols U Pl G (fun i Hi => proj2 (HU i Hi)) (fun i Hi => proj2 (HP i Hi))).
  assert (Hfne : forallb (fun f => nonempty (fk_cols f)) fks = true).
  { apply forallb_forall. intros f If. unfold fks in If. destruct (in_create_fks _ _ _ If) as [fn [fc [rt [rc [od [ou [Ik Hfe]]]]]]]. subst f.
    cbn [fk_of_constraint fk_cols]. rewrite forallb_forall in Hne. specialize (Hne _ Ik). cbn [constraint_nonempty] in Hne.
    apply Bool.andb_true_iff in Hne. apply Hne. }
  assert (Ht : mkMTable t (force_notnull pcols (tb_cols (catalog_of_table (mkTable t ds tcols ks)))) (Some pcols)
                 (U ++ Pl ++ drop_redundant_generated pcols G)
                 (tb_fks (catalog_of_table (mkTable t ds tcols ks))) (tb_checks (catalog_of_table (mkTable t ds tcols ks)))
               = catalog_of_table td').
  { unfold td', catalog_of_table. cbn [t_name t_columns t_constraints tb_cols tb_fks tb_checks].
    assert (Hfp' : first_pk (ks ++ [k]) = Some pcols).
    { unfold first_pk. rewrite filter_app, Hfil. reflexivity. }
    rewrite Hfp'.
    assert (Hau : auto_increment_columns (ks ++ [k]) = auto_increment_columns ks).
    { unfold auto_increment_columns. rewrite flat_map_app. cbn [flat_map]. rewrite !app_nil_r. reflexivity. }
    rewrite Hau.
    assert (Hex' : explicit_indexes t (ks ++ [k]) = U ++ Pl).
    { unfold explicit_indexes, unique_indexes, plain_indexes. rewrite !flat_map_app. cbn [flat_map]. rewrite !app_nil_r. reflexivity. }
    assert (Hfk' : create_fks t (ks ++ [k]) = fks).
    { unfold fks, create_fks. rewrite flat_map_app. cbn [flat_map]. rewrite app_nil_r. reflexivity. }
    assert (Hck : flat_map (fun k0 => match k0 with CCheck n1 e => [(n1, e)] | _ => [] end) (ks ++ [k])
                  = flat_map (fun k0 => match k0 with CCheck n1 e => [(n1, e)] | _ => [] end) ks).
    { rewrite flat_map_app. cbn [flat_map]. rewrite app_nil_r. reflexivity. }
    rewrite Hex', Hfk', Hck.
    rewrite (generated_add_key pcols fks ([pcols] ++ map ix_cols (U ++ Pl)) ([] ++ map ix_cols (U ++ Pl)) Hfne).
    + fold fks. fold G. rewrite <- app_assoc. f_equal.
      unfold force_notnull. rewrite map_map. apply map_ext. intro c.
      rewrite Hfp. cbn [mc_name mc_type mc_notnull mc_default mc_auto mem_str existsb].
      rewrite Bool.orb_false_r. destruct (mem_str (c_name c) pcols).
      * rewrite Bool.orb_true_r. reflexivity.
      * rewrite Bool.orb_false_r. reflexivity.
    + intro x. cbn [app existsb]. apply Bool.orb_comm. }
  cbn [tb_name catalog_of_table t_name] in *. rewrite Ht, Cs. reflexivity.
Qed.
