(* Simulation lemmas for RemoveConstraint of an index / unique key, a foreign key, a primary key on MySQL. *)
From VV.M1 Require Import PrefixStrP.
From VV.MYSQL Require Import SpecFk ModifyP SimP SimKeysP SimCreateP SimFkP.
From Coq Require Import Lia.

(* ---------- clear_inline only touches inline fields, which the catalog never reads ---------- *)
Definition core (c : column_def) := (c_name c, c_type c, c_nullable c, c_default c, c_comment c).
Lemma mk_mcol_core : forall ks c c', core c = core c' -> mk_mcol ks c = mk_mcol ks c'.
Proof. intros ks c c' H. unfold core in H. inversion H as [[H1 H2 H3 H4 H5]]. unfold mk_mcol. rewrite H1, H2, H3, H4. reflexivity. Qed.

Lemma modify_first_core : forall p f cols, (forall c, core (f c) = core c) -> map core (modify_first p f cols) = map core cols.
Proof.
  intros p f cols Hf. induction cols as [|c r IH]; [reflexivity|]. cbn [modify_first]. destruct (p c); cbn [map]; [rewrite Hf|rewrite IH]; reflexivity.
Qed.
Lemma fold_modify_core : forall (f : column_def -> column_def) xs cols, (forall c, core (f c) = core c) ->
  map core (fold_left (fun cs x => modify_first (named x) f cs) xs cols) = map core cols.
Proof.
  intros f xs. induction xs as [|x r IH]; intros cols Hf; [reflexivity|]. cbn [fold_left]. rewrite IH by exact Hf. apply modify_first_core. exact Hf.
Qed.
Lemma map_core : forall (f : column_def -> column_def) cols, (forall c, core (f c) = core c) -> map core (map f cols) = map core cols.
Proof. intros f cols Hf. rewrite map_map. apply map_ext. exact Hf. Qed.
Lemma clear_index_auto_core : forall t n cols, map core (clear_index_auto t n cols) = map core cols.
Proof.
  intros t n cols. induction cols as [|c r IH]; [reflexivity|]. cbn [clear_index_auto].
  destruct (dec_b _ _ _); cbn [map]; [reflexivity|rewrite IH; reflexivity].
Qed.
Lemma clear_unique_named_core : forall cn c, core (clear_unique_named cn c) = core c.
Proof.
  intros cn c. unfold clear_unique_named. destruct (c_unique c) as [[x|l|b]|]; try reflexivity.
  - destruct (String.eqb x cn); reflexivity.
  - destruct (filter _ l); reflexivity.
Qed.
Lemma clear_index_named_core : forall cn c, core (clear_index_named cn c) = core c.
Proof.
  intros cn c. unfold clear_index_named. destruct (c_index c) as [[x|l|b]|]; try reflexivity.
  - destruct (String.eqb x cn); reflexivity.
  - destruct (filter _ l); [reflexivity|]. destruct (Nat.ltb _ _); reflexivity.
Qed.

Lemma clear_inline_core : forall t k cols, map core (clear_inline t k cols) = map core cols.
Proof.
  intros t k cols. destruct k as [a pc|n uc|n fc rt rc od ou|n e|n ic]; cbn [clear_inline].
  - apply fold_modify_core. intro c. reflexivity.
  - destruct n as [cn|].
    + rewrite map_core by apply clear_unique_named_core. reflexivity.
    + destruct uc as [|x [|y l]]; try reflexivity. apply modify_first_core. intro c. reflexivity.
  - apply fold_modify_core. intro c. reflexivity.
  - reflexivity.
  - destruct n as [cn|].
    + rewrite map_core by apply clear_index_named_core. apply clear_index_auto_core.
    + destruct ic as [|x [|y l]]; try apply clear_index_auto_core.
      rewrite modify_first_core by (intro c; reflexivity). apply clear_index_auto_core.
Qed.

Lemma mcols_clear_inline : forall ks t k cols, map (mk_mcol ks) (clear_inline t k cols) = map (mk_mcol ks) cols.
Proof.
  intros ks t k cols. pose proof (clear_inline_core t k cols) as H.
  revert H. generalize (clear_inline t k cols) as cols'. induction cols as [|c r IH]; intros cols' H.
  - destruct cols'; [reflexivity|discriminate].
  - destruct cols' as [|c' r']; [discriminate|]. cbn [map] in *.
    assert (Hc : core c' = core c) by (injection H; intros; unfold core; congruence).
    assert (Hr : map core r' = map core r) by (injection H; intros; assumption).
    rewrite (mk_mcol_core ks c' c Hc). f_equal. apply IH. exact Hr.
Qed.

(* ---------- generated indexes only look at the coverage of the foreign keys' own columns ---------- *)
Lemma generated_cov_ext : forall fks K1 K2,
  (forall f, In f fks -> existsb (is_prefix (fk_cols f)) K1 = existsb (is_prefix (fk_cols f)) K2) ->
  generated_indexes K1 fks = generated_indexes K2 fks.
Proof.
  induction fks as [|g r IH]; intros K1 K2 H; [reflexivity|].
  cbn [generated_indexes]. rewrite (H g (or_introl eq_refl)).
  destruct (nonempty (fk_cols g) && existsb (is_prefix (fk_cols g)) K2)%bool.
  - apply IH. intros f Hf. apply H. right. exact Hf.
  - f_equal. apply IH. intros f Hf. rewrite !existsb_app. rewrite (H f (or_intror Hf)). reflexivity.
Qed.

Lemma generated_filter_covered : forall (q : fkdef -> bool) fks K0 X,
  (forall f, In f fks -> q f = false -> (nonempty (fk_cols f) && existsb (is_prefix (fk_cols f)) K0)%bool = true) ->
  generated_indexes (K0 ++ X) (filter q fks) = generated_indexes (K0 ++ X) fks.
Proof.
  intros q fks K0. induction fks as [|g r IH]; intros X H; [reflexivity|].
  cbn [filter]. destruct (q g) eqn:Q.
  - cbn [generated_indexes]. destruct (nonempty (fk_cols g) && existsb (is_prefix (fk_cols g)) (K0 ++ X))%bool.
    + apply IH. intros f Hf. apply H. right. exact Hf.
    + f_equal. rewrite <- app_assoc. apply IH. intros f Hf. apply H. right. exact Hf.
  - cbn [generated_indexes]. specialize (H g (or_introl eq_refl) Q) as Hg.
    apply Bool.andb_true_iff in Hg. destruct Hg as [G1 G2]. rewrite G1. rewrite (existsb_app_l _ K0 X G2). cbn [andb].
    apply IH. intros f Hf. apply H. right. exact Hf.
Qed.

Lemma is_prefix_refl : forall l, is_prefix l l = true.
Proof. induction l as [|x r IH]; [reflexivity|]. cbn [is_prefix]. rewrite String.eqb_refl. exact IH. Qed.

(* every foreign key of the believed table finds a key (explicit or implicit) *)
Lemma generated_covers : forall fks K f,
  In f fks -> existsb (is_prefix (fk_cols f)) (K ++ map ix_cols (generated_indexes K fks)) = true.
Proof.
  induction fks as [|g r IH]; intros K f Hf; [contradiction|].
  cbn [generated_indexes]. destruct (nonempty (fk_cols g) && existsb (is_prefix (fk_cols g)) K)%bool eqn:C.
  - destruct Hf as [->|Hf]; [|apply IH; exact Hf].
    apply Bool.andb_true_iff in C. apply existsb_app_l. apply C.
  - cbn [map ix_cols]. change (K ++ fk_cols g :: map ix_cols (generated_indexes (K ++ [fk_cols g]) r))
      with (K ++ [fk_cols g] ++ map ix_cols (generated_indexes (K ++ [fk_cols g]) r)). rewrite app_assoc.
    destruct Hf as [->|Hf]; [|apply IH; exact Hf].
    apply existsb_app_l. rewrite existsb_app. cbn [existsb]. rewrite is_prefix_refl. rewrite Bool.orb_true_r. reflexivity.
Qed.

Lemma own_fks_covered : forall td,
  forallb constraint_nonempty (t_constraints td) = true ->
  forallb (fun f => covered (fk_cols f) (catalog_of_table td)) (tb_fks (catalog_of_table td)) = true.
Proof.
  intros td Hne. apply forallb_forall. intros f Hf. cbn [catalog_of_table tb_fks] in Hf.
  unfold covered. rewrite key_col_lists_catalog.
  destruct (in_create_fks _ _ _ Hf) as [fn [fc [rt [rc [od [ou [Ik Hfe]]]]]]].
  rewrite forallb_forall in Hne. specialize (Hne _ Ik). cbn [constraint_nonempty] in Hne. apply Bool.andb_true_iff in Hne.
  destruct Hne as [N1 _].
  assert (Hc : fk_cols f = fc) by (rewrite Hfe; reflexivity).
  rewrite Hc, N1. cbn [andb]. rewrite <- Hc. exact (generated_covers _ (table_keys td) f Hf).
Qed.

(* foreign keys of the whole catalog that reference [t] *)
Lemma inbound_served : forall s t tb' K,
  fks_nonempty s = true ->
  forallb (fun rc => existsb (is_prefix rc) K) (inbound_rcols s t) = true ->
  (forall x, existsb (is_prefix x) K = true -> existsb (is_prefix x) (key_col_lists tb') = true) ->
  forallb (fun tf : string * fkdef => covered (fk_rcols (snd tf)) tb') (inbound_fks t (catalog_of s)) = true.
Proof.
  intros s t tb' K Hne Hin Hsub. apply forallb_forall. intros [n f] Hf. cbn [snd].
  unfold inbound_fks in Hf. apply in_flat_map in Hf. destruct Hf as [tb [Htb Hf]].
  apply in_map_iff in Hf. destruct Hf as [f' [Heq Hf]]. inversion Heq; subst n f'. clear Heq.
  apply filter_In in Hf. destruct Hf as [Hf Hrt].
  unfold catalog_of in Htb. apply in_map_iff in Htb. destruct Htb as [td [Htd Hs]]. subst tb.
  cbn [catalog_of_table tb_fks tb_name] in *.
  destruct (in_create_fks _ _ _ Hf) as [fn [fc [rt [rc [od [ou [Ik Hfe]]]]]]]. subst f. cbn [fk_of_constraint fk_rtable fk_rcols] in *.
  unfold fks_nonempty in Hne. rewrite forallb_forall in Hne. specialize (Hne td Hs). rewrite forallb_forall in Hne. specialize (Hne _ Ik).
  cbn [constraint_nonempty] in Hne. apply Bool.andb_true_iff in Hne. destruct Hne as [_ N2].
  unfold covered. rewrite N2. cbn [andb]. apply Hsub.
  rewrite forallb_forall in Hin. apply Hin. unfold inbound_rcols. apply in_flat_map. exists td. split; [exact Hs|].
  apply in_flat_map. eexists. split; [exact Ik|]. cbn. rewrite Hrt. left. reflexivity.
Qed.

Lemma fks_served_catalog : forall s' t td' K,
  find_table t s' = Some td' ->
  forallb constraint_nonempty (t_constraints td') = true -> fks_nonempty s' = true ->
  forallb (fun rc => existsb (is_prefix rc) K) (inbound_rcols s' t) = true ->
  (forall x, existsb (is_prefix x) K = true -> existsb (is_prefix x) (key_col_lists (catalog_of_table td')) = true) ->
  fks_served (catalog_of_table td') (catalog_of s') = true.
Proof.
  intros s' t td' K Ft Hne Hall Hin Hsub. unfold fks_served. rewrite (own_fks_covered td' Hne). cbn [andb].
  destruct (find_table_in t s' td' Ft) as [_ Htn]. rewrite tb_name_catalog_of_table, Htn.
  eapply inbound_served; eassumption.
Qed.

(* ---------- filtering one constraint out of the constraint list ---------- *)
Definition rm (k : table_constraint) (ks : list table_constraint) := filter (fun c => negb (constraint_eqb c k)) ks.

Lemma constraint_eqb_true : forall a b, constraint_eqb a b = true -> a = b.
Proof. intros a b H. unfold constraint_eqb, dec_b in H. destruct (constraint_eq_dec a b); [assumption|discriminate]. Qed.
Lemma constraint_eqb_refl : forall a, constraint_eqb a a = true.
Proof. intro a. unfold constraint_eqb, dec_b. destruct (constraint_eq_dec a a); [reflexivity|contradiction]. Qed.

Lemma filter_rm_noop : forall (p : table_constraint -> bool) k ks,
  p k = false -> filter p (rm k ks) = filter p ks.
Proof.
  intros p k ks Hk. unfold rm. induction ks as [|x r IH]; [reflexivity|]. cbn [filter].
  destruct (constraint_eqb x k) eqn:E; cbn [negb].
  - apply constraint_eqb_true in E. subst x. rewrite Hk. exact IH.
  - cbn [filter]. destruct (p x); [f_equal|]; exact IH.
Qed.
Lemma flat_map_rm_noop {B} : forall (g : table_constraint -> list B) k ks, g k = [] -> flat_map g (rm k ks) = flat_map g ks.
Proof.
  intros g k ks Hk. unfold rm. induction ks as [|x r IH]; [reflexivity|]. cbn [filter flat_map].
  destruct (constraint_eqb x k) eqn:E; cbn [negb].
  - apply constraint_eqb_true in E. subst x. rewrite Hk. exact IH.
  - cbn [flat_map]. rewrite IH. reflexivity.
Qed.

(* indexes produced per constraint by [g], filtered by name, against the constraint list without [k] *)
Lemma keys_filter_name : forall t (g : table_constraint -> list mindex) k name ks,
  (forall x i, In i (g x) -> derived_key_name t x = Some (ix_name i)) ->
  derived_key_name t k = Some name ->
  forallb (fun k' => implb (opt_str_eqb (derived_key_name t k') (Some name)) (constraint_eqb k' k)) ks = true ->
  filter (fun i => negb (String.eqb (ix_name i) name)) (flat_map g ks) = flat_map g (rm k ks).
Proof.
  intros t g k name ks Hg Hk Hu. unfold rm. induction ks as [|x r IH]; [reflexivity|].
  cbn [forallb] in Hu. apply Bool.andb_true_iff in Hu. destruct Hu as [Hx Hr].
  cbn [flat_map filter]. rewrite filter_app, (IH Hr).
  destruct (constraint_eqb x k) eqn:E; cbn [negb].
  - apply constraint_eqb_true in E. subst x. rewrite (filter_none _ (g k)); [reflexivity|].
    intros i Hi. specialize (Hg k i Hi). rewrite Hk in Hg. inversion Hg. rewrite String.eqb_refl. reflexivity.
  - cbn [flat_map]. f_equal. apply filter_all. intros i Hi. specialize (Hg x i Hi).
    destruct (String.eqb (ix_name i) name) eqn:En; [|reflexivity]. apply String.eqb_eq in En.
    rewrite Hg, En in Hx. unfold opt_str_eqb, dec_b in Hx. destruct (option_eq_dec string_dec (Some name) (Some name)) as [_|N]; [|contradiction].
    cbn [implb] in Hx. rewrite Hx in E. discriminate.
Qed.

Lemma existsb_flat_rm : forall (q : mindex -> bool) (g : table_constraint -> list mindex) k ks,
  (forall i, In i (g k) -> q i = false) ->
  existsb q (flat_map g (rm k ks)) = existsb q (flat_map g ks).
Proof.
  intros q g k ks Hk. unfold rm. induction ks as [|x r IH]; [reflexivity|]. cbn [filter flat_map].
  destruct (constraint_eqb x k) eqn:E; cbn [negb].
  - apply constraint_eqb_true in E. subst x. rewrite existsb_app, IH.
    assert (Z : existsb q (g k) = false).
    { destruct (existsb q (g k)) eqn:Ex; [|reflexivity]. apply existsb_exists in Ex. destruct Ex as [i [Hi Hq]]. rewrite (Hk i Hi) in Hq. discriminate. }
    rewrite Z. reflexivity.
  - cbn [flat_map]. rewrite !existsb_app, IH. reflexivity.
Qed.

Lemma step_ok : forall s a s', apply_action s a = Ok s' -> step s a = s'.
Proof. intros s a s' H. unfold step. rewrite H. reflexivity. Qed.

(* ---------- RemoveConstraint INDEX / UNIQUE ---------- *)
Theorem sim_remove_key : forall s a, remove_key_sim_hyp s a = true -> action_sim s a.
Proof.
  intros s a H s' Ha P. pose proof (step_ok s a s' Ha) as Hst. unfold remove_key_sim_hyp in H. rewrite Hst in H.
  destruct a as [tb cols0 ks0|tb|tb cl fw|tb f2 t2|tb cn|tb cn ty fw|tb cn nl fw|tb cn nd|tb cn nc|tb k|t k|f2 t2|sql]; try discriminate.
  destruct (derived_key_name t k) as [name|] eqn:Dk; [|discriminate].
  destruct (find_table t s) as [td|] eqn:Ft; [|discriminate].
  apply Bool.andb_true_iff in H; destruct H as [H Hauto].
  apply Bool.andb_true_iff in H; destruct H as [H Hinb].
  apply Bool.andb_true_iff in H; destruct H as [H Hown].
  apply Bool.andb_true_iff in H; destruct H as [H Hgen].
  apply Bool.andb_true_iff in H; destruct H as [H Huniq].
  apply Bool.andb_true_iff in H; destruct H as [H Hcont].
  apply Bool.andb_true_iff in H; destruct H as [H Hne].
  apply Bool.andb_true_iff in H; destruct H as [Hwf Hne'].
  unfold wf_names in Hwf. apply Bool.andb_true_iff in Hwf. destruct Hwf as [Hndt _].
  apply Bool.negb_true_iff in Hgen.
  destruct (find_table_in t s td Ft) as [Hin Htn].
  assert (Hkind : is_pk k = false /\ is_check k = false /\ (forall n c rt rc od ou, k <> CForeignKey n c rt rc od ou)).
  { destruct k; cbn [derived_key_name] in Dk; try discriminate; repeat split; try reflexivity; intros; discriminate. }
  destruct Hkind as [Kpk [Kchk Kfk]].
  set (f0 := fun t0 : table_def => @Ok table_def planner_error
                (mkTable (t_name t0) (t_description t0) (clear_inline t k (t_columns t0)) (rm k (t_constraints t0)))).
  set (td' := mkTable (t_name td) (t_description td) (clear_inline t k (t_columns td)) (rm k (t_constraints td))).
  destruct (frame s t f0 td td' Hndt Ft eq_refl eq_refl) as [s2 [Us Cs]].
  assert (Ha2 : apply_action s (RemoveConstraint t k) = update_table t f0 s) by reflexivity.
  rewrite Ha2, Us in Ha. inversion Ha; subst s2. clear Ha Ha2.
  assert (Ft' : find_table t s' = Some td').
  { destruct (update_table_find t f0 s td td' Ft eq_refl eq_refl) as [s3 [U3 F3]]. rewrite Us in U3. inversion U3; subst s3. exact F3. }
  assert (Ftb : find_tb t (catalog_of s) = Some (catalog_of_table td)) by (rewrite find_tb_catalog_of, Ft; reflexivity).
  (* the engine's table is the believed one *)
  assert (TB : mkMTable (tb_name (catalog_of_table td)) (tb_cols (catalog_of_table td)) (tb_pk (catalog_of_table td))
                 (filter (fun i => negb (String.eqb (ix_name i) name)) (tb_indexes (catalog_of_table td)))
                 (tb_fks (catalog_of_table td)) (tb_checks (catalog_of_table td)) = catalog_of_table td').
  { unfold td'. destruct td as [n0 ds tcols ks]. cbn [t_name t_description t_columns t_constraints] in *. subst n0.
    unfold catalog_of_table. cbn [t_name t_columns t_constraints tb_name tb_cols tb_pk tb_indexes tb_fks tb_checks].
    assert (Hpk : first_pk (rm k ks) = first_pk ks) by (unfold first_pk; rewrite (filter_rm_noop is_pk k ks Kpk); reflexivity).
    assert (Hau : auto_increment_columns (rm k ks) = auto_increment_columns ks).
    { unfold auto_increment_columns. apply flat_map_rm_noop. destruct k; try reflexivity; discriminate. }
    assert (Hfk : create_fks t (rm k ks) = create_fks t ks).
    { unfold create_fks. apply flat_map_rm_noop. destruct k; try reflexivity. exfalso. eapply Kfk. reflexivity. }
    assert (Hck : flat_map (fun k0 => match k0 with CCheck n1 e => [(n1, e)] | _ => [] end) (rm k ks)
                  = flat_map (fun k0 => match k0 with CCheck n1 e => [(n1, e)] | _ => [] end) ks).
    { apply flat_map_rm_noop. destruct k; try reflexivity; discriminate. }
    rewrite Hpk, Hau, Hfk, Hck.
    fold (mk_mcol ks). 
    change (map (fun c => mkMCol (c_name c) (mysql_type_text (c_type c))
                            (negb (c_nullable c) || mem_str (c_name c) match first_pk ks with Some p => p | None => [] end)
                            (option_map (mysql_default_text (c_type c)) (c_default c))
                            (mem_str (c_name c) (auto_increment_columns ks) && supports_auto_increment (c_type c))) (clear_inline t k tcols))
      with (map (mk_mcol ks) (clear_inline t k tcols)).
    rewrite mcols_clear_inline. fold (mk_mcol ks).
    unfold explicit_indexes. rewrite !filter_app.
    assert (HU : filter (fun i => negb (String.eqb (ix_name i) name)) (unique_indexes t ks) = unique_indexes t (rm k ks)).
    { unfold unique_indexes. apply (keys_filter_name t _ k name ks); [|exact Dk|exact Huniq].
      intros x i Hi. destruct x; cbn in Hi; try contradiction. destruct Hi as [<-|[]]. reflexivity. }
    assert (HP : filter (fun i => negb (String.eqb (ix_name i) name)) (plain_indexes t ks) = plain_indexes t (rm k ks)).
    { unfold plain_indexes. apply (keys_filter_name t _ k name ks); [|exact Dk|exact Huniq].
      intros x i Hi. destruct x; cbn in Hi; try contradiction. destruct Hi as [<-|[]]. reflexivity. }
    rewrite HU, HP.
    set (pkl := match first_pk ks with Some p => [p] | None => [] end).
    set (fks := create_fks t ks).
    assert (HG : generated_indexes (pkl ++ map ix_cols (unique_indexes t (rm k ks) ++ plain_indexes t (rm k ks))) fks
                 = generated_indexes (pkl ++ map ix_cols (unique_indexes t ks ++ plain_indexes t ks)) fks).
    { apply generated_cov_ext. intros f Hf. rewrite !existsb_app, !map_app, !existsb_app, !existsb_map.
      assert (Hnp : is_prefix (fk_cols f) (constraint_columns k) = false).
      { unfold fks in Hf. destruct (in_create_fks _ _ _ Hf) as [fn [fc [rt [rc [od [ou [Ik Hfe]]]]]]]. subst f. cbn [fk_of_constraint fk_cols].
        rewrite forallb_forall in Hown. apply Bool.negb_true_iff. apply Hown. unfold own_fk_cols. cbn [t_constraints].
        apply in_flat_map. eexists. split; [exact Ik|]. left. reflexivity. }
      unfold unique_indexes, plain_indexes.
      rewrite (existsb_flat_rm (fun x => is_prefix (fk_cols f) (ix_cols x)) _ k ks), (existsb_flat_rm (fun x => is_prefix (fk_cols f) (ix_cols x)) _ k ks); [reflexivity| |].
      - intros i Hi. destruct k; cbn in Hi; try contradiction. destruct Hi as [<-|[]]. exact Hnp.
      - intros i Hi. destruct k; cbn in Hi; try contradiction. destruct Hi as [<-|[]]. exact Hnp. }
    rewrite HG.
    rewrite (filter_all _ (generated_indexes _ fks)); [rewrite <- app_assoc; reflexivity|].
    intros i Hi. destruct (String.eqb (ix_name i) name) eqn:En; [|reflexivity]. exfalso. apply String.eqb_eq in En.
    assert (M : mem_str (ix_name i) (map ix_name (generated_indexes (pkl ++ map ix_cols (unique_indexes t ks ++ plain_indexes t ks)) fks)) = true).
    { unfold mem_str. apply existsb_exists. exists (ix_name i). split; [apply in_map; exact Hi|apply String.eqb_refl]. }
    rewrite En in M. rewrite (generated_names_from_fks name _ fks Hgen) in M. discriminate. }
  assert (Hhas : has_index name (catalog_of_table td) = true).
  { unfold has_index. apply existsb_exists. unfold contains_constraint in Hcont. apply existsb_exists in Hcont. destruct Hcont as [k' [Ik Hk]].
    apply constraint_eqb_true in Hk. subst k'.
    destruct td as [n0 ds tcols ks]. cbn [t_name t_constraints] in *. subst n0.
    destruct k as [| un uc | | | inn ic]; cbn [derived_key_name] in Dk; try discriminate; inversion Dk; subst name.
    - exists (mkMIndex (build_unique_constraint_name t uc un) uc true false). split; [|apply String.eqb_refl].
      cbn [catalog_of_table tb_indexes t_name t_constraints]. apply in_or_app. left. unfold explicit_indexes. apply in_or_app. left.
      unfold unique_indexes. apply in_flat_map. eexists. split; [exact Ik|]. left. reflexivity.
    - exists (mkMIndex (build_index_name t ic inn) ic false false). split; [|apply String.eqb_refl].
      cbn [catalog_of_table tb_indexes t_name t_constraints]. apply in_or_app. left. unfold explicit_indexes. apply in_or_app. right.
      unfold plain_indexes. apply in_flat_map. eexists. split; [exact Ik|]. left. reflexivity. }
  assert (Hne2 : forallb constraint_nonempty (t_constraints td') = true).
  { unfold td'. cbn [t_constraints]. unfold rm. apply forallb_forall. intros x Hx. apply filter_In in Hx. rewrite forallb_forall in Hne. apply Hne. apply Hx. }
  assert (Hserved : fks_served (catalog_of_table td') (catalog_of s') = true).
  { eapply (fks_served_catalog s' t td' (table_keys td')); try eassumption.
    intros x Hx. rewrite key_col_lists_catalog. apply existsb_app_l. exact Hx. }
  assert (Hao : auto_ok (catalog_of_table td') = true).
  { rewrite <- TB. destruct (catalog_of_table td) as [a1 a2 a3 a4 a5 a6]. cbn [tb_name tb_cols tb_pk tb_indexes tb_fks tb_checks].
    apply (auto_by_pk_ok a1 a2 a3 [] [] []). unfold auto_by_pk in *. cbn [tb_cols tb_pk] in *. exact Hauto. }
  assert (E : forall st, (st = SAlterDropIndex t name \/ st = SDropIndexOn name t) -> exec (catalog_of s) st = Ok (catalog_of s')).
  { intros st Hst2. destruct Hst2 as [-> | ->]; cbn [exec]; unfold with_tb; rewrite Ftb, Hhas; cbn [negb]; rewrite TB, <- Cs, Hserved, Hao; reflexivity. }
  destruct k as [| un uc | | | inn ic]; cbn [derived_key_name] in Dk; try discriminate; inversion Dk; subst name.
  - exists [SAlterDropIndex t (build_unique_constraint_name t uc un)]. split; [reflexivity|].
    unfold run. cbn [run_from]. rewrite (E _ (or_introl eq_refl)). reflexivity.
  - exists [SDropIndexOn (build_index_name t ic inn) t]. split; [reflexivity|].
    unfold run. cbn [run_from]. rewrite (E _ (or_intror eq_refl)). reflexivity.
Qed.

(* ---------- RemoveConstraint FOREIGN KEY ---------- *)
Lemma fks_filter_name : forall t k name ks,
  (match k with CForeignKey n c _ _ _ _ => build_foreign_key_name t c n = name | _ => False end) ->
  forallb (fun k' => match k' with
                     | CForeignKey n' c' _ _ _ _ => implb (String.eqb (build_foreign_key_name t c' n') name) (constraint_eqb k' k)
                     | _ => true
                     end) ks = true ->
  filter (fun f => negb (String.eqb (fk_name f) name)) (create_fks t ks) = create_fks t (rm k ks).
Proof.
  intros t k name ks Hk Hu. unfold rm, create_fks. induction ks as [|x r IH]; [reflexivity|].
  cbn [forallb] in Hu. apply Bool.andb_true_iff in Hu. destruct Hu as [Hx Hr].
  cbn [flat_map filter]. rewrite filter_app, (IH Hr).
  destruct (constraint_eqb x k) eqn:E; cbn [negb].
  - apply constraint_eqb_true in E. subst x. destruct k; try contradiction. cbn [filter fk_of_constraint fk_name]. rewrite Hk, String.eqb_refl. reflexivity.
  - cbn [flat_map]. f_equal. destruct x; try reflexivity. cbn [filter fk_of_constraint fk_name].
    destruct (String.eqb (build_foreign_key_name t columns name0) name); [cbn [implb] in Hx; rewrite Hx in E; discriminate|reflexivity].
Qed.

Theorem sim_remove_fk : forall s a, remove_fk_sim_hyp s a = true -> action_sim s a.
Proof.
  intros s a H s' Ha P. unfold remove_fk_sim_hyp in H.
  destruct a as [tb cols0 ks0|tb|tb cl fw|tb f2 t2|tb cn|tb cn ty fw|tb cn nl fw|tb cn nd|tb cn nc|tb k|t k|f2 t2|sql]; try discriminate.
  destruct k as [| |n cols rt rcols od ou| |]; try discriminate.
  destruct (find_table t s) as [td|] eqn:Ft; [|discriminate].
  apply Bool.andb_true_iff in H; destruct H as [H Hcov].
  apply Bool.andb_true_iff in H; destruct H as [H Huniq].
  apply Bool.andb_true_iff in H; destruct H as [H Hcont].
  apply Bool.andb_true_iff in H; destruct H as [Hwf Hne].
  unfold wf_names in Hwf. apply Bool.andb_true_iff in Hwf. destruct Hwf as [Hndt _].
  destruct (find_table_in t s td Ft) as [Hin Htn].
  set (k := CForeignKey n cols rt rcols od ou) in *.
  set (name := build_foreign_key_name t cols n) in *.
  set (f0 := fun t0 : table_def => @Ok table_def planner_error
                (mkTable (t_name t0) (t_description t0) (clear_inline t k (t_columns t0)) (rm k (t_constraints t0)))).
  set (td' := mkTable (t_name td) (t_description td) (clear_inline t k (t_columns td)) (rm k (t_constraints td))).
  destruct (frame s t f0 td td' Hndt Ft eq_refl eq_refl) as [s2 [Us Cs]].
  assert (Ha2 : apply_action s (RemoveConstraint t k) = update_table t f0 s) by reflexivity.
  rewrite Ha2, Us in Ha. inversion Ha; subst s2. clear Ha Ha2.
  exists [SDropFk t name]. split; [reflexivity|].
  assert (Ftb : find_tb t (catalog_of s) = Some (catalog_of_table td)) by (rewrite find_tb_catalog_of, Ft; reflexivity).
  unfold run. cbn [run_from exec]. unfold with_tb. rewrite Ftb.
  assert (Hmem : mem_str name (map fk_name (tb_fks (catalog_of_table td))) = true).
  { unfold contains_constraint in Hcont. apply existsb_exists in Hcont. destruct Hcont as [k' [Ik Hk]].
    apply constraint_eqb_true in Hk. subst k'. unfold mem_str. apply existsb_exists. exists name. split; [|apply String.eqb_refl].
    cbn [catalog_of_table tb_fks]. apply in_map_iff. exists (fk_of_constraint (t_name td) n cols rt rcols od ou). split.
    - cbn [fk_of_constraint fk_name]. rewrite Htn. reflexivity.
    - unfold create_fks. apply in_flat_map. eexists. split; [exact Ik|]. left. reflexivity. }
  rewrite Hmem. cbn [negb].
  assert (TB : mkMTable (tb_name (catalog_of_table td)) (tb_cols (catalog_of_table td)) (tb_pk (catalog_of_table td))
                 (tb_indexes (catalog_of_table td))
                 (filter (fun f => negb (String.eqb (fk_name f) name)) (tb_fks (catalog_of_table td))) (tb_checks (catalog_of_table td))
               = catalog_of_table td').
  { unfold td'. destruct td as [n0 ds tcols ks]. cbn [t_name t_description t_columns t_constraints] in *. subst n0.
    unfold catalog_of_table. cbn [t_name t_columns t_constraints tb_name tb_cols tb_pk tb_indexes tb_fks tb_checks].
    assert (Hpk : first_pk (rm k ks) = first_pk ks) by (unfold first_pk; rewrite (filter_rm_noop is_pk k ks eq_refl); reflexivity).
    assert (Hau : auto_increment_columns (rm k ks) = auto_increment_columns ks) by (unfold auto_increment_columns; apply flat_map_rm_noop; reflexivity).
    assert (Hu : unique_indexes t (rm k ks) = unique_indexes t ks) by (unfold unique_indexes; apply flat_map_rm_noop; reflexivity).
    assert (Hp : plain_indexes t (rm k ks) = plain_indexes t ks) by (unfold plain_indexes; apply flat_map_rm_noop; reflexivity).
    assert (Hck : flat_map (fun k0 => match k0 with CCheck n1 e => [(n1, e)] | _ => [] end) (rm k ks)
                  = flat_map (fun k0 => match k0 with CCheck n1 e => [(n1, e)] | _ => [] end) ks) by (apply flat_map_rm_noop; reflexivity).
    rewrite Hpk, Hau, Hck. unfold explicit_indexes. rewrite Hu, Hp.
    change (map (fun c => mkMCol (c_name c) (mysql_type_text (c_type c))
                            (negb (c_nullable c) || mem_str (c_name c) match first_pk ks with Some p => p | None => [] end)
                            (option_map (mysql_default_text (c_type c)) (c_default c))
                            (mem_str (c_name c) (auto_increment_columns ks) && supports_auto_increment (c_type c))) (clear_inline t k tcols))
      with (map (mk_mcol ks) (clear_inline t k tcols)).
    rewrite mcols_clear_inline. fold (mk_mcol ks).
    assert (Hf : filter (fun f => negb (String.eqb (fk_name f) name)) (create_fks t ks) = create_fks t (rm k ks)).
    { apply fks_filter_name; [reflexivity|exact Huniq]. }
    rewrite Hf. rewrite <- Hf.
    set (K0 := match first_pk ks with Some p => [p] | None => [] end ++ map ix_cols (unique_indexes t ks ++ plain_indexes t ks)).
    rewrite <- (app_nil_r K0).
    rewrite (generated_filter_covered (fun f => negb (String.eqb (fk_name f) name)) (create_fks t ks) K0 []); [rewrite app_nil_r; reflexivity|].
    intros f If Hq. apply Bool.negb_false_iff in Hq. apply String.eqb_eq in Hq.
    destruct (in_create_fks _ _ _ If) as [fn [fc [frt [frc [fod [fou [Ik Hfe]]]]]]]. subst f. cbn [fk_of_constraint fk_name fk_cols] in *.
    rewrite forallb_forall in Huniq. specialize (Huniq _ Ik). cbn in Huniq. fold name in Huniq. rewrite Hq, String.eqb_refl in Huniq. cbn [implb] in Huniq.
    apply constraint_eqb_true in Huniq. inversion Huniq; subst.
    rewrite forallb_forall in Hne. specialize (Hne _ Ik). cbn [constraint_nonempty] in Hne. apply Bool.andb_true_iff in Hne. destruct Hne as [N1 _].
    rewrite N1. cbn [andb]. unfold table_keys in Hcov. cbn [t_name t_constraints] in Hcov. unfold explicit_indexes in Hcov. exact Hcov. }
  rewrite TB, Cs. reflexivity.
Qed.

(* ---------- RemoveConstraint PRIMARY KEY ---------- *)
Theorem sim_remove_pk : forall s a, remove_pk_sim_hyp s a = true -> action_sim s a.
Proof.
  intros s a H s' Ha P. pose proof (step_ok s a s' Ha) as Hst. unfold remove_pk_sim_hyp in H. rewrite Hst in H.
  destruct a as [tb cols0 ks0|tb|tb cl fw|tb f2 t2|tb cn|tb cn ty fw|tb cn nl fw|tb cn nd|tb cn nc|tb k|t k|f2 t2|sql]; try discriminate.
  destruct k as [[|] pcols| | | |]; try discriminate.
  destruct (find_table t s) as [td|] eqn:Ft; [|discriminate].
  apply Bool.andb_true_iff in H; destruct H as [H Hinb].
  apply Bool.andb_true_iff in H; destruct H as [H Hown].
  apply Bool.andb_true_iff in H; destruct H as [H Hnn].
  apply Bool.andb_true_iff in H; destruct H as [H Honly].
  apply Bool.andb_true_iff in H; destruct H as [H Hcont].
  apply Bool.andb_true_iff in H; destruct H as [H Hne].
  apply Bool.andb_true_iff in H; destruct H as [Hwf Hne'].
  unfold wf_names in Hwf. apply Bool.andb_true_iff in Hwf. destruct Hwf as [Hndt _].
  destruct (find_table_in t s td Ft) as [Hin Htn].
  set (k := CPrimaryKey false pcols) in *.
  set (f0 := fun t0 : table_def => @Ok table_def planner_error
                (mkTable (t_name t0) (t_description t0) (clear_inline t k (t_columns t0)) (rm k (t_constraints t0)))).
  set (td' := mkTable (t_name td) (t_description td) (clear_inline t k (t_columns td)) (rm k (t_constraints td))).
  destruct (frame s t f0 td td' Hndt Ft eq_refl eq_refl) as [s2 [Us Cs]].
  assert (Ha2 : apply_action s (RemoveConstraint t k) = update_table t f0 s) by reflexivity.
  rewrite Ha2, Us in Ha. inversion Ha; subst s2. clear Ha Ha2.
  assert (Ft' : find_table t s' = Some td').
  { destruct (update_table_find t f0 s td td' Ft eq_refl eq_refl) as [s3 [U3 F3]]. rewrite Us in U3. inversion U3; subst s3. exact F3. }
  exists [SDropPk t]. split; [reflexivity|].
  assert (Ftb : find_tb t (catalog_of s) = Some (catalog_of_table td)) by (rewrite find_tb_catalog_of, Ft; reflexivity).
  unfold run. cbn [run_from exec]. unfold with_tb. rewrite Ftb.
  destruct td as [n0 ds tcols ks]. cbn [t_name t_description t_columns t_constraints] in *. subst n0.
  (* every primary key constraint of the table is k *)
  assert (Hfil : forall x, In x (filter is_pk ks) -> x = k).
  { intros x Hx. apply filter_In in Hx. destruct Hx as [Ix Px]. rewrite forallb_forall in Honly. specialize (Honly x Ix). rewrite Px in Honly.
    cbn [implb] in Honly. apply constraint_eqb_true. exact Honly. }
  assert (Hfp : first_pk ks = Some pcols).
  { unfold first_pk. unfold contains_constraint in Hcont. apply existsb_exists in Hcont. destruct Hcont as [k' [Ik Hk]].
    apply constraint_eqb_true in Hk. subst k'.
    assert (I2 : In k (filter is_pk ks)) by (apply filter_In; split; [exact Ik|reflexivity]).
    destruct (filter is_pk ks) as [|y l] eqn:F; [contradiction|]. rewrite (Hfil y (or_introl eq_refl)). reflexivity. }
  assert (Hnopk : filter is_pk (rm k ks) = []).
  { apply filter_none. intros x Hx. unfold rm in Hx. apply filter_In in Hx. destruct Hx as [Ix Ex]. destruct (is_pk x) eqn:Px; [|reflexivity].
    rewrite (Hfil x) in Ex; [|apply filter_In; split; assumption]. rewrite constraint_eqb_refl in Ex. discriminate. }
  assert (Hau0 : auto_increment_columns ks = []).
  { unfold auto_increment_columns. clear -Hfil. induction ks as [|x r IH]; [reflexivity|]. cbn [flat_map].
    rewrite IH; [|intros y Hy; apply Hfil; cbn [filter]; destruct (is_pk x); [right|]; exact Hy].
    destruct x as [[|] pc| | | |]; try reflexivity. specialize (Hfil (CPrimaryKey true pc) (or_introl eq_refl)). discriminate. }
  change (tb_pk (catalog_of_table (mkTable t ds tcols ks))) with (first_pk ks). rewrite Hfp.
  assert (TB : mkMTable (tb_name (catalog_of_table (mkTable t ds tcols ks))) (tb_cols (catalog_of_table (mkTable t ds tcols ks))) None
                 (tb_indexes (catalog_of_table (mkTable t ds tcols ks))) (tb_fks (catalog_of_table (mkTable t ds tcols ks)))
                 (tb_checks (catalog_of_table (mkTable t ds tcols ks))) = catalog_of_table td').
  { unfold td'. unfold catalog_of_table. cbn [t_name t_columns t_constraints tb_name tb_cols tb_pk tb_indexes tb_fks tb_checks].
    assert (Hpk' : first_pk (rm k ks) = None) by (unfold first_pk; rewrite Hnopk; reflexivity).
    assert (Hau : auto_increment_columns (rm k ks) = []).
    { unfold auto_increment_columns in *. rewrite (flat_map_rm_noop _ k ks eq_refl). exact Hau0. }
    assert (Hu : unique_indexes t (rm k ks) = unique_indexes t ks) by (unfold unique_indexes; apply flat_map_rm_noop; reflexivity).
    assert (Hp : plain_indexes t (rm k ks) = plain_indexes t ks) by (unfold plain_indexes; apply flat_map_rm_noop; reflexivity).
    assert (Hf : create_fks t (rm k ks) = create_fks t ks) by (unfold create_fks; apply flat_map_rm_noop; reflexivity).
    assert (Hck : flat_map (fun k0 => match k0 with CCheck n1 e => [(n1, e)] | _ => [] end) (rm k ks)
                  = flat_map (fun k0 => match k0 with CCheck n1 e => [(n1, e)] | _ => [] end) ks) by (apply flat_map_rm_noop; reflexivity).
    rewrite Hpk', Hau, Hau0, Hfp, Hf, Hck. unfold explicit_indexes. rewrite Hu, Hp.
    f_equal.
    - (* columns: a primary-key column is declared NOT NULL *)
      change (map (fun c => mkMCol (c_name c) (mysql_type_text (c_type c)) (negb (c_nullable c) || mem_str (c_name c) [])
                              (option_map (mysql_default_text (c_type c)) (c_default c))
                              (mem_str (c_name c) [] && supports_auto_increment (c_type c))) (clear_inline t k tcols))
        with (map (mk_mcol []) (clear_inline t k tcols)).
      rewrite mcols_clear_inline. apply map_ext_in. intros c Ic. unfold mk_mcol. cbn [first_pk filter auto_increment_columns flat_map mem_str existsb].
      rewrite Bool.orb_false_r. rewrite forallb_forall in Hnn. specialize (Hnn c Ic).
      destruct (mem_str (c_name c) pcols); [|rewrite Bool.orb_false_r; reflexivity].
      cbn [implb] in Hnn. rewrite Hnn. reflexivity.
    - f_equal. apply generated_cov_ext. intros f If. cbn [app existsb].
      destruct (in_create_fks _ _ _ If) as [fn [fc [frt [frc [fod [fou [Ik Hfe]]]]]]]. subst f. cbn [fk_of_constraint fk_cols].
      rewrite forallb_forall in Hown. specialize (Hown fc). rewrite Bool.negb_true_iff in Hown. rewrite Hown; [reflexivity|].
      unfold own_fk_cols. cbn [t_constraints]. apply in_flat_map. eexists. split; [exact Ik|]. left. reflexivity. }
  assert (Hne2 : forallb constraint_nonempty (t_constraints td') = true).
  { unfold td'. cbn [t_constraints]. unfold rm. apply forallb_forall. intros x Hx. apply filter_In in Hx. rewrite forallb_forall in Hne. apply Hne. apply Hx. }
  assert (Hserved : fks_served (catalog_of_table td') (catalog_of s') = true).
  { eapply (fks_served_catalog s' t td' (table_keys td')); try eassumption.
    intros x Hx. rewrite key_col_lists_catalog. apply existsb_app_l. exact Hx. }
  assert (Hao : auto_ok (catalog_of_table td') = true).
  { rewrite <- TB. unfold auto_ok. cbn [tb_cols].
    rewrite (filter_none mc_auto); [reflexivity|]. intros x Hx. rewrite catalog_of_table_cols in Hx. apply in_map_iff in Hx.
    destruct Hx as [c [Hc _]]. subst x. unfold mk_mcol. cbn [mc_auto t_constraints]. rewrite Hau0. reflexivity. }
  rewrite TB, <- Cs, Hao, Hserved. reflexivity.
Qed.
