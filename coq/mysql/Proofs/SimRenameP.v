(* Simulation lemmas for RenameTable and RenameColumn on MySQL, outside the class C04-names-after-rename. *)
From VV.M1 Require Import PrefixStrP.
From VV.MYSQL Require Import SpecFk ModifyP SimP SimKeysP SimCreateP SimFkP SimRemoveP.
From Coq Require Import Lia.

(* ---------- RenameTable ---------- *)
Definition rt_map (a b : string) (t : mtable) : mtable :=
  mkMTable (if String.eqb (tb_name t) a then b else tb_name t) (tb_cols t) (tb_pk t) (tb_indexes t)
           (map (fun f => if String.eqb (fk_rtable f) a
                          then mkFk (fk_name f) (fk_cols f) b (fk_rcols f) (fk_on_delete f) (fk_on_update f) else f) (tb_fks t))
           (tb_checks t).

Definition no_fk_to (a : string) (x : table_def) : bool :=
  forallb (fun k => match k with CForeignKey _ _ rt _ _ _ => negb (String.eqb rt a) | _ => true end) (t_constraints x).

Lemma fks_no_ref_id : forall a b x, no_fk_to a x = true ->
  map (fun f => if String.eqb (fk_rtable f) a
                then mkFk (fk_name f) (fk_cols f) b (fk_rcols f) (fk_on_delete f) (fk_on_update f) else f)
      (tb_fks (catalog_of_table x)) = tb_fks (catalog_of_table x).
Proof.
  intros a b x H. rewrite <- (map_id (tb_fks (catalog_of_table x))) at 2. apply map_ext_in. intros f Hf.
  cbn [catalog_of_table tb_fks] in Hf. destruct (in_create_fks _ _ _ Hf) as [fn [fc [rt [rc [od [ou [Ik Hfe]]]]]]]. subst f.
  cbn [fk_of_constraint fk_rtable]. unfold no_fk_to in H. rewrite forallb_forall in H. specialize (H _ Ik). cbn in H.
  apply Bool.negb_true_iff in H. rewrite H. reflexivity.
Qed.

Lemma rt_map_other : forall a b x, String.eqb (t_name x) a = false -> no_fk_to a x = true ->
  rt_map a b (catalog_of_table x) = catalog_of_table x.
Proof.
  intros a b x Hn Hf. unfold rt_map. rewrite tb_name_catalog_of_table, Hn. rewrite (fks_no_ref_id a b x Hf). reflexivity.
Qed.

Lemma no_derived_empty : forall t ks, forallb (fun k => negb (has_derived_name k)) ks = true ->
  unique_indexes t ks = [] /\ plain_indexes t ks = [] /\ create_fks t ks = [].
Proof.
  intros t ks H. unfold unique_indexes, plain_indexes, create_fks. induction ks as [|k r IH]; [repeat split; reflexivity|].
  cbn [forallb] in H. apply Bool.andb_true_iff in H. destruct H as [Hk Hr]. destruct (IH Hr) as [I1 [I2 I3]].
  cbn [flat_map]. rewrite I1, I2, I3. destruct k; cbn in Hk; try discriminate; repeat split; reflexivity.
Qed.

Lemma rt_map_self : forall a b x, String.eqb (t_name x) a = true ->
  forallb (fun k => negb (has_derived_name k)) (t_constraints x) = true ->
  rt_map a b (catalog_of_table x) = catalog_of_table (mkTable b (t_description x) (t_columns x) (t_constraints x)).
Proof.
  intros a b x Hn Hd. unfold rt_map. rewrite tb_name_catalog_of_table, Hn.
  unfold catalog_of_table. cbn [t_name t_columns t_constraints tb_cols tb_pk tb_indexes tb_fks tb_checks].
  destruct (no_derived_empty (t_name x) _ Hd) as [U1 [P1 F1]]. destruct (no_derived_empty b _ Hd) as [U2 [P2 F2]].
  unfold explicit_indexes. rewrite U1, P1, F1, U2, P2, F2. reflexivity.
Qed.

Lemma rename_catalog : forall a b s td,
  nodup_str (map t_name s) = true -> find_table a s = Some td ->
  forallb (fun k => negb (has_derived_name k)) (t_constraints td) = true ->
  forallb (no_fk_to a) s = true ->
  exists s', update_table a (fun t => Ok (mkTable b (t_description t) (t_columns t) (t_constraints t))) s = Ok s' /\
             map (rt_map a b) (catalog_of s) = catalog_of s'.
Proof.
  intros a b s td. unfold find_table. induction s as [|x r IH]; intros Hnd Hf Hd Hno; cbn [find] in Hf; [discriminate|].
  cbn [map nodup_str] in Hnd. apply Bool.andb_true_iff in Hnd. destruct Hnd as [Hx Hr].
  cbn [forallb] in Hno. apply Bool.andb_true_iff in Hno. destruct Hno as [Nx Nr].
  cbn [update_table]. destruct (String.eqb (t_name x) a) eqn:E.
  - inversion Hf; subst x. eexists. split; [reflexivity|]. cbn [catalog_of map]. rewrite (rt_map_self a b td E Hd). f_equal.
    apply String.eqb_eq in E. apply Bool.negb_true_iff in Hx.
    clear -Hx Nr E. induction r as [|y r IH]; [reflexivity|]. cbn [forallb] in Nr. apply Bool.andb_true_iff in Nr. destruct Nr as [N1 N2].
    unfold mem_str in Hx. cbn [map existsb] in Hx. apply Bool.orb_false_iff in Hx. destruct Hx as [H1 H2].
    cbn [map]. rewrite rt_map_other; [f_equal; apply IH; assumption| |exact N1]. rewrite <- E. rewrite String.eqb_sym. exact H1.
  - destruct (IH Hr Hf Hd Nr) as [s' [U C]]. rewrite U. eexists. split; [reflexivity|]. cbn [catalog_of map]. rewrite (rt_map_other a b x E Nx). f_equal. exact C.
Qed.

Theorem sim_rename_table : forall s a, rename_table_sim_hyp s a = true -> action_sim s a.
Proof.
  intros s a H s' Ha P. unfold rename_table_sim_hyp in H.
  destruct a as [tb cols0 ks0|tb|tb cl fw|tb f2 t2|tb cn|tb cn ty fw|tb cn nl fw|tb cn nd|tb cn nc|tb k|tb k|from to|sql]; try discriminate.
  destruct (find_table from s) as [td|] eqn:Ft; [|discriminate].
  apply Bool.andb_true_iff in H; destruct H as [H Hno].
  apply Bool.andb_true_iff in H; destruct H as [H Hd].
  apply Bool.andb_true_iff in H; destruct H as [Hwf Hnt].
  unfold wf_names in Hwf. apply Bool.andb_true_iff in Hwf. destruct Hwf as [Hndt _].
  apply Bool.negb_true_iff in Hnt.
  destruct (rename_catalog from to s td Hndt Ft Hd Hno) as [s2 [U C]].
  cbn [apply_action] in Ha. rewrite Hnt, U in Ha. inversion Ha; subst s2. clear Ha.
  exists [SRenameTable from to]. split; [reflexivity|].
  unfold run. cbn [run_from exec]. unfold with_tb. rewrite find_tb_catalog_of, Ft. cbn [option_map].
  assert (Hb : has_tb to (catalog_of s) = false).
  { unfold has_tb. rewrite find_tb_catalog_of, (has_table_false_find to s Hnt). reflexivity. }
  rewrite Hb. fold (rt_map from to). change (map (fun t => rt_map from to t) (catalog_of s)) with (map (rt_map from to) (catalog_of s)).
  rewrite <- C. reflexivity.
Qed.

(* ---------- RenameColumn ---------- *)
Lemma rename_in_notin : forall a b l, mem_str a l = false -> rename_in a b l = l.
Proof.
  intros a b l. unfold rename_in, mem_str. induction l as [|x r IH]; intro H; [reflexivity|].
  cbn [existsb] in H. apply Bool.orb_false_iff in H. destruct H as [H1 H2]. cbn [map].
  rewrite String.eqb_sym in H1. rewrite H1. f_equal. apply IH. exact H2.
Qed.

Lemma mem_rename_other : forall a b x l, String.eqb x a = false -> String.eqb x b = false ->
  mem_str x (rename_in a b l) = mem_str x l.
Proof.
  intros a b x l Ha Hb. unfold rename_in, mem_str. induction l as [|y r IH]; [reflexivity|]. cbn [map existsb]. rewrite IH. f_equal.
  destruct (String.eqb y a) eqn:E.
  - apply String.eqb_eq in E. subst y. rewrite Ha, Hb. reflexivity.
  - reflexivity.
Qed.

Lemma mem_rename_target : forall a b l, mem_str b l = false -> mem_str b (rename_in a b l) = mem_str a l.
Proof.
  intros a b l. unfold rename_in, mem_str. induction l as [|y r IH]; intro H; [reflexivity|].
  cbn [existsb] in H. apply Bool.orb_false_iff in H. destruct H as [H1 H2]. cbn [map existsb]. rewrite (IH H2). f_equal.
  destruct (String.eqb y a) eqn:E.
  - apply String.eqb_eq in E. subst y. rewrite !String.eqb_refl. reflexivity.
  - rewrite H1. rewrite String.eqb_sym. rewrite E. reflexivity.
Qed.

Lemma is_prefix_rename : forall a b x p, mem_str a x = false -> mem_str b x = false ->
  is_prefix x (rename_in a b p) = is_prefix x p.
Proof.
  intros a b x. induction x as [|y x IH]; intros p Ha Hb; [reflexivity|].
  unfold mem_str in Ha, Hb. cbn [existsb] in Ha, Hb. apply Bool.orb_false_iff in Ha. apply Bool.orb_false_iff in Hb.
  destruct Ha as [A1 A2]. destruct Hb as [B1 B2].
  destruct p as [|z p]; [reflexivity|]. cbn [rename_in map is_prefix]. fold (rename_in a b p). rewrite (IH p A2 B2). f_equal.
  destruct (String.eqb z a) eqn:E.
  - apply String.eqb_eq in E. subst z. rewrite String.eqb_sym, B1. rewrite String.eqb_sym, A1. reflexivity.
  - reflexivity.
Qed.

Definition rn_ok (a : string) (k : table_constraint) : bool := (is_pk k || is_check k || negb (constraint_mentions a k))%bool.

Lemma flat_map_rename {B} : forall (g : table_constraint -> list B) a b ks,
  (forall k, In k ks -> g (rename_column_in_constraint a b k) = g k) ->
  flat_map g (map (rename_column_in_constraint a b) ks) = flat_map g ks.
Proof. intros g a b ks H. rewrite flat_map_map. apply flat_map_ext_in. exact H. Qed.

Lemma first_pk_rename : forall a b ks,
  first_pk (map (rename_column_in_constraint a b) ks) = option_map (rename_in a b) (first_pk ks).
Proof.
  intros a b ks. unfold first_pk. induction ks as [|k r IH]; [reflexivity|]. cbn [map filter].
  destruct k; cbn [rename_column_in_constraint is_pk]; try exact IH. reflexivity.
Qed.
Lemma auto_cols_rename : forall a b ks,
  auto_increment_columns (map (rename_column_in_constraint a b) ks) = rename_in a b (auto_increment_columns ks).
Proof.
  intros a b ks. unfold auto_increment_columns. induction ks as [|k r IH]; [reflexivity|]. cbn [map flat_map]. rewrite IH.
  unfold rename_in. rewrite map_app. f_equal. destruct k as [[|] pc| | | |]; reflexivity.
Qed.

Lemma mem_in : forall x l, In x l -> mem_str x l = true.
Proof. intros x l H. unfold mem_str. apply existsb_exists. exists x. split; [exact H|apply String.eqb_refl]. Qed.

Definition ren_mcol (b : string) (x : mcol) : mcol := mkMCol b (mc_type x) (mc_notnull x) (mc_default x) (mc_auto x).

Lemma rename_cols_tail : forall ks ks' a b r,
  (forall c, String.eqb (c_name c) a = false -> String.eqb (c_name c) b = false -> mk_mcol ks' c = mk_mcol ks c) ->
  existsb (fun x => String.eqb (c_name x) a) r = false -> existsb (fun x => String.eqb (c_name x) b) r = false ->
  map (mk_mcol ks') r = map (fun x => if String.eqb (mc_name x) a then ren_mcol b x else x) (map (mk_mcol ks) r).
Proof.
  intros ks ks' a b r P1. induction r as [|y r IH]; intros Ha Hb; [reflexivity|].
  cbn [existsb] in Ha, Hb. apply Bool.orb_false_iff in Ha. apply Bool.orb_false_iff in Hb. destruct Ha as [A1 A2]. destruct Hb as [B1 B2].
  cbn [map]. rewrite mc_name_mk, A1, (P1 y A1 B1). f_equal. apply IH; assumption.
Qed.

Lemma rename_cols : forall ks ks' a b tcols,
  nodup_str (map c_name tcols) = true ->
  existsb (fun x => String.eqb (c_name x) a) tcols = true -> existsb (fun x => String.eqb (c_name x) b) tcols = false ->
  (forall c, String.eqb (c_name c) a = false -> String.eqb (c_name c) b = false -> mk_mcol ks' c = mk_mcol ks c) ->
  (forall c, String.eqb (c_name c) a = true -> mk_mcol ks' (set_name b c) = ren_mcol b (mk_mcol ks c)) ->
  exists cols', update_first_col a (set_name b) tcols = Some cols' /\
    map (mk_mcol ks') cols' = map (fun x => if String.eqb (mc_name x) a then ren_mcol b x else x) (map (mk_mcol ks) tcols).
Proof.
  intros ks ks' a b tcols. induction tcols as [|c r IH]; intros Hnd Ha Hb P1 P2; [discriminate|].
  cbn [map nodup_str] in Hnd. apply Bool.andb_true_iff in Hnd. destruct Hnd as [Hc Hr].
  cbn [existsb] in Ha, Hb. apply Bool.orb_false_iff in Hb. destruct Hb as [B1 B2].
  cbn [update_first_col]. destruct (String.eqb (c_name c) a) eqn:E.
  - eexists. split; [reflexivity|]. cbn [map]. rewrite mc_name_mk, E, (P2 c E). f_equal.
    apply rename_cols_tail; [exact P1| |exact B2].
    apply Bool.negb_true_iff in Hc. apply String.eqb_eq in E. rewrite E in Hc. unfold mem_str in Hc. rewrite existsb_map in Hc.
    rewrite <- Hc. apply existsb_ext_in. intros x _. apply String.eqb_sym.
  - cbn [orb] in Ha. destruct (IH Hr Ha B2 P1 P2) as [cols' [U M]]. rewrite U. cbn [option_map]. eexists. split; [reflexivity|].
    cbn [map]. rewrite mc_name_mk, E, (P1 c E B1). f_equal. exact M.
Qed.

Lemma fks_rcols_id : forall t a b s',
  column_referenced s' t a = false ->
  map (fun x => mkMTable (tb_name x) (tb_cols x) (tb_pk x) (tb_indexes x)
                 (map (fun f => if String.eqb (fk_rtable f) t then rename_in_fk_parent a b f else f) (tb_fks x)) (tb_checks x))
      (catalog_of s') = catalog_of s'.
Proof.
  intros t a b s' H. unfold catalog_of. rewrite map_map. apply map_ext_in. intros td Htd.
  assert (E : map (fun f => if String.eqb (fk_rtable f) t then rename_in_fk_parent a b f else f) (tb_fks (catalog_of_table td)) = tb_fks (catalog_of_table td)).
  { rewrite <- (map_id (tb_fks (catalog_of_table td))) at 2. apply map_ext_in. intros f Hf. cbn [catalog_of_table tb_fks] in Hf.
    destruct (in_create_fks _ _ _ Hf) as [fn [fc [rt [rc [od [ou [Ik Hfe]]]]]]]. subst f. cbn [fk_of_constraint fk_rtable].
    destruct (String.eqb rt t) eqn:Er; [|reflexivity].
    unfold rename_in_fk_parent. cbn [fk_name fk_cols fk_rtable fk_rcols fk_on_delete fk_on_update].
    rewrite rename_in_notin; [reflexivity|]. cbn [fk_of_constraint fk_rcols].
    destruct (mem_str a rc) eqn:M; [|reflexivity]. exfalso.
    assert (R : column_referenced s' t a = true).
    { unfold column_referenced. apply existsb_exists. exists td. split; [exact Htd|]. apply existsb_exists. eexists. split; [exact Ik|]. cbn. rewrite Er, M. reflexivity. }
    rewrite R in H. discriminate. }
  rewrite E. destruct (catalog_of_table td) as [a1 a2 a3 a4 a5 a6]. reflexivity.
Qed.

Theorem sim_rename_column : forall s a, rename_column_sim_hyp s a = true -> action_sim s a.
Proof.
  intros s act H s' Ha P. pose proof (step_ok s act s' Ha) as Hst. unfold rename_column_sim_hyp in H. rewrite Hst in H.
  destruct act as [tb cols0 ks0|tb|tb cl fw|t a b|tb cn|tb cn ty fw|tb cn nl fw|tb cn nd|tb cn nc|tb k|tb k|f2 t2|sql]; try discriminate.
  destruct (find_table t s) as [td|] eqn:Ft; [|discriminate].
  apply Bool.andb_true_iff in H; destruct H as [H Hnref].
  apply Bool.andb_true_iff in H; destruct H as [H Hne].
  apply Bool.andb_true_iff in H; destruct H as [H Hbfree].
  apply Bool.andb_true_iff in H; destruct H as [H Hrn].
  apply Bool.andb_true_iff in H; destruct H as [H Hnb].
  apply Bool.andb_true_iff in H; destruct H as [Hwf Hhas].
  unfold wf_names in Hwf. apply Bool.andb_true_iff in Hwf. destruct Hwf as [Hndt Hndc].
  apply Bool.negb_true_iff in Hnref. apply Bool.negb_true_iff in Hnb.
  destruct (find_table_in t s td Ft) as [Hin Htn].
  assert (Hcols : nodup_str (map c_name (t_columns td)) = true) by (rewrite forallb_forall in Hndc; apply Hndc; exact Hin).
  destruct td as [n0 ds tcols ks]. cbn [t_name t_description t_columns t_constraints] in *. subst n0.
  set (ks' := map (rename_column_in_constraint a b) ks).
  (* facts about the constraints *)
  assert (Hk : forall k, In k ks -> rn_ok a k = true /\ constraint_mentions b k = false).
  { intros k Ik. rewrite forallb_forall in Hrn, Hbfree. split; [apply Hrn; exact Ik|apply Bool.negb_true_iff; apply Hbfree; exact Ik]. }
  assert (Hpkb : mem_str b (match first_pk ks with Some p => p | None => [] end) = false).
  { destruct (first_pk ks) as [p|] eqn:Fp; [|reflexivity]. destruct (first_pk_in _ _ Fp) as [au Ia]. destruct (Hk _ Ia) as [_ Hm]. exact Hm. }
  assert (Haub : mem_str b (auto_increment_columns ks) = false).
  { destruct (mem_str b (auto_increment_columns ks)) eqn:M; [|reflexivity]. exfalso. unfold mem_str in M. apply existsb_exists in M.
    destruct M as [y [Iy Ey]]. apply String.eqb_eq in Ey. subst y. unfold auto_increment_columns in Iy. apply in_flat_map in Iy. destruct Iy as [k [Ik Iy]].
    destruct k as [[|] pc| | | |]; cbn in Iy; try contradiction. destruct (Hk _ Ik) as [_ Hm]. cbn [constraint_mentions constraint_columns] in Hm.
    rewrite (mem_in b pc Iy) in Hm. discriminate. }
  assert (Hpk' : first_pk ks' = option_map (rename_in a b) (first_pk ks)) by apply first_pk_rename.
  assert (Hau' : auto_increment_columns ks' = rename_in a b (auto_increment_columns ks)) by apply auto_cols_rename.
  assert (Hpkc' : match first_pk ks' with Some p => p | None => [] end = rename_in a b (match first_pk ks with Some p => p | None => [] end)).
  { rewrite Hpk'. destruct (first_pk ks); reflexivity. }
  assert (P1 : forall c, String.eqb (c_name c) a = false -> String.eqb (c_name c) b = false -> mk_mcol ks' c = mk_mcol ks c).
  { intros c Ea Eb. unfold mk_mcol. rewrite Hpkc', Hau'. rewrite !mem_rename_other by assumption. reflexivity. }
  assert (P2 : forall c, String.eqb (c_name c) a = true -> mk_mcol ks' (set_name b c) = ren_mcol b (mk_mcol ks c)).
  { intros c Ea. apply String.eqb_eq in Ea. unfold mk_mcol, ren_mcol. cbn [set_name c_name c_type c_nullable c_default mc_type mc_notnull mc_default mc_auto].
    rewrite Hpkc', Hau'. rewrite (mem_rename_target a b _ Hpkb), (mem_rename_target a b _ Haub), Ea. reflexivity. }
  destruct (rename_cols ks ks' a b tcols Hcols Hhas Hnb P1 P2) as [cols' [U Mc]].
  set (td' := mkTable t ds cols' ks').
  destruct (frame s t (fun t0 => match update_first_col a (set_name b) (t_columns t0) with
                                 | None => Err (ColumnNotFound t a)
                                 | Some cols1 => Ok (mkTable (t_name t0) (t_description t0) cols1 (map (rename_column_in_constraint a b) (t_constraints t0)))
                                 end) (mkTable t ds tcols ks) td' Hndt Ft) as [s2 [Us Cs]].
  { cbn [t_columns]. rewrite U. reflexivity. }
  { reflexivity. }
  cbn [apply_action] in Ha. rewrite Us in Ha. inversion Ha; subst s2. clear Ha.
  exists [SRenameColumn t a b]. split; [reflexivity|].
  assert (Ftb : find_tb t (catalog_of s) = Some (catalog_of_table (mkTable t ds tcols ks))) by (rewrite find_tb_catalog_of, Ft; reflexivity).
  unfold run. cbn [run_from exec]. unfold with_tb. rewrite Ftb. rewrite !has_mcol_catalog. rewrite Hhas, Hnb. cbn [negb].
  (* the engine's table is the believed one *)
  assert (Hidx : forall i, In i (tb_indexes (catalog_of_table (mkTable t ds tcols ks))) -> mem_str a (ix_cols i) = false).
  { intros i Ii. destruct (index_cols_from_constraints _ i Ii) as [k [Ik Hc]]. cbn [t_constraints] in Ik. destruct (Hk k Ik) as [Hr _].
    unfold rn_ok in Hr. destruct k; try contradiction; rewrite Hc; cbn [is_pk is_check orb constraint_mentions constraint_columns] in Hr.
    - apply Bool.negb_true_iff in Hr. exact Hr.
    - apply Bool.negb_true_iff in Hr. apply Bool.orb_false_iff in Hr. apply Hr.
    - apply Bool.negb_true_iff in Hr. exact Hr. }
  assert (Hkren : forall k, In k ks -> is_pk k = false -> rename_column_in_constraint a b k = k).
  { intros k Ik Hp. destruct (Hk k Ik) as [Hr _]. unfold rn_ok in Hr. rewrite Hp in Hr. cbn [orb] in Hr.
    destruct k; cbn [rename_column_in_constraint is_check constraint_mentions constraint_columns orb] in *; try discriminate; try reflexivity.
    - apply Bool.negb_true_iff in Hr. rewrite (rename_in_notin a b _ Hr). reflexivity.
    - apply Bool.negb_true_iff in Hr. apply Bool.orb_false_iff in Hr. destruct Hr as [R1 R2]. rewrite (rename_in_notin a b _ R1), (rename_in_notin a b _ R2). reflexivity.
    - apply Bool.negb_true_iff in Hr. rewrite (rename_in_notin a b _ Hr). reflexivity. }
  assert (TB : mkMTable (tb_name (catalog_of_table (mkTable t ds tcols ks)))
                 (map (fun x => if String.eqb (mc_name x) a then mkMCol b (mc_type x) (mc_notnull x) (mc_default x) (mc_auto x) else x)
                      (tb_cols (catalog_of_table (mkTable t ds tcols ks))))
                 (option_map (rename_in a b) (tb_pk (catalog_of_table (mkTable t ds tcols ks))))
                 (map (fun i => mkMIndex (ix_name i) (rename_in a b (ix_cols i)) (ix_unique i) (ix_generated i)) (tb_indexes (catalog_of_table (mkTable t ds tcols ks))))
                 (map (rename_in_fk_child a b) (tb_fks (catalog_of_table (mkTable t ds tcols ks))))
                 (tb_checks (catalog_of_table (mkTable t ds tcols ks))) = catalog_of_table td').
  { rewrite (map_ext_in _ (fun i => i) (tb_indexes _)); [rewrite map_id|].
    2:{ intros i Ii. rewrite (rename_in_notin a b _ (Hidx i Ii)). destruct i; reflexivity. }
    rewrite (map_ext_in _ (fun f => f) (tb_fks _)); [rewrite map_id|].
    2:{ intros f Hf. cbn [catalog_of_table tb_fks t_name t_constraints] in Hf. destruct (in_create_fks _ _ _ Hf) as [fn [fc [rt [rc [od [ou [Ik Hfe]]]]]]]. subst f.
        unfold rename_in_fk_child. cbn [fk_of_constraint fk_name fk_cols fk_rtable fk_rcols fk_on_delete fk_on_update].
        destruct (Hk _ Ik) as [Hr _]. unfold rn_ok in Hr. cbn [is_pk is_check orb constraint_mentions] in Hr. apply Bool.negb_true_iff in Hr.
        apply Bool.orb_false_iff in Hr. destruct Hr as [R1 _]. rewrite (rename_in_notin a b _ R1). reflexivity. }
    unfold td'. unfold catalog_of_table. cbn [t_name t_columns t_constraints tb_name tb_cols tb_pk tb_indexes tb_fks tb_checks].
    fold (mk_mcol ks). fold (mk_mcol ks').
    change (map (fun c => mkMCol (c_name c) (mysql_type_text (c_type c))
                            (negb (c_nullable c) || mem_str (c_name c) match first_pk ks' with Some p => p | None => [] end)
                            (option_map (mysql_default_text (c_type c)) (c_default c))
                            (mem_str (c_name c) (auto_increment_columns ks') && supports_auto_increment (c_type c))) cols')
      with (map (mk_mcol ks') cols').
    change (map (fun c => mkMCol (c_name c) (mysql_type_text (c_type c))
                            (negb (c_nullable c) || mem_str (c_name c) match first_pk ks with Some p => p | None => [] end)
                            (option_map (mysql_default_text (c_type c)) (c_default c))
                            (mem_str (c_name c) (auto_increment_columns ks) && supports_auto_increment (c_type c))) tcols)
      with (map (mk_mcol ks) tcols).
    rewrite Mc. fold (ren_mcol b). rewrite Hpk'.
    assert (Hu : unique_indexes t ks' = unique_indexes t ks).
    { unfold unique_indexes, ks'. apply flat_map_rename. intros k Ik. destruct (is_pk k) eqn:Pk; [destruct k; try discriminate; reflexivity|rewrite (Hkren k Ik Pk); reflexivity]. }
    assert (Hp : plain_indexes t ks' = plain_indexes t ks).
    { unfold plain_indexes, ks'. apply flat_map_rename. intros k Ik. destruct (is_pk k) eqn:Pk; [destruct k; try discriminate; reflexivity|rewrite (Hkren k Ik Pk); reflexivity]. }
    assert (Hf : create_fks t ks' = create_fks t ks).
    { unfold create_fks, ks'. apply flat_map_rename. intros k Ik. destruct (is_pk k) eqn:Pk; [destruct k; try discriminate; reflexivity|rewrite (Hkren k Ik Pk); reflexivity]. }
    assert (Hck : flat_map (fun k0 => match k0 with CCheck n1 e => [(n1, e)] | _ => [] end) ks'
                  = flat_map (fun k0 => match k0 with CCheck n1 e => [(n1, e)] | _ => [] end) ks).
    { unfold ks'. apply flat_map_rename. intros k Ik. destruct k; reflexivity. }
    unfold explicit_indexes. rewrite Hu, Hp, Hf, Hck. f_equal. f_equal.
    apply generated_cov_ext. intros f Hf2. rewrite !existsb_app. f_equal.
    destruct (in_create_fks _ _ _ Hf2) as [fn [fc [rt [rc [od [ou [Ik Hfe]]]]]]]. subst f. cbn [fk_of_constraint fk_cols].
    destruct (Hk _ Ik) as [Hr Hb2]. unfold rn_ok in Hr. cbn [is_pk is_check orb constraint_mentions] in Hr, Hb2. apply Bool.negb_true_iff in Hr.
    apply Bool.orb_false_iff in Hr. destruct Hr as [R1 _]. apply Bool.orb_false_iff in Hb2. destruct Hb2 as [B1 _].
    destruct (first_pk ks) as [p|]; [|reflexivity]. cbn [option_map existsb]. rewrite (is_prefix_rename a b fc p R1 B1). reflexivity. }
  rewrite TB, <- Cs. rewrite (fks_rcols_id t a b s' Hnref). reflexivity.
Qed.
