(* C04, the MODIFY COLUMN re-declaration in its strongest form: for every ModifyColumn{Type,Nullable,Default,Comment}
   on a column outside the auto-increment class, outside the re-quoting corner and (for the three that write no
   COMMENT clause) without a comment, the one MODIFY COLUMN emitted restates ALL attributes of the column exactly as
   the evolving schema holds them after the action: type text, NOT NULL, DEFAULT text, COMMENT, AUTO_INCREMENT and
   inline PRIMARY KEY at once.  The comment condition cannot be dropped: [modify_drops_comment]. *)
From VV.MYSQL Require Import Spec SpecKeys SpecCreate SpecFk ModifyP.
From Coq Require Import Lia.

(* a column update leaves the table constraints alone *)
Lemma update_column_constraints : forall t c f s s',
  update_table t (update_column t c f) s = Ok s' -> constraints_of s' t = constraints_of s t.
Proof.
  intros t c f s. unfold constraints_of, find_table.
  induction s as [|x r IH]; cbn [update_table find]; intros s' H.
  - discriminate.
  - destruct (String.eqb (t_name x) t) eqn:E.
    + unfold update_column in H. destruct (update_first_col c f (t_columns x)) as [cols|]; [|discriminate].
      inversion H; subst s'. cbn [find t_name]. rewrite E. reflexivity.
    + destruct (update_table t (update_column t c f) r) as [r'|e] eqn:U; [|discriminate].
      inversion H; subst s'. cbn [find]. rewrite E. apply IH. reflexivity.
Qed.

Lemma modify_keeps_constraints : forall s a t c s',
  modify_target a = Some (t, c) -> apply_action s a = Ok s' -> constraints_of s' t = constraints_of s t.
Proof.
  intros s a t c s' Ht Ha.
  destruct a; cbn [modify_target] in Ht; try discriminate; inversion Ht; subst; cbn [apply_action] in Ha;
    eapply update_column_constraints; exact Ha.
Qed.

Lemma modify_keeps_auto : forall s a t c s',
  modify_target a = Some (t, c) -> apply_action s a = Ok s' -> is_auto_col s' t c = is_auto_col s t c.
Proof.
  intros s a t c s' Ht Ha. unfold is_auto_col. rewrite (modify_keeps_constraints s a t c s' Ht Ha). reflexivity.
Qed.

Lemma after_col_name : forall a col, c_name (after_col a col) = c_name col.
Proof. intros a col. destruct a; reflexivity. Qed.

Lemma after_col_comment : forall a col,
  modify_comment_ok a col = true -> c_comment (after_col a col) = modify_comment a.
Proof.
  intros a col H. destruct a; cbn [modify_comment_ok] in H; cbn [after_col modify_comment];
    try (destruct (c_comment col) eqn:E; [discriminate|]; try exact E); try reflexivity;
    cbn [set_type set_nullable set_default c_comment]; exact E.
Qed.

(* ---------- the statement of C04_modify_restates_all ---------- *)
Theorem modify_restates_all : forall s P a t c col s',
  modify_target a = Some (t, c) ->
  lookup_column s t c = Some col ->
  apply_action s a = Ok s' ->
  modify_all_hyp s a t c col = true ->
  exists pre d col',
    gen s P a = Ok (pre ++ [SModifyColumn t d]) /\
    forallb is_update pre = true /\
    lookup_column s' t c = Some col' /\
    cd_name d = c /\
    restated_all d = declared_all s' t col'.
Proof.
  intros s P a t c col s' Ht Hl Ha Hh. unfold modify_all_hyp in Hh.
  apply andb_true_iff in Hh. destruct Hh as [Hh Hcm]. apply andb_true_iff in Hh. destruct Hh as [Hau Hd].
  apply Bool.negb_true_iff in Hau.
  destruct (modify_preserves s P a t c col s' Ht Hl Ha Hd) as [pre [d [col' [G [U [L' [N [R [A [K C]]]]]]]]]].
  exists pre, d, col'. repeat (split; [assumption|]).
  pose proof (apply_modify_lookup s a t c col s' Ht Hl Ha) as L2. rewrite L' in L2. inversion L2; subst col'.
  destruct (lookup_found s t c col Hl) as [td [_ Fc]].
  pose proof (find_column_name c td col Fc) as Hname.
  unfold restated, declared in R. unfold restated_all, declared_all.
  rewrite after_col_name, Hname, (modify_keeps_auto s a t c s' Ht Ha), Hau, A, K, C, (after_col_comment a col Hcm).
  cbn [andb]. inversion R. reflexivity.
Qed.

(* lifted over plans: action i of the plan is generated from the evolving schema before it *)
Theorem modify_restates_all_plan : forall s acts L i a t c col s',
  gen_plan s acts = Ok L ->
  nth_error acts i = Some a ->
  modify_target a = Some (t, c) ->
  lookup_column (schema_at s acts i) t c = Some col ->
  apply_action (schema_at s acts i) a = Ok s' ->
  modify_all_hyp (schema_at s acts i) a t c col = true ->
  exists pre d col',
    nth_error L i = Some (pre ++ [SModifyColumn t d]) /\
    forallb is_update pre = true /\
    lookup_column (schema_at s acts (S i)) t c = Some col' /\
    cd_name d = c /\
    restated_all d = declared_all (schema_at s acts (S i)) t col'.
Proof.
  intros s acts L i a t c col s' Hg Hn Ht Hl Ha Hh.
  destruct (gen_plan_nth acts s L i a Hg Hn) as [st [N G]].
  destruct (modify_restates_all (schema_at s acts i) (pending_constraints a (skipn (S i) acts)) a t c col s' Ht Hl Ha Hh)
    as [pre [d [col' [G' [U [L' [Nm R]]]]]]].
  rewrite G in G'. inversion G'; subst st.
  assert (E : schema_at s acts (S i) = s').
  { rewrite (schema_at_succ acts s i a Hn). unfold step. rewrite Ha. reflexivity. }
  rewrite E. exists pre, d, col'. auto.
Qed.

(* lifted over histories: the evolving schema of build_plan_queries is the replayed schema *)
Theorem modify_restates_all_history : forall (H : list plan) k p sb L i a t c col s_i s',
  nth_error H k = Some p ->
  replay (firstn k H) = Ok sb ->
  gen_plan sb (p_actions p) = Ok L ->
  nth_error (p_actions p) i = Some a ->
  apply_all sb (firstn i (p_actions p)) = Ok s_i ->
  modify_target a = Some (t, c) ->
  lookup_column s_i t c = Some col ->
  apply_action s_i a = Ok s' ->
  modify_all_hyp s_i a t c col = true ->
  exists pre d col',
    nth_error L i = Some (pre ++ [SModifyColumn t d]) /\
    forallb is_update pre = true /\
    lookup_column s' t c = Some col' /\
    cd_name d = c /\
    restated_all d = declared_all s' t col'.
Proof.
  intros H k p sb L i a t c col s_i s' _ _ Hg Hn Hs Ht Hl Ha Hh.
  pose proof (apply_all_step _ _ _ Hs) as E. fold (schema_at sb (p_actions p) i) in E.
  rewrite <- E in Hl, Ha, Hh.
  destruct (modify_restates_all_plan sb (p_actions p) L i a t c col s' Hg Hn Ht Hl Ha Hh)
    as [pre [d [col' [N [U [L' [Nm R]]]]]]].
  assert (E2 : schema_at sb (p_actions p) (S i) = s').
  { rewrite (schema_at_succ (p_actions p) sb i a Hn). unfold step. rewrite Ha. reflexivity. }
  rewrite E2 in L', R. exists pre, d, col'. auto.
Qed.

(* ---------- the comment condition is necessary: a MODIFY for type / nullability / default never carries a
   COMMENT, whatever the column holds ---------- *)
Theorem modify_drops_comment : forall s P a t c col s' m,
  modify_target a = Some (t, c) ->
  lookup_column s t c = Some col ->
  apply_action s a = Ok s' ->
  modify_default_ok a col = true ->
  p_comment_lost s a = true ->
  c_comment col = Some m ->
  exists pre d col',
    gen s P a = Ok (pre ++ [SModifyColumn t d]) /\
    lookup_column s' t c = Some col' /\
    c_comment col' = Some m /\ cd_comment d = None.
Proof.
  intros s P a t c col s' m Ht Hl Ha Hd Hp Hc.
  destruct (modify_preserves s P a t c col s' Ht Hl Ha Hd) as [pre [d [col' [G [U [L' [N [R [A [K C]]]]]]]]]].
  exists pre, d, col'. split; [exact G|]. split; [exact L'|].
  pose proof (apply_modify_lookup s a t c col s' Ht Hl Ha) as L2. rewrite L' in L2. inversion L2; subst col'.
  destruct a; cbn [modify_target] in Ht; try discriminate; cbn [p_comment_lost] in Hp; try discriminate;
    cbn [after_col set_type set_nullable set_default c_comment modify_comment] in *; auto.
Qed.

(* the all-attributes statement WITHOUT the comment condition is false: a concrete evolving schema *)
Definition w_cm_base : schema :=
  [mkTable "t" None
     [mkCol "id" (TSimple Integer) false None None None None None None;
      mkCol "v" (TSimple Integer) true None (Some "note") None None None None] []].
Definition w_cm_action : action := ModifyColumnDefault "t" "v" (Some "0").

Definition restates_all_no_comment_condition : Prop :=
  forall s P a t c col s',
    modify_target a = Some (t, c) -> lookup_column s t c = Some col -> apply_action s a = Ok s' ->
    is_auto_col s t c = false -> modify_default_ok a col = true ->
    exists pre d col', gen s P a = Ok (pre ++ [SModifyColumn t d]) /\ lookup_column s' t c = Some col' /\
                       restated_all d = declared_all s' t col'.

Theorem modify_restates_all_needs_comment_condition : ~ restates_all_no_comment_condition.
Proof.
  intro H.
  destruct (H w_cm_base [] w_cm_action "t" "v"
              (mkCol "v" (TSimple Integer) true None (Some "note") None None None None)
              (step w_cm_base w_cm_action) eq_refl eq_refl eq_refl eq_refl eq_refl)
    as [pre [d [col' [G [L R]]]]].
  vm_compute in L. inversion L; subst col'. clear L.
  assert (Gv : gen w_cm_base [] w_cm_action
               = Ok [SModifyColumn "t" (mkColDef "v" "int" false (Some "0") false false None)]) by reflexivity.
  rewrite Gv in G. clear Gv. inversion G as [G1]. clear G. symmetry in G1.
  assert (Hlast : forall (A : Type) (p : list A) x y, p ++ [x] = [y] -> x = y).
  { intros A p x y E. destruct p as [|z p]; cbn in E; [inversion E; reflexivity|].
    inversion E as [[E1 E2]]. destruct p; discriminate. }
  apply Hlast in G1. inversion G1; subst d. vm_compute in R. discriminate.
Qed.
