(* C04, the MODIFY COLUMN re-declaration in its strongest form (after fix N1): for every ModifyColumn{Type,Nullable,
   Default,Comment} on an existing column — the auto-increment key column and commented columns included — the one
   MODIFY COLUMN emitted restates ALL attributes of the column exactly as the evolving schema holds them after the
   action: type text, NOT NULL, DEFAULT text, COMMENT (as MySQL reads the emitted literal), AUTO_INCREMENT and inline
   PRIMARY KEY at once.  Hypotheses left: the kept default is not re-quoted (modify_default_ok), and the new comment of
   a ModifyColumnComment contains no backslash (modify_column_comment.rs escapes quotes only).
   History: before N1 the theorem needed "not the auto-increment column" and "no comment unless ModifyColumnComment";
   modify_drops_comment proved that every ModifyColumnType / Nullable / Default on a commented column emitted a MODIFY
   without COMMENT, and modify_restates_all_needs_comment_condition refuted the statement without that condition by a
   computed witness (finding C04-comment-lost-on-modify; witness corpus/mysql/comment_lost_on_modify.json, now a
   control that holds). *)
From VV.MYSQL Require Import Spec SpecKeys SpecCreate SpecFk ModifyP.
From Coq Require Import Lia.

(* ---------- MySQL reads back what was escaped ---------- *)
Lemma ascii_of_code : forall a k, N.eqb (N_of_ascii a) k = true -> a = ascii_of_N k.
Proof. intros a k H. apply N.eqb_eq in H. rewrite <- H. symmetry. apply ascii_N_embedding. Qed.

(* sea-query's escape_string (ColumnSpec::Comment): for every comment *)
Theorem unescape_escape : forall m, mysql_unescape (mysql_escape m) = m.
Proof.
  induction m as [|a r IH]; [reflexivity|].
  cbn [mysql_escape].
  destruct (N.eqb (N_of_ascii a) 92) eqn:E1; [rewrite (ascii_of_code a 92 E1); cbn; rewrite IH; reflexivity|].
  destruct (N.eqb (N_of_ascii a) 34) eqn:E2; [rewrite (ascii_of_code a 34 E2); cbn; rewrite IH; reflexivity|].
  destruct (N.eqb (N_of_ascii a) 39) eqn:E3; [rewrite (ascii_of_code a 39 E3); cbn; rewrite IH; reflexivity|].
  destruct (N.eqb (N_of_ascii a) 0) eqn:E4; [rewrite (ascii_of_code a 0 E4); cbn; rewrite IH; reflexivity|].
  destruct (N.eqb (N_of_ascii a) 8) eqn:E5; [rewrite (ascii_of_code a 8 E5); cbn; rewrite IH; reflexivity|].
  destruct (N.eqb (N_of_ascii a) 9) eqn:E6; [rewrite (ascii_of_code a 9 E6); cbn; rewrite IH; reflexivity|].
  destruct (N.eqb (N_of_ascii a) 26) eqn:E7; [rewrite (ascii_of_code a 26 E7); cbn; rewrite IH; reflexivity|].
  destruct (N.eqb (N_of_ascii a) 10) eqn:E8; [rewrite (ascii_of_code a 10 E8); cbn; rewrite IH; reflexivity|].
  destruct (N.eqb (N_of_ascii a) 13) eqn:E9; [rewrite (ascii_of_code a 13 E9); cbn; rewrite IH; reflexivity|].
  cbn [mysql_unescape]. destruct (mysql_escape r) as [|b r'] eqn:Er.
  - cbn in IH. subst r. reflexivity.
  - rewrite E1, E3. cbn [andb]. rewrite IH. reflexivity.
Qed.

(* the hand-made escaping of modify_column_comment.rs: for comments without a backslash *)
Theorem unescape_hand_escape : forall m, no_backslash m = true -> mysql_unescape (hand_escape m) = m.
Proof.
  induction m as [|a r IH]; intro H; [reflexivity|].
  cbn [no_backslash] in H. apply andb_true_iff in H. destruct H as [Ha Hr]. apply Bool.negb_true_iff in Ha.
  specialize (IH Hr). cbn [hand_escape].
  destruct (N.eqb (N_of_ascii a) 39) eqn:E3.
  - rewrite (ascii_of_code a 39 E3). cbn. rewrite IH. reflexivity.
  - cbn [mysql_unescape]. destruct (hand_escape r) as [|b r'] eqn:Er.
    + cbn in IH. subst r. reflexivity.
    + rewrite Ha, E3. cbn [andb]. rewrite IH. reflexivity.
Qed.

Lemma comment_body_read : forall a col,
  hand_comment_ok a = true ->
  option_map mysql_unescape (comment_body a (after_col a col)) = c_comment (after_col a col).
Proof.
  intros a col H. destruct a; cbn [comment_body];
    try (destruct (c_comment (after_col _ col)) as [m|]; [cbn [option_map]; rewrite unescape_escape; reflexivity|reflexivity]).
  cbn [after_col set_comment c_comment]. cbn [hand_comment_ok] in H.
  destruct new_comment as [m|]; [|reflexivity]. cbn [option_map]. rewrite (unescape_hand_escape m H). reflexivity.
Qed.

(* a column update leaves the table constraints alone *)
Lemma update_column_constraints : forall t c f s s',
  update_table t (update_column t c f) s = Ok s' -> constraints_of s' t = constraints_of s t.
Proof.
  intros t c f s. unfold constraints_of, find_table.
  induction s as [|x r IH]; cbn [update_table find]; intros s' H.
  - discriminate.
  - destruct (String.eqb (t_name x) t) eqn:E.
    + unfold update_column in H. destruct (update_first_col c f (t_columns x)) as [cols|]; [|discriminate].
      inversion H; subst s'. cbn [find t_name]. rewrite E. reflexivity.
    + destruct (update_table t (update_column t c f) r) as [r'|e] eqn:U; [|discriminate].
      inversion H; subst s'. cbn [find]. rewrite E. apply IH. reflexivity.
Qed.

Lemma modify_keeps_constraints : forall s a t c s',
  modify_target a = Some (t, c) -> apply_action s a = Ok s' -> constraints_of s' t = constraints_of s t.
Proof.
  intros s a t c s' Ht Ha.
  destruct a; cbn [modify_target] in Ht; try discriminate; inversion Ht; subst; cbn [apply_action] in Ha;
    eapply update_column_constraints; exact Ha.
Qed.

Lemma modify_keeps_auto : forall s a t c s',
  modify_target a = Some (t, c) -> apply_action s a = Ok s' -> is_auto_col s' t c = is_auto_col s t c.
Proof.
  intros s a t c s' Ht Ha. unfold is_auto_col. rewrite (modify_keeps_constraints s a t c s' Ht Ha). reflexivity.
Qed.

Lemma after_col_name : forall a col, c_name (after_col a col) = c_name col.
Proof. intros a col. destruct a; reflexivity. Qed.

(* ---------- the statement of C04_modify_restates_all ---------- *)
Theorem modify_restates_all : forall s P a t c col s',
  modify_target a = Some (t, c) ->
  lookup_column s t c = Some col ->
  apply_action s a = Ok s' ->
  modify_all_hyp a col = true ->
  exists pre d col',
    gen s P a = Ok (pre ++ [SModifyColumn t d]) /\
    forallb is_update pre = true /\
    lookup_column s' t c = Some col' /\
    cd_name d = c /\
    restated_all d = declared_all s' t col'.
Proof.
  intros s P a t c col s' Ht Hl Ha Hh. unfold modify_all_hyp in Hh.
  apply andb_true_iff in Hh. destruct Hh as [Hd Hcm].
  destruct (modify_preserves s P a t c col s' Ht Hl Ha Hd) as [pre [d [col' [G [U [L' [N [R [A [K C]]]]]]]]]].
  exists pre, d, col'. repeat (split; [assumption|]).
  pose proof (apply_modify_lookup s a t c col s' Ht Hl Ha) as L2. rewrite L' in L2. inversion L2; subst col'.
  destruct (lookup_found s t c col Hl) as [td [_ Fc]].
  pose proof (find_column_name c td col Fc) as Hname.
  unfold restated, declared in R. unfold restated_all, declared_all.
  rewrite after_col_name, Hname, (modify_keeps_auto s a t c s' Ht Ha), A, K, C, (comment_body_read a col Hcm).
  inversion R. reflexivity.
Qed.

(* lifted over plans: action i of the plan is generated from the evolving schema before it *)
Theorem modify_restates_all_plan : forall s acts L i a t c col s',
  gen_plan s acts = Ok L ->
  nth_error acts i = Some a ->
  modify_target a = Some (t, c) ->
  lookup_column (schema_at s acts i) t c = Some col ->
  apply_action (schema_at s acts i) a = Ok s' ->
  modify_all_hyp a col = true ->
  exists pre d col',
    nth_error L i = Some (pre ++ [SModifyColumn t d]) /\
    forallb is_update pre = true /\
    lookup_column (schema_at s acts (S i)) t c = Some col' /\
    cd_name d = c /\
    restated_all d = declared_all (schema_at s acts (S i)) t col'.
Proof.
  intros s acts L i a t c col s' Hg Hn Ht Hl Ha Hh.
  destruct (gen_plan_nth acts s L i a Hg Hn) as [st [N G]].
  destruct (modify_restates_all (schema_at s acts i) (pending_constraints a (skipn (S i) acts)) a t c col s' Ht Hl Ha Hh)
    as [pre [d [col' [G' [U [L' [Nm R]]]]]]].
  rewrite G in G'. inversion G'; subst st.
  assert (E : schema_at s acts (S i) = s').
  { rewrite (schema_at_succ acts s i a Hn). unfold step. rewrite Ha. reflexivity. }
  rewrite E. exists pre, d, col'. auto.
Qed.

(* lifted over histories: the evolving schema of build_plan_queries is the replayed schema *)
Theorem modify_restates_all_history : forall (H : list plan) k p sb L i a t c col s_i s',
  nth_error H k = Some p ->
  replay (firstn k H) = Ok sb ->
  gen_plan sb (p_actions p) = Ok L ->
  nth_error (p_actions p) i = Some a ->
  apply_all sb (firstn i (p_actions p)) = Ok s_i ->
  modify_target a = Some (t, c) ->
  lookup_column s_i t c = Some col ->
  apply_action s_i a = Ok s' ->
  modify_all_hyp a col = true ->
  exists pre d col',
    nth_error L i = Some (pre ++ [SModifyColumn t d]) /\
    forallb is_update pre = true /\
    lookup_column s' t c = Some col' /\
    cd_name d = c /\
    restated_all d = declared_all s' t col'.
Proof.
  intros H k p sb L i a t c col s_i s' _ _ Hg Hn Hs Ht Hl Ha Hh.
  pose proof (apply_all_step _ _ _ Hs) as E. fold (schema_at sb (p_actions p) i) in E.
  rewrite <- E in Hl, Ha.
  destruct (modify_restates_all_plan sb (p_actions p) L i a t c col s' Hg Hn Ht Hl Ha Hh)
    as [pre [d [col' [N [U [L' [Nm R]]]]]]].
  assert (E2 : schema_at sb (p_actions p) (S i) = s').
  { rewrite (schema_at_succ (p_actions p) sb i a Hn). unfold step. rewrite Ha. reflexivity. }
  rewrite E2 in L', R. exists pre, d, col'. auto.
Qed.

