(* Simulation lemmas for explicit constraint actions on MySQL: AddConstraint / RemoveConstraint of a CHECK,
   AddConstraint of an INDEX / UNIQUE (CREATE [UNIQUE] INDEX, with the implicitly created foreign-key indexes
   that the new key makes redundant). *)
From VV.M1 Require Import PrefixStrP.
From VV.MYSQL Require Import SpecKeys ModifyP SimP.
From Coq Require Import Lia.

(* ---------- components of the believed table under constraint-list surgery ---------- *)
Lemma first_pk_app_nonpk : forall ks k, is_pk k = false -> first_pk (ks ++ [k]) = first_pk ks.
Proof.
  intros ks k H. unfold first_pk. rewrite filter_app. cbn [filter]. rewrite H, app_nil_r. reflexivity.
Qed.
Lemma auto_cols_app_nonpk : forall ks k, is_pk k = false -> auto_increment_columns (ks ++ [k]) = auto_increment_columns ks.
Proof.
  intros ks k H. unfold auto_increment_columns. rewrite flat_map_app. cbn [flat_map].
  destruct k; try discriminate; rewrite !app_nil_r; reflexivity.
Qed.
Lemma mk_mcol_ext : forall ks ks' c,
  first_pk ks' = first_pk ks -> auto_increment_columns ks' = auto_increment_columns ks -> mk_mcol ks' c = mk_mcol ks c.
Proof. intros ks ks' c H1 H2. unfold mk_mcol. rewrite H1, H2. reflexivity. Qed.

Definition checks_of (ks : list table_constraint) : list (string * string) :=
  flat_map (fun k => match k with CCheck n e => [(n, e)] | _ => [] end) ks.
Lemma tb_checks_catalog : forall td, tb_checks (catalog_of_table td) = checks_of (t_constraints td).
Proof. reflexivity. Qed.
Lemma map_fst_checks : forall td, map fst (checks_of (t_constraints td)) = check_names td.
Proof.
  intro td. unfold checks_of, check_names. induction (t_constraints td) as [|k r IH]; [reflexivity|].
  cbn [flat_map]. rewrite map_app, IH. destruct k; reflexivity.
Qed.
Lemma all_check_names_catalog : forall s, all_check_names (catalog_of s) = flat_map check_names s.
Proof.
  intro s. unfold all_check_names, catalog_of. induction s as [|x r IH]; [reflexivity|].
  cbn [map flat_map]. rewrite IH, tb_checks_catalog, map_fst_checks. reflexivity.
Qed.
Lemma mem_str_app : forall x a b, mem_str x (a ++ b) = (mem_str x a || mem_str x b)%bool.
Proof. intros. unfold mem_str. apply existsb_app. Qed.
Lemma mem_check_names_filter : forall n t s,
  mem_str n (flat_map check_names s) = false ->
  mem_str n (all_check_names (filter (fun x => negb (String.eqb (tb_name x) t)) (catalog_of s))) = false.
Proof.
  intros n t s H. rewrite filter_catalog_of, all_check_names_catalog.
  induction s as [|x r IH]; [reflexivity|]. cbn [flat_map filter] in *. rewrite mem_str_app in H.
  apply Bool.orb_false_iff in H. destruct H as [H1 H2].
  destruct (negb (String.eqb (t_name x) t)); cbn [flat_map]; [rewrite mem_str_app, H1|]; apply IH; exact H2.
Qed.

(* ---------- AddConstraint CHECK ---------- *)
Theorem sim_add_check : forall s a, add_check_sim_hyp s a = true -> action_sim s a.
Proof.
  intros s a H s' Ha P. unfold add_check_sim_hyp in H.
  destruct a as [tb cols0 ks0|tb|tb cl fw|tb f2 t2|tb cn|tb cn ty fw|tb cn nl fw|tb cn nd|tb cn nc|t k|tb k|f2 t2|sql]; try discriminate.
  destruct k as [| | |n e|]; try discriminate.
  apply Bool.andb_true_iff in H; destruct H as [H Hnew].
  apply Bool.andb_true_iff in H; destruct H as [Hwf Hft].
  unfold wf_names in Hwf. apply Bool.andb_true_iff in Hwf. destruct Hwf as [Hndt _].
  apply Bool.negb_true_iff in Hnew.
  destruct (find_table t s) as [td|] eqn:Ft; [|discriminate].
  destruct (find_table_in t s td Ft) as [Hin Htn].
  (* the name is new in the table too *)
  assert (Hnt : mem_str n (check_names td) = false).
  { clear -Hnew Hin. induction s as [|x r IH]; [contradiction|]. cbn [flat_map] in Hnew. rewrite mem_str_app in Hnew.
    apply Bool.orb_false_iff in Hnew. destruct Hnew as [H1 H2]. destruct Hin as [->|Hin]; [exact H1|apply IH; assumption]. }
  assert (Hnc : contains_constraint (CCheck n e) (t_constraints td) = false).
  { destruct (contains_constraint (CCheck n e) (t_constraints td)) eqn:C; [|reflexivity]. exfalso.
    unfold contains_constraint in C. apply existsb_exists in C. destruct C as [k [Ik Hk]].
    unfold constraint_eqb, dec_b in Hk. destruct (constraint_eq_dec (CCheck n e) k) as [E|]; [|discriminate]. subst k.
    assert (M : mem_str n (check_names td) = true).
    { unfold mem_str, check_names. apply existsb_exists. exists n. split; [|apply String.eqb_refl].
      apply in_flat_map. eexists. split; [exact Ik|]. left. reflexivity. }
    rewrite M in Hnt. discriminate. }
  set (td' := mkTable (t_name td) (t_description td) (t_columns td) (t_constraints td ++ [CCheck n e])).
  destruct (frame s t (fun t0 => if contains_constraint (CCheck n e) (t_constraints t0) then Ok t0
                                 else Ok (mkTable (t_name t0) (t_description t0) (t_columns t0) (t_constraints t0 ++ [CCheck n e])))
                  td td' Hndt Ft) as [s2 [Us Cs]].
  { rewrite Hnc. reflexivity. }
  { reflexivity. }
  cbn [apply_action] in Ha. rewrite Us in Ha. inversion Ha; subst s2. clear Ha.
  exists [SAddCheck t n e]. split; [reflexivity|].
  assert (Ftb : find_tb t (catalog_of s) = Some (catalog_of_table td)) by (rewrite find_tb_catalog_of, Ft; reflexivity).
  unfold run. cbn [run_from exec]. unfold with_tb. rewrite Ftb. unfold set_tb. cbn [add_checks].
  rewrite (mem_check_names_filter n t s Hnew). rewrite tb_checks_catalog, map_fst_checks, Hnt. cbn [orb].
  assert (Ht : mkMTable (tb_name (catalog_of_table td)) (tb_cols (catalog_of_table td)) (tb_pk (catalog_of_table td))
                 (tb_indexes (catalog_of_table td)) (tb_fks (catalog_of_table td)) (checks_of (t_constraints td) ++ [(n, e)])
               = catalog_of_table td').
  { unfold td'. destruct td as [n0 ds cols ks]. cbn [t_name t_description t_columns t_constraints].
    unfold catalog_of_table. cbn [t_name t_columns t_constraints tb_name tb_cols tb_pk tb_indexes tb_fks].
    rewrite (first_pk_app_nonpk ks (CCheck n e) eq_refl), (auto_cols_app_nonpk ks (CCheck n e) eq_refl).
    unfold explicit_indexes, unique_indexes, plain_indexes, create_fks, checks_of. rewrite !flat_map_app. cbn [flat_map]. rewrite !app_nil_r.
    reflexivity. }
  rewrite Ht, Cs. reflexivity.
Qed.

(* ---------- RemoveConstraint CHECK ---------- *)
Lemma flat_map_filter_noop {B} : forall (g : table_constraint -> list B) k ks,
  g k = [] -> (forall k', g k' <> [] -> constraint_eqb k' k = false) ->
  flat_map g (filter (fun c => negb (constraint_eqb c k)) ks) = flat_map g ks.
Proof.
  intros g k ks Hk Hne. induction ks as [|x r IH]; [reflexivity|].
  cbn [filter flat_map]. destruct (constraint_eqb x k) eqn:E; cbn [negb].
  - unfold constraint_eqb, dec_b in E. destruct (constraint_eq_dec x k) as [->|]; [|discriminate]. rewrite Hk. exact IH.
  - cbn [flat_map]. rewrite IH. reflexivity.
Qed.

Lemma constraint_eqb_diff_kind : forall k n e, is_check k = false -> constraint_eqb k (CCheck n e) = false.
Proof.
  intros k n e H. unfold constraint_eqb, dec_b. destruct (constraint_eq_dec k (CCheck n e)) as [->|]; [discriminate|reflexivity].
Qed.

Theorem sim_remove_check : forall s a, remove_check_sim_hyp s a = true -> action_sim s a.
Proof.
  intros s a H s' Ha P. unfold remove_check_sim_hyp in H.
  destruct a as [tb cols0 ks0|tb|tb cl fw|tb f2 t2|tb cn|tb cn ty fw|tb cn nl fw|tb cn nd|tb cn nc|tb k|t k|f2 t2|sql]; try discriminate.
  destruct k as [| | |n e|]; try discriminate.
  destruct (find_table t s) as [td|] eqn:Ft; [|discriminate].
  apply Bool.andb_true_iff in H; destruct H as [H Hsame].
  apply Bool.andb_true_iff in H; destruct H as [Hwf Hcont].
  unfold wf_names in Hwf. apply Bool.andb_true_iff in Hwf. destruct Hwf as [Hndt _].
  destruct (find_table_in t s td Ft) as [Hin Htn].
  set (ks' := filter (fun c => negb (constraint_eqb c (CCheck n e))) (t_constraints td)).
  set (td' := mkTable (t_name td) (t_description td) (t_columns td) ks').
  destruct (frame s t (fun t0 => Ok (mkTable (t_name t0) (t_description t0) (clear_inline t (CCheck n e) (t_columns t0))
                                       (filter (fun c => negb (constraint_eqb c (CCheck n e))) (t_constraints t0))))
                  td td' Hndt Ft) as [s2 [Us Cs]].
  { reflexivity. }
  { reflexivity. }
  cbn [apply_action] in Ha. rewrite Us in Ha. inversion Ha; subst s2. clear Ha.
  exists [SDropCheck t n]. split; [reflexivity|].
  assert (Ftb : find_tb t (catalog_of s) = Some (catalog_of_table td)) by (rewrite find_tb_catalog_of, Ft; reflexivity).
  unfold run. cbn [run_from exec]. unfold with_tb. rewrite Ftb. rewrite tb_checks_catalog, map_fst_checks.
  assert (Hmem : mem_str n (check_names td) = true).
  { unfold contains_constraint in Hcont. apply existsb_exists in Hcont. destruct Hcont as [k [Ik Hk]].
    unfold constraint_eqb, dec_b in Hk. destruct (constraint_eq_dec (CCheck n e) k) as [E|]; [|discriminate]. subst k.
    unfold mem_str, check_names. apply existsb_exists. exists n. split; [|apply String.eqb_refl].
    apply in_flat_map. eexists. split; [exact Ik|]. left. reflexivity. }
  rewrite Hmem. cbn [negb].
  assert (Hchk : filter (fun k => negb (String.eqb (fst k) n)) (checks_of (t_constraints td)) = checks_of ks').
  { unfold ks', checks_of. clear -Hsame. induction (t_constraints td) as [|x r IH]; [reflexivity|].
    cbn [forallb] in Hsame. apply Bool.andb_true_iff in Hsame. destruct Hsame as [Hx Hr].
    cbn [flat_map filter]. destruct x as [| | |n' e'|]; cbn [app];
      try (rewrite constraint_eqb_diff_kind by reflexivity; cbn [negb flat_map app]; apply IH; exact Hr).
    cbn [filter fst]. destruct (String.eqb n' n) eqn:En; cbn [negb implb] in *.
    - apply String.eqb_eq in En. apply String.eqb_eq in Hx. subst n' e'.
      assert (E : constraint_eqb (CCheck n e) (CCheck n e) = true).
      { unfold constraint_eqb, dec_b. destruct (constraint_eq_dec (CCheck n e) (CCheck n e)); [reflexivity|contradiction]. }
      rewrite E. cbn [negb]. apply IH. exact Hr.
    - assert (E : constraint_eqb (CCheck n' e') (CCheck n e) = false).
      { unfold constraint_eqb, dec_b. destruct (constraint_eq_dec (CCheck n' e') (CCheck n e)) as [E|]; [|reflexivity].
        inversion E; subst. rewrite String.eqb_refl in En. discriminate. }
      rewrite E. cbn [negb flat_map app]. f_equal. apply IH. exact Hr. }
  assert (Ht : mkMTable (tb_name (catalog_of_table td)) (tb_cols (catalog_of_table td)) (tb_pk (catalog_of_table td))
                 (tb_indexes (catalog_of_table td)) (tb_fks (catalog_of_table td))
                 (filter (fun k => negb (String.eqb (fst k) n)) (checks_of (t_constraints td)))
               = catalog_of_table td').
  { rewrite Hchk. unfold td'. destruct td as [n0 ds cols ks]. cbn [t_name t_description t_columns t_constraints] in *.
    unfold catalog_of_table. cbn [t_name t_columns t_constraints tb_name tb_cols tb_pk tb_indexes tb_fks].
    assert (Hpk : first_pk ks' = first_pk ks).
    { unfold first_pk, ks'. clear. induction ks as [|x r IH]; [reflexivity|]. cbn [filter].
      destruct x; try (rewrite constraint_eqb_diff_kind by reflexivity; cbn [negb filter is_pk]; try rewrite IH; reflexivity).
      destruct (constraint_eqb (CCheck name expr) (CCheck n e)); cbn [negb filter is_pk]; exact IH. }
    assert (Hau : auto_increment_columns ks' = auto_increment_columns ks).
    { unfold auto_increment_columns, ks'. apply flat_map_filter_noop; [reflexivity|].
      intros k' Hk'. destruct k'; try (exfalso; apply Hk'; reflexivity); apply constraint_eqb_diff_kind; reflexivity. }
    rewrite Hpk, Hau.
    assert (Hu : unique_indexes n0 ks' = unique_indexes n0 ks).
    { unfold unique_indexes, ks'. apply flat_map_filter_noop; [reflexivity|].
      intros k' Hk'. destruct k'; try (exfalso; apply Hk'; reflexivity); apply constraint_eqb_diff_kind; reflexivity. }
    assert (Hp : plain_indexes n0 ks' = plain_indexes n0 ks).
    { unfold plain_indexes, ks'. apply flat_map_filter_noop; [reflexivity|].
      intros k' Hk'. destruct k'; try (exfalso; apply Hk'; reflexivity); apply constraint_eqb_diff_kind; reflexivity. }
    assert (Hf : create_fks n0 ks' = create_fks n0 ks).
    { unfold create_fks, ks'. apply flat_map_filter_noop; [reflexivity|].
      intros k' Hk'. destruct k'; try (exfalso; apply Hk'; reflexivity); apply constraint_eqb_diff_kind; reflexivity. }
    unfold explicit_indexes. rewrite Hu, Hp, Hf. reflexivity. }
  rewrite Ht, Cs. reflexivity.
Qed.

(* ---------- AddConstraint INDEX / UNIQUE ---------- *)
Lemma is_prefix_trans : forall a b c, is_prefix a b = true -> is_prefix b c = true -> is_prefix a c = true.
Proof.
  induction a as [|x a IH]; intros b c H1 H2; [reflexivity|].
  destruct b as [|y b]; [discriminate|]. destruct c as [|z c]; [discriminate|].
  cbn [is_prefix] in *. apply Bool.andb_true_iff in H1. destruct H1 as [E1 H1].
  apply Bool.andb_true_iff in H2. destruct H2 as [E2 H2].
  apply String.eqb_eq in E1. apply String.eqb_eq in E2. subst. rewrite String.eqb_refl. cbn [andb]. eapply IH; eassumption.
Qed.

(* the implicitly created indexes of the believed table, when one more key [cols] is there: exactly those that
   the new key does not make redundant *)
Lemma generated_add_key : forall cols fks K1 K2,
  forallb (fun f => nonempty (fk_cols f)) fks = true ->
  (forall x, existsb (is_prefix x) K1 = (existsb (is_prefix x) K2 || is_prefix x cols)%bool) ->
  generated_indexes K1 fks = drop_redundant_generated cols (generated_indexes K2 fks).
Proof.
  intros cols fks. induction fks as [|f r IH]; intros K1 K2 Hne HR; [reflexivity|].
  cbn [forallb] in Hne. apply Bool.andb_true_iff in Hne. destruct Hne as [Hf Hr].
  cbn [generated_indexes]. rewrite Hf. cbn [andb]. rewrite (HR (fk_cols f)).
  destruct (existsb (is_prefix (fk_cols f)) K2) eqn:E2; cbn [orb].
  - apply IH; assumption.
  - destruct (is_prefix (fk_cols f) cols) eqn:Pf.
    + unfold drop_redundant_generated at 1. cbn [filter ix_generated ix_cols]. rewrite Pf. cbn [andb negb].
      fold (drop_redundant_generated cols (generated_indexes (K2 ++ [fk_cols f]) r)).
      apply IH; [exact Hr|]. intro x. rewrite existsb_app. cbn [existsb]. rewrite Bool.orb_false_r. rewrite HR.
      destruct (existsb (is_prefix x) K2); [reflexivity|]. cbn [orb].
      destruct (is_prefix x (fk_cols f)) eqn:Px; [|reflexivity]. cbn [orb]. eapply is_prefix_trans; eassumption.
    + unfold drop_redundant_generated at 1. cbn [filter ix_generated ix_cols]. rewrite Pf. cbn [andb negb].
      fold (drop_redundant_generated cols (generated_indexes (K2 ++ [fk_cols f]) r)). f_equal.
      apply IH; [exact Hr|]. intro x. rewrite !existsb_app. cbn [existsb]. rewrite !Bool.orb_false_r. rewrite HR.
      destruct (existsb (is_prefix x) K2), (is_prefix x cols), (is_prefix x (fk_cols f)); reflexivity.
Qed.

Lemma generated_all_generated : forall K fks i, In i (generated_indexes K fks) -> ix_generated i = true.
Proof.
  intros K fks. revert K. induction fks as [|f r IH]; intros K i H; cbn [generated_indexes] in H; [contradiction|].
  destruct (nonempty (fk_cols f) && existsb (is_prefix (fk_cols f)) K)%bool; [eapply IH; exact H|].
  destruct H as [H|H]; [subst i; reflexivity|eapply IH; exact H].
Qed.

Lemma filter_all {A} (p : A -> bool) (l : list A) : (forall x, In x l -> p x = true) -> filter p l = l.
Proof.
  induction l as [|x r IH]; intro H; [reflexivity|]. cbn [filter]. rewrite (H x (or_introl eq_refl)). f_equal.
  apply IH. intros y Hy. apply H. right. exact Hy.
Qed.
Lemma filter_none {A} (p : A -> bool) (l : list A) : (forall x, In x l -> p x = false) -> filter p l = [].
Proof.
  induction l as [|x r IH]; intro H; [reflexivity|]. cbn [filter]. rewrite (H x (or_introl eq_refl)).
  apply IH. intros y Hy. apply H. right. exact Hy.
Qed.

Lemma unique_indexes_shape : forall t ks i, In i (unique_indexes t ks) -> ix_unique i = true /\ ix_generated i = false.
Proof.
  intros t ks i H. unfold unique_indexes in H. apply in_flat_map in H. destruct H as [k [_ H]].
  destruct k; cbn in H; try contradiction. destruct H as [H|[]]. subst i. split; reflexivity.
Qed.
Lemma plain_indexes_shape : forall t ks i, In i (plain_indexes t ks) -> ix_unique i = false /\ ix_generated i = false.
Proof.
  intros t ks i H. unfold plain_indexes in H. apply in_flat_map in H. destruct H as [k [_ H]].
  destruct k; cbn in H; try contradiction. destruct H as [H|[]]. subst i. split; reflexivity.
Qed.

(* the three segments of a list laid out as unique ++ plain ++ generated *)
Lemma segments : forall U Pl G,
  (forall i, In i U -> ix_unique i = true /\ ix_generated i = false) ->
  (forall i, In i Pl -> ix_unique i = false /\ ix_generated i = false) ->
  (forall i, In i G -> ix_generated i = true) ->
  seg_unique (U ++ Pl ++ G) = U /\ seg_plain (U ++ Pl ++ G) = Pl /\ seg_generated (U ++ Pl ++ G) = G.
Proof.
  intros U Pl G HU HP HG. unfold seg_unique, seg_plain, seg_generated. rewrite !filter_app.
  repeat split.
  - rewrite (filter_all _ U), (filter_none _ Pl), (filter_none _ G), !app_nil_r; [reflexivity| | |].
    + intros i Hi. rewrite (HG i Hi). apply Bool.andb_false_r.
    + intros i Hi. destruct (HP i Hi) as [H1 _]. rewrite H1. reflexivity.
    + intros i Hi. destruct (HU i Hi) as [H1 H2]. rewrite H1, H2. reflexivity.
  - rewrite (filter_none _ U), (filter_all _ Pl), (filter_none _ G), app_nil_r; [reflexivity| | |].
    + intros i Hi. rewrite (HG i Hi). apply Bool.andb_false_r.
    + intros i Hi. destruct (HP i Hi) as [H1 H2]. rewrite H1, H2. reflexivity.
    + intros i Hi. destruct (HU i Hi) as [H1 _]. rewrite H1. reflexivity.
  - rewrite (filter_none _ U), (filter_none _ Pl), (filter_all _ G); [reflexivity| | |].
    + exact HG.
    + intros i Hi. apply (HP i Hi).
    + intros i Hi. apply (HU i Hi).
Qed.

Lemma drop_redundant_segments : forall cols U Pl G,
  (forall i, In i U -> ix_generated i = false) -> (forall i, In i Pl -> ix_generated i = false) ->
  drop_redundant_generated cols (U ++ Pl ++ G) = U ++ Pl ++ drop_redundant_generated cols G.
Proof.
  intros cols U Pl G HU HP. unfold drop_redundant_generated. rewrite !filter_app.
  rewrite (filter_all _ U), (filter_all _ Pl); [reflexivity| |].
  - intros i Hi. rewrite (HP i Hi). reflexivity.
  - intros i Hi. rewrite (HU i Hi). reflexivity.
Qed.

Lemma all_cols_exist_catalog : forall cols td,
  all_cols_exist cols (catalog_of_table td) = forallb (fun c => has_column c td) cols.
Proof.
  intros cols td. unfold all_cols_exist. induction cols as [|c r IH]; [reflexivity|].
  cbn [forallb]. rewrite has_mcol_catalog, IH. reflexivity.
Qed.

Lemma existsb_swap_mid {A} (p : A -> bool) (a b : list A) (x : A) :
  existsb p (a ++ [x] ++ b) = (existsb p (a ++ b) || p x)%bool.
Proof.
  rewrite !existsb_app. cbn [existsb]. rewrite Bool.orb_false_r.
  destruct (existsb p a), (p x), (existsb p b); reflexivity.
Qed.

Theorem sim_add_key : forall s a,
  add_key_sim_hyp s a = true ->
  (match a with AddConstraint t _ => match find_table t s with
                                     | Some td => forallb constraint_nonempty (t_constraints td)
                                     | None => false end
              | _ => false end) = true ->
  action_sim s a.
Proof.
  intros s a H Hne s' Ha P. unfold add_key_sim_hyp in H.
  destruct a as [tb cols0 ks0|tb|tb cl fw|tb f2 t2|tb cn|tb cn ty fw|tb cn nl fw|tb cn nd|tb cn nc|t k|tb k|f2 t2|sql]; try discriminate.
  destruct (key_of_constraint t k) as [[[uq name] cols]|] eqn:Kk; [|discriminate].
  destruct (find_table t s) as [td|] eqn:Ft; [|discriminate].
  apply Bool.andb_true_iff in H; destruct H as [H Hex].
  apply Bool.andb_true_iff in H; destruct H as [H Hnec].
  apply Bool.andb_true_iff in H; destruct H as [H Hnp].
  apply Bool.andb_true_iff in H; destruct H as [H Hfresh].
  apply Bool.andb_true_iff in H; destruct H as [Hwf Hnc].
  unfold wf_names in Hwf. apply Bool.andb_true_iff in Hwf. destruct Hwf as [Hndt _].
  apply Bool.negb_true_iff in Hnc. apply Bool.negb_true_iff in Hfresh. apply Bool.negb_true_iff in Hnp.
  destruct (find_table_in t s td Ft) as [Hin Htn].
  assert (Hkpk : is_pk k = false) by (destruct k; try reflexivity; discriminate).
  set (td' := mkTable (t_name td) (t_description td) (t_columns td) (t_constraints td ++ [k])).
  destruct (frame s t (fun t0 => if contains_constraint k (t_constraints t0) then Ok t0
                                 else Ok (mkTable (t_name t0) (t_description t0) (t_columns t0) (t_constraints t0 ++ [k])))
                  td td' Hndt Ft) as [s2 [Us Cs]].
  { rewrite Hnc. reflexivity. }
  { reflexivity. }
  cbn [apply_action] in Ha. rewrite Us in Ha. inversion Ha; subst s2. clear Ha.
  exists [SCreateIndex uq name t cols]. split.
  { cbn [gen]. destruct k; cbn [key_of_constraint] in Kk; try discriminate; inversion Kk; subst; reflexivity. }
  assert (Ftb : find_tb t (catalog_of s) = Some (catalog_of_table td)) by (rewrite find_tb_catalog_of, Ft; reflexivity).
  unfold run. cbn [run_from exec]. unfold with_tb. rewrite Ftb. unfold set_tb, add_index.
  assert (Hhi : has_index name (catalog_of_table td) = false).
  { unfold has_index. unfold mem_str in Hfresh. rewrite existsb_map in Hfresh.
    rewrite <- Hfresh. apply existsb_ext_in. intros i _. apply String.eqb_sym. }
  rewrite Hhi, Hnp. cbn [orb]. rewrite all_cols_exist_catalog, Hnec, Hex. cbn [andb negb].
  (* the table the engine ends with is the believed one *)
  destruct td as [n0 ds tcols ks]. cbn [t_name t_description t_columns t_constraints] in *. subst n0.
  set (U := unique_indexes t ks). set (Pl := plain_indexes t ks).
  set (pkl := match first_pk ks with Some p => [p] | None => [] end).
  set (fks := create_fks t ks).
  set (G := generated_indexes (pkl ++ map ix_cols (U ++ Pl)) fks).
  assert (Hidx : tb_indexes (catalog_of_table (mkTable t ds tcols ks)) = U ++ Pl ++ G).
  { unfold catalog_of_table. cbn [tb_indexes t_name t_constraints]. unfold explicit_indexes. fold U Pl pkl fks G.
    rewrite <- app_assoc. reflexivity. }
  assert (HU : forall i, In i U -> ix_unique i = true /\ ix_generated i = false) by (intros; eapply unique_indexes_shape; eassumption).
  assert (HP : forall i, In i Pl -> ix_unique i = false /\ ix_generated i = false) by (intros; eapply plain_indexes_shape; eassumption).
  assert (HG' : forall i, In i (drop_redundant_generated cols G) -> ix_generated i = true).
  { intros i Hi. unfold drop_redundant_generated in Hi. apply filter_In in Hi. destruct Hi as [Hi _]. eapply generated_all_generated. exact Hi. }
  rewrite Hidx.
  rewrite (drop_redundant_segments cols U Pl G (fun i Hi => proj2 (HU i Hi)) (fun i Hi => proj2 (HP i Hi))).
  destruct (segments U Pl (drop_redundant_generated cols G) HU HP HG') as [S1 [S2 S3]].
  assert (Hfne : forallb (fun f => nonempty (fk_cols f)) fks = true).
  { apply forallb_forall. intros f If. unfold fks in If. destruct (in_create_fks _ _ _ If) as [fn [fc [rt [rc [od [ou [Ik Hfe]]]]]]]. subst f.
    cbn [fk_of_constraint fk_cols]. rewrite forallb_forall in Hne. specialize (Hne _ Ik). cbn [constraint_nonempty] in Hne.
    apply Bool.andb_true_iff in Hne. apply Hne. }
  assert (Hfk' : create_fks t (ks ++ [k]) = fks).
  { unfold fks, create_fks. rewrite flat_map_app. cbn [flat_map]. destruct k; cbn [key_of_constraint] in Kk; try discriminate; rewrite app_nil_r; reflexivity. }
  assert (Hchk' : checks_of (ks ++ [k]) = checks_of ks).
  { unfold checks_of. rewrite flat_map_app. cbn [flat_map]. destruct k; cbn [key_of_constraint] in Kk; try discriminate; rewrite app_nil_r; reflexivity. }
  assert (Hcols' : map (mk_mcol (ks ++ [k])) tcols = map (mk_mcol ks) tcols).
  { apply map_ext. intro c. apply mk_mcol_ext; [apply first_pk_app_nonpk|apply auto_cols_app_nonpk]; exact Hkpk. }
  assert (Ht : mkMTable t (tb_cols (catalog_of_table (mkTable t ds tcols ks))) (tb_pk (catalog_of_table (mkTable t ds tcols ks)))
                 (insert_index (mkMIndex name cols uq false) (U ++ Pl ++ drop_redundant_generated cols G))
                 (tb_fks (catalog_of_table (mkTable t ds tcols ks))) (tb_checks (catalog_of_table (mkTable t ds tcols ks)))
               = catalog_of_table td').
  { unfold td'. cbn [t_name t_description t_columns t_constraints].
    unfold catalog_of_table at 5. cbn [t_name t_columns t_constraints].
    fold (mk_mcol (ks ++ [k])). rewrite (first_pk_app_nonpk ks k Hkpk).
    change (map (fun c => mkMCol (c_name c) (mysql_type_text (c_type c))
                            (negb (c_nullable c) || mem_str (c_name c) match first_pk ks with Some p => p | None => [] end)
                            (option_map (mysql_default_text (c_type c)) (c_default c))
                            (mem_str (c_name c) (auto_increment_columns (ks ++ [k])) && supports_auto_increment (c_type c))) tcols)
      with (map (mk_mcol (ks ++ [k])) tcols) || idtac.
    rewrite Hfk'. fold (checks_of (ks ++ [k])). rewrite Hchk'.
    unfold insert_index. cbn [ix_unique]. rewrite S1, S2, S3.
    unfold explicit_indexes. fold pkl.
    destruct k as [| un uc | | | inn ic]; cbn [key_of_constraint] in Kk; try discriminate; inversion Kk; subst uq name cols.
    - (* unique *)
      assert (HU' : unique_indexes t (ks ++ [CUnique un uc]) = U ++ [mkMIndex (build_unique_constraint_name t uc un) uc true false]).
      { unfold U, unique_indexes. rewrite flat_map_app. reflexivity. }
      assert (HP' : plain_indexes t (ks ++ [CUnique un uc]) = Pl).
      { unfold Pl, plain_indexes. rewrite flat_map_app. cbn [flat_map]. rewrite app_nil_r. reflexivity. }
      rewrite HU', HP'.
      rewrite (generated_add_key uc fks (pkl ++ map ix_cols ((U ++ [mkMIndex (build_unique_constraint_name t uc un) uc true false]) ++ Pl))
                                 (pkl ++ map ix_cols (U ++ Pl)) Hfne).
      + fold G. rewrite Hcols'. cbn [app]. rewrite <- !app_assoc. reflexivity.
      + intro x. rewrite !map_app. cbn [map ix_cols]. rewrite <- !app_assoc. rewrite !(existsb_app _ pkl).
        rewrite (existsb_swap_mid (is_prefix x) (map ix_cols U) (map ix_cols Pl) uc).
        destruct (existsb (is_prefix x) pkl); reflexivity.
    - (* index *)
      assert (HU' : unique_indexes t (ks ++ [CIndex inn ic]) = U).
      { unfold U, unique_indexes. rewrite flat_map_app. cbn [flat_map]. rewrite app_nil_r. reflexivity. }
      assert (HP' : plain_indexes t (ks ++ [CIndex inn ic]) = Pl ++ [mkMIndex (build_index_name t ic inn) ic false false]).
      { unfold Pl, plain_indexes. rewrite flat_map_app. reflexivity. }
      rewrite HU', HP'.
      rewrite (generated_add_key ic fks (pkl ++ map ix_cols (U ++ Pl ++ [mkMIndex (build_index_name t ic inn) ic false false]))
                                 (pkl ++ map ix_cols (U ++ Pl)) Hfne).
      + fold G. rewrite Hcols'. cbn [app]. rewrite <- !app_assoc. reflexivity.
      + intro x. rewrite !map_app. cbn [map ix_cols]. rewrite !existsb_app. cbn [existsb]. rewrite Bool.orb_false_r.
        destruct (existsb (is_prefix x) pkl), (existsb (is_prefix x) (map ix_cols U)), (existsb (is_prefix x) (map ix_cols Pl)), (is_prefix x ic); reflexivity. }
  cbn [tb_name catalog_of_table t_name] in *. rewrite Ht, Cs. reflexivity.
Qed.
