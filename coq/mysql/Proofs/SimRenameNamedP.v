(* Simulation lemma for RenameColumn of a column that NAMED unique keys / indexes / foreign keys contain: MySQL's
   RENAME COLUMN carries the column through every key and foreign key of the table [M8] and keeps the key names; the
   baseline renames the column inside the constraints (apply.rs:310-353) and a named constraint keeps its derived name
   (name_with ignores the column list when a name is given).  Unnamed constraints over the column and columns referenced
   from a foreign key stay in the class C04-names-after-rename. *)
From VV.M1 Require Import PrefixStrP.
From VV.MYSQL Require Import SpecFk ModifyP SimP SimKeysP SimCreateP SimFkP SimRemoveP SimRenameP.
From Coq Require Import Lia.

Definition ren_ix (a b : string) (i : mindex) : mindex :=
  mkMIndex (ix_name i) (rename_in a b (ix_cols i)) (ix_unique i) (ix_generated i).

Lemma rename_in_app : forall a b x y, rename_in a b (x ++ y) = rename_in a b x ++ rename_in a b y.
Proof. intros. unfold rename_in. apply map_app. Qed.

Lemma nonempty_rename : forall a b (l : list string), nonempty (rename_in a b l) = nonempty l.
Proof. intros a b l. destruct l; reflexivity. Qed.

(* renaming to a fresh name is injective on the lists it meets *)
Lemma is_prefix_rename_both : forall a b x p, mem_str b x = false -> mem_str b p = false ->
  is_prefix (rename_in a b x) (rename_in a b p) = is_prefix x p.
Proof.
  intros a b x. induction x as [|y x IH]; intros p Hx Hp; [reflexivity|].
  unfold mem_str in Hx. cbn [existsb] in Hx. apply Bool.orb_false_iff in Hx. destruct Hx as [X1 X2].
  destruct p as [|z p]; [reflexivity|].
  unfold mem_str in Hp. cbn [existsb] in Hp. apply Bool.orb_false_iff in Hp. destruct Hp as [P1 P2].
  cbn [rename_in map is_prefix]. fold (rename_in a b x). fold (rename_in a b p). rewrite (IH p X2 P2). f_equal.
  destruct (String.eqb y a) eqn:Ey; destruct (String.eqb z a) eqn:Ez.
  - apply String.eqb_eq in Ey. apply String.eqb_eq in Ez. subst y z. rewrite !String.eqb_refl. reflexivity.
  - apply String.eqb_eq in Ey. subst y. rewrite P1. rewrite String.eqb_sym. symmetry. exact Ez.
  - apply String.eqb_eq in Ez. subst z. rewrite Ey. rewrite String.eqb_sym. exact X1.
  - reflexivity.
Qed.

Lemma generated_rename : forall a b fks K,
  (forall k, In k K -> mem_str b k = false) ->
  (forall f, In f fks -> mem_str b (fk_cols f) = false) ->
  generated_indexes (map (rename_in a b) K) (map (rename_in_fk_child a b) fks) = map (ren_ix a b) (generated_indexes K fks).
Proof.
  intros a b fks. induction fks as [|f r IH]; intros K HK HF; [reflexivity|].
  cbn [map generated_indexes].
  change (fk_cols (rename_in_fk_child a b f)) with (rename_in a b (fk_cols f)).
  change (fk_name (rename_in_fk_child a b f)) with (fk_name f).
  rewrite nonempty_rename.
  assert (E : existsb (is_prefix (rename_in a b (fk_cols f))) (map (rename_in a b) K) = existsb (is_prefix (fk_cols f)) K).
  { rewrite existsb_map. apply existsb_ext_in. intros k Ik.
    apply is_prefix_rename_both; [apply HF; left; reflexivity|apply HK; exact Ik]. }
  rewrite E. destruct (nonempty (fk_cols f) && existsb (is_prefix (fk_cols f)) K)%bool.
  - apply IH; [exact HK|intros g Hg; apply HF; right; exact Hg].
  - cbn [map]. f_equal.
    replace (map (rename_in a b) K ++ [rename_in a b (fk_cols f)]) with (map (rename_in a b) (K ++ [fk_cols f]))
      by (rewrite map_app; reflexivity).
    apply IH.
    + intros k Ik. apply in_app_or in Ik. destruct Ik as [Ik|[Ik|[]]]; [apply HK; exact Ik|subst k; apply HF; left; reflexivity].
    + intros g Hg. apply HF. right. exact Hg.
Qed.

(* a named constraint keeps its derived name whatever its columns are *)
Lemma name_with_named : forall pfx t cols cols' n, name_with pfx t cols (Some n) = name_with pfx t cols' (Some n).
Proof. reflexivity. Qed.

Lemma name_with_rename : forall pfx t a b cols n,
  (is_some n || negb (mem_str a cols))%bool = true -> name_with pfx t (rename_in a b cols) n = name_with pfx t cols n.
Proof.
  intros pfx t a b cols n H. destruct n as [n|]; [reflexivity|]. cbn [is_some orb] in H. apply Bool.negb_true_iff in H.
  rewrite (rename_in_notin a b cols H). reflexivity.
Qed.

Theorem sim_rename_column_named : forall s a, rename_column_named_sim_hyp s a = true -> action_sim s a.
Proof.
  intros s act H s' Ha P. pose proof (step_ok s act s' Ha) as Hst. unfold rename_column_named_sim_hyp in H. rewrite Hst in H.
  destruct act as [tb cols0 ks0|tb|tb cl fw|t a b|tb cn|tb cn ty fw|tb cn nl fw|tb cn nd|tb cn nc|tb k|tb k|f2 t2|sql]; try discriminate.
  destruct (find_table t s) as [td|] eqn:Ft; [|discriminate].
  apply Bool.andb_true_iff in H; destruct H as [H Hnref].
  apply Bool.andb_true_iff in H; destruct H as [H Hne].
  apply Bool.andb_true_iff in H; destruct H as [H Hbfree].
  apply Bool.andb_true_iff in H; destruct H as [H Hrn].
  apply Bool.andb_true_iff in H; destruct H as [H Hnb].
  apply Bool.andb_true_iff in H; destruct H as [Hwf Hhas].
  unfold wf_names in Hwf. apply Bool.andb_true_iff in Hwf. destruct Hwf as [Hndt Hndc].
  apply Bool.negb_true_iff in Hnref. apply Bool.negb_true_iff in Hnb.
  destruct (find_table_in t s td Ft) as [Hin Htn].
  assert (Hcols : nodup_str (map c_name (t_columns td)) = true) by (rewrite forallb_forall in Hndc; apply Hndc; exact Hin).
  destruct td as [n0 ds tcols ks]. cbn [t_name t_description t_columns t_constraints] in *. subst n0.
  set (ks' := map (rename_column_in_constraint a b) ks).
  (* facts about the constraints *)
  assert (Hk : forall k, In k ks -> rename_ok_constraint a k = true /\ constraint_mentions b k = false).
  { intros k Ik. rewrite forallb_forall in Hrn, Hbfree. split; [apply Hrn; exact Ik|apply Bool.negb_true_iff; apply Hbfree; exact Ik]. }
  assert (Hpkb : mem_str b (match first_pk ks with Some p => p | None => [] end) = false).
  { destruct (first_pk ks) as [p|] eqn:Fp; [|reflexivity]. destruct (first_pk_in _ _ Fp) as [au Ia]. destruct (Hk _ Ia) as [_ Hm]. exact Hm. }
  assert (Haub : mem_str b (auto_increment_columns ks) = false).
  { destruct (mem_str b (auto_increment_columns ks)) eqn:M; [|reflexivity]. exfalso. unfold mem_str in M. apply existsb_exists in M.
    destruct M as [y [Iy Ey]]. apply String.eqb_eq in Ey. subst y. unfold auto_increment_columns in Iy. apply in_flat_map in Iy. destruct Iy as [k [Ik Iy]].
    destruct k as [[|] pc| | | |]; cbn in Iy; try contradiction. destruct (Hk _ Ik) as [_ Hm]. cbn [constraint_mentions constraint_columns] in Hm.
    rewrite (mem_in b pc Iy) in Hm. discriminate. }
  assert (Hpk' : first_pk ks' = option_map (rename_in a b) (first_pk ks)) by apply first_pk_rename.
  assert (Hau' : auto_increment_columns ks' = rename_in a b (auto_increment_columns ks)) by apply auto_cols_rename.
  assert (Hpkc' : match first_pk ks' with Some p => p | None => [] end = rename_in a b (match first_pk ks with Some p => p | None => [] end)).
  { rewrite Hpk'. destruct (first_pk ks); reflexivity. }
  assert (P1 : forall c, String.eqb (c_name c) a = false -> String.eqb (c_name c) b = false -> mk_mcol ks' c = mk_mcol ks c).
  { intros c Ea Eb. unfold mk_mcol. rewrite Hpkc', Hau'. rewrite !mem_rename_other by assumption. reflexivity. }
  assert (P2 : forall c, String.eqb (c_name c) a = true -> mk_mcol ks' (set_name b c) = ren_mcol b (mk_mcol ks c)).
  { intros c Ea. apply String.eqb_eq in Ea. unfold mk_mcol, ren_mcol. cbn [set_name c_name c_type c_nullable c_default mc_type mc_notnull mc_default mc_auto].
    rewrite Hpkc', Hau'. rewrite (mem_rename_target a b _ Hpkb), (mem_rename_target a b _ Haub), Ea. reflexivity. }
  destruct (rename_cols ks ks' a b tcols Hcols Hhas Hnb P1 P2) as [cols' [U Mc]].
  set (td' := mkTable t ds cols' ks').
  destruct (frame s t (fun t0 => match update_first_col a (set_name b) (t_columns t0) with
                                 | None => Err (ColumnNotFound t a)
                                 | Some cols1 => Ok (mkTable (t_name t0) (t_description t0) cols1 (map (rename_column_in_constraint a b) (t_constraints t0)))
                                 end) (mkTable t ds tcols ks) td' Hndt Ft) as [s2 [Us Cs]].
  { cbn [t_columns]. rewrite U. reflexivity. }
  { reflexivity. }
  cbn [apply_action] in Ha. rewrite Us in Ha. inversion Ha; subst s2. clear Ha.
  exists [SRenameColumn t a b]. split; [reflexivity|].
  assert (Ftb : find_tb t (catalog_of s) = Some (catalog_of_table (mkTable t ds tcols ks))) by (rewrite find_tb_catalog_of, Ft; reflexivity).
  unfold run. cbn [run_from exec]. unfold with_tb. rewrite Ftb. rewrite !has_mcol_catalog. rewrite Hhas, Hnb. cbn [negb].
  (* keys and foreign keys of the renamed constraint list are the renamed keys and foreign keys *)
  assert (Hu : unique_indexes t ks' = map (ren_ix a b) (unique_indexes t ks)).
  { unfold unique_indexes, ks'. rewrite flat_map_map. clear - Hk. induction ks as [|k r IH]; [reflexivity|].
    cbn [flat_map]. rewrite map_app, <- IH by (intros k' Ik; apply Hk; right; exact Ik). f_equal.
    destruct (Hk k (or_introl eq_refl)) as [Hr _].
    destruct k as [au pc|n cols|n cols rt rcols od ou|n e|n cols]; try reflexivity.
    cbn [rename_column_in_constraint map]. unfold ren_ix. cbn [ix_name ix_cols ix_unique ix_generated].
    cbn [rename_ok_constraint] in Hr. unfold build_unique_constraint_name. rewrite (name_with_rename _ _ _ _ _ _ Hr). reflexivity. }
  assert (Hp : plain_indexes t ks' = map (ren_ix a b) (plain_indexes t ks)).
  { unfold plain_indexes, ks'. rewrite flat_map_map. clear - Hk. induction ks as [|k r IH]; [reflexivity|].
    cbn [flat_map]. rewrite map_app, <- IH by (intros k' Ik; apply Hk; right; exact Ik). f_equal.
    destruct (Hk k (or_introl eq_refl)) as [Hr _].
    destruct k as [au pc|n cols|n cols rt rcols od ou|n e|n cols]; try reflexivity.
    cbn [rename_column_in_constraint map]. unfold ren_ix. cbn [ix_name ix_cols ix_unique ix_generated].
    cbn [rename_ok_constraint] in Hr. unfold build_index_name. rewrite (name_with_rename _ _ _ _ _ _ Hr). reflexivity. }
  assert (Hf : create_fks t ks' = map (rename_in_fk_child a b) (create_fks t ks)).
  { unfold create_fks, ks'. rewrite flat_map_map. clear - Hk. induction ks as [|k r IH]; [reflexivity|].
    cbn [flat_map]. rewrite map_app, <- IH by (intros k' Ik; apply Hk; right; exact Ik). f_equal.
    destruct (Hk k (or_introl eq_refl)) as [Hr _].
    destruct k as [au pc|n cols|n cols rt rcols od ou|n e|n cols]; try reflexivity.
    cbn [rename_column_in_constraint map]. unfold rename_in_fk_child, fk_of_constraint. cbn [fk_name fk_cols fk_rtable fk_rcols fk_on_delete fk_on_update].
    cbn [rename_ok_constraint] in Hr. apply Bool.andb_true_iff in Hr. destruct Hr as [R1 R2]. apply Bool.negb_true_iff in R2.
    unfold build_foreign_key_name. rewrite (name_with_rename _ _ _ _ _ _ R1), (rename_in_notin a b rcols R2). reflexivity. }
  assert (Hck : flat_map (fun k0 => match k0 with CCheck n1 e => [(n1, e)] | _ => [] end) ks'
                = flat_map (fun k0 => match k0 with CCheck n1 e => [(n1, e)] | _ => [] end) ks).
  { unfold ks'. apply flat_map_rename. intros k Ik. destruct k; reflexivity. }
  assert (Hex : explicit_indexes t ks' = map (ren_ix a b) (explicit_indexes t ks)).
  { unfold explicit_indexes. rewrite Hu, Hp, map_app. reflexivity. }
  (* the new name occurs in no key and no foreign key *)
  assert (HKb : forall k, In k ((match first_pk ks with Some p => [p] | None => [] end) ++ map ix_cols (explicit_indexes t ks)) ->
                          mem_str b k = false).
  { intros k Ik. apply in_app_or in Ik. destruct Ik as [Ik|Ik].
    - destruct (first_pk ks) as [p|] eqn:Fp; [|contradiction]. destruct Ik as [Ik|[]]. subst k. exact Hpkb.
    - apply in_map_iff in Ik. destruct Ik as [i [Ei Ii]]. subst k.
      assert (Ii' : In i (tb_indexes (catalog_of_table (mkTable t ds tcols ks)))) by (cbn [catalog_of_table tb_indexes t_name t_constraints]; apply in_or_app; left; exact Ii).
      destruct (index_cols_from_constraints _ i Ii') as [k [Ik Hc]]. cbn [t_constraints] in Ik. destruct (Hk k Ik) as [_ Hb].
      destruct k; try contradiction; rewrite Hc; cbn [constraint_mentions constraint_columns] in Hb; try exact Hb.
      apply Bool.orb_false_iff in Hb. apply Hb. }
  assert (HFb : forall f, In f (create_fks t ks) -> mem_str b (fk_cols f) = false).
  { intros f If. destruct (in_create_fks _ _ _ If) as [fn [fc [rt [rc [od [ou [Ik Hfe]]]]]]]. subst f. cbn [fk_of_constraint fk_cols].
    destruct (Hk _ Ik) as [_ Hb]. cbn [constraint_mentions] in Hb. apply Bool.orb_false_iff in Hb. apply Hb. }
  assert (TB : mkMTable (tb_name (catalog_of_table (mkTable t ds tcols ks)))
                 (map (fun x => if String.eqb (mc_name x) a then mkMCol b (mc_type x) (mc_notnull x) (mc_default x) (mc_auto x) else x)
                      (tb_cols (catalog_of_table (mkTable t ds tcols ks))))
                 (option_map (rename_in a b) (tb_pk (catalog_of_table (mkTable t ds tcols ks))))
                 (map (fun i => mkMIndex (ix_name i) (rename_in a b (ix_cols i)) (ix_unique i) (ix_generated i)) (tb_indexes (catalog_of_table (mkTable t ds tcols ks))))
                 (map (rename_in_fk_child a b) (tb_fks (catalog_of_table (mkTable t ds tcols ks))))
                 (tb_checks (catalog_of_table (mkTable t ds tcols ks))) = catalog_of_table td').
  { unfold td'. unfold catalog_of_table. cbn [t_name t_columns t_constraints tb_name tb_cols tb_pk tb_indexes tb_fks tb_checks].
    fold (mk_mcol ks). fold (mk_mcol ks').
    change (map (fun c => mkMCol (c_name c) (mysql_type_text (c_type c))
                            (negb (c_nullable c) || mem_str (c_name c) match first_pk ks' with Some p => p | None => [] end)
                            (option_map (mysql_default_text (c_type c)) (c_default c))
                            (mem_str (c_name c) (auto_increment_columns ks') && supports_auto_increment (c_type c))) cols')
      with (map (mk_mcol ks') cols').
    change (map (fun c => mkMCol (c_name c) (mysql_type_text (c_type c))
                            (negb (c_nullable c) || mem_str (c_name c) match first_pk ks with Some p => p | None => [] end)
                            (option_map (mysql_default_text (c_type c)) (c_default c))
                            (mem_str (c_name c) (auto_increment_columns ks) && supports_auto_increment (c_type c))) tcols)
      with (map (mk_mcol ks) tcols).
    rewrite Mc. fold (ren_mcol b). fold (ren_ix a b). rewrite Hpk', Hex, Hf, Hck. f_equal.
    rewrite map_app. f_equal.
    assert (EK : (match option_map (rename_in a b) (first_pk ks) with Some p => [p] | None => [] end)
                 ++ map ix_cols (map (ren_ix a b) (explicit_indexes t ks))
                 = map (rename_in a b) ((match first_pk ks with Some p => [p] | None => [] end) ++ map ix_cols (explicit_indexes t ks))).
    { rewrite map_app, !map_map. f_equal. destruct (first_pk ks); reflexivity. }
    rewrite EK. symmetry. apply generated_rename; assumption. }
  rewrite TB, <- Cs. rewrite (fks_rcols_id t a b s' Hnref). reflexivity.
Qed.

(* non-vacuity: the renamed column sits in a named unique key, a named index and a named foreign key *)
Definition w_named_schema : schema :=
  [mkTable "u" None [mkCol "id" (TSimple Integer) false None None None None None None] [CPrimaryKey false ["id"]];
   mkTable "t" None
     [mkCol "id" (TSimple Integer) false None None None None None None;
      mkCol "u_id" (TSimple Integer) true None None None None None None;
      mkCol "n" (TSimple Integer) true None None None None None None]
     [CPrimaryKey false ["id"]; CUnique (Some "one") ["u_id"; "n"]; CIndex (Some "by_u") ["u_id"];
      CForeignKey (Some "owner") ["u_id"] "u" ["id"] None None; CIndex None ["n"]]].
