(* Every action kind that has a proved simulation lemma, together; whole plans of such actions. *)
From VV.MYSQL Require Import SpecFk SimP SimKeysP SimCreateP SimFkP SimRemoveP SimRenameP SimDeleteKeysP SimRenameNamedP.

Theorem sim_proved : forall s a, sim_proved_for s a = true -> action_sim s a.
Proof.
  intros s a H. destruct a as [tb cols0 ks0|tb|tb cl fw|tb f2 t2|tb cn|tb cn ty fw|tb cn nl fw|tb cn nd|tb cn nc|tb k|tb k|f2 t2|sql];
    cbn [sim_proved_for sim_proved_for_r3] in H.
  - apply sim_create_table. exact H.
  - intros s' Ha P. apply Bool.negb_true_iff in H.
    destruct (sim_delete_table s P tb s' (catalog_of s) eq_refl Ha H) as [st [G R]]. exists st. split; assumption.
  - apply sim_add_column. exact H.
  - apply Bool.orb_true_iff in H. destruct H as [H|H]; [apply sim_rename_column|apply sim_rename_column_named]; exact H.
  - apply Bool.orb_true_iff in H. destruct H as [H|H]; [apply sim_delete_column|apply sim_delete_column_keys]; exact H.
  - apply sim_modify_column. exact H.
  - apply sim_modify_column. exact H.
  - apply sim_modify_column. exact H.
  - apply sim_modify_column. exact H.
  - destruct k.
    + apply sim_add_pk. exact H.
    + unfold add_key_full_hyp in H. apply Bool.andb_true_iff in H. destruct H as [H1 H2]. apply sim_add_key; assumption.
    + apply sim_add_fk. exact H.
    + apply sim_add_check. exact H.
    + unfold add_key_full_hyp in H. apply Bool.andb_true_iff in H. destruct H as [H1 H2]. apply sim_add_key; assumption.
  - destruct k.
    + apply sim_remove_pk. exact H.
    + apply sim_remove_key. exact H.
    + apply sim_remove_fk. exact H.
    + apply sim_remove_check. exact H.
    + apply sim_remove_key. exact H.
  - apply sim_rename_table. exact H.
  - apply sim_raw_sql.
Qed.

Theorem Sim_plan_proved : forall acts s s',
  (forall i a, nth_error acts i = Some a -> sim_proved_for (schema_at s acts i) a = true) ->
  apply_all s acts = Ok s' ->
  exists L, gen_plan s acts = Ok L /\ run (catalog_of s) (List.concat L) = RunOk (catalog_of s').
Proof.
  intros acts s s' H. apply Sim_plan. intros i a Hn. apply sim_proved. apply H. exact Hn.
Qed.

Theorem Sim_history_proved : forall plans s s',
  (forall k p sb, nth_error plans k = Some p ->
                  apply_all s (flat_map p_actions (firstn k plans)) = Ok sb ->
                  forall i a, nth_error (p_actions p) i = Some a -> sim_proved_for (schema_at sb (p_actions p) i) a = true) ->
  apply_all s (flat_map p_actions plans) = Ok s' ->
  run_history (catalog_of s) s plans = Some (catalog_of s').
Proof.
  intros plans s s' H. apply Sim_history. intros k p sb Hn Hsb i a Hi. apply sim_proved. eapply H; eassumption.
Qed.
