(* The pending-set invariant on MySQL.  Part 2: pend_rel P s v (Model/SpecPending.v) is established by AddColumn,
   discharged by the matching AddConstraint and preserved by the other actions; lifted over plans. *)
From VV.M1 Require Import PrefixStrP NormalizeP.
From VV.MYSQL Require Import SpecPending ModifyP SimP SimKeysP SimCreateP SimFkP SimRemoveP SimRenameP SimAllP SimPendP.
From Coq Require Import Lia Permutation.

(* ---------- generic: updating the first table of a name on both sides ---------- *)
Lemma Forall2_impl_in {A B} (R R' : A -> B -> Prop) : forall l1 l2,
  Forall2 R l1 l2 -> (forall a b, In a l1 -> R a b -> R' a b) -> Forall2 R' l1 l2.
Proof.
  intros l1 l2 H. induction H as [|a b l1 l2 Hab Hr IH]; intro Himp; constructor.
  - apply Himp; [left; reflexivity|exact Hab].
  - apply IH. intros x y Hx. apply Himp. right. exact Hx.
Qed.

Lemma rel_update : forall (R R' : table_def -> table_def -> Prop) t fs fv s v s' v',
  Forall2 R s v -> (forall a b, R a b -> t_name a = t_name b) -> nodup_str (map t_name s) = true ->
  update_table t fs s = Ok s' -> update_table t fv v = Ok v' ->
  (forall a b a' b', In a s -> In b v -> R a b -> t_name a = t -> fs a = Ok a' -> fv b = Ok b' -> R' a' b') ->
  (forall a b, R a b -> t_name a <> t -> R' a b) ->
  Forall2 R' s' v'.
Proof.
  intros R R' t fs fv s v s' v' H Hn. revert s' v'. induction H as [|a b s v Hab Hr IH]; intros s' v' Hnd Us Uv Hupd Hoth.
  - cbn in Us. discriminate.
  - cbn [map nodup_str] in Hnd. apply Bool.andb_true_iff in Hnd. destruct Hnd as [Ha Hnd].
    cbn [update_table] in Us, Uv. rewrite <- (Hn a b Hab) in Uv.
    destruct (String.eqb (t_name a) t) eqn:E.
    + destruct (fs a) as [a'|e] eqn:Fa; [|discriminate]. destruct (fv b) as [b'|e] eqn:Fb; [|discriminate].
      inversion Us; subst s'. inversion Uv; subst v'. apply String.eqb_eq in E. constructor.
      * eapply Hupd; try eassumption; left; reflexivity.
      * eapply Forall2_impl_in; [exact Hr|]. intros x y Hx Hxy. apply Hoth; [exact Hxy|]. intro Ex.
        apply Bool.negb_true_iff in Ha. rewrite E, <- Ex in Ha. rewrite (mem_in (t_name x) (map t_name s)) in Ha; [discriminate|apply in_map; exact Hx].
    + destruct (update_table t fs s) as [s1|e] eqn:U1; [|discriminate]. destruct (update_table t fv v) as [v1|e] eqn:U2; [|discriminate].
      inversion Us; subst s'. inversion Uv; subst v'. constructor.
      * apply Hoth; [exact Hab|]. intro Ex. rewrite Ex, String.eqb_refl in E. discriminate.
      * eapply IH; try eassumption; try reflexivity. intros x y x' y' Hx Hy. apply Hupd; right; assumption.
Qed.

Lemma trel_name : forall P a b, trel P a b -> t_name a = t_name b.
Proof. intros P a b H. apply H. Qed.

Lemma pend_rel_names : forall P s v, pend_rel P s v -> map t_name s = map t_name v.
Proof. intros P s v H. induction H as [|a b s v Hab _ IH]; [reflexivity|]. cbn [map]. rewrite IH, (trel_name P a b Hab). reflexivity. Qed.

Lemma pend_rel_core : forall P s v, pend_rel P s v -> schema_core v = schema_core s.
Proof.
  intros P s v H. induction H as [|a b s v Hab _ IH]; [reflexivity|]. cbn [schema_core map]. fold (schema_core v). fold (schema_core s).
  rewrite IH. f_equal. destruct Hab as [H1 [H2 _]]. unfold table_core. rewrite H1, H2. reflexivity.
Qed.

(* pend_of bookkeeping *)
Lemma pend_of_app : forall P Q t, pend_of (P ++ Q) t = pend_of P t ++ pend_of Q t.
Proof. intros. unfold pend_of. rewrite filter_app, map_app. reflexivity. Qed.
Lemma pend_of_tagged_same : forall t l, pend_of (map (fun k => (t, k)) l) t = l.
Proof. intros t l. unfold pend_of. induction l as [|k r IH]; [reflexivity|]. cbn [map filter fst]. rewrite String.eqb_refl. cbn [map snd]. f_equal. exact IH. Qed.
Lemma pend_of_tagged_other : forall t n l, String.eqb t n = false -> pend_of (map (fun k => (t, k)) l) n = [].
Proof. intros t n l H. unfold pend_of. induction l as [|k r IH]; [reflexivity|]. cbn [map filter fst]. rewrite H. exact IH. Qed.

Lemma pend_of_remove_other : forall t k P n, String.eqb t n = false -> pend_of (remove_one (t, k) P) n = pend_of P n.
Proof.
  intros t k P n H. unfold pend_of. induction P as [|y r IH]; [reflexivity|]. cbn [remove_one].
  destruct (pair_eqb y (t, k)) eqn:E.
  - unfold pair_eqb in E. cbn [fst snd] in E. apply Bool.andb_true_iff in E. destruct E as [E _]. apply String.eqb_eq in E.
    cbn [filter]. rewrite E, H. reflexivity.
  - cbn [filter]. destruct (String.eqb (fst y) n); cbn [map]; [f_equal|]; exact IH.
Qed.
Lemma pend_of_remove_same : forall t k P, in_pending (t, k) P = true ->
  Permutation (pend_of P t) (k :: pend_of (remove_one (t, k) P) t).
Proof.
  intros t k P. unfold pend_of, in_pending. induction P as [|y r IH]; intro H; [discriminate|]. cbn [existsb] in H. cbn [remove_one].
  destruct (pair_eqb y (t, k)) eqn:E.
  - unfold pair_eqb in E. cbn [fst snd] in E. apply Bool.andb_true_iff in E. destruct E as [E1 E2]. apply String.eqb_eq in E1. apply constraint_eqb_true in E2.
    cbn [filter]. rewrite E1, String.eqb_refl. cbn [map]. rewrite E2. apply Permutation_refl.
  - cbn [orb] in H. specialize (IH H). cbn [filter]. destruct (String.eqb (fst y) t); cbn [map]; [|exact IH].
    eapply Permutation_trans; [apply perm_skip; exact IH|apply perm_swap].
Qed.

(* ---------- establish: AddColumn ---------- *)
Lemma col_core_strip : forall c, col_core (strip_inline c) = col_core c.
Proof. reflexivity. Qed.

Lemma normalize_appends : forall td n, normalize td = Ok n -> exists ex, t_constraints n = t_constraints td ++ ex.
Proof.
  intros td n H. unfold normalize in H. destruct (normalize_constraints (t_columns td) (t_constraints td)) as [cs|e] eqn:N; [|discriminate].
  inversion H; subst n. cbn [t_constraints]. exact (normalize_constraints_extends _ _ _ N).
Qed.

Lemma constraints_of_find : forall s t td, find_table t s = Some td -> constraints_of s t = t_constraints td.
Proof. intros s t td H. unfold constraints_of. rewrite H. reflexivity. Qed.

Lemma update_table_find_in : forall t f s s' td, nodup_str (map t_name s) = true -> update_table t f s = Ok s' ->
  find_table t s = Some td -> exists td', f td = Ok td' /\ (t_name td' = t_name td -> find_table t s' = Some td').
Proof.
  intros t f s. unfold find_table. induction s as [|x r IH]; intros s' td Hnd U F; cbn [find] in F; [discriminate|].
  cbn [update_table] in U. destruct (String.eqb (t_name x) t) eqn:E.
  - inversion F; subst x. destruct (f td) as [td'|e]; [|discriminate]. inversion U; subst s'. exists td'. split; [reflexivity|].
    intro Hn. cbn [find]. rewrite Hn, E. reflexivity.
  - cbn [map nodup_str] in Hnd. apply Bool.andb_true_iff in Hnd. destruct Hnd as [_ Hnd].
    destruct (update_table t f r) as [r'|e] eqn:U1; [|discriminate]. inversion U; subst s'.
    destruct (IH r' td Hnd eq_refl F) as [td' [Hf Hfind]]. exists td'. split; [exact Hf|]. intro Hn. cbn [find]. rewrite E. apply Hfind. exact Hn.
Qed.

Lemma update_table_ok_find : forall t f s s', update_table t f s = Ok s' -> exists td, find_table t s = Some td.
Proof.
  intros t f s. unfold find_table. induction s as [|x r IH]; intros s' U; cbn [update_table find] in *; [discriminate|].
  destruct (String.eqb (t_name x) t); [eexists; reflexivity|]. destruct (update_table t f r) as [r'|e] eqn:U1; [|discriminate]. eapply IH. reflexivity.
Qed.

Lemma find_table_nodup_in : forall t s a, nodup_str (map t_name s) = true -> In a s -> t_name a = t -> find_table t s = Some a.
Proof.
  intros t s a. unfold find_table. induction s as [|x r IH]; intros Hnd Hin Hn; [contradiction|].
  cbn [map nodup_str] in Hnd. apply Bool.andb_true_iff in Hnd. destruct Hnd as [Hx Hnd]. cbn [find].
  destruct Hin as [->|Hin].
  - rewrite Hn, String.eqb_refl. reflexivity.
  - destruct (String.eqb (t_name x) t) eqn:E; [|apply IH; assumption]. exfalso. apply String.eqb_eq in E.
    apply Bool.negb_true_iff in Hx. rewrite E, <- Hn in Hx. rewrite (mem_in (t_name a) (map t_name r)) in Hx; [discriminate|apply in_map; exact Hin].
Qed.

Theorem simp_establish : forall P s v t col fw s' v',
  pend_rel P s v -> nodup_str (map t_name v) = true ->
  apply_action s (AddColumn t col fw) = Ok s' -> apply_action v (AddColumn t (strip_inline col) fw) = Ok v' ->
  constraints_of v' t = constraints_of v t ->
  pend_rel (pend_step s P (AddColumn t col fw)) s' v'.
Proof.
  intros P s v t col fw s' v' H Hndv As Av Hkeep.
  assert (Hnds : nodup_str (map t_name s) = true) by (rewrite (pend_rel_names P s v H); exact Hndv).
  assert (Hstep : step s (AddColumn t col fw) = s') by (unfold step; rewrite As; reflexivity).
  cbn [apply_action] in As, Av. cbn [strip_inline c_name] in Av.
  destruct (update_table_ok_find _ _ _ _ As) as [ts Fs]. destruct (update_table_ok_find _ _ _ _ Av) as [tv Fv].
  destruct (update_table_find_in _ _ s s' ts Hnds As Fs) as [ts' [Fts Hfs']].
  destruct (update_table_find_in _ _ v v' tv Hndv Av Fv) as [tv' [Ftv Hfv']].
  destruct (has_column (c_name col) ts); [discriminate|]. destruct (has_column (c_name col) tv); [discriminate|].
  destruct (normalize (mkTable (t_name ts) (t_description ts) (t_columns ts ++ [col]) (t_constraints ts))) as [ns|e] eqn:Ns; [|discriminate].
  destruct (normalize (mkTable (t_name tv) (t_description tv) (t_columns tv ++ [strip_inline col]) (t_constraints tv))) as [nv|e] eqn:Nv; [|discriminate].
  inversion Fts; subst ts'. inversion Ftv; subst tv'.
  destruct (normalize_appends _ _ Ns) as [ex Hex]. cbn [t_constraints] in Hex.
  pose proof (normalize_shape _ _ Ns) as Ss. pose proof (normalize_shape _ _ Nv) as Sv. cbn [t_name t_description t_columns] in Ss, Sv.
  assert (Hnms : t_name ns = t_name ts) by (rewrite Ss; reflexivity). assert (Hnmv : t_name nv = t_name tv) by (rewrite Sv; reflexivity).
  destruct (find_table_in t s ts Fs) as [Hins Htns]. destruct (find_table_in t v tv Fv) as [Hinv Htnv].
  assert (Hkv : t_constraints nv = t_constraints tv).
  { rewrite (constraints_of_find v t tv Fv), (constraints_of_find v' t nv (Hfv' Hnmv)) in Hkeep. exact Hkeep. }
  assert (Hnew : skipn (List.length (constraints_of s t)) (constraints_of (step s (AddColumn t col fw)) t) = ex).
  { rewrite Hstep, (constraints_of_find s t ts Fs), (constraints_of_find s' t ns (Hfs' Hnms)), Hex.
    rewrite skipn_app, skipn_all, Nat.sub_diag. reflexivity. }
  unfold pend_step. rewrite Hnew.
  eapply (rel_update (trel P) (trel (P ++ map (fun k => (t, k)) ex)) t _ _ s v s' v' H (trel_name P) Hnds As Av).
  - intros a b a' b' Hina Hinb [R1 [R2 R3]] Hat Fa Fb.
    assert (Ea : a = ts). { pose proof (find_table_nodup_in t s a Hnds Hina Hat) as F. rewrite Fs in F. inversion F. reflexivity. }
    assert (Eb : b = tv). { pose proof (find_table_nodup_in t v b Hndv Hinb) as F. rewrite Fv in F. rewrite <- R1, Hat in F. specialize (F eq_refl). inversion F. reflexivity. }
    subst a b. cbn beta in Fa, Fb.
    destruct (has_column (c_name col) ts); [discriminate|]. destruct (has_column (c_name col) tv); [discriminate|].
    rewrite Ns in Fa. rewrite Nv in Fb. inversion Fa; subst a'. inversion Fb; subst b'.
    repeat split.
    + rewrite Hnms, Hnmv. exact R1.
    + rewrite Ss, Sv. cbn [t_columns]. rewrite !map_app. cbn [map]. rewrite col_core_strip, R2. reflexivity.
    + rewrite Hex, Hkv, Hnms, Htns. rewrite pend_of_app, pend_of_tagged_same. rewrite Htns in R3.
      rewrite app_assoc. apply Permutation_app_tail. exact R3.
  - intros a b [R1 [R2 R3]] Hne. repeat split; try assumption. rewrite pend_of_app, pend_of_tagged_other, app_nil_r; [exact R3|].
    destruct (String.eqb t (t_name a)) eqn:E; [|reflexivity]. apply String.eqb_eq in E. exfalso. apply Hne. symmetry. exact E.
Qed.

(* ---------- discharge / plain AddConstraint ---------- *)
Lemma contains_perm : forall k l1 l2, Permutation l1 l2 -> contains_constraint k l1 = contains_constraint k l2.
Proof.
  intros k l1 l2 H. unfold contains_constraint. induction H; cbn [existsb]; try reflexivity.
  - rewrite IHPermutation. reflexivity.
  - destruct (constraint_eqb k y), (constraint_eqb k x); reflexivity.
  - rewrite IHPermutation1. exact IHPermutation2.
Qed.

Lemma contains_in : forall k l, In k l -> contains_constraint k l = true.
Proof. intros k l H. unfold contains_constraint. apply existsb_exists. exists k. split; [exact H|apply constraint_eqb_refl]. Qed.

Lemma in_pending_pend_of : forall t k P, in_pending (t, k) P = true -> In k (pend_of P t).
Proof.
  intros t k P H. unfold in_pending in H. apply existsb_exists in H. destruct H as [[t' k'] [Hin E]].
  unfold pair_eqb in E. cbn [fst snd] in E. apply Bool.andb_true_iff in E. destruct E as [E1 E2]. apply String.eqb_eq in E1. apply constraint_eqb_true in E2. subst t' k'.
  unfold pend_of. apply in_map_iff. exists (t, k). split; [reflexivity|]. apply filter_In. split; [exact Hin|apply String.eqb_refl].
Qed.
Lemma not_pending_pend_of : forall t k P, in_pending (t, k) P = false -> contains_constraint k (pend_of P t) = false.
Proof.
  intros t k P H. destruct (contains_constraint k (pend_of P t)) eqn:C; [|reflexivity]. exfalso.
  unfold contains_constraint in C. apply existsb_exists in C. destruct C as [k' [Hin E]]. apply constraint_eqb_true in E. subst k'.
  unfold pend_of in Hin. apply in_map_iff in Hin. destruct Hin as [[t' k'] [E1 Hin]]. cbn [snd] in E1. subst k'. apply filter_In in Hin. destruct Hin as [Hin Et].
  cbn [fst] in Et. apply String.eqb_eq in Et. subst t'.
  assert (T : in_pending (t, k) P = true).
  { unfold in_pending. apply existsb_exists. exists (t, k). split; [exact Hin|]. unfold pair_eqb. cbn [fst snd]. rewrite String.eqb_refl, constraint_eqb_refl. reflexivity. }
  rewrite T in H. discriminate.
Qed.
Lemma contains_app : forall k a b, contains_constraint k (a ++ b) = (contains_constraint k a || contains_constraint k b)%bool.
Proof. intros. unfold contains_constraint. apply existsb_app. Qed.

Theorem simp_add_constraint : forall P s v t k s' v',
  pend_rel P s v -> nodup_str (map t_name v) = true ->
  apply_action s (AddConstraint t k) = Ok s' -> apply_action v (AddConstraint t k) = Ok v' ->
  contains_constraint k (constraints_of v t) = false ->
  pend_rel (pend_step s P (AddConstraint t k)) s' v'.
Proof.
  intros P s v t k s' v' H Hndv As Av Hnc.
  assert (Hnds : nodup_str (map t_name s) = true) by (rewrite (pend_rel_names P s v H); exact Hndv).
  cbn [apply_action] in As, Av. cbn [pend_step].
  destruct (update_table_ok_find _ _ _ _ Av) as [tv Fv].
  eapply (rel_update (trel P) (trel (if in_pending (t, k) P then remove_one (t, k) P else P)) t _ _ s v s' v' H (trel_name P) Hnds As Av).
  - intros a b a' b' Hina Hinb [R1 [R2 R3]] Hat Fa Fb.
    assert (Eb : b = tv). { pose proof (find_table_nodup_in t v b Hndv Hinb) as F. rewrite Fv in F. rewrite <- R1, Hat in F. specialize (F eq_refl). inversion F. reflexivity. }
    subst b. rewrite (constraints_of_find v t tv Fv) in Hnc. cbn beta in Fa, Fb. rewrite Hnc in Fb. inversion Fb; subst b'. clear Fb.
    rewrite Hat in R3. 
    destruct (in_pending (t, k) P) eqn:Ip.
    + (* discharge: the believed schema holds the constraint already *)
      assert (Hc : contains_constraint k (t_constraints a) = true).
      { rewrite (contains_perm k _ _ R3), contains_app, (contains_in k _ (in_pending_pend_of t k P Ip)). apply Bool.orb_true_r. }
      rewrite Hc in Fa. inversion Fa; subst a'. repeat split; try assumption. cbn [t_name t_constraints]. rewrite Hat.
      eapply Permutation_trans; [exact R3|]. rewrite <- app_assoc. apply Permutation_app_head. cbn [app].
      apply pend_of_remove_same. exact Ip.
    + (* a constraint new to both *)
      assert (Hc : contains_constraint k (t_constraints a) = false).
      { rewrite (contains_perm k _ _ R3), contains_app, Hnc, (not_pending_pend_of t k P Ip). reflexivity. }
      rewrite Hc in Fa. inversion Fa; subst a'. repeat split; cbn [t_name t_columns t_constraints]; try assumption. rewrite Hat.
      eapply Permutation_trans; [apply Permutation_app_tail; exact R3|].
      rewrite <- !app_assoc. apply Permutation_app_head. apply Permutation_app_comm.
  - intros a b [R1 [R2 R3]] Hne. repeat split; try assumption.
    destruct (in_pending (t, k) P); [|exact R3]. rewrite pend_of_remove_other; [exact R3|].
    destruct (String.eqb t (t_name a)) eqn:E; [|reflexivity]. apply String.eqb_eq in E. exfalso. apply Hne. symmetry. exact E.
Qed.

(* ---------- actions that leave the pending set alone ---------- *)
Lemma pend_rel_same_P_update : forall P t fs fv s v s' v',
  pend_rel P s v -> nodup_str (map t_name v) = true ->
  update_table t fs s = Ok s' -> update_table t fv v = Ok v' ->
  (forall a b a' b', trel P a b -> t_name a = t -> fs a = Ok a' -> fv b = Ok b' -> trel P a' b') ->
  pend_rel P s' v'.
Proof.
  intros P t fs fv s v s' v' H Hndv Us Uv Hupd.
  assert (Hnds : nodup_str (map t_name s) = true) by (rewrite (pend_rel_names P s v H); exact Hndv).
  eapply (rel_update (trel P) (trel P) t fs fv s v s' v' H (trel_name P) Hnds Us Uv).
  - intros a b a' b' _ _. apply Hupd.
  - intros a b R _. exact R.
Qed.

(* first-match column update on lists with equal cores *)
Lemma update_first_col_core : forall n (f : column_def -> column_def) l1 l2 l1' l2',
  map col_core l1 = map col_core l2 -> (forall c c', col_core c = col_core c' -> col_core (f c) = col_core (f c')) ->
  update_first_col n f l1 = Some l1' -> update_first_col n f l2 = Some l2' -> map col_core l1' = map col_core l2'.
Proof.
  intros n f. induction l1 as [|x l1 IH]; intros l2 l1' l2' Hc Hf U1 U2; destruct l2 as [|y l2]; try discriminate.
  cbn [map] in Hc. assert (Hh : col_core x = col_core y) by congruence. assert (Ht : map col_core l1 = map col_core l2) by congruence.
  assert (Hn : c_name x = c_name y) by (unfold col_core in Hh; congruence).
  cbn [update_first_col] in U1, U2. rewrite <- Hn in U2. destruct (String.eqb (c_name x) n).
  - inversion U1; subst. inversion U2; subst. cbn [map]. rewrite (Hf x y Hh), Ht. reflexivity.
  - destruct (update_first_col n f l1) as [r1|] eqn:E1; [|discriminate]. destruct (update_first_col n f l2) as [r2|] eqn:E2; [|discriminate].
    cbn [option_map] in U1, U2. inversion U1; subst. inversion U2; subst. cbn [map]. rewrite Hh, (IH l2 r1 r2 Ht Hf eq_refl E2). reflexivity.
Qed.

Lemma simp_update_column : forall P s v t c (f : column_def -> column_def) s' v',
  pend_rel P s v -> nodup_str (map t_name v) = true ->
  (forall x y, col_core x = col_core y -> col_core (f x) = col_core (f y)) ->
  update_table t (update_column t c f) s = Ok s' -> update_table t (update_column t c f) v = Ok v' ->
  pend_rel P s' v'.
Proof.
  intros P s v t c f s' v' H Hnd Hf Us Uv. eapply pend_rel_same_P_update; try eassumption.
  intros a b a' b' [R1 [R2 R3]] Hat Fa Fb. unfold update_column in Fa, Fb.
  destruct (update_first_col c f (t_columns a)) as [ca|] eqn:Ea; [|discriminate]. destruct (update_first_col c f (t_columns b)) as [cb|] eqn:Eb; [|discriminate].
  inversion Fa; subst a'. inversion Fb; subst b'. repeat split; cbn [t_name t_columns t_constraints]; try assumption.
  eapply update_first_col_core; eassumption.
Qed.

Theorem simp_modify : forall P s v a s' v',
  pend_rel P s v -> nodup_str (map t_name v) = true -> modify_target a <> None ->
  apply_action s a = Ok s' -> apply_action v a = Ok v' -> pend_rel P s' v'.
Proof.
  intros P s v a s' v' H Hnd Hm As Av.
  destruct a; cbn [modify_target] in Hm; try (exfalso; apply Hm; reflexivity); cbn [apply_action] in As, Av;
    eapply simp_update_column; try eassumption; intros x y E; unfold col_core in *; cbn; congruence.
Qed.

Theorem simp_raw : forall P s v sql s' v',
  pend_rel P s v -> apply_action s (RawSql sql) = Ok s' -> apply_action v (RawSql sql) = Ok v' -> pend_rel P s' v'.
Proof. intros P s v sql s' v' H As Av. cbn in As, Av. inversion As; inversion Av; subst. exact H. Qed.

Lemma has_table_names : forall t s v, map t_name s = map t_name v -> has_table t s = has_table t v.
Proof.
  intros t s v H. unfold has_table. rewrite <- (existsb_map t_name (fun n => String.eqb n t) s), <- (existsb_map t_name (fun n => String.eqb n t) v), H. reflexivity.
Qed.

Theorem simp_create_table : forall P s v t cols ks s' v',
  pend_rel P s v -> pend_of P t = [] ->
  apply_action s (CreateTable t cols ks) = Ok s' -> apply_action v (CreateTable t cols ks) = Ok v' -> pend_rel P s' v'.
Proof.
  intros P s v t cols ks s' v' H Hp As Av. cbn [apply_action] in As, Av.
  destruct (has_table t s); [discriminate|]. destruct (has_table t v); [discriminate|].
  destruct (normalize (mkTable t None cols ks)) as [n|e] eqn:N; [|discriminate].
  inversion As; inversion Av; subst. unfold pend_rel. apply Forall2_app; [exact H|]. constructor; [|constructor].
  pose proof (normalize_shape _ _ N) as Sn. cbn [t_name] in Sn. repeat split.
  rewrite Sn. cbn [t_name]. rewrite Hp, app_nil_r. apply Permutation_refl.
Qed.

Theorem simp_delete_table : forall P s v t s' v',
  pend_rel P s v -> apply_action s (DeleteTable t) = Ok s' -> apply_action v (DeleteTable t) = Ok v' -> pend_rel P s' v'.
Proof.
  intros P s v t s' v' H As Av. cbn [apply_action] in As, Av.
  destruct (has_table t s); [|discriminate]. destruct (has_table t v); [|discriminate]. inversion As; inversion Av; subst.
  clear As Av. unfold pend_rel in *. induction H as [|a b s v Hab Hr IH]; [constructor|]. cbn [filter].
  rewrite <- (trel_name P a b Hab). destruct (negb (String.eqb (t_name a) t)); [constructor; assumption|exact IH].
Qed.

(* ---------- actions on a table that has nothing pending ---------- *)
Lemma Permutation_filter' {A} (p : A -> bool) : forall l1 l2, Permutation l1 l2 -> Permutation (filter p l1) (filter p l2).
Proof.
  intros l1 l2 H. induction H; cbn [filter].
  - constructor.
  - destruct (p x); [constructor|]; assumption.
  - destruct (p y), (p x); try apply Permutation_refl. apply perm_swap.
  - eapply Permutation_trans; eassumption.
Qed.
Lemma Permutation_flat_map' {A B} (g : A -> list B) : forall l1 l2, Permutation l1 l2 -> Permutation (flat_map g l1) (flat_map g l2).
Proof.
  intros l1 l2 H. induction H; cbn [flat_map].
  - constructor.
  - apply Permutation_app_head. assumption.
  - rewrite !app_assoc. apply Permutation_app_tail. apply Permutation_app_comm.
  - eapply Permutation_trans; eassumption.
Qed.

Theorem simp_remove_constraint : forall P s v t k s' v',
  pend_rel P s v -> nodup_str (map t_name v) = true -> pend_of P t = [] ->
  apply_action s (RemoveConstraint t k) = Ok s' -> apply_action v (RemoveConstraint t k) = Ok v' -> pend_rel P s' v'.
Proof.
  intros P s v t k s' v' H Hnd Hp As Av. cbn [apply_action] in As, Av. eapply pend_rel_same_P_update; try eassumption.
  intros a b a' b' [R1 [R2 R3]] Hat Fa Fb. inversion Fa; subst a'. inversion Fb; subst b'. rewrite Hat, Hp, app_nil_r in R3.
  repeat split; cbn [t_name t_columns t_constraints]; try assumption.
  - change col_core with core. rewrite !clear_inline_core. exact R2.
  - rewrite Hat, Hp, app_nil_r. apply Permutation_filter'. exact R3.
Qed.

Lemma filter_cols_core : forall c l1 l2, map col_core l1 = map col_core l2 ->
  map col_core (filter (fun x => negb (String.eqb (c_name x) c)) l1) = map col_core (filter (fun x => negb (String.eqb (c_name x) c)) l2).
Proof.
  intros c. induction l1 as [|x l1 IH]; intros l2 H; destruct l2 as [|y l2]; try discriminate; [reflexivity|].
  cbn [map] in H. assert (Hh : col_core x = col_core y) by congruence. assert (Ht : map col_core l1 = map col_core l2) by congruence.
  assert (Hn : c_name x = c_name y) by (unfold col_core in Hh; congruence). cbn [filter]. rewrite <- Hn.
  destruct (negb (String.eqb (c_name x) c)); cbn [map]; [rewrite Hh|]; rewrite (IH l2 Ht); reflexivity.
Qed.
Lemma has_column_core : forall c a b, map col_core (t_columns a) = map col_core (t_columns b) -> has_column c a = has_column c b.
Proof.
  intros c a b H. unfold has_column.
  rewrite <- (existsb_map c_name (fun n => String.eqb n c) (t_columns a)), <- (existsb_map c_name (fun n => String.eqb n c) (t_columns b)).
  f_equal. assert (E : map c_name (t_columns a) = map fst (map fst (map fst (map fst (map col_core (t_columns a)))))) by (rewrite !map_map; reflexivity).
  assert (E2 : map c_name (t_columns b) = map fst (map fst (map fst (map fst (map col_core (t_columns b)))))) by (rewrite !map_map; reflexivity).
  rewrite E, E2, H. reflexivity.
Qed.

Theorem simp_delete_column : forall P s v t c s' v',
  pend_rel P s v -> nodup_str (map t_name v) = true -> pend_of P t = [] ->
  apply_action s (DeleteColumn t c) = Ok s' -> apply_action v (DeleteColumn t c) = Ok v' -> pend_rel P s' v'.
Proof.
  intros P s v t c s' v' H Hnd Hp As Av. cbn [apply_action] in As, Av. eapply pend_rel_same_P_update; try eassumption.
  intros a b a' b' [R1 [R2 R3]] Hat Fa Fb. cbn beta in Fa, Fb.
  destruct (has_column c a); [|discriminate]. destruct (has_column c b); [|discriminate].
  inversion Fa; subst a'. inversion Fb; subst b'. rewrite Hat, Hp, app_nil_r in R3.
  repeat split; cbn [t_name t_columns t_constraints]; try assumption.
  - apply filter_cols_core. exact R2.
  - rewrite Hat, Hp, app_nil_r. unfold drop_column_from_constraints. apply Permutation_flat_map'. exact R3.
Qed.

Theorem simp_rename_column : forall P s v t a b s' v',
  pend_rel P s v -> nodup_str (map t_name v) = true -> pend_of P t = [] ->
  apply_action s (RenameColumn t a b) = Ok s' -> apply_action v (RenameColumn t a b) = Ok v' -> pend_rel P s' v'.
Proof.
  intros P s v t a b s' v' H Hnd Hp As Av. cbn [apply_action] in As, Av. eapply pend_rel_same_P_update; try eassumption.
  intros x y x' y' [R1 [R2 R3]] Hat Fa Fb. cbn beta in Fa, Fb.
  destruct (update_first_col a (set_name b) (t_columns x)) as [cx|] eqn:Ex; [|discriminate].
  destruct (update_first_col a (set_name b) (t_columns y)) as [cy|] eqn:Ey; [|discriminate].
  inversion Fa; subst x'. inversion Fb; subst y'. rewrite Hat, Hp, app_nil_r in R3.
  repeat split; cbn [t_name t_columns t_constraints]; try assumption.
  - eapply update_first_col_core; try eassumption. intros c c' E. unfold col_core in *. cbn. congruence.
  - rewrite Hat, Hp, app_nil_r. apply Permutation_map. exact R3.
Qed.

Lemma existsb_perm {A} (p : A -> bool) : forall l1 l2, Permutation l1 l2 -> existsb p l1 = existsb p l2.
Proof.
  intros l1 l2 H. induction H; cbn [existsb]; try reflexivity.
  - rewrite IHPermutation. reflexivity.
  - destruct (p y), (p x); reflexivity.
  - rewrite IHPermutation1. exact IHPermutation2.
Qed.

(* the ghost schema and the believed schema agree on "is an auto-increment key column" unless the column sits in a
   pending auto-increment primary key *)
Lemma pend_rel_find : forall P s v t, pend_rel P s v ->
  (find_table t s = None /\ find_table t v = None) \/
  (exists ts tv, find_table t s = Some ts /\ find_table t v = Some tv /\ trel P ts tv).
Proof.
  intros P s v t H. unfold find_table. induction H as [|a b s v Hab _ IH]; [left; split; reflexivity|].
  cbn [find]. rewrite <- (trel_name P a b Hab). destruct (String.eqb (t_name a) t).
  - right. exists a, b. split; [reflexivity|split; [reflexivity|exact Hab]].
  - exact IH.
Qed.
Lemma pend_rel_auto : forall P s v t c, pend_rel P s v ->
  mem_str c (auto_increment_columns (pend_of P t)) = false -> is_auto_col v t c = is_auto_col s t c.
Proof.
  intros P s v t c H Hp. unfold is_auto_col, constraints_of.
  destruct (pend_rel_find P s v t H) as [[Fs Fv]|[ts [tv [Fs [Fv [R1 [R2 R3]]]]]]]; rewrite Fs, Fv; [reflexivity|].
  assert (Hn : t_name ts = t) by (apply (find_table_in t s ts Fs)). rewrite Hn in R3.
  unfold mem_str, auto_increment_columns in *.
  rewrite (existsb_perm _ _ _ (Permutation_flat_map' _ _ _ R3)).
  rewrite flat_map_app, existsb_app, Hp. symmetry. apply Bool.orb_false_r.
Qed.
Lemma simp_kind_auto_agree : forall P s v a, pend_rel P s v -> simp_kind_ok P v a = true -> modify_auto_agree v s a = true.
Proof.
  intros P s v a H Hk. unfold modify_auto_agree.
  destruct a; cbn [modify_target]; try reflexivity; cbn [simp_kind_ok] in Hk; apply Bool.negb_true_iff in Hk;
    rewrite (pend_rel_auto P s v table column H Hk); apply Bool.eqb_reflx.
Qed.

(* ---------- one step of the invariant, any supported kind ---------- *)
Lemma simp_step_rel : forall P s v a s1 v1,
  pend_rel P s v -> nodup_str (map t_name v) = true -> simp_kind_ok P v a = true ->
  apply_action s a = Ok s1 -> apply_action v (ghost_action a) = Ok v1 ->
  pend_rel (pend_step s P a) s1 v1.
Proof.
  intros P s v a s1 v1 H Hnd Hk As Av.
  destruct a as [t cols ks|t|t col fw|t c1 c2|t c|t c ty fw|t c nl fw|t c nd|t c nc|t k|t k|f2 t2|sql]; cbn [ghost_action] in Av; cbn [simp_kind_ok] in Hk.
  - cbn [pend_step]. eapply simp_create_table; try eassumption. destruct (pend_of P t); [reflexivity|discriminate].
  - cbn [pend_step]. eapply simp_delete_table; eassumption.
  - eapply simp_establish; try eassumption.
    unfold dec_b in Hk. destruct (list_eq_dec constraint_eq_dec _ _) as [E|]; [|discriminate].
    unfold step in E. cbn [ghost_action] in E. rewrite Av in E. exact E.
  - cbn [pend_step]. eapply simp_rename_column; try eassumption. destruct (pend_of P t); [reflexivity|discriminate].
  - cbn [pend_step]. eapply simp_delete_column; try eassumption. destruct (pend_of P t); [reflexivity|discriminate].
  - cbn [pend_step]. eapply simp_modify; try eassumption. discriminate.
  - cbn [pend_step]. eapply simp_modify; try eassumption. discriminate.
  - cbn [pend_step]. eapply simp_modify; try eassumption. discriminate.
  - cbn [pend_step]. eapply simp_modify; try eassumption. discriminate.
  - eapply simp_add_constraint; try eassumption. apply Bool.negb_true_iff. exact Hk.
  - cbn [pend_step]. eapply simp_remove_constraint; try eassumption. destruct (pend_of P t); [reflexivity|discriminate].
  - discriminate.
  - cbn [pend_step]. eapply simp_raw; eassumption.
Qed.

(* ---------- the plan theorem ---------- *)
Theorem SimP_plan_gen : forall acts P v s s',
  pend_rel P s v -> simp_plan_steps P v s acts = true -> apply_all s acts = Ok s' ->
  exists L v', gen_plan s acts = Ok L /\ apply_all v (ghost_plan acts) = Ok v' /\
               run (catalog_of v) (List.concat L) = RunOk (catalog_of v') /\ pend_rel (pend_at s P acts) s' v'.
Proof.
  induction acts as [|a r IH]; intros P v s s' H Hs Ha.
  - cbn in Ha. inversion Ha; subst. exists [], v. repeat split; try reflexivity. exact H.
  - cbn [simp_plan_steps] in Hs. apply Bool.andb_true_iff in Hs. destruct Hs as [Hstep Hr].
    unfold simp_step_ok in Hstep.
    apply Bool.andb_true_iff in Hstep; destruct Hstep as [Hstep Hap].
    apply Bool.andb_true_iff in Hstep; destruct Hstep as [Hstep Hk].
    apply Bool.andb_true_iff in Hstep; destruct Hstep as [Hnd Hsim].
    cbn [apply_all] in Ha. destruct (apply_action s a) as [s1|e] eqn:As; [|discriminate].
    destruct (apply_action v (ghost_action a)) as [v1|e] eqn:Av; [|discriminate].
    pose proof (simp_step_rel P s v a s1 v1 H Hnd Hk As Av) as H1.
    assert (Ss : step s a = s1) by (unfold step; rewrite As; reflexivity).
    assert (Sv : step v (ghost_action a) = v1) by (unfold step; rewrite Av; reflexivity).
    rewrite Ss, Sv in Hr.
    destruct (IH _ v1 s1 s' H1 Hr Ha) as [L [v' [GP [AV [RP RelP]]]]].
    destruct (sim_proved v (ghost_action a) Hsim v1 Av (pending_constraints a r)) as [st [G R]].
    exists (st :: L), v'. repeat split.
    + cbn [gen_plan]. rewrite <- (gen_core_ext v s (pending_constraints a r) (pending_constraints a r) a (pend_rel_core P s v H) (simp_kind_auto_agree P s v a H Hk)).
      rewrite <- (gen_ghost_action v (pending_constraints a r) a). rewrite G. rewrite As. rewrite GP. reflexivity.
    + cbn [ghost_plan map apply_all]. rewrite Av. exact AV.
    + cbn [List.concat]. eapply run_app_ok; [exact R|exact RP].
    + cbn [pend_at]. rewrite Ss. exact RelP.
Qed.

Lemma pend_rel_refl : forall s, pend_rel [] s s.
Proof.
  intro s. unfold pend_rel. induction s as [|x r IH]; constructor; [|exact IH].
  repeat split. cbn [pend_of filter map]. rewrite app_nil_r. apply Permutation_refl.
Qed.

(* from the believed catalog of the baseline: the real statements run, and the engine ends in the believed catalog of
   the replayed schema minus what is still pending *)
Theorem SimP_plan : forall s acts s',
  simp_plan_steps [] s s acts = true -> apply_all s acts = Ok s' ->
  exists L c', gen_plan s acts = Ok L /\ run (catalog_of s) (List.concat L) = RunOk c' /\ SimP s' (pend_at s [] acts) c'.
Proof.
  intros s acts s' Hs Ha. destruct (SimP_plan_gen acts [] s s s' (pend_rel_refl s) Hs Ha) as [L [v' [G [_ [R Rel]]]]].
  exists L, (catalog_of v'). repeat split; [exact G|exact R|]. exists v'. split; [reflexivity|exact Rel].
Qed.

(* ---------- with nothing pending the two catalogs are the same set of objects ---------- *)
Lemma generated_indep : forall fks K, fk_indep fks = true ->
  generated_indexes K fks
  = flat_map (fun f => if (nonempty (fk_cols f) && existsb (is_prefix (fk_cols f)) K)%bool then [] else [mkMIndex (fk_name f) (fk_cols f) false true]) fks.
Proof.
  induction fks as [|f r IH]; intros K H; [reflexivity|]. cbn [fk_indep] in H. apply Bool.andb_true_iff in H. destruct H as [Hf Hr].
  cbn [generated_indexes flat_map]. destruct (nonempty (fk_cols f) && existsb (is_prefix (fk_cols f)) K)%bool.
  - cbn [app]. apply IH. exact Hr.
  - cbn [app]. f_equal. rewrite (IH (K ++ [fk_cols f]) Hr). apply flat_map_ext_in. intros g Hg.
    rewrite existsb_app. cbn [existsb]. rewrite forallb_forall in Hf. specialize (Hf g Hg). apply Bool.negb_true_iff in Hf. rewrite Hf, !Bool.orb_false_r. reflexivity.
Qed.

Lemma perm_le1 {A} : forall l1 l2 : list A, Permutation l1 l2 -> (List.length l1 <= 1)%nat -> l1 = l2.
Proof.
  intros l1 l2 H Hl. destruct l1 as [|x [|y l]].
  - apply Permutation_nil in H. subst. reflexivity.
  - apply Permutation_length_1_inv in H. subst. reflexivity.
  - cbn in Hl. lia.
Qed.

Lemma map_core_ext {B} (F : column_def -> B) : forall l1 l2, map col_core l1 = map col_core l2 ->
  (forall c c', col_core c = col_core c' -> F c = F c') -> map F l1 = map F l2.
Proof.
  induction l1 as [|x l1 IH]; intros l2 H HF; destruct l2 as [|y l2]; try discriminate; [reflexivity|].
  cbn [map] in H. assert (Hh : col_core x = col_core y) by congruence. assert (Ht : map col_core l1 = map col_core l2) by congruence.
  cbn [map]. rewrite (HF x y Hh), (IH l2 Ht HF). reflexivity.
Qed.

Lemma catalog_of_table_perm : forall ts tv,
  t_name ts = t_name tv -> map col_core (t_columns ts) = map col_core (t_columns tv) ->
  Permutation (t_constraints ts) (t_constraints tv) ->
  table_order_free ts = true -> table_order_free tv = true ->
  table_equiv (catalog_of_table tv) (catalog_of_table ts).
Proof.
  intros ts tv Hn Hc Hp Hos Hov. unfold table_order_free in Hos, Hov.
  apply Bool.andb_true_iff in Hos. destruct Hos as [Hpk1 Hfs]. apply Bool.andb_true_iff in Hov. destruct Hov as [_ Hfv].
  destruct ts as [n ds cs ks]. destruct tv as [n' ds' cv kv]. cbn [t_name t_columns t_constraints] in *. subst n'.
  assert (Hfpk : filter is_pk ks = filter is_pk kv).
  { apply perm_le1; [apply Permutation_filter'; exact Hp|]. apply Nat.leb_le. exact Hpk1. }
  assert (Hfp : first_pk kv = first_pk ks) by (unfold first_pk; rewrite Hfpk; reflexivity).
  assert (Hau : forall x, mem_str x (auto_increment_columns kv) = mem_str x (auto_increment_columns ks)).
  { intro x. unfold mem_str. apply existsb_perm. unfold auto_increment_columns. apply Permutation_flat_map'. apply Permutation_sym. exact Hp. }
  assert (HU : Permutation (unique_indexes n kv) (unique_indexes n ks)) by (unfold unique_indexes; apply Permutation_flat_map'; apply Permutation_sym; exact Hp).
  assert (HPl : Permutation (plain_indexes n kv) (plain_indexes n ks)) by (unfold plain_indexes; apply Permutation_flat_map'; apply Permutation_sym; exact Hp).
  assert (HF : Permutation (create_fks n kv) (create_fks n ks)) by (unfold create_fks; apply Permutation_flat_map'; apply Permutation_sym; exact Hp).
  unfold table_equiv, catalog_of_table. cbn [t_name t_columns t_constraints tb_name tb_cols tb_pk tb_indexes tb_fks tb_checks].
  repeat split.
  - change (map (mk_mcol kv) cv = map (mk_mcol ks) cs). transitivity (map (mk_mcol ks) cv).
    + apply map_ext. intro c. unfold mk_mcol. rewrite Hfp, Hau. reflexivity.
    + symmetry. apply map_core_ext; [exact Hc|]. intros c c' E. apply mk_mcol_core. exact E.
  - exact Hfp.
  - unfold explicit_indexes. rewrite Hfp. apply Permutation_app; [apply Permutation_app; assumption|].
    rewrite (generated_indep _ _ Hfv), (generated_indep _ _ Hfs).
    eapply Permutation_trans; [apply Permutation_flat_map'; exact HF|].
    erewrite flat_map_ext_in; [apply Permutation_refl|]. intros f _. cbn beta.
    rewrite !existsb_app.
    rewrite (existsb_perm (is_prefix (fk_cols f)) (map ix_cols (unique_indexes n kv ++ plain_indexes n kv)) (map ix_cols (unique_indexes n ks ++ plain_indexes n ks))); [reflexivity|].
    apply Permutation_map. apply Permutation_app; assumption.
  - exact HF.
  - apply Permutation_flat_map'. apply Permutation_sym. exact Hp.
Qed.

Lemma pend_rel_nil_equiv : forall s v, pend_rel [] s v -> order_free s = true -> order_free v = true ->
  cat_equiv (catalog_of v) (catalog_of s).
Proof.
  intros s v H. unfold cat_equiv, catalog_of, order_free. induction H as [|a b s v Hab _ IH]; intros Hs Hv; [constructor|].
  cbn [forallb] in Hs, Hv. apply Bool.andb_true_iff in Hs. apply Bool.andb_true_iff in Hv. destruct Hs as [Ha Hs]. destruct Hv as [Hb Hv].
  cbn [map]. constructor; [|apply IH; assumption].
  destruct Hab as [R1 [R2 R3]]. cbn [pend_of filter map] in R3. rewrite app_nil_r in R3. apply catalog_of_table_perm; assumption.
Qed.

(* ---------- C04 on plans with columns added together with inline constraints ---------- *)
Theorem SimP_plan_equiv : forall s acts s',
  simp_plan_full s acts = true -> apply_all s acts = Ok s' ->
  exists L c', gen_plan s acts = Ok L /\ run (catalog_of s) (List.concat L) = RunOk c' /\ cat_equiv c' (catalog_of s').
Proof.
  intros s acts s' H Ha. unfold simp_plan_full in H.
  apply Bool.andb_true_iff in H; destruct H as [H Hof]. apply Bool.andb_true_iff in H; destruct H as [Hs Hp].
  destruct (SimP_plan_gen acts [] s s s' (pend_rel_refl s) Hs Ha) as [L [v' [G [AV [R Rel]]]]].
  rewrite Ha, AV in Hof. apply Bool.andb_true_iff in Hof. destruct Hof as [O1 O2].
  destruct (pend_at s [] acts); [|discriminate].
  exists L, (catalog_of v'). repeat split; [exact G|exact R|]. apply pend_rel_nil_equiv; assumption.
Qed.
