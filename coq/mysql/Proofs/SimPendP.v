(* The pending-set invariant on MySQL.  Part 1: the engine follows the GHOST plan (added columns stripped of their inline
   fields): the real statements are the ghost plan's statements, every ghost action keeps Sim, hence the real plan ends in
   the believed catalog of the ghost schema. *)
From VV.M1 Require Import PrefixStrP.
From VV.MYSQL Require Import SpecPending ModifyP SimP SimKeysP SimCreateP SimFkP SimRemoveP SimRenameP SimAllP.
From Coq Require Import Lia Permutation.

(* ---------- the generator reads only the core of the schema ---------- *)
Lemma find_table_core : forall v s t, schema_core v = schema_core s ->
  option_map table_core (find_table t v) = option_map table_core (find_table t s).
Proof.
  unfold find_table, schema_core. induction v as [|x v IH]; intros s t H; destruct s as [|y s]; try discriminate; [reflexivity|].
  cbn [map] in H. assert (Hh : table_core x = table_core y) by congruence. assert (Ht : map table_core v = map table_core s) by congruence.
  cbn [find]. assert (Hn : t_name x = t_name y) by (unfold table_core in Hh; congruence).
  destruct (String.eqb (t_name x) t) eqn:E.
  - rewrite <- Hn, E. cbn [option_map]. f_equal. exact Hh.
  - rewrite <- Hn, E. apply IH. exact Ht.
Qed.

Lemma find_column_core : forall c tv ts, table_core tv = table_core ts ->
  option_map col_core (find_column c tv) = option_map col_core (find_column c ts).
Proof.
  intros c tv ts H. assert (Hc : map col_core (t_columns tv) = map col_core (t_columns ts)) by (unfold table_core in H; congruence).
  unfold find_column. revert Hc. generalize (t_columns ts) as l2. induction (t_columns tv) as [|x l1 IH]; intros l2 Hc; destruct l2 as [|y l2]; try discriminate; [reflexivity|].
  cbn [map] in Hc. assert (Hh : col_core x = col_core y) by congruence. assert (Ht : map col_core l1 = map col_core l2) by congruence.
  cbn [find]. assert (Hn : c_name x = c_name y) by (unfold col_core in Hh; congruence).
  destruct (String.eqb (c_name x) c) eqn:E.
  - rewrite <- Hn, E. cbn [option_map]. f_equal. exact Hh.
  - rewrite <- Hn, E. apply IH. exact Ht.
Qed.

Lemma sea_coldef_core : forall c c', col_core c = col_core c' -> sea_coldef c = sea_coldef c'.
Proof. intros c c' H. unfold col_core in H. unfold sea_coldef. replace (c_name c') with (c_name c) by congruence. replace (c_type c') with (c_type c) by congruence. replace (c_nullable c') with (c_nullable c) by congruence. replace (c_default c') with (c_default c) by congruence. reflexivity. Qed.

Lemma with_column_core : forall v s t c (f g : column_def -> list stmt),
  schema_core v = schema_core s -> (forall x y, col_core x = col_core y -> c_name x = c -> f x = g y) ->
  with_column v t c f = with_column s t c g.
Proof.
  intros v s t c f g H Hf. unfold with_column. pose proof (find_table_core v s t H) as Ft.
  destruct (find_table t v) as [tv|], (find_table t s) as [ts|]; try discriminate; [|reflexivity].
  cbn [option_map] in Ft. assert (Ft2 : table_core tv = table_core ts) by congruence. pose proof (find_column_core c tv ts Ft2) as Fc.
  destruct (find_column c tv) as [x|] eqn:Fx, (find_column c ts) as [y|]; try discriminate; [|reflexivity].
  cbn [option_map] in Fc. assert (Fc2 : col_core x = col_core y) by congruence.
  rewrite (Hf x y Fc2 (find_column_name c tv x Fx)). reflexivity.
Qed.

Lemma lookup_column_core : forall v s t c, schema_core v = schema_core s ->
  option_map col_core (lookup_column v t c) = option_map col_core (lookup_column s t c).
Proof.
  intros v s t c H. unfold lookup_column. pose proof (find_table_core v s t H) as Ft.
  destruct (find_table t v) as [tv|], (find_table t s) as [ts|]; try discriminate; [|reflexivity].
  cbn [option_map] in Ft. apply find_column_core. congruence.
Qed.

(* the restated attributes read the column core and "is an auto-increment key column" *)
Lemma restated_auto_core : forall v s t c x y,
  is_auto_col v t c = is_auto_col s t c -> c_name x = c -> c_name y = c -> c_type x = c_type y ->
  restated_auto v t x = restated_auto s t y.
Proof.
  intros v s t c x y H Hx Hy Ht. unfold restated_auto. unfold is_auto_col in H. rewrite Hx, Hy, H, Ht. reflexivity.
Qed.

Theorem gen_core_ext : forall v s P P' a, schema_core v = schema_core s -> modify_auto_agree v s a = true ->
  gen v P a = gen s P' a.
Proof.
  intros v s P P' a H Hag. destruct a; cbn [gen]; try reflexivity; unfold modify_auto_agree in Hag; cbn [modify_target] in Hag;
    apply Bool.eqb_prop in Hag.
  - (* type *) f_equal. unfold gen_modify_type. f_equal. f_equal. f_equal. unfold modify_type_coldef.
    pose proof (lookup_column_core v s table column H) as L.
    destruct (lookup_column v table column) as [x|] eqn:Lx, (lookup_column s table column) as [y|] eqn:Ly; try discriminate; [|reflexivity].
    cbn [option_map] in L. unfold col_core in L.
    destruct (lookup_found v table column x Lx) as [tdx [_ Fx]]. destruct (lookup_found s table column y Ly) as [tdy [_ Fy]].
    unfold restate_attrs.
    rewrite (restated_auto_core v s table column (set_type new_type x) (set_type new_type y) Hag
               (find_column_name column tdx x Fx) (find_column_name column tdy y Fy) eq_refl).
    cbn [set_type c_comment cd_name cd_type cd_notnull cd_default cd_pk].
    replace (c_nullable y) with (c_nullable x) by congruence. replace (c_default y) with (c_default x) by congruence.
    replace (c_comment y) with (c_comment x) by congruence. reflexivity.
  - unfold gen_modify_nullable. apply with_column_core; [exact H|]. intros x y E Hx. cbn zeta. f_equal. f_equal. f_equal.
    assert (Hy : c_name y = column) by (unfold col_core in E; congruence).
    unfold restate_attrs.
    rewrite (restated_auto_core v s table column (set_nullable nullable x) (set_nullable nullable y) Hag Hx Hy
               ltac:(unfold col_core in E; cbn [set_nullable c_type]; congruence)).
    rewrite (sea_coldef_core (set_nullable nullable x) (set_nullable nullable y))
      by (unfold col_core in *; cbn [set_nullable c_name c_type c_nullable c_default c_comment]; congruence).
    cbn [set_nullable c_comment]. replace (c_comment y) with (c_comment x) by (unfold col_core in E; congruence). reflexivity.
  - unfold gen_modify_default. apply with_column_core; [exact H|]. intros x y E Hx. cbn zeta. f_equal. f_equal.
    assert (Hy : c_name y = column) by (unfold col_core in E; congruence).
    unfold restate_attrs.
    rewrite (restated_auto_core v s table column (set_default (option_map default_of_string new_default) x)
               (set_default (option_map default_of_string new_default) y) Hag Hx Hy
               ltac:(unfold col_core in E; cbn [set_default c_type]; congruence)).
    rewrite (sea_coldef_core (set_default (option_map default_of_string new_default) x) (set_default (option_map default_of_string new_default) y))
      by (unfold col_core in *; cbn [set_default c_name c_type c_nullable c_default c_comment]; congruence).
    cbn [set_default c_comment]. replace (c_comment y) with (c_comment x) by (unfold col_core in E; congruence). reflexivity.
  - unfold gen_modify_comment. apply with_column_core; [exact H|]. intros x y E Hx. cbn zeta. f_equal. f_equal. f_equal.
    assert (Hy : c_name y = column) by (unfold col_core in E; congruence).
    unfold restate_auto.
    rewrite (restated_auto_core v s table column (set_comment new_comment x) (set_comment new_comment y) Hag Hx Hy
               ltac:(unfold col_core in E; cbn [set_comment c_type]; congruence)).
    rewrite (sea_coldef_core (set_comment new_comment x) (set_comment new_comment y))
      by (unfold col_core in *; cbn [set_comment c_name c_type c_nullable c_default c_comment]; congruence).
    reflexivity.
Qed.

Lemma gen_ghost_action : forall s P a, gen s P (ghost_action a) = gen s P a.
Proof. intros s P a. destruct a; reflexivity. Qed.

Lemma same_core_b_eq : forall v s, same_core_b v s = true -> schema_core v = schema_core s.
Proof. intros v s H. unfold same_core_b, dec_b in H. destruct (list_eq_dec _ _ _); [assumption|discriminate]. Qed.

(* ---------- Part 1: the checked plan theorem ---------- *)
Lemma simp_steps_sound : forall acts v s v',
  simp_steps_ok v s acts = true -> apply_all v (ghost_plan acts) = Ok v' ->
  exists L, gen_plan s acts = Ok L /\ run (catalog_of v) (List.concat L) = RunOk (catalog_of v').
Proof.
  induction acts as [|a r IH]; intros v s v' H Hv.
  - cbn in Hv. inversion Hv; subst. exists []. split; reflexivity.
  - cbn [simp_steps_ok] in H.
    apply Bool.andb_true_iff in H; destruct H as [H Hr].
    apply Bool.andb_true_iff in H; destruct H as [H Hap].
    apply Bool.andb_true_iff in H; destruct H as [H Hsim].
    apply Bool.andb_true_iff in H; destruct H as [Hcore Hag].
    apply same_core_b_eq in Hcore.
    cbn [ghost_plan map apply_all] in Hv. fold (ghost_plan r) in Hv.
    destruct (apply_action v (ghost_action a)) as [v1|e] eqn:A; [|discriminate].
    destruct (sim_proved v (ghost_action a) Hsim v1 A (pending_constraints a r)) as [st [G R]].
    assert (St : step v (ghost_action a) = v1) by (unfold step; rewrite A; reflexivity).
    rewrite St in Hr. destruct (IH v1 (step s a) v' Hr Hv) as [L [GP RP]].
    exists (st :: L). split.
    + cbn [gen_plan]. rewrite <- (gen_core_ext v s (pending_constraints a r) (pending_constraints a r) a Hcore Hag).
      rewrite <- (gen_ghost_action v (pending_constraints a r) a). rewrite G. fold (step s a). rewrite GP. reflexivity.
    + cbn [List.concat]. eapply run_app_ok; [exact R|exact RP].
Qed.

Theorem SimP_plan_checked : forall s acts s',
  simp_plan_ok s acts = true -> apply_all s acts = Ok s' ->
  exists L c', gen_plan s acts = Ok L /\ run (catalog_of s) (List.concat L) = RunOk c' /\ catalog_eqb c' (catalog_of s') = true.
Proof.
  intros s acts s' H Ha. unfold simp_plan_ok in H. apply Bool.andb_true_iff in H. destruct H as [Hs Hf]. rewrite Ha in Hf.
  destruct (apply_all s (ghost_plan acts)) as [v'|e] eqn:Hv; [|discriminate].
  destruct (simp_steps_sound acts s s v' Hs Hv) as [L [G R]].
  exists L, (catalog_of v'). repeat split; assumption.
Qed.
