(* Simulation lemma for DeleteColumn of a column that single-column PRIMARY KEY / UNIQUE / INDEX keys are made of: MySQL
   drops the emptied keys with the column [M7], the baseline drops the emptied constraints (apply.rs retain_mut).  Every
   other constraint of the table does not mention the column. *)
From VV.MYSQL Require Import SpecFk ModifyP SimP SimKeysP SimCreateP SimFkP SimRemoveP.
From Coq Require Import Lia.

Definition keeps (c : string) (k : table_constraint) : bool := negb (single_key_of c k).
Definition shrink (c : string) (l : list mindex) : list mindex :=
  flat_map (fun i => if nonempty (drop_in c (ix_cols i))
                     then [mkMIndex (ix_name i) (drop_in c (ix_cols i)) (ix_unique i) (ix_generated i)] else []) l.

Lemma drop_in_single : forall c x, String.eqb x c = true -> drop_in c [x] = [].
Proof. intros c x H. unfold drop_in. cbn [filter]. rewrite H. reflexivity. Qed.

Lemma mem_single : forall c x, String.eqb x c = true -> mem_str c [x] = true.
Proof. intros c x H. unfold mem_str. cbn [existsb]. rewrite String.eqb_sym, H. reflexivity. Qed.

(* the two cases of the hypothesis, per constraint *)
Definition key_hyp (c : string) (k : table_constraint) : Prop :=
  (single_key_of c k = true /\ drop_column_from_constraint c k = None) \/
  (single_key_of c k = false /\ constraint_mentions c k = false /\ constraint_nonempty k = true /\
   drop_column_from_constraint c k = Some k).

Lemma key_case : forall c k,
  (single_key_of c k || negb (constraint_mentions c k))%bool = true -> constraint_nonempty k = true -> key_hyp c k.
Proof.
  intros c k H Hn. unfold key_hyp. destruct (single_key_of c k) eqn:S.
  - left. split; [reflexivity|].
    destruct k as [a cols|n cols|n cols rt rcols od ou|n e|n cols]; cbn [single_key_of] in S; try discriminate;
      destruct cols as [|x [|y r]]; try discriminate; cbn [drop_column_from_constraint];
      rewrite (drop_in_single c x S); reflexivity.
  - right. cbn [orb] in H. apply Bool.negb_true_iff in H. repeat split; try assumption.
    apply drop_constraint_noop; assumption.
Qed.

Lemma keys_hyp_all : forall c ks,
  forallb (fun k => (single_key_of c k || negb (constraint_mentions c k))%bool) ks = true ->
  forallb constraint_nonempty ks = true -> forall k, In k ks -> key_hyp c k.
Proof.
  intros c ks H1 H2 k Ik. rewrite forallb_forall in H1, H2. apply key_case; [apply H1|apply H2]; exact Ik.
Qed.

Lemma drop_constraints_keys : forall c ks,
  (forall k, In k ks -> key_hyp c k) -> drop_column_from_constraints c ks = filter (keeps c) ks.
Proof.
  intros c ks. unfold drop_column_from_constraints, keeps. induction ks as [|k r IH]; intro H; [reflexivity|].
  cbn [flat_map filter]. rewrite IH by (intros k' Ik; apply H; right; exact Ik).
  destruct (H k (or_introl eq_refl)) as [[S D]|[S [_ [_ D]]]]; rewrite S, D; reflexivity.
Qed.

Lemma single_key_shape : forall c k, single_key_of c k = true ->
  exists x, String.eqb x c = true /\ ((exists n, k = CUnique n [x]) \/ (exists n, k = CIndex n [x]) \/ (exists a, k = CPrimaryKey a [x])).
Proof.
  intros c k S. destruct k as [a cols|n cols|n cols rt rcols od ou|n e|n cols]; cbn [single_key_of] in S; try discriminate;
    destruct cols as [|x [|y r']]; try discriminate; exists x; split; eauto.
Qed.

Lemma flat_map_keeps : forall (A : Type) (g : table_constraint -> list A) c ks,
  (forall n x, g (CUnique n [x]) = [] /\ g (CIndex n [x]) = []) -> (forall a x, g (CPrimaryKey a [x]) = []) ->
  flat_map g (filter (keeps c) ks) = flat_map g ks.
Proof.
  intros A g c ks Hg Hp. induction ks as [|k r IH]; [reflexivity|].
  cbn [filter]. unfold keeps at 1. destruct (single_key_of c k) eqn:S; cbn [negb flat_map]; [|rewrite IH; reflexivity].
  destruct (single_key_shape c k S) as [x [_ [[n E]|[[n E]|[a E]]]]]; subst k.
  - rewrite (proj1 (Hg n x)). exact IH.
  - rewrite (proj2 (Hg n x)). exact IH.
  - rewrite (Hp a x). exact IH.
Qed.

Lemma filter_comm : forall (A : Type) (p q : A -> bool) l, filter p (filter q l) = filter q (filter p l).
Proof.
  intros A p q l. induction l as [|x r IH]; [reflexivity|]. cbn [filter].
  destruct (q x) eqn:Q; destruct (p x) eqn:Pp; cbn [filter]; rewrite ?Q, ?Pp, IH; reflexivity.
Qed.

(* the primary key after the drop, as MySQL computes it [M7] *)
Definition pk_shrink (c : string) (o : option (list string)) : option (list string) :=
  match o with Some p => if nonempty (drop_in c p) then Some (drop_in c p) else None | None => None end.
Definition pk_hyp (c : string) (o : option (list string)) : Prop :=
  match o with
  | Some p => (exists x, p = [x] /\ String.eqb x c = true) \/ (mem_str c p = false /\ nonempty p = true)
  | None => True
  end.

Lemma pk_hyp_first : forall c ks, (forall k, In k ks -> key_hyp c k) -> pk_hyp c (first_pk ks).
Proof.
  intros c ks H. unfold pk_hyp. destruct (first_pk ks) as [p|] eqn:Fp; [|exact I].
  destruct (first_pk_in _ _ Fp) as [a Ia]. destruct (H _ Ia) as [[S _]|[_ [M [N _]]]].
  - left. destruct (single_key_shape c _ S) as [x [X [[n E]|[[n E]|[a' E]]]]]; try discriminate. inversion E; subst. exists x. split; [reflexivity|exact X].
  - right. cbn [constraint_mentions constraint_nonempty constraint_columns] in M, N. split; assumption.
Qed.

Lemma first_pk_keeps : forall c ks,
  (forall k, In k ks -> key_hyp c k) -> Nat.leb (List.length (filter is_pk ks)) 1 = true ->
  first_pk (filter (keeps c) ks) = pk_shrink c (first_pk ks).
Proof.
  intros c ks H Hle. unfold first_pk. rewrite filter_comm.
  destruct (filter is_pk ks) as [|k [|k2 r]] eqn:F; [reflexivity| |discriminate].
  assert (Ik : In k (filter is_pk ks)) by (rewrite F; left; reflexivity).
  apply filter_In in Ik. destruct Ik as [Ik Pk].
  destruct k as [a cols|n cols|n cols rt rcols od ou|n e|n cols]; try discriminate.
  cbn [filter]. unfold keeps. destruct (H _ Ik) as [[S _]|[S [M [N _]]]]; rewrite S; cbn [negb].
  - destruct (single_key_shape c _ S) as [x [X [[n E]|[[n E]|[a' E]]]]]; try discriminate. inversion E; subst.
    unfold pk_shrink. rewrite (drop_in_single c x X). reflexivity.
  - cbn [constraint_mentions constraint_nonempty constraint_columns] in M, N.
    unfold pk_shrink. rewrite (drop_in_notin _ _ M), N. reflexivity.
Qed.

(* a test that the one-column key [c] fails cannot tell the primary key before from the primary key after *)
Lemma existsb_pk_shrink : forall c (q : list string -> bool) o,
  (forall x, String.eqb x c = true -> q [x] = false) -> pk_hyp c o ->
  existsb q (match pk_shrink c o with Some p => [p] | None => [] end) = existsb q (match o with Some p => [p] | None => [] end).
Proof.
  intros c q o Hq Ho. destruct o as [p|]; [|reflexivity]. cbn [pk_hyp] in Ho. unfold pk_shrink.
  destruct Ho as [[x [E X]]|[M N]].
  - subst p. rewrite (drop_in_single c x X). cbn [nonempty existsb]. rewrite (Hq x X). reflexivity.
  - rewrite (drop_in_notin _ _ M), N. reflexivity.
Qed.

Lemma mem_pk_shrink : forall c y o, String.eqb y c = false -> pk_hyp c o ->
  mem_str y (match pk_shrink c o with Some p => p | None => [] end) = mem_str y (match o with Some p => p | None => [] end).
Proof.
  intros c y o Hy Ho. destruct o as [p|]; [|reflexivity]. cbn [pk_hyp] in Ho. unfold pk_shrink.
  destruct Ho as [[x [E X]]|[M N]].
  - subst p. rewrite (drop_in_single c x X). cbn [nonempty]. unfold mem_str. cbn [existsb].
    apply String.eqb_eq in X. subst x. rewrite Hy. reflexivity.
  - rewrite (drop_in_notin _ _ M), N. reflexivity.
Qed.

Lemma auto_mem_keeps : forall c y ks, String.eqb y c = false ->
  mem_str y (auto_increment_columns (filter (keeps c) ks)) = mem_str y (auto_increment_columns ks).
Proof.
  intros c y ks Hy. unfold auto_increment_columns. induction ks as [|k r IH]; [reflexivity|].
  cbn [filter]. unfold keeps at 1. destruct (single_key_of c k) eqn:S; cbn [negb flat_map].
  - rewrite mem_str_app, IH.
    destruct (single_key_shape c k S) as [x [X [[n E]|[[n E]|[a E]]]]]; subst k; try reflexivity.
    destruct a; [|reflexivity]. unfold mem_str at 2. cbn [existsb]. apply String.eqb_eq in X. subst x. rewrite Hy. reflexivity.
  - rewrite !mem_str_app, IH. reflexivity.
Qed.

Lemma mk_mcol_keeps : forall c ks x,
  (forall k, In k ks -> key_hyp c k) -> Nat.leb (List.length (filter is_pk ks)) 1 = true ->
  String.eqb (c_name x) c = false -> mk_mcol (filter (keeps c) ks) x = mk_mcol ks x.
Proof.
  intros c ks x H Hle Hx. unfold mk_mcol. rewrite (first_pk_keeps c ks H Hle).
  rewrite (mem_pk_shrink c (c_name x) (first_pk ks) Hx (pk_hyp_first c ks H)), (auto_mem_keeps c (c_name x) ks Hx). reflexivity.
Qed.

Lemma create_fks_keeps : forall t c ks, create_fks t (filter (keeps c) ks) = create_fks t ks.
Proof. intros t c ks. unfold create_fks. apply flat_map_keeps; intros; try split; reflexivity. Qed.

Lemma checks_keeps : forall c ks, checks_of (filter (keeps c) ks) = checks_of ks.
Proof. intros c ks. unfold checks_of. apply flat_map_keeps; intros; try split; reflexivity. Qed.

Lemma shrink_id : forall c (l : list mindex),
  (forall i, In i l -> mem_str c (ix_cols i) = false /\ nonempty (ix_cols i) = true) -> shrink c l = l.
Proof. intros c l H. unfold shrink. apply shrink_noop. exact H. Qed.

Lemma shrink_app : forall c a b, shrink c (a ++ b) = shrink c a ++ shrink c b.
Proof. intros. unfold shrink. apply flat_map_app. Qed.

(* the explicit keys of the shrunk constraint list are the shrunk explicit keys *)
Lemma unique_keeps : forall t c ks,
  (forall k, In k ks -> key_hyp c k) ->
  unique_indexes t (filter (keeps c) ks) = shrink c (unique_indexes t ks).
Proof.
  intros t c ks. unfold unique_indexes. induction ks as [|k r IH]; intro H; [reflexivity|].
  specialize (IH (fun k' Ik => H k' (or_intror Ik))).
  cbn [filter flat_map]. rewrite shrink_app, <- IH. unfold keeps at 1.
  destruct (H k (or_introl eq_refl)) as [[S D]|[S [M [N D]]]]; rewrite S; cbn [negb].
  - destruct (single_key_shape c k S) as [x [X [[n E]|[[n E]|[a E]]]]]; subst k; try reflexivity.
    cbn [shrink flat_map ix_cols]. rewrite (drop_in_single c x X). reflexivity.
  - cbn [flat_map]. f_equal.
    destruct k as [a cols|n cols|n cols rt rcols od ou|n e|n cols]; try reflexivity.
    cbn [constraint_mentions constraint_nonempty constraint_columns] in M, N.
    cbn [shrink flat_map ix_cols ix_name ix_unique ix_generated]. rewrite (drop_in_notin _ _ M), N. reflexivity.
Qed.

Lemma plain_keeps : forall t c ks,
  (forall k, In k ks -> key_hyp c k) ->
  plain_indexes t (filter (keeps c) ks) = shrink c (plain_indexes t ks).
Proof.
  intros t c ks. unfold plain_indexes. induction ks as [|k r IH]; intro H; [reflexivity|].
  specialize (IH (fun k' Ik => H k' (or_intror Ik))).
  cbn [filter flat_map]. rewrite shrink_app, <- IH. unfold keeps at 1.
  destruct (H k (or_introl eq_refl)) as [[S D]|[S [M [N D]]]]; rewrite S; cbn [negb].
  - destruct (single_key_shape c k S) as [x [X [[n E]|[[n E]|[a E]]]]]; subst k; try reflexivity.
    cbn [shrink flat_map ix_cols]. rewrite (drop_in_single c x X). reflexivity.
  - cbn [flat_map]. f_equal.
    destruct k as [a cols|n cols|n cols rt rcols od ou|n e|n cols]; try reflexivity.
    cbn [constraint_mentions constraint_nonempty constraint_columns] in M, N.
    cbn [shrink flat_map ix_cols ix_name ix_unique ix_generated]. rewrite (drop_in_notin _ _ M), N. reflexivity.
Qed.

Lemma explicit_keeps : forall t c ks,
  (forall k, In k ks -> key_hyp c k) ->
  explicit_indexes t (filter (keeps c) ks) = shrink c (explicit_indexes t ks).
Proof.
  intros t c ks H. unfold explicit_indexes. rewrite shrink_app, (unique_keeps t c ks H), (plain_keeps t c ks H). reflexivity.
Qed.

(* every explicit key is either exactly [c] or does not contain c *)
Definition ix_hyp (c : string) (i : mindex) : Prop :=
  (exists x, ix_cols i = [x] /\ String.eqb x c = true) \/ (mem_str c (ix_cols i) = false /\ nonempty (ix_cols i) = true).

Lemma explicit_ix_hyp : forall t c ks,
  (forall k, In k ks -> key_hyp c k) -> forall i, In i (explicit_indexes t ks) -> ix_hyp c i.
Proof.
  intros t c ks H i Ii. unfold explicit_indexes in Ii. apply in_app_or in Ii.
  assert (G : forall k, In k ks ->
              match k with CUnique _ cols | CIndex _ cols => ix_cols i = cols | _ => False end -> ix_hyp c i).
  { intros k Ik Hc. unfold ix_hyp.
    destruct (H k Ik) as [[S D]|[S [M [N D]]]].
    - left. destruct (single_key_shape c k S) as [x [X [[n E]|[[n E]|[a E]]]]]; subst k; try contradiction; exists x; split; assumption.
    - right. destruct k as [a cols|n cols|n cols rt rcols od ou|n e|n cols]; try contradiction; rewrite Hc;
        cbn [constraint_mentions constraint_nonempty constraint_columns] in M, N; split; assumption. }
  destruct Ii as [Ii|Ii].
  - unfold unique_indexes in Ii. apply in_flat_map in Ii. destruct Ii as [k [Ik Hi]].
    destruct k; cbn in Hi; try contradiction. destruct Hi as [Hi|[]]. subst i. eapply G; [exact Ik|reflexivity].
  - unfold plain_indexes in Ii. apply in_flat_map in Ii. destruct Ii as [k [Ik Hi]].
    destruct k; cbn in Hi; try contradiction. destruct Hi as [Hi|[]]. subst i. eapply G; [exact Ik|reflexivity].
Qed.

(* a test that the one-column key [c] fails cannot tell the shrunk key list from the original *)
Lemma existsb_shrink : forall c (p : list string -> bool) l,
  (forall x, String.eqb x c = true -> p [x] = false) ->
  (forall i, In i l -> ix_hyp c i) ->
  existsb p (map ix_cols (shrink c l)) = existsb p (map ix_cols l).
Proof.
  intros c p l Hp. induction l as [|i r IH]; intro H; [reflexivity|].
  specialize (IH (fun j Ij => H j (or_intror Ij))).
  unfold shrink in *. cbn [flat_map]. rewrite map_app, existsb_app, IH. cbn [map existsb]. f_equal.
  destruct (H i (or_introl eq_refl)) as [[x [E X]]|[M N]].
  - rewrite E, (drop_in_single c x X). cbn [nonempty map existsb]. rewrite (Hp x X). reflexivity.
  - rewrite (drop_in_notin _ _ M), N. cbn [map existsb ix_cols]. apply Bool.orb_false_r.
Qed.

Lemma generated_from_fk : forall i keys fks, In i (generated_indexes keys fks) -> exists f, In f fks /\ ix_cols i = fk_cols f.
Proof.
  intros i keys fks. revert keys. induction fks as [|f r IH]; intros keys H; cbn [generated_indexes] in H; [contradiction|].
  destruct (nonempty (fk_cols f) && existsb (is_prefix (fk_cols f)) keys)%bool.
  - destruct (IH _ H) as [f' [Hf Hc]]. exists f'. split; [right; exact Hf|exact Hc].
  - destruct H as [H|H].
    + subst i. exists f. split; [left; reflexivity|reflexivity].
    + destruct (IH _ H) as [f' [Hf Hc]]. exists f'. split; [right; exact Hf|exact Hc].
Qed.

Lemma is_prefix_single_other : forall c x p,
  String.eqb x c = true -> mem_str c p = false -> nonempty p = true -> is_prefix p [x] = false.
Proof.
  intros c x p X M N. destruct p as [|y r]; [discriminate|]. cbn [is_prefix].
  unfold mem_str in M. cbn [existsb] in M. apply Bool.orb_false_iff in M. destruct M as [M _].
  apply String.eqb_eq in X. subst x. rewrite String.eqb_sym, M. reflexivity.
Qed.

Theorem sim_delete_column_keys : forall s a, delete_column_keys_sim_hyp s a = true -> action_sim s a.
Proof.
  intros s a H s' Ha P. unfold delete_column_keys_sim_hyp in H.
  destruct a as [tb cols0 ks0|tb|tb cl fw|tb f2 t2|t c|tb cn ty fw|tb cn nl fw|tb cn nd|tb cn nc|tb k|tb k|f2 t2|sql]; try discriminate.
  destruct (find_table t s) as [td|] eqn:Ft; [|discriminate].
  apply Bool.andb_true_iff in H; destruct H as [H Hle].
  apply Bool.andb_true_iff in H; destruct H as [H Hlen].
  apply Bool.andb_true_iff in H; destruct H as [H Hnref].
  apply Bool.andb_true_iff in H; destruct H as [H Hne].
  apply Bool.andb_true_iff in H; destruct H as [H Hnm].
  apply Bool.andb_true_iff in H; destruct H as [H Hhas].
  apply Bool.andb_true_iff in H; destruct H as [Hwf Hwfa].
  unfold wf_names in Hwf. apply Bool.andb_true_iff in Hwf. destruct Hwf as [Hndt Hndc].
  apply Bool.negb_true_iff in Hnref.
  destruct (find_table_in t s td Ft) as [Hin Htn].
  pose proof (keys_hyp_all c _ Hnm Hne) as Hk.
  pose proof (pk_hyp_first c _ Hk) as Hpk.
  set (ks' := filter (keeps c) (t_constraints td)).
  set (td' := mkTable (t_name td) (t_description td) (filter (fun x => negb (String.eqb (c_name x) c)) (t_columns td)) ks').
  destruct (frame s t (fun t0 => if has_column c t0
                                 then Ok (mkTable (t_name t0) (t_description t0)
                                            (filter (fun x => negb (String.eqb (c_name x) c)) (t_columns t0))
                                            (drop_column_from_constraints c (t_constraints t0)))
                                 else Err (ColumnNotFound t c)) td td' Hndt Ft) as [s2 [Us Cs]].
  { rewrite Hhas. rewrite (drop_constraints_keys c _ Hk). reflexivity. }
  { reflexivity. }
  cbn [apply_action] in Ha. rewrite Us in Ha. inversion Ha; subst s2. clear Ha.
  exists [SDropColumn t c]. split; [reflexivity|].
  assert (Ftb : find_tb t (catalog_of s) = Some (catalog_of_table td)) by (rewrite find_tb_catalog_of, Ft; reflexivity).
  assert (Hao : auto_ok (catalog_of_table td) = true).
  { unfold wf_auto in Hwfa. rewrite forallb_forall in Hwfa. apply Hwfa. exact Hin. }
  (* foreign keys never mention the column *)
  assert (Hfk : forall f, In f (create_fks (t_name td) (t_constraints td)) ->
                          mem_str c (fk_cols f) = false /\ nonempty (fk_cols f) = true).
  { intros f If. destruct (in_create_fks _ _ _ If) as [n [cols [rt [rcols [od [ou [Ik Hfe]]]]]]]. subst f.
    cbn [fk_of_constraint fk_cols].
    destruct (Hk _ Ik) as [[S _]|[_ [M [N _]]]]; [discriminate|].
    cbn [constraint_mentions constraint_nonempty] in M, N.
    apply Bool.orb_false_iff in M. apply Bool.andb_true_iff in N. split; [apply M|apply N]. }
  pose proof (explicit_ix_hyp (t_name td) c _ Hk) as Hex.
  assert (Hgen : forall K i, In i (generated_indexes K (create_fks (t_name td) (t_constraints td))) ->
                             mem_str c (ix_cols i) = false /\ nonempty (ix_cols i) = true).
  { intros K i Ii. destruct (generated_from_fk _ _ _ Ii) as [f [If Hc]]. rewrite Hc. apply Hfk. exact If. }
  (* the table MySQL is left with is the believed table of the shrunk definition *)
  assert (Ht : mkMTable (t_name td)
                 (filter (fun x => negb (String.eqb (mc_name x) c)) (tb_cols (catalog_of_table td)))
                 (pk_shrink c (tb_pk (catalog_of_table td)))
                 (shrink c (tb_indexes (catalog_of_table td)))
                 (tb_fks (catalog_of_table td)) (tb_checks (catalog_of_table td))
               = catalog_of_table td').
  { unfold td'. unfold catalog_of_table at 6. cbn [t_name t_columns t_constraints]. fold ks'.
    unfold ks'.
    rewrite catalog_of_table_cols, filter_mcols.
    change (tb_pk (catalog_of_table td)) with (first_pk (t_constraints td)).
    change (tb_fks (catalog_of_table td)) with (create_fks (t_name td) (t_constraints td)).
    change (tb_checks (catalog_of_table td)) with (checks_of (t_constraints td)).
    change (flat_map (fun k => match k with CCheck n e => [(n, e)] | _ => [] end) (filter (keeps c) (t_constraints td)))
      with (checks_of (filter (keeps c) (t_constraints td))).
    rewrite (first_pk_keeps c _ Hk Hle), create_fks_keeps, checks_keeps.
    f_equal.
    - (* columns: the remaining columns do not see the removed keys *)
      apply map_ext_in. intros x Ix. apply filter_In in Ix. destruct Ix as [_ Nx]. apply Bool.negb_true_iff in Nx.
      unfold mk_mcol. rewrite (mem_pk_shrink c (c_name x) _ Nx Hpk), (auto_mem_keeps c (c_name x) _ Nx). reflexivity.
    - cbn [catalog_of_table tb_indexes]. rewrite shrink_app, (explicit_keeps _ c _ Hk). f_equal.
      (* the generated indexes: untouched by the shrink, and blind to the removed one-column keys *)
      rewrite (shrink_id c _ (Hgen _)).
      apply generated_cov_ext. intros f If. destruct (Hfk f If) as [M N].
      rewrite !existsb_app. f_equal.
      + symmetry. apply existsb_pk_shrink; [|exact Hpk]. intros x X. apply (is_prefix_single_other c x _ X M N).
      + symmetry. apply existsb_shrink; [|exact Hex]. intros x X. apply (is_prefix_single_other c x _ X M N). }
  assert (E : exec (catalog_of s) (SDropColumn t c) = Ok (catalog_of s')).
  { cbn [exec]. unfold with_tb. rewrite Ftb. rewrite has_mcol_catalog, Hhas. cbn [negb].
    rewrite catalog_of_table_cols at 1. rewrite map_length.
    assert (L1 : Nat.leb (List.length (t_columns td)) 1 = false).
    { apply Nat.leb_le in Hlen. apply Nat.leb_gt. lia. }
    rewrite L1.
    assert (F1 : existsb (fun f => mem_str c (fk_cols f)) (tb_fks (catalog_of_table td)) = false).
    { destruct (existsb _ (tb_fks (catalog_of_table td))) eqn:E1; [|reflexivity]. exfalso.
      apply existsb_exists in E1. destruct E1 as [f [If Hm]]. cbn [catalog_of_table tb_fks] in If.
      destruct (Hfk f If) as [M _]. rewrite M in Hm. discriminate. }
    rewrite F1. rewrite (no_inbound_column s t c Hnref).
    cbn zeta. fold (shrink c (tb_indexes (catalog_of_table td))). fold (pk_shrink c (tb_pk (catalog_of_table td))).
    change (tb_name (catalog_of_table td)) with (t_name td).
    rewrite !Ht.
    assert (Hao' : auto_ok (catalog_of_table td') = true).
    { rewrite <- Ht. unfold auto_ok in *. cbn [tb_cols tb_pk tb_indexes].
      rewrite filter_comm.
      destruct (filter mc_auto (tb_cols (catalog_of_table td))) as [|au [|au2 r2]]; try reflexivity; [|discriminate].
      cbn [filter]. destruct (String.eqb (mc_name au) c) eqn:Hau; cbn [negb]; [reflexivity|].
      (* the auto column stays and is not c: its key is not one of the removed one-column keys *)
      assert (Hq : forall x, String.eqb x c = true ->
                             (fun k : list string => match k with x0 :: _ => String.eqb x0 (mc_name au) | [] => false end) [x] = false).
      { intros x X. apply String.eqb_eq in X. subst x. rewrite String.eqb_sym. exact Hau. }
      unfold key_col_lists in *. cbn [tb_pk tb_indexes] in *.
      change (tb_pk (catalog_of_table td)) with (first_pk (t_constraints td)) in *.
      rewrite existsb_app in Hao |- *.
      rewrite (existsb_pk_shrink c _ _ Hq Hpk).
      cbn [catalog_of_table tb_indexes] in Hao |- *.
      rewrite map_app, existsb_app in Hao. rewrite shrink_app, map_app, existsb_app.
      rewrite (existsb_shrink c _ _ Hq Hex), (shrink_id c _ (Hgen _)). exact Hao. }
    rewrite Hao'. cbn [negb]. rewrite Cs. reflexivity. }
  unfold run. cbn [run_from]. rewrite E. reflexivity.
Qed.

(* non-vacuity: a table whose column "name" is the one column of a unique key and of a named index *)
Definition w_keys_schema : schema :=
  [mkTable "t" None
     [mkCol "id" (TSimple Integer) false None None None None None None;
      mkCol "name" (TVarchar 32) false None None None None None None;
      mkCol "n" (TSimple Integer) true None None None None None None]
     [CPrimaryKey true ["id"]; CUnique None ["name"]; CIndex (Some "by_name") ["name"]; CIndex None ["n"]]].
(* thorough seed 1, case 421: the single primary-key column is dropped (a new primary key follows in the same plan) *)
Definition w_pk_drop_plan : list action :=
  [DeleteColumn "t" "id"; AddConstraint "t" (CPrimaryKey false ["name"])].
