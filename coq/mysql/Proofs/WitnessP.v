(* Concrete witnesses (closed by vm_compute): the refutations of the full C04 statement, one per known class,
   and non-vacuity examples.  Each witness is also a corpus file under corpus/mysql/ that is replayed on the
   implementation by every check run. *)
From VV.MYSQL Require Import Spec.

Definition T_user : table_def := mkTable "user" None [pcol "id" (TSimple Integer) false] [CPrimaryKey false ["id"]].
Definition FK_post_user := CForeignKey None ["user_id"] "user" ["id"] None None.
Definition T_post (extra : list table_constraint) : table_def :=
  mkTable "post" None [pcol "id" (TSimple Integer) false; pcol "user_id" (TSimple Integer) true]
          ([CPrimaryKey false ["id"]; FK_post_user] ++ extra).

(* D19 *)
Definition w_d19_schema : schema :=
  [mkTable "t" None [pcol "id" (TSimple Integer) false; pcol "name" (TSimple Text) true] [CPrimaryKey true ["id"]]].
Definition w_d19_action : action := ModifyColumnComment "t" "id" (Some "x").

(* History: before fix N1 this witness lost AUTO_INCREMENT (the MODIFY was `id` int NOT NULL COMMENT 'x'; the engine
   ended with col_auto = Some false against Some true in the baseline; lemma autoincrement_lost, finding
   C04-autoinc-lost-on-modify).  Now the MODIFY restates it and the migration holds. *)
Lemma autoincrement_kept :
  judged w_d19_schema [w_d19_action] = true /\
  modify_target w_d19_action = Some ("t", "id") /\ is_auto_col w_d19_schema "t" "id" = true /\
  gen w_d19_schema [] w_d19_action
    = Ok [SModifyColumn "t" (mkColDef "id" "int" true None false true (Some "x"))] /\
  match gen_plan w_d19_schema [w_d19_action], apply_all w_d19_schema [w_d19_action] with
  | Ok L, Ok s' =>
      match run (catalog_of w_d19_schema) (List.concat L) with
      | RunOk c => col_auto (catalog_of w_d19_schema) "t" "id" = Some true /\ col_auto c "t" "id" = Some true /\
                   col_auto (catalog_of s') "t" "id" = Some true
      | RunErr _ _ => False
      end
  | _, _ => False
  end /\
  migration_ok w_d19_schema [w_d19_action] = true /\ in_known_class w_d19_schema [w_d19_action] = false.
Proof. vm_compute. repeat split; reflexivity. Qed.

(* ModifyColumnType to an enum re-quotes a kept non-string default *)
Definition w_requote_schema : schema :=
  [mkTable "t" None [pcol "id" (TSimple Integer) false;
                     mkCol "n" (TSimple Integer) true (Some (DInt 1)) None None None None None]
           [CPrimaryKey false ["id"]]].
Definition w_requote_type : column_type := TEnum "level" (EVInteger [mkNum "low" 0; mkNum "high" 1]).
Definition w_requote_action : action := ModifyColumnType "t" "n" w_requote_type None.

Lemma modify_type_requotes :
  match lookup_column w_requote_schema "t" "n", apply_action w_requote_schema w_requote_action with
  | Some col, Ok s' =>
      modify_default_ok w_requote_action col = false /\
      match gen w_requote_schema [] w_requote_action, lookup_column s' "t" "n" with
      | Ok [SModifyColumn _ d], Some col' => restated d = ("int", false, Some "'1'") /\ declared col' = ("int", false, Some "1")
      | _, _ => False
      end
  | _, _ => False
  end.
Proof. vm_compute. repeat split; reflexivity. Qed.

(* comments: the next MODIFY of any other kind restates the comment (escaped by sea-query: the quote of "it's" becomes
   backslash-quote, where modify_column_comment.rs doubles it).  History: before fix N1 the second MODIFY carried no
   COMMENT and erased it (lemma comment_lost, finding C04-comment-lost-on-modify). *)
Definition w_comment_schema : schema :=
  [mkTable "t" None [pcol "id" (TSimple Integer) false; pcol "name" (TSimple Text) true] [CPrimaryKey false ["id"]]].
Lemma comment_kept :
  match gen_plan w_comment_schema [ModifyColumnComment "t" "name" (Some "it's"); ModifyColumnDefault "t" "name" (Some "'x'")],
        apply_all w_comment_schema [ModifyColumnComment "t" "name" (Some "it's"); ModifyColumnDefault "t" "name" (Some "'x'")] with
  | Ok [[SModifyColumn _ d1]; [SModifyColumn _ d2]], Ok s' =>
      cd_comment d1 = Some "it''s" /\ cd_comment d2 = Some "it\'s" /\
      option_map mysql_unescape (cd_comment d1) = Some "it's" /\ option_map mysql_unescape (cd_comment d2) = Some "it's" /\
      option_map c_comment (lookup_column s' "t" "name") = Some (Some "it's")
  | _, _ => False
  end.
Proof. vm_compute. repeat split; reflexivity. Qed.

(* one refutation of the full statement per known class *)
Definition refutes (s : schema) (acts : list action) (k : schema -> list action -> bool) : Prop :=
  judged s acts = true /\ migration_ok s acts = false /\ k s acts = true.

Definition w_d11 := ([] : schema, [CreateTable "t" [pcol "id" (TSimple Integer) false] [CPrimaryKey false ["id"]; CCheck "chk_pos" "id > 0"]]).
Lemma w_d11_refutes : refutes (fst w_d11) (snd w_d11) known_C04_check_missing.
Proof. vm_compute. repeat split; reflexivity. Qed.

Definition w_d2 := ([T_user; T_post []], [DeleteTable "user"; RemoveConstraint "post" FK_post_user]).
Lemma w_d2_refutes : refutes (fst w_d2) (snd w_d2) known_C04_drop_before_unreference
  /\ migration_error (fst w_d2) (snd w_d2) = Some "M2b cannot drop table referenced by a foreign key constraint (3730)".
Proof. vm_compute. repeat split; reflexivity. Qed.

Definition w_fkcol := ([T_user; T_post []], [DeleteColumn "post" "user_id"]).
Lemma w_fkcol_refutes : refutes (fst w_fkcol) (snd w_fkcol) known_C04_drop_fk_column
  /\ migration_error (fst w_fkcol) (snd w_fkcol) = Some "M7c cannot drop column needed in a foreign key constraint (1828)".
Proof. vm_compute. repeat split; reflexivity. Qed.

Definition w_d18 :=
  ([mkTable "t" None [pcol "id" (TSimple Integer) false; pcol "a" (TSimple Integer) true; pcol "b" (TSimple Integer) true]
            [CPrimaryKey false ["id"]; CIndex None ["a"; "b"]]],
   [DeleteColumn "t" "b"; RemoveConstraint "t" (CIndex None ["a"; "b"])]).
Lemma w_d18_refutes : refutes (fst w_d18) (snd w_d18) known_C04_composite_member_drop.
Proof. vm_compute. repeat split; reflexivity. Qed.
(* MySQL keeps the name of the shrunk key, the baseline derives another one *)
Lemma w_d18_name_drift :
  match run (catalog_of (fst w_d18)) [SDropColumn "t" "b"], apply_action (fst w_d18) (DeleteColumn "t" "b") with
  | RunOk c, Ok s' =>
      option_map tb_indexes (find_tb "t" c) = Some [mkMIndex "ix_t__a_b" ["a"] false false] /\
      option_map tb_indexes (find_tb "t" (catalog_of s')) = Some [mkMIndex "ix_t__a" ["a"] false false]
  | _, _ => False
  end.
Proof. vm_compute. repeat split; reflexivity. Qed.

Definition w_autokey := (w_d19_schema, [RemoveConstraint "t" (CPrimaryKey true ["id"]); AddConstraint "t" (CPrimaryKey false ["id"])]).
Lemma w_autokey_refutes : refutes (fst w_autokey) (snd w_autokey) known_C04_autoinc_key_removed.
Proof. vm_compute. repeat split; reflexivity. Qed.

Definition w_rename :=
  ([mkTable "t" None [pcol "id" (TSimple Integer) false; pcol "a" (TSimple Integer) true] [CPrimaryKey false ["id"]; CUnique None ["a"]]],
   [RenameTable "t" "t2"]).
Lemma w_rename_refutes : refutes (fst w_rename) (snd w_rename) known_C04_rename_drift.
Proof. vm_compute. repeat split; reflexivity. Qed.

Definition w_fkdrop := ([T_user; T_post []], [RemoveConstraint "post" FK_post_user]).
Lemma w_fkdrop_refutes : refutes (fst w_fkdrop) (snd w_fkdrop) known_C04_fk_drop_leaves_index.
Proof. vm_compute. repeat split; reflexivity. Qed.

Definition w_d16 :=
  ([mkTable "t" None [pcol "id" (TSimple Integer) false; pcol "a" (TSimple Integer) true; pcol "b" (TSimple Integer) true]
            [CPrimaryKey false ["id"]; CUnique (Some "a") ["b"]]],
   [AddConstraint "t" (CUnique None ["a"])]).
Lemma w_d16_refutes : refutes (fst w_d16) (snd w_d16) known_C04_derived_name_collision.
Proof. vm_compute. repeat split; reflexivity. Qed.

Definition T_plain (n : string) : table_def := mkTable n None [pcol "id" (TSimple Integer) false] [CPrimaryKey false ["id"]].
Definition w_chkscope := ([T_plain "t"; T_plain "u"], [AddConstraint "t" (CCheck "ck1" "id > 0"); AddConstraint "u" (CCheck "ck1" "id > 0")]).
Lemma w_chkscope_refutes : refutes (fst w_chkscope) (snd w_chkscope) known_C04_check_name_scope.
Proof. vm_compute. repeat split; reflexivity. Qed.

Definition w_keyfk := ([T_user; T_post [CIndex None ["user_id"]]], [RemoveConstraint "post" (CIndex None ["user_id"])]).
Lemma w_keyfk_refutes : refutes (fst w_keyfk) (snd w_keyfk) known_C04_key_needed_by_fk.
Proof. vm_compute. repeat split; reflexivity. Qed.

Definition w_allcols :=
  ([T_plain "t"], [DeleteColumn "t" "id"; AddColumn "t" (pcol "pk" (TSimple Integer) false) (Some "0"); AddConstraint "t" (CPrimaryKey false ["pk"])]).
Lemma w_allcols_refutes : refutes (fst w_allcols) (snd w_allcols) known_C04_last_column_drop.
Proof. vm_compute. repeat split; reflexivity. Qed.

Definition w_autoadd :=
  ([mkTable "t" None [pcol "id" (TSimple Integer) false; pcol "n" (TSimple Integer) false] [CPrimaryKey false ["n"]]],
   [RemoveConstraint "t" (CPrimaryKey false ["n"]); AddConstraint "t" (CPrimaryKey true ["id"])]).
Lemma w_autoadd_refutes : refutes (fst w_autoadd) (snd w_autoadd) known_C04_autoinc_not_added.
Proof. vm_compute. repeat split; reflexivity. Qed.

(* non-vacuity: migrations on which the full statement holds and that are outside every class *)
Definition ok_modify_seq : list action :=
  [ModifyColumnComment "t" "name" (Some "first"); ModifyColumnType "t" "name" (TSimple Text) None;
   ModifyColumnNullable "t" "name" true None; ModifyColumnDefault "t" "name" (Some "'y'")].
Definition ok_modify_schema : schema :=
  [mkTable "t" None [pcol "id" (TSimple Integer) false;
                     mkCol "name" (TVarchar 32) false (Some (DStr "'x'")) None None None None None]
           [CPrimaryKey false ["id"]]].
Lemma ok_modify_holds :
  judged ok_modify_schema ok_modify_seq = true /\ migration_ok ok_modify_schema ok_modify_seq = true /\
  in_known_class ok_modify_schema ok_modify_seq = false.
Proof. vm_compute. repeat split; reflexivity. Qed.

Definition ok_fk_plan : list action :=
  [CreateTable "user" [pcol "id" (TSimple Integer) false] [CPrimaryKey true ["id"]];
   CreateTable "post" [pcol "id" (TSimple Integer) false; pcol "user_id" (TSimple Integer) true; pcol "title" (TVarchar 255) false]
               [CPrimaryKey false ["id"]; CUnique None ["title"]; CIndex None ["user_id"];
                CForeignKey None ["user_id"] "user" ["id"] (Some Cascade) None];
   AddColumn "post" (pcol "body" (TSimple Text) false) (Some "''");
   AddConstraint "post" (CCheck "chk_len" "title <> ''")].
Lemma ok_fk_holds :
  judged [] ok_fk_plan = true /\ migration_ok [] ok_fk_plan = true /\ in_known_class [] ok_fk_plan = false.
Proof. vm_compute. repeat split; reflexivity. Qed.

Definition w_refname :=
  ([T_user; mkTable "post" None [pcol "pk" (TSimple Integer) false; pcol "id" (TSimple Integer) true; pcol "user_id" (TSimple Integer) true]
                    [CPrimaryKey false ["pk"]; FK_post_user]],
   [DeleteColumn "post" "id"]).
Lemma w_refname_refutes : refutes (fst w_refname) (snd w_refname) known_C04_fk_lost_by_ref_name.
Proof. vm_compute. repeat split; reflexivity. Qed.

Definition w_reflater :=
  ([T_user],
   [CreateTable "post" [pcol "id" (TSimple Integer) false; pcol "user_pk" (TSimple Integer) true]
                [CPrimaryKey false ["id"]; CForeignKey None ["user_pk"] "user" ["pk"] None None];
    AddColumn "user" (pcol "pk" (TSimple Integer) false) (Some "0");
    AddConstraint "user" (CUnique None ["pk"])]).
Lemma w_reflater_refutes : refutes (fst w_reflater) (snd w_reflater) known_C04_reference_added_later
  /\ migration_error (fst w_reflater) (snd w_reflater) = Some "M10e referenced column does not exist (3734)".
Proof. vm_compute. repeat split; reflexivity. Qed.

(* C19 across RenameTable: the drop path derives the name from the new table name, MySQL kept the old one *)
Definition w_rename_drop :=
  (fst w_rename, [RenameTable "t" "t2"; RemoveConstraint "t2" (CUnique None ["a"])]).
Lemma w_rename_drop_fails :
  judged (fst w_rename_drop) (snd w_rename_drop) = true /\
  gen_plan (fst w_rename_drop) (snd w_rename_drop) = Ok [[SRenameTable "t" "t2"]; [SAlterDropIndex "t2" "uq_t2__a"]] /\
  migration_error (fst w_rename_drop) (snd w_rename_drop) = Some "M5a cannot drop index: it does not exist (1091)".
Proof. vm_compute. repeat split; reflexivity. Qed.

(* C01-shadowed-inline-declaration seen from MySQL: the promoted inline foreign key is never created *)
Definition w_orphan :=
  ([T_user; T_plain "post"],
   [AddColumn "post" (mkCol "user_id" (TSimple Integer) true None None None None None (Some (FKStr "user.id"))) None;
    AddConstraint "post" (CForeignKey (Some "main") ["user_id"] "user" ["id"] None None)]).
Lemma w_orphan_refutes : refutes (fst w_orphan) (snd w_orphan) known_C04_inline_orphan.
Proof. vm_compute. repeat split; reflexivity. Qed.

(* D16, further shape: one constraint added twice by a plan *)
Definition w_twice :=
  ([mkTable "t" None [pcol "id" (TSimple Integer) false; pcol "a" (TSimple Integer) true] [CPrimaryKey false ["id"]]],
   [AddConstraint "t" (CIndex None ["a"]); AddConstraint "t" (CIndex None ["a"])]).
Lemma w_twice_refutes : refutes (fst w_twice) (snd w_twice) known_C04_derived_name_collision
  /\ migration_error (fst w_twice) (snd w_twice) = Some "M4a duplicate key name (1061)".
Proof. vm_compute. repeat split; reflexivity. Qed.
