(* C19 (MySQL part) — names symmetric between the create and the drop paths of the MySQL generator.
   Pinned statements only.  The "never colliding" half is false (D16): see C04_known_classes_refute,
   known_C04_derived_name_collision, witness corpus/mysql/d16_derived_name_collision.json. *)
From VV.MYSQL Require Import Names NamesP WitnessP.

(* AddConstraint path = RemoveConstraint path: same table, same name, for every constraint and every table *)
Theorem C19_mysql_add_remove_symmetric : forall t k, add_path_names t k = remove_path_names t k.
Proof. exact add_remove_symmetric. Qed.
Print Assumptions C19_mysql_add_remove_symmetric.
Check C19_mysql_add_remove_symmetric : forall t k, add_path_names t k = remove_path_names t k.

(* CreateTable path (PRIMARY KEY clause, inline UNIQUE KEY `uq_..`, CONSTRAINT `fk_..`, CREATE INDEX `ix_..`)
   = RemoveConstraint path (DROP PRIMARY KEY, ALTER TABLE DROP INDEX `uq_..`, DROP FOREIGN KEY `fk_..`,
   DROP INDEX `ix_..` ON) for every constraint except explicit CHECKs *)
Theorem C19_mysql_create_remove_symmetric : forall t k,
  is_check k = false -> create_path_names t k = remove_path_names t k.
Proof. exact create_remove_symmetric. Qed.
Print Assumptions C19_mysql_create_remove_symmetric.
Check C19_mysql_create_remove_symmetric : forall t k,
  is_check k = false -> create_path_names t k = remove_path_names t k.

(* the per-constraint clauses are exactly what gen emits for a CreateTable action *)
Theorem C19_mysql_create_table_clauses : forall s P t cols ks n,
  normalize (mkTable t None cols ks) = Ok n ->
  exists coldefs,
    gen s P (CreateTable t cols ks)
    = Ok (SCreateTable t coldefs (flat_map (fun k => create_keys t [k]) (t_constraints n))
                       (flat_map (fun k => create_fks t [k]) (t_constraints n)) []
          :: flat_map (fun k => create_indexes t [k]) (t_constraints n)).
Proof. exact create_table_clauses. Qed.
Print Assumptions C19_mysql_create_table_clauses.
Check C19_mysql_create_table_clauses : forall s P t cols ks n,
  normalize (mkTable t None cols ks) = Ok n ->
  exists coldefs,
    gen s P (CreateTable t cols ks)
    = Ok (SCreateTable t coldefs (flat_map (fun k => create_keys t [k]) (t_constraints n))
                       (flat_map (fun k => create_fks t [k]) (t_constraints n)) []
          :: flat_map (fun k => create_indexes t [k]) (t_constraints n)).

(* D11 seen from C19: an explicit CHECK is dropped by name but never created by CREATE TABLE *)
Theorem C19_mysql_check_asymmetric_refuted : forall t n e,
  create_path_names t (CCheck n e) = [] /\ remove_path_names t (CCheck n e) = [Some (t, n)].
Proof. exact create_check_asymmetric. Qed.
Print Assumptions C19_mysql_check_asymmetric_refuted.
Check C19_mysql_check_asymmetric_refuted : forall t n e,
  create_path_names t (CCheck n e) = [] /\ remove_path_names t (CCheck n e) = [Some (t, n)].

(* across RenameTable the symmetry is false: the drop path uses the new table name inside the derived name,
   MySQL keeps the old name (engine refusal M5a on the witness) *)
Theorem C19_mysql_rename_table_refuted : exists t t' k n n',
  t <> t' /\ add_path_names t k = [Some (t, n)] /\ remove_path_names t' k = [Some (t', n')] /\ n <> n'.
Proof. exact rename_table_breaks_symmetry. Qed.
Print Assumptions C19_mysql_rename_table_refuted.
Check C19_mysql_rename_table_refuted : exists t t' k n n',
  t <> t' /\ add_path_names t k = [Some (t, n)] /\ remove_path_names t' k = [Some (t', n')] /\ n <> n'.

Theorem C19_mysql_rename_then_drop_refused :
  judged (fst w_rename_drop) (snd w_rename_drop) = true /\
  gen_plan (fst w_rename_drop) (snd w_rename_drop) = Ok [[SRenameTable "t" "t2"]; [SAlterDropIndex "t2" "uq_t2__a"]] /\
  migration_error (fst w_rename_drop) (snd w_rename_drop) = Some "M5a cannot drop index: it does not exist (1091)".
Proof. exact w_rename_drop_fails. Qed.
Print Assumptions C19_mysql_rename_then_drop_refused.
Check C19_mysql_rename_then_drop_refused :
  judged (fst w_rename_drop) (snd w_rename_drop) = true /\
  gen_plan (fst w_rename_drop) (snd w_rename_drop) = Ok [[SRenameTable "t" "t2"]; [SAlterDropIndex "t2" "uq_t2__a"]] /\
  migration_error (fst w_rename_drop) (snd w_rename_drop) = Some "M5a cannot drop index: it does not exist (1091)".

Example C19_mysql_inline_unique_key_example :
  create_path_names "t" (CUnique (Some "k") ["a"; "b"]) = [Some ("t", "uq_t__k")] /\
  remove_path_names "t" (CUnique (Some "k") ["a"; "b"]) = [Some ("t", "uq_t__k")] /\
  gen_remove_constraint "t" (CUnique (Some "k") ["a"; "b"]) = [SAlterDropIndex "t" "uq_t__k"].
Proof. repeat split; reflexivity. Qed.
