(* C14 (MySQL part) — a table prefix renames tables and nothing else: the MySQL generator is equivariant under
   literal table renaming.  rename_stmt (Model/Names.v) prefixes table names and the table part of the derived
   uq_/ix_/fk_ names; column definitions, column lists, CHECK names and expressions, fill values, raw SQL are
   untouched.  Pinned statements only. *)
From VV.M1 Require Import PrefixHyp PrefixP PrefixApplyP.
From VV.MYSQL Require Import Names PrefixGenP.

Theorem C14_mysql_gen_equivariant : forall p s P P' a, no_dot p ->
  gen (literal_schema p s) P' (literal_action p a) = rename_result p (gen s P a).
Proof. exact gen_equivariant. Qed.
Print Assumptions C14_mysql_gen_equivariant.
Check C14_mysql_gen_equivariant : forall p s P P' a, no_dot p ->
  gen (literal_schema p s) P' (literal_action p a) = rename_result p (gen s P a).

(* whole plans, through the evolving schema (side condition of VV.M1 apply_equivariant at every step) *)
Theorem C14_mysql_gen_plan_equivariant : forall p acts s, no_dot p -> side_all_step p s acts = true ->
  gen_plan (literal_schema p s) (map (literal_action p) acts) = rename_plan_result p (gen_plan s acts).
Proof. exact gen_plan_equivariant. Qed.
Print Assumptions C14_mysql_gen_plan_equivariant.
Check C14_mysql_gen_plan_equivariant : forall p acts s, no_dot p -> side_all_step p s acts = true ->
  gen_plan (literal_schema p s) (map (literal_action p) acts) = rename_plan_result p (gen_plan s acts).

(* the derived names follow the table *)
Theorem C14_mysql_names : forall p t cols key,
  rename_name p (build_unique_constraint_name t cols key) = build_unique_constraint_name (p +++ t) cols key /\
  rename_name p (build_index_name t cols key) = build_index_name (p +++ t) cols key /\
  rename_name p (build_foreign_key_name t cols key) = build_foreign_key_name (p +++ t) cols key.
Proof. intros. split; [apply rename_name_uq|split; [apply rename_name_ix|apply rename_name_fk]]. Qed.
Print Assumptions C14_mysql_names.
Check C14_mysql_names : forall p t cols key,
  rename_name p (build_unique_constraint_name t cols key) = build_unique_constraint_name (p +++ t) cols key /\
  rename_name p (build_index_name t cols key) = build_index_name (p +++ t) cols key /\
  rename_name p (build_foreign_key_name t cols key) = build_foreign_key_name (p +++ t) cols key.

(* D10 repaired (/repo 6c63462: with_prefix now prefixes inline foreign_key targets): MigrationAction::with_prefix
   is the literal renaming whenever every inline foreign key parses (VV.M1 with_prefix_is_literal), hence the
   MySQL statements generated from a prefixed action are the renamed statements of the original one *)
Theorem C14_mysql_with_prefix_equivariant : forall p s P P' a, no_dot p -> p <> "" -> inline_fks_parse a = true ->
  gen (literal_schema p s) P' (action_with_prefix p a) = rename_result p (gen s P a).
Proof.
  intros p s P P' a Hd Hp Hf. rewrite (with_prefix_is_literal p a Hp Hf). apply gen_equivariant. exact Hd.
Qed.
Print Assumptions C14_mysql_with_prefix_equivariant.
Check C14_mysql_with_prefix_equivariant : forall p s P P' a, no_dot p -> p <> "" -> inline_fks_parse a = true ->
  gen (literal_schema p s) P' (action_with_prefix p a) = rename_result p (gen s P a).

(* the former D10 witness: the emitted CREATE TABLE now references `app_user` *)
Theorem C14_mysql_with_prefix_inline_fk :
  let a := CreateTable "post"
             [mkCol "id" (TSimple Integer) false None None (Some (PKBool true)) None None None;
              mkCol "user_id" (TSimple Integer) true None None None None None (Some (FKStr "user.id"))] [] in
  inline_fks_parse a = true /\
  match gen [] [] (action_with_prefix "app_" a), gen [] [] (literal_action "app_" a) with
  | Ok (SCreateTable t1 _ _ [f1] _ :: _), Ok (SCreateTable t2 _ _ [f2] _ :: _) =>
      t1 = "app_post" /\ t2 = "app_post" /\ fk_rtable f1 = "app_user" /\ fk_rtable f2 = "app_user" /\ fk_name f1 = "fk_app_post__user_id"
  | _, _ => False
  end.
Proof. vm_compute. repeat split; reflexivity. Qed.
Print Assumptions C14_mysql_with_prefix_inline_fk.
Check C14_mysql_with_prefix_inline_fk :
  let a := CreateTable "post"
             [mkCol "id" (TSimple Integer) false None None (Some (PKBool true)) None None None;
              mkCol "user_id" (TSimple Integer) true None None None None None (Some (FKStr "user.id"))] [] in
  inline_fks_parse a = true /\
  match gen [] [] (action_with_prefix "app_" a), gen [] [] (literal_action "app_" a) with
  | Ok (SCreateTable t1 _ _ [f1] _ :: _), Ok (SCreateTable t2 _ _ [f2] _ :: _) =>
      t1 = "app_post" /\ t2 = "app_post" /\ fk_rtable f1 = "app_user" /\ fk_rtable f2 = "app_user" /\ fk_name f1 = "fk_app_post__user_id"
  | _, _ => False
  end.

Example C14_mysql_example :
  gen (literal_schema "app_" []) [] (literal_action "app_" (AddConstraint "t" (CUnique None ["a"])))
  = Ok [SCreateIndex true "uq_app_t__a" "app_t" ["a"]].
Proof. reflexivity. Qed.
