(* C04 — MySQL: emitted DDL is executable in order and leaves the declared schema; every MODIFY keeps the
   column's current type, nullability and default (section 6: all attributes at once, AUTO_INCREMENT and COMMENT
   included since fix N1).  Pinned statements only.
   Engine = the MySQL catalog MODEL of Model/Engine.v (modelled, not verified: no server in the sandbox). *)
From VV.MYSQL Require Import Spec SpecKeys SpecCreate SpecFk ModifyP WitnessP SimP SimKeysP SimCreateP SimFkP SimRemoveP SimRenameP SimAllP SpecPending SimPendP SimPend2P ModifyAllP SimDeleteKeysP SimRenameNamedP.

(* ------------------------------------------------------------------------------------------------------
   1. The history-dependent part, for ALL inputs: the MODIFY COLUMN emitted for a ModifyColumn{Type,
      Nullable,Default,Comment} action on an existing column re-declares exactly the (type text, nullability,
      default text) the column has in the schema after the action; it carries AUTO_INCREMENT exactly when the column
      is in an auto-increment primary key of its table and the (new) type supports it, never an inline PRIMARY KEY,
      and the COMMENT literal of the column's comment (comment_body).
      History: until fix N1 (restate_mysql_column_attributes) the conclusion was "cd_auto d = false /\ cd_comment d =
      the new comment for ModifyColumnComment, None otherwise" — findings C04-autoinc-lost-on-modify and
      C04-comment-lost-on-modify, both fixed. *)
Theorem C04_modify_preserves : forall s P a t c col s',
  modify_target a = Some (t, c) ->
  lookup_column s t c = Some col ->
  apply_action s a = Ok s' ->
  modify_default_ok a col = true ->
  exists pre d col',
    gen s P a = Ok (pre ++ [SModifyColumn t d]) /\
    forallb is_update pre = true /\
    lookup_column s' t c = Some col' /\
    cd_name d = c /\
    restated d = declared col' /\
    cd_auto d = (is_auto_col s t c && supports_auto_increment (c_type col'))%bool /\ cd_pk d = false /\
    cd_comment d = comment_body a col'.
Proof. exact modify_preserves. Qed.
Print Assumptions C04_modify_preserves.
Check C04_modify_preserves : forall s P a t c col s',
  modify_target a = Some (t, c) ->
  lookup_column s t c = Some col ->
  apply_action s a = Ok s' ->
  modify_default_ok a col = true ->
  exists pre d col',
    gen s P a = Ok (pre ++ [SModifyColumn t d]) /\
    forallb is_update pre = true /\
    lookup_column s' t c = Some col' /\
    cd_name d = c /\
    restated d = declared col' /\
    cd_auto d = (is_auto_col s t c && supports_auto_increment (c_type col'))%bool /\ cd_pk d = false /\
    cd_comment d = comment_body a col'.

(* lifted through the evolving schema of build_plan_queries: action i of any plan *)
Theorem C04_modify_preserves_plan : forall s acts L i a t c col s',
  gen_plan s acts = Ok L ->
  nth_error acts i = Some a ->
  modify_target a = Some (t, c) ->
  lookup_column (schema_at s acts i) t c = Some col ->
  apply_action (schema_at s acts i) a = Ok s' ->
  modify_default_ok a col = true ->
  exists pre d col',
    nth_error L i = Some (pre ++ [SModifyColumn t d]) /\
    forallb is_update pre = true /\
    lookup_column (schema_at s acts (S i)) t c = Some col' /\
    cd_name d = c /\ restated d = declared col' /\
    cd_auto d = (is_auto_col (schema_at s acts i) t c && supports_auto_increment (c_type col'))%bool /\ cd_pk d = false /\
    cd_comment d = comment_body a col'.
Proof. exact modify_preserves_plan. Qed.
Print Assumptions C04_modify_preserves_plan.
Check C04_modify_preserves_plan : forall s acts L i a t c col s',
  gen_plan s acts = Ok L ->
  nth_error acts i = Some a ->
  modify_target a = Some (t, c) ->
  lookup_column (schema_at s acts i) t c = Some col ->
  apply_action (schema_at s acts i) a = Ok s' ->
  modify_default_ok a col = true ->
  exists pre d col',
    nth_error L i = Some (pre ++ [SModifyColumn t d]) /\
    forallb is_update pre = true /\
    lookup_column (schema_at s acts (S i)) t c = Some col' /\
    cd_name d = c /\ restated d = declared col' /\
    cd_auto d = (is_auto_col (schema_at s acts i) t c && supports_auto_increment (c_type col'))%bool /\ cd_pk d = false /\
    cd_comment d = comment_body a col'.

(* lifted over histories of any length: migration k of a history that replays, action i of it *)
Theorem C04_modify_preserves_history : forall (H : list plan) k p sb L i a t c col s_i s',
  nth_error H k = Some p ->
  replay (firstn k H) = Ok sb ->
  gen_plan sb (p_actions p) = Ok L ->
  nth_error (p_actions p) i = Some a ->
  apply_all sb (firstn i (p_actions p)) = Ok s_i ->
  modify_target a = Some (t, c) ->
  lookup_column s_i t c = Some col ->
  apply_action s_i a = Ok s' ->
  modify_default_ok a col = true ->
  exists pre d col',
    nth_error L i = Some (pre ++ [SModifyColumn t d]) /\
    forallb is_update pre = true /\
    lookup_column s' t c = Some col' /\
    cd_name d = c /\ restated d = declared col' /\
    cd_auto d = (is_auto_col s_i t c && supports_auto_increment (c_type col'))%bool /\ cd_pk d = false /\
    cd_comment d = comment_body a col'.
Proof. exact modify_preserves_history. Qed.
Print Assumptions C04_modify_preserves_history.
Check C04_modify_preserves_history : forall (H : list plan) k p sb L i a t c col s_i s',
  nth_error H k = Some p ->
  replay (firstn k H) = Ok sb ->
  gen_plan sb (p_actions p) = Ok L ->
  nth_error (p_actions p) i = Some a ->
  apply_all sb (firstn i (p_actions p)) = Ok s_i ->
  modify_target a = Some (t, c) ->
  lookup_column s_i t c = Some col ->
  apply_action s_i a = Ok s' ->
  modify_default_ok a col = true ->
  exists pre d col',
    nth_error L i = Some (pre ++ [SModifyColumn t d]) /\
    forallb is_update pre = true /\
    lookup_column s' t c = Some col' /\
    cd_name d = c /\ restated d = declared col' /\
    cd_auto d = (is_auto_col s_i t c && supports_auto_increment (c_type col'))%bool /\ cd_pk d = false /\
    cd_comment d = comment_body a col'.

(* the hypothesis modify_default_ok cannot be dropped: ModifyColumnType to an enum re-quotes a kept non-string
   default ('1' against 1); the engine model treats the two as the same default (norm_default) *)
Theorem C04_modify_type_requotes_refuted : exists s a t c col s' d col',
  modify_target a = Some (t, c) /\ lookup_column s t c = Some col /\ apply_action s a = Ok s' /\
  modify_default_ok a col = false /\
  gen s [] a = Ok [SModifyColumn t d] /\ lookup_column s' t c = Some col' /\ restated d <> declared col'.
Proof.
  exists w_requote_schema, w_requote_action, "t", "n",
         (mkCol "n" (TSimple Integer) true (Some (DInt 1)) None None None None None).
  eexists. eexists. eexists.
  repeat split; try (vm_compute; reflexivity). vm_compute. discriminate.
Qed.
Print Assumptions C04_modify_type_requotes_refuted.
Check C04_modify_type_requotes_refuted : exists s a t c col s' d col',
  modify_target a = Some (t, c) /\ lookup_column s t c = Some col /\ apply_action s a = Ok s' /\
  modify_default_ok a col = false /\
  gen s [] a = Ok [SModifyColumn t d] /\ lookup_column s' t c = Some col' /\ restated d <> declared col'.

(* History (DESIGN D19, finding C04-autoinc-lost-on-modify, fixed by N1).  Pinned here until the fix:
     C04_modify_never_restates_autoinc : forall s P a st t d,
       gen s P a = Ok st -> In (SModifyColumn t d) st -> cd_auto d = false /\ cd_pk d = false
     autoincrement_lost_refuted : a comment change on the auto-increment key column (corpus/mysql/d19_modify_autoinc.json)
       left col_auto = Some false in the engine against Some true in the baseline.
   The same witness now: the MODIFY restates AUTO_INCREMENT, the engine keeps the attribute, the migration holds. *)
Theorem C04_autoinc_kept_on_modify : exists s a t c st s' cat,
  judged s [a] = true /\ modify_target a = Some (t, c) /\ is_auto_col s t c = true /\
  gen s [] a = Ok st /\ apply_action s a = Ok s' /\ run (catalog_of s) st = RunOk cat /\
  col_auto (catalog_of s) t c = Some true /\ col_auto cat t c = Some true /\ col_auto (catalog_of s') t c = Some true /\
  catalog_eqb cat (catalog_of s') = true /\ migration_ok s [a] = true.
Proof.
  exists w_d19_schema, w_d19_action, "t", "id". eexists. eexists. eexists.
  repeat split; vm_compute; reflexivity.
Qed.
Print Assumptions C04_autoinc_kept_on_modify.
Check C04_autoinc_kept_on_modify : exists s a t c st s' cat,
  judged s [a] = true /\ modify_target a = Some (t, c) /\ is_auto_col s t c = true /\
  gen s [] a = Ok st /\ apply_action s a = Ok s' /\ run (catalog_of s) st = RunOk cat /\
  col_auto (catalog_of s) t c = Some true /\ col_auto cat t c = Some true /\ col_auto (catalog_of s') t c = Some true /\
  catalog_eqb cat (catalog_of s') = true /\ migration_ok s [a] = true.

(* History (finding C04-comment-lost-on-modify, fixed by N1): C04_comment_lost_observation pinned that the MODIFY of a
   default change after a comment change carried no COMMENT.  Now both carry it, each in its own escaping, and MySQL
   reads the same text from both *)
Theorem C04_comment_kept_observation : exists s a1 a2 t c d1 d2 s',
  gen_plan s [a1; a2] = Ok [[SModifyColumn t d1]; [SModifyColumn t d2]] /\ apply_all s [a1; a2] = Ok s' /\
  cd_comment d1 = Some "it''s" /\ cd_comment d2 = Some "it\'s" /\
  option_map mysql_unescape (cd_comment d1) = Some "it's" /\ option_map mysql_unescape (cd_comment d2) = Some "it's" /\
  option_map c_comment (lookup_column s' t c) = Some (Some "it's").
Proof.
  exists w_comment_schema, (ModifyColumnComment "t" "name" (Some "it's")), (ModifyColumnDefault "t" "name" (Some "'x'")), "t", "name".
  eexists. eexists. eexists. repeat split; vm_compute; reflexivity.
Qed.
Print Assumptions C04_comment_kept_observation.
Check C04_comment_kept_observation : exists s a1 a2 t c d1 d2 s',
  gen_plan s [a1; a2] = Ok [[SModifyColumn t d1]; [SModifyColumn t d2]] /\ apply_all s [a1; a2] = Ok s' /\
  cd_comment d1 = Some "it''s" /\ cd_comment d2 = Some "it\'s" /\
  option_map mysql_unescape (cd_comment d1) = Some "it's" /\ option_map mysql_unescape (cd_comment d2) = Some "it's" /\
  option_map c_comment (lookup_column s' t c) = Some (Some "it's").

(* ------------------------------------------------------------------------------------------------------
   2. The full statement (a definition, not a claim) and its refutations, one per recorded class. *)
Definition C04_full_statement : Prop :=
  forall s acts, judged s acts = true -> migration_ok s acts = true.

Theorem C04_full_refuted : ~ C04_full_statement.
Proof.
  intro H. specialize (H (fst w_d11) (snd w_d11)).
  assert (J : judged (fst w_d11) (snd w_d11) = true) by (vm_compute; reflexivity).
  specialize (H J). vm_compute in H. discriminate.
Qed.
Print Assumptions C04_full_refuted.
Check C04_full_refuted : ~ C04_full_statement.

Theorem C04_known_classes_refute :
  refutes (fst w_d11) (snd w_d11) known_C04_check_missing /\
  refutes (fst w_d2) (snd w_d2) known_C04_drop_before_unreference /\
  refutes (fst w_fkcol) (snd w_fkcol) known_C04_drop_fk_column /\
  refutes (fst w_d18) (snd w_d18) known_C04_composite_member_drop /\
  refutes (fst w_autokey) (snd w_autokey) known_C04_autoinc_key_removed /\
  refutes (fst w_rename) (snd w_rename) known_C04_rename_drift /\
  refutes (fst w_fkdrop) (snd w_fkdrop) known_C04_fk_drop_leaves_index /\
  refutes (fst w_d16) (snd w_d16) known_C04_derived_name_collision /\
  refutes (fst w_chkscope) (snd w_chkscope) known_C04_check_name_scope /\
  refutes (fst w_keyfk) (snd w_keyfk) known_C04_key_needed_by_fk /\
  refutes (fst w_allcols) (snd w_allcols) known_C04_last_column_drop /\
  refutes (fst w_autoadd) (snd w_autoadd) known_C04_autoinc_not_added /\
  refutes (fst w_refname) (snd w_refname) known_C04_fk_lost_by_ref_name /\
  refutes (fst w_reflater) (snd w_reflater) known_C04_reference_added_later.
Proof.
  repeat split; vm_compute; reflexivity.
Qed.
Print Assumptions C04_known_classes_refute.
Check C04_known_classes_refute :
  refutes (fst w_d11) (snd w_d11) known_C04_check_missing /\
  refutes (fst w_d2) (snd w_d2) known_C04_drop_before_unreference /\
  refutes (fst w_fkcol) (snd w_fkcol) known_C04_drop_fk_column /\
  refutes (fst w_d18) (snd w_d18) known_C04_composite_member_drop /\
  refutes (fst w_autokey) (snd w_autokey) known_C04_autoinc_key_removed /\
  refutes (fst w_rename) (snd w_rename) known_C04_rename_drift /\
  refutes (fst w_fkdrop) (snd w_fkdrop) known_C04_fk_drop_leaves_index /\
  refutes (fst w_d16) (snd w_d16) known_C04_derived_name_collision /\
  refutes (fst w_chkscope) (snd w_chkscope) known_C04_check_name_scope /\
  refutes (fst w_keyfk) (snd w_keyfk) known_C04_key_needed_by_fk /\
  refutes (fst w_allcols) (snd w_allcols) known_C04_last_column_drop /\
  refutes (fst w_autoadd) (snd w_autoadd) known_C04_autoinc_not_added /\
  refutes (fst w_refname) (snd w_refname) known_C04_fk_lost_by_ref_name /\
  refutes (fst w_reflater) (snd w_reflater) known_C04_reference_added_later.

(* one more class (found after the generator learnt to shadow inline foreign keys): the inline constraint of an added
   column is promoted into the baseline by replay but no statement ever creates it *)
Theorem C04_inline_orphan_refutes : refutes (fst w_orphan) (snd w_orphan) known_C04_inline_orphan.
Proof. exact w_orphan_refutes. Qed.
Print Assumptions C04_inline_orphan_refutes.
Check C04_inline_orphan_refutes : refutes (fst w_orphan) (snd w_orphan) known_C04_inline_orphan.

Theorem C04_constraint_added_twice_refutes : refutes (fst w_twice) (snd w_twice) known_C04_derived_name_collision
  /\ migration_error (fst w_twice) (snd w_twice) = Some "M4a duplicate key name (1061)".
Proof. exact w_twice_refutes. Qed.
Print Assumptions C04_constraint_added_twice_refutes.
Check C04_constraint_added_twice_refutes : refutes (fst w_twice) (snd w_twice) known_C04_derived_name_collision
  /\ migration_error (fst w_twice) (snd w_twice) = Some "M4a duplicate key name (1061)".

(* D18 on MySQL: the shrunk key keeps its name, the baseline derives another one *)
Theorem C04_composite_member_name_drift :
  match run (catalog_of (fst w_d18)) [SDropColumn "t" "b"], apply_action (fst w_d18) (DeleteColumn "t" "b") with
  | RunOk c, Ok s' =>
      option_map tb_indexes (find_tb "t" c) = Some [mkMIndex "ix_t__a_b" ["a"] false false] /\
      option_map tb_indexes (find_tb "t" (catalog_of s')) = Some [mkMIndex "ix_t__a" ["a"] false false]
  | _, _ => False
  end.
Proof. exact w_d18_name_drift. Qed.
Print Assumptions C04_composite_member_name_drift.
Check C04_composite_member_name_drift :
  match run (catalog_of (fst w_d18)) [SDropColumn "t" "b"], apply_action (fst w_d18) (DeleteColumn "t" "b") with
  | RunOk c, Ok s' =>
      option_map tb_indexes (find_tb "t" c) = Some [mkMIndex "ix_t__a_b" ["a"] false false] /\
      option_map tb_indexes (find_tb "t" (catalog_of s')) = Some [mkMIndex "ix_t__a" ["a"] false false]
  | _, _ => False
  end.

(* ------------------------------------------------------------------------------------------------------
   3. The simulation Sim s c := c = catalog_of s, carried through build_plan_queries' loop and over histories
      of any length, and the action kinds for which one step is proved (the hypotheses are the decidable
      booleans of Model/Spec.v; their negations are the known-finding classes or violated assumptions).
      All 13 action kinds have a one-step lemma; what is NOT covered are the inputs outside their hypotheses: the
      known-finding classes, and a column added with an inline constraint whose AddConstraint follows later in the
      same plan (the believed catalog runs ahead of the engine between the two actions). *)
Theorem C04_Sim_plan : forall acts s s',
  (forall i a, nth_error acts i = Some a -> action_sim (schema_at s acts i) a) ->
  apply_all s acts = Ok s' ->
  exists L, gen_plan s acts = Ok L /\ run (catalog_of s) (List.concat L) = RunOk (catalog_of s').
Proof. exact Sim_plan. Qed.
Print Assumptions C04_Sim_plan.
Check C04_Sim_plan : forall acts s s',
  (forall i a, nth_error acts i = Some a -> action_sim (schema_at s acts i) a) ->
  apply_all s acts = Ok s' ->
  exists L, gen_plan s acts = Ok L /\ run (catalog_of s) (List.concat L) = RunOk (catalog_of s').

Theorem C04_Sim_history : forall plans s s',
  (forall k p sb, nth_error plans k = Some p ->
                  apply_all s (flat_map p_actions (firstn k plans)) = Ok sb ->
                  forall i a, nth_error (p_actions p) i = Some a -> action_sim (schema_at sb (p_actions p) i) a) ->
  apply_all s (flat_map p_actions plans) = Ok s' ->
  run_history (catalog_of s) s plans = Some (catalog_of s').
Proof. exact Sim_history. Qed.
Print Assumptions C04_Sim_history.
Check C04_Sim_history : forall plans s s',
  (forall k p sb, nth_error plans k = Some p ->
                  apply_all s (flat_map p_actions (firstn k plans)) = Ok sb ->
                  forall i a, nth_error (p_actions p) i = Some a -> action_sim (schema_at sb (p_actions p) i) a) ->
  apply_all s (flat_map p_actions plans) = Ok s' ->
  run_history (catalog_of s) s plans = Some (catalog_of s').

(* CREATE TABLE with its PRIMARY KEY / inline UNIQUE KEY / FOREIGN KEY clauses (and the indexes MySQL creates
   implicitly for them) followed by the CREATE INDEX statements; the FOREIGN KEY clauses are taken under
   "the engine accepts them" (create_table_sim_hyp, Model/SpecCreate.v) *)
Theorem sim_mysql_create_table : forall s a, create_table_sim_hyp s a = true -> action_sim s a.
Proof. exact sim_create_table. Qed.
Print Assumptions sim_mysql_create_table.
Check sim_mysql_create_table : forall s a, create_table_sim_hyp s a = true -> action_sim s a.

(* the same with the FOREIGN KEY clauses under explicit conditions (names new, columns exist, the target exists and
   has a key whose leftmost columns are the referenced columns — implied by A1) instead of engine acceptance *)
Theorem sim_mysql_create_table_a1 : forall s a, create_table_a1_hyp s a = true -> action_sim s a.
Proof. exact sim_create_table_a1. Qed.
Print Assumptions sim_mysql_create_table_a1.
Check sim_mysql_create_table_a1 : forall s a, create_table_a1_hyp s a = true -> action_sim s a.

Theorem sim_mysql_add_constraint_fk : forall s a, add_fk_sim_hyp s a = true -> action_sim s a.
Proof. exact sim_add_fk. Qed.
Print Assumptions sim_mysql_add_constraint_fk.
Check sim_mysql_add_constraint_fk : forall s a, add_fk_sim_hyp s a = true -> action_sim s a.

Theorem sim_mysql_add_constraint_pk : forall s a, add_pk_sim_hyp s a = true -> action_sim s a.
Proof. exact sim_add_pk. Qed.
Print Assumptions sim_mysql_add_constraint_pk.
Check sim_mysql_add_constraint_pk : forall s a, add_pk_sim_hyp s a = true -> action_sim s a.

Theorem sim_mysql_remove_constraint_key : forall s a, remove_key_sim_hyp s a = true -> action_sim s a.
Proof. exact sim_remove_key. Qed.
Print Assumptions sim_mysql_remove_constraint_key.
Check sim_mysql_remove_constraint_key : forall s a, remove_key_sim_hyp s a = true -> action_sim s a.

Theorem sim_mysql_remove_constraint_fk : forall s a, remove_fk_sim_hyp s a = true -> action_sim s a.
Proof. exact sim_remove_fk. Qed.
Print Assumptions sim_mysql_remove_constraint_fk.
Check sim_mysql_remove_constraint_fk : forall s a, remove_fk_sim_hyp s a = true -> action_sim s a.

Theorem sim_mysql_remove_constraint_pk : forall s a, remove_pk_sim_hyp s a = true -> action_sim s a.
Proof. exact sim_remove_pk. Qed.
Print Assumptions sim_mysql_remove_constraint_pk.
Check sim_mysql_remove_constraint_pk : forall s a, remove_pk_sim_hyp s a = true -> action_sim s a.

Theorem sim_mysql_rename_table : forall s a, rename_table_sim_hyp s a = true -> action_sim s a.
Proof. exact sim_rename_table. Qed.
Print Assumptions sim_mysql_rename_table.
Check sim_mysql_rename_table : forall s a, rename_table_sim_hyp s a = true -> action_sim s a.

Theorem sim_mysql_rename_column : forall s a, rename_column_sim_hyp s a = true -> action_sim s a.
Proof. exact sim_rename_column. Qed.
Print Assumptions sim_mysql_rename_column.
Check sim_mysql_rename_column : forall s a, rename_column_sim_hyp s a = true -> action_sim s a.

Theorem C04_Sim_history_proved_kinds : forall plans s s',
  (forall k p sb, nth_error plans k = Some p ->
                  apply_all s (flat_map p_actions (firstn k plans)) = Ok sb ->
                  forall i a, nth_error (p_actions p) i = Some a -> sim_proved_for (schema_at sb (p_actions p) i) a = true) ->
  apply_all s (flat_map p_actions plans) = Ok s' ->
  run_history (catalog_of s) s plans = Some (catalog_of s').
Proof. exact Sim_history_proved. Qed.
Print Assumptions C04_Sim_history_proved_kinds.
Check C04_Sim_history_proved_kinds : forall plans s s',
  (forall k p sb, nth_error plans k = Some p ->
                  apply_all s (flat_map p_actions (firstn k plans)) = Ok sb ->
                  forall i a, nth_error (p_actions p) i = Some a -> sim_proved_for (schema_at sb (p_actions p) i) a = true) ->
  apply_all s (flat_map p_actions plans) = Ok s' ->
  run_history (catalog_of s) s plans = Some (catalog_of s').

Theorem sim_mysql_delete_table : forall s P t s' c,
  Sim s c -> apply_action s (DeleteTable t) = Ok s' -> referenced_by_other s t = false ->
  exists st, gen s P (DeleteTable t) = Ok st /\ run c st = RunOk (catalog_of s').
Proof. exact sim_delete_table. Qed.
Print Assumptions sim_mysql_delete_table.
Check sim_mysql_delete_table : forall s P t s' c,
  Sim s c -> apply_action s (DeleteTable t) = Ok s' -> referenced_by_other s t = false ->
  exists st, gen s P (DeleteTable t) = Ok st /\ run c st = RunOk (catalog_of s').

(* the Sim-lift of C04_modify_preserves: each MODIFY leaves exactly the believed column *)
Theorem sim_mysql_modify_column : forall s a, modify_sim_hyp s a = true -> action_sim s a.
Proof. exact sim_modify_column. Qed.
Print Assumptions sim_mysql_modify_column.
Check sim_mysql_modify_column : forall s a, modify_sim_hyp s a = true -> action_sim s a.

Theorem sim_mysql_add_column : forall s a, add_column_sim_hyp s a = true -> action_sim s a.
Proof. exact sim_add_column. Qed.
Print Assumptions sim_mysql_add_column.
Check sim_mysql_add_column : forall s a, add_column_sim_hyp s a = true -> action_sim s a.

Theorem sim_mysql_delete_column : forall s a, delete_column_sim_hyp s a = true -> action_sim s a.
Proof. exact sim_delete_column. Qed.
Print Assumptions sim_mysql_delete_column.
Check sim_mysql_delete_column : forall s a, delete_column_sim_hyp s a = true -> action_sim s a.

Theorem sim_mysql_add_constraint_check : forall s a, add_check_sim_hyp s a = true -> action_sim s a.
Proof. exact sim_add_check. Qed.
Print Assumptions sim_mysql_add_constraint_check.
Check sim_mysql_add_constraint_check : forall s a, add_check_sim_hyp s a = true -> action_sim s a.

Theorem sim_mysql_remove_constraint_check : forall s a, remove_check_sim_hyp s a = true -> action_sim s a.
Proof. exact sim_remove_check. Qed.
Print Assumptions sim_mysql_remove_constraint_check.
Check sim_mysql_remove_constraint_check : forall s a, remove_check_sim_hyp s a = true -> action_sim s a.

(* CREATE [UNIQUE] INDEX, including the implicitly created foreign-key indexes the new key makes redundant *)
Theorem sim_mysql_add_constraint_key : forall s a, add_key_full_hyp s a = true -> action_sim s a.
Proof.
  intros s a H. unfold add_key_full_hyp in H. apply Bool.andb_true_iff in H. destruct H as [H1 H2].
  apply sim_add_key; assumption.
Qed.
Print Assumptions sim_mysql_add_constraint_key.
Check sim_mysql_add_constraint_key : forall s a, add_key_full_hyp s a = true -> action_sim s a.

Theorem sim_mysql_raw_sql : forall s sql, action_sim s (RawSql sql).
Proof. exact sim_raw_sql. Qed.
Print Assumptions sim_mysql_raw_sql.
Check sim_mysql_raw_sql : forall s sql, action_sim s (RawSql sql).

(* plans made of the proved kinds: executable in order, ending in the believed catalog *)
Theorem C04_Sim_plan_proved_kinds : forall acts s s',
  (forall i a, nth_error acts i = Some a -> sim_proved_for (schema_at s acts i) a = true) ->
  apply_all s acts = Ok s' ->
  exists L, gen_plan s acts = Ok L /\ run (catalog_of s) (List.concat L) = RunOk (catalog_of s').
Proof. exact Sim_plan_proved. Qed.
Print Assumptions C04_Sim_plan_proved_kinds.
Check C04_Sim_plan_proved_kinds : forall acts s s',
  (forall i a, nth_error acts i = Some a -> sim_proved_for (schema_at s acts i) a = true) ->
  apply_all s acts = Ok s' ->
  exists L, gen_plan s acts = Ok L /\ run (catalog_of s) (List.concat L) = RunOk (catalog_of s').

Example C04_sim_hypotheses_satisfiable :
  modify_sim_hyp ok_modify_schema (ModifyColumnType "t" "name" (TSimple Text) None) = true /\
  add_column_sim_hyp ok_modify_schema (AddColumn "t" (pcol "body" (TSimple Text) false) (Some "''")) = true /\
  delete_column_sim_hyp ok_modify_schema (DeleteColumn "t" "name") = true /\
  sim_proved_for ok_modify_schema (DeleteTable "t") = true /\
  create_table_sim_hyp ok_modify_schema
    (CreateTable "post" [pcol "id" (TSimple Integer) false; pcol "t_id" (TSimple Integer) true; pcol "title" (TVarchar 255) false]
                 [CPrimaryKey true ["id"]; CUnique None ["title"]; CIndex None ["t_id"; "title"];
                  CForeignKey None ["t_id"] "t" ["id"] (Some Cascade) None]) = true /\
  create_table_a1_hyp ok_modify_schema
    (CreateTable "post" [pcol "id" (TSimple Integer) false; pcol "t_id" (TSimple Integer) true]
                 [CPrimaryKey true ["id"]; CForeignKey None ["t_id"] "t" ["id"] (Some Cascade) None]) = true /\
  add_fk_sim_hyp (ok_modify_schema ++ [mkTable "post" None [pcol "id" (TSimple Integer) false; pcol "t_id" (TSimple Integer) true] [CPrimaryKey false ["id"]]])
    (AddConstraint "post" (CForeignKey None ["t_id"] "t" ["id"] None None)) = true /\
  add_pk_sim_hyp [mkTable "u" None [pcol "id" (TSimple Integer) false] []] (AddConstraint "u" (CPrimaryKey false ["id"])) = true /\
  remove_key_sim_hyp [mkTable "u" None [pcol "id" (TSimple Integer) false; pcol "a" (TSimple Integer) true] [CPrimaryKey false ["id"]; CIndex None ["a"]]]
    (RemoveConstraint "u" (CIndex None ["a"])) = true /\
  remove_fk_sim_hyp (ok_modify_schema ++ [mkTable "post" None [pcol "id" (TSimple Integer) false; pcol "t_id" (TSimple Integer) true]
                                               [CPrimaryKey false ["id"]; CIndex None ["t_id"]; CForeignKey None ["t_id"] "t" ["id"] None None]])
    (RemoveConstraint "post" (CForeignKey None ["t_id"] "t" ["id"] None None)) = true /\
  remove_pk_sim_hyp [mkTable "u" None [pcol "id" (TSimple Integer) false] [CPrimaryKey false ["id"]]] (RemoveConstraint "u" (CPrimaryKey false ["id"])) = true /\
  rename_table_sim_hyp ok_modify_schema (RenameTable "t" "t2") = true /\
  rename_column_sim_hyp ok_modify_schema (RenameColumn "t" "name" "title") = true /\
  add_check_sim_hyp ok_modify_schema (AddConstraint "t" (CCheck "ck" "id > 0")) = true /\
  add_key_full_hyp ok_modify_schema (AddConstraint "t" (CUnique None ["name"])) = true /\
  remove_check_sim_hyp [mkTable "t" None [pcol "id" (TSimple Integer) false] [CPrimaryKey false ["id"]; CCheck "ck" "id > 0"]]
                       (RemoveConstraint "t" (CCheck "ck" "id > 0")) = true.
Proof. vm_compute. repeat split; reflexivity. Qed.

(* ------------------------------------------------------------------------------------------------------
   4. The pending-set invariant (Model/SpecPending.v): replay promotes the inline index / unique / foreign_key of an
      added column into the baseline at once, MySQL gets it only when the equal AddConstraint runs.  SimP s P c: the
      engine catalog is the believed catalog of s minus the pending constraints P (up to constraint order; the ghost
      schema v is what the engine has).  AddColumn establishes it, the matching AddConstraint discharges it, the other
      kinds preserve it (RenameTable excepted; RemoveConstraint / DeleteColumn / RenameColumn on tables with nothing
      pending). *)
Theorem C04_SimP_establish : forall P s v t col fw s' v',
  pend_rel P s v -> nodup_str (map t_name v) = true ->
  apply_action s (AddColumn t col fw) = Ok s' -> apply_action v (AddColumn t (strip_inline col) fw) = Ok v' ->
  constraints_of v' t = constraints_of v t ->
  pend_rel (pend_step s P (AddColumn t col fw)) s' v'.
Proof. exact simp_establish. Qed.
Print Assumptions C04_SimP_establish.
Check C04_SimP_establish : forall P s v t col fw s' v',
  pend_rel P s v -> nodup_str (map t_name v) = true ->
  apply_action s (AddColumn t col fw) = Ok s' -> apply_action v (AddColumn t (strip_inline col) fw) = Ok v' ->
  constraints_of v' t = constraints_of v t ->
  pend_rel (pend_step s P (AddColumn t col fw)) s' v'.

(* discharge (the constraint is pending: the believed schema does not change, the ghost gains it) and plain
   AddConstraint (both gain it) in one statement: pend_step removes one pending occurrence if there is one *)
Theorem C04_SimP_discharge : forall P s v t k s' v',
  pend_rel P s v -> nodup_str (map t_name v) = true ->
  apply_action s (AddConstraint t k) = Ok s' -> apply_action v (AddConstraint t k) = Ok v' ->
  contains_constraint k (constraints_of v t) = false ->
  pend_rel (pend_step s P (AddConstraint t k)) s' v'.
Proof. exact simp_add_constraint. Qed.
Print Assumptions C04_SimP_discharge.
Check C04_SimP_discharge : forall P s v t k s' v',
  pend_rel P s v -> nodup_str (map t_name v) = true ->
  apply_action s (AddConstraint t k) = Ok s' -> apply_action v (AddConstraint t k) = Ok v' ->
  contains_constraint k (constraints_of v t) = false ->
  pend_rel (pend_step s P (AddConstraint t k)) s' v'.

Theorem C04_SimP_preserve : forall P s v a s1 v1,
  pend_rel P s v -> nodup_str (map t_name v) = true -> simp_kind_ok P v a = true ->
  apply_action s a = Ok s1 -> apply_action v (ghost_action a) = Ok v1 ->
  pend_rel (pend_step s P a) s1 v1.
Proof. exact simp_step_rel. Qed.
Print Assumptions C04_SimP_preserve.
Check C04_SimP_preserve : forall P s v a s1 v1,
  pend_rel P s v -> nodup_str (map t_name v) = true -> simp_kind_ok P v a = true ->
  apply_action s a = Ok s1 -> apply_action v (ghost_action a) = Ok v1 ->
  pend_rel (pend_step s P a) s1 v1.

(* lifted over plans: the REAL statements run and the engine ends in the believed catalog minus what is still pending *)
Theorem C04_SimP_plan : forall s acts s',
  simp_plan_steps [] s s acts = true -> apply_all s acts = Ok s' ->
  exists L c', gen_plan s acts = Ok L /\ run (catalog_of s) (List.concat L) = RunOk c' /\ SimP s' (pend_at s [] acts) c'.
Proof. exact SimP_plan. Qed.
Print Assumptions C04_SimP_plan.
Check C04_SimP_plan : forall s acts s',
  simp_plan_steps [] s s acts = true -> apply_all s acts = Ok s' ->
  exists L c', gen_plan s acts = Ok L /\ run (catalog_of s) (List.concat L) = RunOk c' /\ SimP s' (pend_at s [] acts) c'.

(* ... and when nothing is pending at the end (and the order in which foreign keys were created cannot matter), in the
   believed catalog itself, as a set of objects *)
Theorem C04_SimP_plan_equiv : forall s acts s',
  simp_plan_full s acts = true -> apply_all s acts = Ok s' ->
  exists L c', gen_plan s acts = Ok L /\ run (catalog_of s) (List.concat L) = RunOk c' /\ cat_equiv c' (catalog_of s').
Proof. exact SimP_plan_equiv. Qed.
Print Assumptions C04_SimP_plan_equiv.
Check C04_SimP_plan_equiv : forall s acts s',
  simp_plan_full s acts = true -> apply_all s acts = Ok s' ->
  exists L c', gen_plan s acts = Ok L /\ run (catalog_of s) (List.concat L) = RunOk c' /\ cat_equiv c' (catalog_of s').

(* the same conclusion for any plan whose ghost plan is made of proved kinds, with the final comparison of the ghost and
   the believed schema CHECKED (catalog_eqb) instead of derived from the invariant *)
Theorem C04_SimP_plan_checked : forall s acts s',
  simp_plan_ok s acts = true -> apply_all s acts = Ok s' ->
  exists L c', gen_plan s acts = Ok L /\ run (catalog_of s) (List.concat L) = RunOk c' /\ catalog_eqb c' (catalog_of s') = true.
Proof. exact SimP_plan_checked. Qed.
Print Assumptions C04_SimP_plan_checked.
Check C04_SimP_plan_checked : forall s acts s',
  simp_plan_ok s acts = true -> apply_all s acts = Ok s' ->
  exists L c', gen_plan s acts = Ok L /\ run (catalog_of s) (List.concat L) = RunOk c' /\ catalog_eqb c' (catalog_of s') = true.

Example C04_SimP_hypotheses_satisfiable :
  let acts := [AddColumn "t" (mkCol "tag" (TVarchar 32) true None None None None (Some (SBool true)) None) None;
               AddColumn "t" (mkCol "owner" (TSimple Integer) true None None None None None (Some (FKStr "t.id"))) None;
               AddConstraint "t" (CUnique None ["name"]);
               AddConstraint "t" (CIndex None ["tag"]);
               AddConstraint "t" (CForeignKey None ["owner"] "t" ["id"] None None)] in
  simp_plan_full ok_modify_schema acts = true /\ simp_plan_ok ok_modify_schema acts = true /\
  forallb (fun a => sim_proved_for ok_modify_schema a) acts = false.
Proof. vm_compute. repeat split; reflexivity. Qed.

(* non-vacuity: the hypotheses are satisfiable and the full statement holds somewhere outside every class *)
Example C04_holds_on_modify_interleaving :
  judged ok_modify_schema ok_modify_seq = true /\ migration_ok ok_modify_schema ok_modify_seq = true /\
  in_known_class ok_modify_schema ok_modify_seq = false.
Proof. exact ok_modify_holds. Qed.
Example C04_holds_on_fk_plan :
  judged [] ok_fk_plan = true /\ migration_ok [] ok_fk_plan = true /\ in_known_class [] ok_fk_plan = false.
Proof. exact ok_fk_holds. Qed.
Example C04_modify_preserves_hypotheses_satisfiable :
  modify_target (ModifyColumnType "t" "name" (TSimple Text) None) = Some ("t", "name") /\
  lookup_column ok_modify_schema "t" "name" = Some (mkCol "name" (TVarchar 32) false (Some (DStr "'x'")) None None None None None) /\
  (exists s', apply_action ok_modify_schema (ModifyColumnType "t" "name" (TSimple Text) None) = Ok s') /\
  modify_default_ok (ModifyColumnType "t" "name" (TSimple Text) None)
                    (mkCol "name" (TVarchar 32) false (Some (DStr "'x'")) None None None None None) = true.
Proof. repeat split; try (vm_compute; reflexivity). eexists. vm_compute. reflexivity. Qed.

(* ------------------------------------------------------------------------------------------------------
   6. The MODIFY COLUMN re-declaration in its strongest form (after fix N1).  For every ModifyColumn{Type,Nullable,
      Default,Comment} on an existing column — the auto-increment key column and commented columns included — the single
      MODIFY COLUMN restates ALL SIX attributes of a MySQL column definition exactly as the evolving schema holds them
      after the action: restated_all d = (type text, NOT NULL, DEFAULT text, COMMENT as MySQL reads the emitted literal,
      AUTO_INCREMENT, inline PRIMARY KEY).  Hypotheses left (modify_all_hyp): the kept default is not re-quoted
      (C04_modify_type_requotes_refuted), and the new comment of a ModifyColumnComment contains no backslash
      (modify_column_comment.rs doubles quotes and escapes nothing else).
      History: before N1 the hypothesis also excluded the auto-increment key column and, for Type / Nullable / Default,
      every column with a comment; pinned then: C04_modify_drops_comment (every input of the class C04-comment-lost-on-
      modify gets a MODIFY without COMMENT while the schema keeps the comment) and
      C04_modify_restates_all_unconditional_refuted (computed witness, corpus/mysql/comment_lost_on_modify.json — now a
      control that holds). *)
Theorem C04_modify_restates_all : forall s P a t c col s',
  modify_target a = Some (t, c) ->
  lookup_column s t c = Some col ->
  apply_action s a = Ok s' ->
  modify_all_hyp a col = true ->
  exists pre d col',
    gen s P a = Ok (pre ++ [SModifyColumn t d]) /\
    forallb is_update pre = true /\
    lookup_column s' t c = Some col' /\
    cd_name d = c /\
    restated_all d = declared_all s' t col'.
Proof. exact modify_restates_all. Qed.
Print Assumptions C04_modify_restates_all.
Check C04_modify_restates_all : forall s P a t c col s',
  modify_target a = Some (t, c) ->
  lookup_column s t c = Some col ->
  apply_action s a = Ok s' ->
  modify_all_hyp a col = true ->
  exists pre d col',
    gen s P a = Ok (pre ++ [SModifyColumn t d]) /\
    forallb is_update pre = true /\
    lookup_column s' t c = Some col' /\
    cd_name d = c /\
    restated_all d = declared_all s' t col'.

Theorem C04_modify_restates_all_plan : forall s acts L i a t c col s',
  gen_plan s acts = Ok L ->
  nth_error acts i = Some a ->
  modify_target a = Some (t, c) ->
  lookup_column (schema_at s acts i) t c = Some col ->
  apply_action (schema_at s acts i) a = Ok s' ->
  modify_all_hyp a col = true ->
  exists pre d col',
    nth_error L i = Some (pre ++ [SModifyColumn t d]) /\
    forallb is_update pre = true /\
    lookup_column (schema_at s acts (S i)) t c = Some col' /\
    cd_name d = c /\
    restated_all d = declared_all (schema_at s acts (S i)) t col'.
Proof. exact modify_restates_all_plan. Qed.
Print Assumptions C04_modify_restates_all_plan.
Check C04_modify_restates_all_plan : forall s acts L i a t c col s',
  gen_plan s acts = Ok L ->
  nth_error acts i = Some a ->
  modify_target a = Some (t, c) ->
  lookup_column (schema_at s acts i) t c = Some col ->
  apply_action (schema_at s acts i) a = Ok s' ->
  modify_all_hyp a col = true ->
  exists pre d col',
    nth_error L i = Some (pre ++ [SModifyColumn t d]) /\
    forallb is_update pre = true /\
    lookup_column (schema_at s acts (S i)) t c = Some col' /\
    cd_name d = c /\
    restated_all d = declared_all (schema_at s acts (S i)) t col'.

Theorem C04_modify_restates_all_history : forall (H : list plan) k p sb L i a t c col s_i s',
  nth_error H k = Some p ->
  replay (firstn k H) = Ok sb ->
  gen_plan sb (p_actions p) = Ok L ->
  nth_error (p_actions p) i = Some a ->
  apply_all sb (firstn i (p_actions p)) = Ok s_i ->
  modify_target a = Some (t, c) ->
  lookup_column s_i t c = Some col ->
  apply_action s_i a = Ok s' ->
  modify_all_hyp a col = true ->
  exists pre d col',
    nth_error L i = Some (pre ++ [SModifyColumn t d]) /\
    forallb is_update pre = true /\
    lookup_column s' t c = Some col' /\
    cd_name d = c /\
    restated_all d = declared_all s' t col'.
Proof. exact modify_restates_all_history. Qed.
Print Assumptions C04_modify_restates_all_history.
Check C04_modify_restates_all_history : forall (H : list plan) k p sb L i a t c col s_i s',
  nth_error H k = Some p ->
  replay (firstn k H) = Ok sb ->
  gen_plan sb (p_actions p) = Ok L ->
  nth_error (p_actions p) i = Some a ->
  apply_all sb (firstn i (p_actions p)) = Ok s_i ->
  modify_target a = Some (t, c) ->
  lookup_column s_i t c = Some col ->
  apply_action s_i a = Ok s' ->
  modify_all_hyp a col = true ->
  exists pre d col',
    nth_error L i = Some (pre ++ [SModifyColumn t d]) /\
    forallb is_update pre = true /\
    lookup_column s' t c = Some col' /\
    cd_name d = c /\
    restated_all d = declared_all s' t col'.

(* what "as MySQL reads the emitted literal" rests on: reading back (default sql_mode, backslash escapes on) what
   sea-query's escape_string wrote gives the comment, for every comment; reading back the hand-made doubling of quotes
   gives the comment when it contains no backslash *)
Theorem C04_comment_escape_read_back : forall m, mysql_unescape (mysql_escape m) = m.
Proof. exact unescape_escape. Qed.
Print Assumptions C04_comment_escape_read_back.
Check C04_comment_escape_read_back : forall m, mysql_unescape (mysql_escape m) = m.

Theorem C04_comment_hand_escape_read_back : forall m, no_backslash m = true -> mysql_unescape (hand_escape m) = m.
Proof. exact unescape_hand_escape. Qed.
Print Assumptions C04_comment_hand_escape_read_back.
Check C04_comment_hand_escape_read_back : forall m, no_backslash m = true -> mysql_unescape (hand_escape m) = m.

Example C04_modify_restates_all_hypotheses_satisfiable :
  let col := mkCol "name" (TVarchar 32) false (Some (DStr "'x'")) None None None None None in
  let idc := pcol "id" (TSimple Integer) false in
  let cmt := mkCol "v" (TSimple Integer) true None (Some "it's a note") None None None None in
  lookup_column ok_modify_schema "t" "name" = Some col /\
  modify_all_hyp (ModifyColumnType "t" "name" (TSimple Text) None) col = true /\
  modify_all_hyp (ModifyColumnNullable "t" "name" true None) col = true /\
  modify_all_hyp (ModifyColumnDefault "t" "name" (Some "'y'")) col = true /\
  modify_all_hyp (ModifyColumnComment "t" "name" (Some "it's a note")) col = true /\
  (* the auto-increment key column: AUTO_INCREMENT is restated ... *)
  is_auto_col w_d19_schema "t" "id" = true /\ modify_all_hyp (ModifyColumnType "t" "id" (TSimple BigInt) None) idc = true /\
  gen w_d19_schema [] (ModifyColumnType "t" "id" (TSimple BigInt) None)
    = Ok [SModifyColumn "t" (mkColDef "id" "bigint" true None false true None)] /\
  (* ... and dropped when the new type cannot carry it, as in the baseline *)
  gen w_d19_schema [] (ModifyColumnType "t" "id" (TSimple Text) None)
    = Ok [SModifyColumn "t" (mkColDef "id" "text" true None false false None)] /\
  (* a commented column: the default change restates the comment *)
  modify_all_hyp (ModifyColumnDefault "t" "v" (Some "0")) cmt = true /\
  gen [mkTable "t" None [idc; cmt] [CPrimaryKey false ["id"]]] [] (ModifyColumnDefault "t" "v" (Some "0"))
    = Ok [SModifyColumn "t" (mkColDef "v" "int" false (Some "0") false false (Some "it\'s a note"))] /\
  (* the one comment the hand-made escaping does not carry over *)
  modify_all_hyp (ModifyColumnComment "t" "v" (Some "a\b")) cmt = false.
Proof. vm_compute. repeat split; reflexivity. Qed.

(* ------------------------------------------------------------------------------------------------------
   7. Situations the one-step lemmas of section 3 excluded wholesale although no finding class contains them. *)
(* DeleteColumn of a column that one-column PRIMARY KEY / UNIQUE / INDEX keys are made of (multi-column keys: class
   C04-composite-member-drop; foreign keys: C04-drop-column-with-foreign-key, C04-fk-lost-by-referenced-column-name) *)
Theorem sim_mysql_delete_column_keys : forall s a, delete_column_keys_sim_hyp s a = true -> action_sim s a.
Proof. exact sim_delete_column_keys. Qed.
Print Assumptions sim_mysql_delete_column_keys.
Check sim_mysql_delete_column_keys : forall s a, delete_column_keys_sim_hyp s a = true -> action_sim s a.

(* RenameColumn of a column that NAMED unique keys / indexes / foreign keys contain (unnamed ones and referenced
   columns: class C04-names-after-rename) *)
Theorem sim_mysql_rename_column_named : forall s a, rename_column_named_sim_hyp s a = true -> action_sim s a.
Proof. exact sim_rename_column_named. Qed.
Print Assumptions sim_mysql_rename_column_named.
Check sim_mysql_rename_column_named : forall s a, rename_column_named_sim_hyp s a = true -> action_sim s a.

Example C04_widened_hypotheses_satisfiable :
  delete_column_sim_hyp w_keys_schema (DeleteColumn "t" "name") = false /\
  delete_column_keys_sim_hyp w_keys_schema (DeleteColumn "t" "name") = true /\
  sim_proved_for_r3 w_keys_schema (DeleteColumn "t" "name") = false /\
  sim_proved_for w_keys_schema (DeleteColumn "t" "name") = true /\
  migration_ok w_keys_schema [DeleteColumn "t" "name"] = true /\
  (* the single primary-key column (here even AUTO_INCREMENT) is dropped and another primary key follows *)
  sim_proved_for_r3 w_keys_schema (DeleteColumn "t" "id") = false /\
  sim_proved_for w_keys_schema (DeleteColumn "t" "id") = true /\
  sim_proved_for (step w_keys_schema (DeleteColumn "t" "id")) (AddConstraint "t" (CPrimaryKey false ["name"])) = true /\
  migration_ok w_keys_schema w_pk_drop_plan = true /\
  rename_column_sim_hyp w_named_schema (RenameColumn "t" "u_id" "owner_id") = false /\
  rename_column_named_sim_hyp w_named_schema (RenameColumn "t" "u_id" "owner_id") = true /\
  sim_proved_for_r3 w_named_schema (RenameColumn "t" "u_id" "owner_id") = false /\
  sim_proved_for w_named_schema (RenameColumn "t" "u_id" "owner_id") = true /\
  migration_ok w_named_schema [RenameColumn "t" "u_id" "owner_id"] = true /\
  (* the unnamed index over the renamed column stays excluded: its derived name drifts (C04-names-after-rename) *)
  sim_proved_for w_named_schema (RenameColumn "t" "n" "m") = false /\
  known_C04_rename_drift w_named_schema [RenameColumn "t" "n" "m"] = true.
Proof. vm_compute. repeat split; reflexivity. Qed.
