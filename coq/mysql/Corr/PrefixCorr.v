(* O-C14(mysql): the implementation run on the literally renamed project (tables prefix+name) must emit the
   statements of the original project renamed by rename_stmt; and the model must agree on the renamed input. *)
From VV.M1 Require Export PrefixHyp.
From VV.MYSQL Require Export MysqlCorr Names.

Definition rename_impl (p : string) (r : impl_result) : impl_result :=
  match r with IOk l => IOk (map (map (rename_stmt p)) l) | other => other end.
Definition impl_eqb (a b : impl_result) : bool :=
  match a, b with
  | IOk l, IOk l' => stmts_eqb l l'
  | IErr, IErr | IPanic, IPanic => true
  | _, _ => false
  end.
(* sub-checks: 1 implementation equivariant; 2 model = implementation on the renamed input *)
Definition check_literal (p : string) (cl : mysql_case * impl_result) : list nat :=
  let '(c, lit) := cl in
  (if impl_eqb (rename_impl p (mc_impl c)) lit then [] else [1%nat])
  ++ (match gen_plan (literal_schema p (mc_base c)) (map (literal_action p) (mc_actions c)), lit with
      | Ok l, IOk l' => if stmts_eqb l l' then [] else [2%nat]
      | Err _, IErr => []
      | _, _ => [2%nat]
      end).
Fixpoint literal_mismatches_from (p : string) (i : nat) (cs : list (mysql_case * impl_result)) : list (nat * list nat) :=
  match cs with
  | [] => []
  | c :: r => match check_literal p c with
              | [] => literal_mismatches_from p (S i) r
              | l => (i, l) :: literal_mismatches_from p (S i) r
              end
  end.

(* sub-check 3: MigrationPlan::with_prefix = literal renaming on the implementation (D10 repaired), whenever
   every inline foreign key of the plan parses *)
Definition check_with_prefix (p : string) (x : mysql_case * impl_result * impl_result) : list nat :=
  let '(c, lit, wp) := x in
  check_literal p (c, lit)
  ++ (if forallb inline_fks_parse (mc_actions c) then (if impl_eqb wp lit then [] else [3%nat]) else []).
Fixpoint with_prefix_mismatches_from (p : string) (i : nat) (cs : list (mysql_case * impl_result * impl_result)) : list (nat * list nat) :=
  match cs with
  | [] => []
  | c :: r => match check_with_prefix p c with
              | [] => with_prefix_mismatches_from p (S i) r
              | l => (i, l) :: with_prefix_mismatches_from p (S i) r
              end
  end.
