(* Correspondence K-sql(mysql) and oracle O-C04 for the MYSQL layer.  The harness prints, per migration, the
   baseline, the plan, the replayed result and (parsed by tools/mysql_sqlparse.py) the MySQL statements THE
   IMPLEMENTATION emitted; everything below is evaluated by vm_compute on those terms.  No proofs here. *)
From VV.M1 Require Export Corr.
From VV.MYSQL Require Export Engine Assumptions Known Spec SpecKeys SpecCreate SpecFk SpecPending.

Inductive impl_result :=
| IOk (l : list (list stmt))      (* per action, empty strings dropped *)
| IErr                            (* QueryError (kind only) *)
| IPanic.

Record mysql_case := mkMC {
  mc_base : schema;                (* schema_from_plans(history[..k]) *)
  mc_actions : list action;        (* history[k].actions *)
  mc_after : result schema ek;     (* schema_from_plans(history[..=k]) *)
  mc_impl : impl_result;           (* the MySQL statements of build_plan_queries (or of its MySQL-only loop) *)
  mc_whole : nat                   (* build_plan_queries as a whole: 0 ok, 1 Err, 2 panic (another backend's builder) *)
}.

Definition stmts_eqb : list (list stmt) -> list (list stmt) -> bool := dec_b (list_eq_dec (list_eq_dec stmt_eq_dec)).

Definition model_after (c : mysql_case) : result schema ek :=
  map_err ek_of_planner (apply_all (mc_base c) (mc_actions c)).

(* sub-checks: 1 K-sql(mysql) gen_plan = implementation; 2 K-apply on this input; 3 whole-call error kind *)
Definition check_case (c : mysql_case) : list nat :=
  (match gen_plan (mc_base c) (mc_actions c), mc_impl c with
   | Ok l, IOk l' => if stmts_eqb l l' then [] else [1%nat]
   | Err _, IErr => []
   | _, _ => [1%nat]
   end)
  ++ (if res_eqb schema_eq_dec ek_eq_dec (model_after c) (mc_after c) then [] else [2%nat])
  ++ (match mc_whole c with
      | 0%nat => if plan_build_err (mc_base c) (mc_actions c) then [3%nat] else []
      | 1%nat => if plan_build_err (mc_base c) (mc_actions c) then [] else [3%nat]
      | _ => []          (* a panic inside another backend's builder is not modelled here (C02/C03/C16) *)
      end).

Fixpoint mismatches_from (i : nat) (cs : list mysql_case) : list (nat * list nat) :=
  match cs with
  | [] => []
  | c :: r => match check_case c with
              | [] => mismatches_from (S i) r
              | l => (i, l) :: mismatches_from (S i) r
              end
  end.

(* ---------- O-C04: the implementation's statements run by the engine model ---------- *)
Definition diff_tag (d : cat_diff) : string :=
  match d with
  | DTableMissing t => "table-missing:" +++ t
  | DTableExtra t => "table-left-over:" +++ t
  | DColumns t => "columns:" +++ t
  | DPrimary t => "primary-key:" +++ t
  | DIndexes t => "indexes:" +++ t
  | DForeignKeys t => "foreign-keys:" +++ t
  | DChecks t => "checks:" +++ t
  end.

(* code: 0 holds, 1 engine error, 2 catalog differs, 3 not judged (outside A1-A7 / no statements), 4 the
   implementation refused or panicked on a replayable plan *)
Record verdict := mkV { v_code : nat; v_stmt : nat; v_rule : string; v_object : string; v_known : list bool }.

Definition oracle (c : mysql_case) : verdict :=
  let known := map (fun k => k (mc_base c) (mc_actions c)) known_classifiers in
  match mc_after c with
  | Err _ => mkV 3 0 "history does not replay" "" []
  | Ok after =>
      if negb (assumptions_ok (mc_base c) && assumptions_ok after && plan_a6_ok (mc_base c) (mc_actions c))%bool
      then mkV 3 0 "outside the sanity assumptions A1-A7" (first_violated (mc_base c) after) []
      else
        match mc_impl c with
        | IErr => mkV 4 0 "build_plan_queries returned an error" "" known
        | IPanic => mkV 4 0 "the MySQL builder panicked" "" known
        | IOk l =>
            match run (catalog_of (mc_base c)) (List.concat l) with
            | RunErr i (EErr rule obj) => mkV 1 i rule obj known
            | RunOk cat =>
                if catalog_eqb cat (catalog_of after) then mkV 0 0 "" "" []
                else mkV 2 0 "catalog differs from catalog_of (replayed baseline)"
                         (join " " (map diff_tag (catalog_diffs cat (catalog_of after)))) known
            end
        end
  end.

Fixpoint verdicts_from (i : nat) (cs : list mysql_case) : list (nat * verdict) :=
  match cs with
  | [] => []
  | c :: r => let v := oracle c in
              match v_code v with
              | 0%nat => verdicts_from (S i) r
              | _ => (i, v) :: verdicts_from (S i) r
              end
  end.

(* theorem coverage: how many cases fall under the hypotheses of the proved lemmas *)
Definition count_if {A} (p : A -> bool) (l : list A) : nat := List.length (filter p l).

(* ModifyColumn* actions of a plan that target an existing column and replay, and how many of them satisfy
   the hypothesis of C04_modify_preserves; (total, under hypothesis, on an auto-increment column) *)
Fixpoint modify_stats (s : schema) (acts : list action) : nat * nat * nat :=
  match acts with
  | [] => (0, 0, 0)%nat
  | a :: r =>
      let '(n, h, k) := modify_stats (step s a) r in
      match modify_target a with
      | Some (t, c) =>
          match lookup_column s t c, apply_action s a with
          | Some col, Ok _ =>
              (S n, if modify_default_ok a col then S h else h, if is_auto_col s t c then S k else k)
          | _, _ => (n, h, k)
          end
      | None => (n, h, k)
      end
  end.
Definition hyp_stats (cs : list mysql_case) : nat * nat * nat :=
  fold_left (fun acc c => let '(n, h, k) := acc in
                          let '(n', h', k') := modify_stats (mc_base c) (mc_actions c) in
                          (n + n', h + h', k + k')%nat) cs (0, 0, 0)%nat.
(* migrations that are judged, lie outside every known class, and hold *)
Definition outside_stats (cs : list mysql_case) : nat * nat :=
  fold_left (fun acc c =>
               let '(o, okn) := acc in
               if (judged (mc_base c) (mc_actions c) && negb (in_known_class (mc_base c) (mc_actions c)))%bool
               then (S o, if Nat.eqb (v_code (oracle c)) 0 then S okn else okn) else (o, okn)) cs (0, 0)%nat.

(* actions of judged migrations, and how many fall under a proved simulation lemma (sim_proved_for) *)
Fixpoint sim_stats_plan (s : schema) (acts : list action) : nat * nat :=
  match acts with
  | [] => (0, 0)%nat
  | a :: r => let '(n, k) := sim_stats_plan (step s a) r in (S n, if sim_proved_for s a then S k else k)
  end.
(* (actions, actions under a proved lemma, judged migrations, migrations all of whose actions are — those are
   covered by C04_Sim_plan_proved_kinds as a whole) *)
Definition sim_stats (cs : list mysql_case) : nat * nat * nat * nat :=
  fold_left (fun acc c => let '(n, k, m, w) := acc in
                          if judged (mc_base c) (mc_actions c)
                          then let '(n', k') := sim_stats_plan (mc_base c) (mc_actions c) in
                               (n + n', k + k', S m, if Nat.eqb n' k' then S w else w)%nat
                          else (n, k, m, w)) cs (0, 0, 0, 0)%nat.

(* judged migrations NOT proved as a whole by C04_Sim_plan_proved_kinds: how many are proved as a whole by the pending-set
   invariant (C04_SimP_plan_equiv), and how many more by the checked ghost-plan theorem (C04_SimP_plan_checked);
   (not proved by Sim_plan, of which SimP_plan_equiv, of which only the checked theorem) *)
Definition whole_plain (c : mysql_case) : bool :=
  let '(n, k) := sim_stats_plan (mc_base c) (mc_actions c) in Nat.eqb n k.
Definition simp_stats (cs : list mysql_case) : nat * nat * nat :=
  fold_left (fun acc c => let '(r, f, k) := acc in
                          if (judged (mc_base c) (mc_actions c) && negb (whole_plain c))%bool
                          then if simp_plan_full (mc_base c) (mc_actions c) then (S r, S f, k)
                               else if simp_plan_ok (mc_base c) (mc_actions c) then (S r, f, S k) else (S r, f, k)
                          else (r, f, k)) cs (0, 0, 0)%nat.

(* ---------- theorem coverage before / after widening the hypotheses ---------- *)
(* ModifyColumn* actions on existing columns that replay: [total; under the hypothesis of C04_modify_restates_all;
   in the (fixed) class C04-comment-lost-on-modify; of which THE IMPLEMENTATION's statements for that action contain a
   MODIFY COLUMN without a COMMENT clause (0 since fix N1); on an auto-increment key column whose new type supports
   AUTO_INCREMENT; of which the implementation's MODIFY COLUMN carries AUTO_INCREMENT (all since fix N1)] *)
Definition modify_without_comment (st : list stmt) : bool :=
  existsb (fun x => match x with SModifyColumn _ d => is_none (cd_comment d) | _ => false end) st.
Definition modify_with_auto (st : list stmt) : bool :=
  existsb (fun x => match x with SModifyColumn _ d => cd_auto d | _ => false end) st.
Fixpoint modify_all_stats (s : schema) (acts : list action) (impl : list (list stmt)) : list nat :=
  match acts with
  | [] => [0; 0; 0; 0; 0; 0]%nat
  | a :: r =>
      let rest := modify_all_stats (step s a) r (tl impl) in
      match modify_target a with
      | Some (t, c) =>
          match lookup_column s t c, apply_action s a with
          | Some col, Ok _ =>
              let lost := p_comment_lost s a in
              let auto := (is_auto_col s t c && supports_auto_increment (c_type (after_col a col)))%bool in
              let b2n := fun b : bool => if b then 1%nat else 0%nat in
              map (fun p => (fst p + snd p)%nat)
                  (combine rest [1%nat; b2n (modify_all_hyp a col); b2n lost;
                                 b2n (lost && modify_without_comment (hd [] impl))%bool;
                                 b2n auto; b2n (auto && modify_with_auto (hd [] impl))%bool])
          | _, _ => rest
          end
      | None => rest
      end
  end.
(* actions of a plan under the lemmas proved up to round 3 *)
Fixpoint sim_stats_plan_r3 (s : schema) (acts : list action) : nat * nat :=
  match acts with
  | [] => (0, 0)%nat
  | a :: r => let '(n, k) := sim_stats_plan_r3 (step s a) r in (S n, if sim_proved_for_r3 s a then S k else k)
  end.
(* ((the six numbers of modify_all_stats),
    (actions of judged migrations under a lemma BEFORE, judged migrations proved as a whole BEFORE,
     DeleteColumn actions: total / before / after, RenameColumn actions: total / before / after);
   cover_stats appends: judged migrations outside every known class, of which proved as a whole BEFORE / AFTER *)
Fixpoint kind_stats (s : schema) (acts : list action) : (nat * nat * nat) * (nat * nat * nat) :=
  match acts with
  | [] => ((0, 0, 0), (0, 0, 0))%nat
  | a :: r =>
      let '((d, db, da), (n, nb, na)) := kind_stats (step s a) r in
      match a with
      | DeleteColumn _ _ => ((S d, if sim_proved_for_r3 s a then S db else db, if sim_proved_for s a then S da else da), (n, nb, na))
      | RenameColumn _ _ _ => ((d, db, da), (S n, if sim_proved_for_r3 s a then S nb else nb, if sim_proved_for s a then S na else na))
      | _ => ((d, db, da), (n, nb, na))
      end
  end.
(* a judged migration outside every known class is proved AS A WHOLE by a plan-level theorem of Properties/C04.v:
   C04_Sim_plan_proved_kinds, C04_SimP_plan_equiv or C04_SimP_plan_checked; [_r3]: with the one-step lemmas of round 3 only *)
Fixpoint ghost_r3_ok (v : schema) (acts : list action) : bool :=
  match acts with
  | [] => true
  | a :: r => (sim_proved_for_r3 v (ghost_action a) && ghost_r3_ok (step v (ghost_action a)) r)%bool
  end.
Definition whole_proved (c : mysql_case) : bool :=
  (whole_plain c || simp_plan_full (mc_base c) (mc_actions c) || simp_plan_ok (mc_base c) (mc_actions c))%bool.
Definition whole_proved_r3 (c : mysql_case) : bool :=
  ((let '(n, k) := sim_stats_plan_r3 (mc_base c) (mc_actions c) in Nat.eqb n k)
   || ((simp_plan_full (mc_base c) (mc_actions c) || simp_plan_ok (mc_base c) (mc_actions c))
       && ghost_r3_ok (mc_base c) (mc_actions c)))%bool.
Definition cover_stats (cs : list mysql_case) : list nat :=
  fold_left (fun acc c =>
               let impl := match mc_impl c with IOk l => l | _ => [] end in
               let m := modify_all_stats (mc_base c) (mc_actions c) impl in
               let j := if judged (mc_base c) (mc_actions c)
                        then let '(a, k) := sim_stats_plan_r3 (mc_base c) (mc_actions c) in
                             let '((d, db, da), (rn, rb, ra)) := kind_stats (mc_base c) (mc_actions c) in
                             let o := negb (in_known_class (mc_base c) (mc_actions c)) in
                             [k; if Nat.eqb a k then 1 else 0; d; db; da; rn; rb; ra;
                              if o then 1 else 0; if (o && whole_proved_r3 c)%bool then 1 else 0;
                              if (o && whole_proved c)%bool then 1 else 0]%nat
                        else [0; 0; 0; 0; 0; 0; 0; 0; 0; 0; 0]%nat in
               map (fun p => (fst p + snd p)%nat) (combine acc (m ++ j)))
            cs [0; 0; 0; 0; 0; 0; 0; 0; 0; 0; 0; 0; 0; 0; 0; 0; 0]%nat.
