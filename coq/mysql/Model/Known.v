(* MYSQL layer: decidable classes of the known findings of C04, over (baseline schema, action list). *)
From VV.MYSQL Require Export Engine Assumptions.

Definition known_classifiers : list (schema -> list action -> bool) := [].
