(* MYSQL layer: decidable classes of the known findings of C04, as booleans over (baseline schema, action
   list).  Each class is a trigger evaluated along the evolving schema exactly as build_plan_queries evolves
   it.  The check accepts a failing input only if the class holds AND the observed symptom (engine rule /
   differing catalog component) is one the class explains (props/known_C04.proposed.json, "explains").
   The same booleans are the negated hypotheses of the simulation lemmas in Proofs/.  No proofs here. *)
From VV.MYSQL Require Export Engine Assumptions.

Definition step (s : schema) (a : action) : schema :=
  match apply_action s a with Ok s' => s' | Err _ => s end.

(* some action of the plan satisfies [p] in the schema it is generated from *)
Fixpoint along (p : schema -> action -> bool) (s : schema) (acts : list action) : bool :=
  match acts with
  | [] => false
  | a :: r => (p s a || along p (step s a) r)%bool
  end.

(* ---- D19: MODIFY COLUMN never restated AUTO_INCREMENT — FIXED by N1 (restate_mysql_column_attributes); the classifier
   is kept for the record and for theorem-coverage counts, it is no longer in known_classifiers ---- *)
Definition is_auto_col (s : schema) (t c : string) : bool := mem_str c (auto_increment_columns (constraints_of s t)).
Definition p_autoinc_modify (s : schema) (a : action) : bool :=
  match a with
  | ModifyColumnType t c _ _ | ModifyColumnNullable t c _ _ | ModifyColumnDefault t c _ | ModifyColumnComment t c _ =>
      is_auto_col s t c
  | _ => false
  end.
Definition known_C04_autoinc_lost := along p_autoinc_modify.

(* ---- D11: explicit CHECK constraints are left out of CREATE TABLE ---- *)
Definition is_check (k : table_constraint) : bool := match k with CCheck _ _ => true | _ => false end.
Definition p_create_with_check (s : schema) (a : action) : bool :=
  match a with CreateTable _ _ ks => existsb is_check ks | _ => false end.
Definition known_C04_check_missing := along p_create_with_check.

(* ---- D2: a table (or a referenced column) is dropped before the foreign key that points at it ---- *)
Definition referenced_by_other (s : schema) (t : string) : bool :=
  existsb (fun td => (negb (String.eqb (t_name td) t)
                      && existsb (fun k => match k with CForeignKey _ _ rt _ _ _ => String.eqb rt t | _ => false end)
                                 (t_constraints td))%bool) s.
Definition column_referenced (s : schema) (t c : string) : bool :=
  existsb (fun td => existsb (fun k => match k with
                                       | CForeignKey _ _ rt rcols _ _ => (String.eqb rt t && mem_str c rcols)%bool
                                       | _ => false
                                       end) (t_constraints td)) s.
Definition p_drop_referenced (s : schema) (a : action) : bool :=
  match a with
  | DeleteTable t => referenced_by_other s t
  | DeleteColumn t c => column_referenced s t c
  | _ => false
  end.
Definition known_C04_drop_before_unreference := along p_drop_referenced.

(* ---- a column that carries a foreign key is dropped while the key is still there (MySQL 1828) ---- *)
Definition p_drop_fk_column (s : schema) (a : action) : bool :=
  match a with
  | DeleteColumn t c =>
      existsb (fun k => match k with CForeignKey _ cols _ _ _ _ => mem_str c cols | _ => false end) (constraints_of s t)
  | _ => false
  end.
Definition known_C04_drop_fk_column := along p_drop_fk_column.

(* ---- D18: one member of a multi-column key is dropped ---- *)
Definition p_composite_member_drop (s : schema) (a : action) : bool :=
  match a with
  | DeleteColumn t c =>
      existsb (fun k => match k with
                        | CPrimaryKey _ cols | CUnique _ cols | CIndex _ cols =>
                            (mem_str c cols && Nat.leb 2 (List.length cols))%bool
                        | _ => false
                        end) (constraints_of s t)
  | _ => false
  end.
Definition known_C04_composite_member_drop := along p_composite_member_drop.

(* ---- the key of an AUTO_INCREMENT column is removed (the attribute itself is never removed) ---- *)
Definition p_autoinc_key_removed (s : schema) (a : action) : bool :=
  match a with RemoveConstraint _ (CPrimaryKey true _) => true | _ => false end.
Definition known_C04_autoinc_key_removed := along p_autoinc_key_removed.

(* ---- D13 (MySQL side): derived names and references after RenameTable / RenameColumn ---- *)
Definition has_derived_name (k : table_constraint) : bool :=
  match k with CUnique _ _ | CIndex _ _ | CForeignKey _ _ _ _ _ _ => true | _ => false end.
Definition p_rename_drift (s : schema) (a : action) : bool :=
  match a with
  | RenameTable from _ => (existsb has_derived_name (constraints_of s from) || referenced_by_other s from
                           || existsb (fun k => match k with CForeignKey _ _ rt _ _ _ => String.eqb rt from | _ => false end)
                                      (constraints_of s from))%bool
  | RenameColumn t c _ =>
      (existsb (fun k => match k with
                         | CUnique None cols | CIndex None cols | CForeignKey None cols _ _ _ _ => mem_str c cols
                         | _ => false
                         end) (constraints_of s t)
       || existsb (fun k => match k with CForeignKey _ _ _ rcols _ _ => mem_str c rcols | _ => false end) (constraints_of s t)
       || column_referenced s t c)%bool
  | _ => false
  end.
Definition known_C04_rename_drift := along p_rename_drift.

(* ---- DROP FOREIGN KEY leaves the implicitly created index behind ---- *)
Definition key_cols_of (ks : list table_constraint) : list (list string) :=
  flat_map (fun k => match k with CPrimaryKey _ cols | CUnique _ cols | CIndex _ cols => [cols] | _ => [] end) ks.
Definition p_fk_drop_leaves_index (s : schema) (a : action) : bool :=
  match a with
  | RemoveConstraint t (CForeignKey _ cols _ _ _ _) => negb (existsb (is_prefix cols) (key_cols_of (constraints_of s t)))
  | _ => false
  end.
Definition known_C04_fk_drop_leaves_index := along p_fk_drop_leaves_index.

(* ---- D16: two constraints of the resulting schema share a derived name ---- *)
Fixpoint has_dup (l : list string) : bool :=
  match l with [] => false | x :: r => (mem_str x r || has_dup r)%bool end.
Definition key_names (t : table_def) : list string :=
  flat_map (fun k => match k with
                     | CUnique n cols => [build_unique_constraint_name (t_name t) cols n]
                     | CIndex n cols => [build_index_name (t_name t) cols n]
                     | _ => []
                     end) (t_constraints t).
Definition fk_names (t : table_def) : list string := map fk_name (create_fks (t_name t) (t_constraints t)).
Definition derived_collision (s : schema) : bool :=
  (existsb (fun t => has_dup (key_names t)) s || has_dup (flat_map fk_names s))%bool.
(* in the baseline already (the believed catalog then holds two objects of one name), or after some action, or the plan
   adds the same derived name twice to one table (a constraint declared twice in the model: apply_action keeps one
   copy, the planner emits two AddConstraint actions, the second CREATE INDEX / ADD CONSTRAINT is a duplicate) *)
Definition added_name (a : action) : list string :=
  match a with
  | AddConstraint t (CUnique n cols) => [t +++ "." +++ build_unique_constraint_name t cols n]
  | AddConstraint t (CIndex n cols) => [t +++ "." +++ build_index_name t cols n]
  | AddConstraint t (CForeignKey n cols _ _ _ _) => [build_foreign_key_name t cols n]
  | _ => []
  end.
Definition known_C04_derived_name_collision (s : schema) (acts : list action) : bool :=
  (derived_collision s || along (fun s a => derived_collision (step s a)) s acts || has_dup (flat_map added_name acts))%bool.

(* ---- explicit CHECK names are per table in the model, per schema in MySQL ---- *)
Definition check_names (t : table_def) : list string :=
  flat_map (fun k => match k with CCheck n _ => [n] | _ => [] end) (t_constraints t).
Definition known_C04_check_name_scope (s : schema) (acts : list action) : bool :=
  (has_dup (flat_map check_names s) || along (fun s a => has_dup (flat_map check_names (step s a))) s acts)%bool.

(* ---- a key that a foreign key relies on (no implicit index was ever needed) is removed ---- *)
Definition p_key_needed_by_fk (s : schema) (a : action) : bool :=
  match a with
  | RemoveConstraint t (CPrimaryKey _ cols) | RemoveConstraint t (CUnique _ cols) | RemoveConstraint t (CIndex _ cols) =>
      (existsb (fun k => match k with CForeignKey _ fc _ _ _ _ => is_prefix fc cols | _ => false end) (constraints_of s t)
       || existsb (fun td => existsb (fun k => match k with
                                               | CForeignKey _ _ rt rc _ _ => (String.eqb rt t && is_prefix rc cols)%bool
                                               | _ => false
                                               end) (t_constraints td)) s)%bool
  | _ => false
  end.
Definition known_C04_key_needed_by_fk := along p_key_needed_by_fk.

(* ---- every column of a table is replaced: all DeleteColumn actions precede the AddColumn actions ---- *)
Definition p_last_column_drop (s : schema) (a : action) : bool :=
  match a with
  | DeleteColumn t _ => match find_table t s with Some td => Nat.leb (List.length (t_columns td)) 1 | None => false end
  | _ => false
  end.
Definition known_C04_last_column_drop := along p_last_column_drop.

(* ---- an auto-increment primary key is added to an existing table: ADD PRIMARY KEY has no AUTO_INCREMENT ---- *)
Definition p_autoinc_pk_added (s : schema) (a : action) : bool :=
  match a with AddConstraint _ (CPrimaryKey true _) => true | _ => false end.
Definition known_C04_autoinc_not_added := along p_autoinc_pk_added.

(* ---- apply_action's drop_column_from_constraints also filters ref_columns: deleting a LOCAL column whose name
   equals a referenced column's name removes the foreign key from the baseline; MySQL keeps it ---- *)
Definition p_fk_lost_by_ref_name (s : schema) (a : action) : bool :=
  match a with
  | DeleteColumn t c =>
      existsb (fun k => match k with
                        | CForeignKey _ cols _ rcols _ _ => (mem_str c rcols && negb (mem_str c cols))%bool
                        | _ => false
                        end) (constraints_of s t)
  | _ => false
  end.
Definition known_C04_fk_lost_by_ref_name := along p_fk_lost_by_ref_name.

(* ---- C06 "reference added later": a foreign key is created before its target table / column / key exists
   (CreateTable is hoisted to the front; the target's key is re-made later in the same plan) ---- *)
Definition fk_target_ready (s : schema) (rt : string) (rcols : list string) : bool :=
  match find_table rt s with
  | Some r => (forallb (fun c => has_column c r) rcols && existsb (is_prefix rcols) (key_cols_of (t_constraints r)))%bool
  | None => false
  end.
Definition p_reference_added_later (s : schema) (a : action) : bool :=
  match a with
  | AddConstraint _ (CForeignKey _ _ rt rcols _ _) => negb (fk_target_ready s rt rcols)
  | CreateTable t cols ks =>
      match normalize (mkTable t None cols ks) with
      | Ok n => existsb (fun k => match k with
                                  | CForeignKey _ _ rt rcols _ _ => (negb (String.eqb rt t) && negb (fk_target_ready s rt rcols))%bool
                                  | _ => false
                                  end) (t_constraints n)
      | Err _ => false
      end
  | _ => false
  end.
Definition known_C04_reference_added_later := along p_reference_added_later.

(* ---- C01-shadowed-inline-declaration on MySQL: replay re-normalises the table after AddColumn and promotes the
   column's inline foreign_key / unique / index / primary_key to a table constraint of the baseline, but ADD COLUMN
   creates none of them; they reach the database only if an EQUAL AddConstraint follows in the plan.  When the model
   shadows the inline declaration by a different table-level constraint (e.g. a named foreign key on the same column)
   the planner emits only that one, and the promoted constraint stays in the baseline for ever ---- *)
Definition new_constraints (s : schema) (t : string) (a : action) : list table_constraint :=
  filter (fun k => negb (contains_constraint k (constraints_of s t))) (constraints_of (step s a) t).
Definition adds_later (t : string) (k : table_constraint) (rest : list action) : bool :=
  existsb (fun x => match x with
                    | AddConstraint t' k' => (String.eqb t' t && constraint_eqb k' k)%bool
                    | _ => false
                    end) rest.
Fixpoint known_C04_inline_orphan (s : schema) (acts : list action) : bool :=
  match acts with
  | [] => false
  | a :: r =>
      (match a with
       | AddColumn t _ _ => existsb (fun k => negb (adds_later t k r)) (new_constraints s t a)
       | _ => false
       end || known_C04_inline_orphan (step s a) r)%bool
  end.

(* order = order of the "classifier" fields looked up by checks/mysqlrun.py *)
Definition known_classifiers : list (schema -> list action -> bool) :=
  [known_C04_check_missing; known_C04_drop_before_unreference; known_C04_drop_fk_column; known_C04_composite_member_drop; known_C04_autoinc_key_removed; known_C04_rename_drift; known_C04_fk_drop_leaves_index; known_C04_derived_name_collision; known_C04_check_name_scope; known_C04_key_needed_by_fk; known_C04_last_column_drop; known_C04_autoinc_not_added; known_C04_fk_lost_by_ref_name; known_C04_reference_added_later; known_C04_inline_orphan].
