(* MYSQL layer: the names under which gen creates and drops constraints / indexes (for C19), and the literal
   renaming of statements (for C14).  Definitions only. *)
From VV.MYSQL Require Export Spec.

(* (table addressed, object name) of a creating / dropping statement; the primary key is PRIMARY *)
Definition created_name (st : stmt) : option (string * string) :=
  match st with
  | SCreateIndex _ n t _ => Some (t, n)
  | SAddUnique t n _ => Some (t, n)
  | SAddFk t f => Some (t, fk_name f)
  | SAddCheck t n _ => Some (t, n)
  | SAddPk t _ => Some (t, "PRIMARY")
  | _ => None
  end.
Definition dropped_name (st : stmt) : option (string * string) :=
  match st with
  | SDropIndexOn n t => Some (t, n)
  | SAlterDropIndex t n => Some (t, n)
  | SDropFk t n => Some (t, n)
  | SDropCheck t n => Some (t, n)
  | SDropPk t => Some (t, "PRIMARY")
  | _ => None
  end.

(* AddConstraint path / RemoveConstraint path *)
Definition add_path_names (t : string) (k : table_constraint) : list (option (string * string)) :=
  map created_name (gen_add_constraint t k).
Definition remove_path_names (t : string) (k : table_constraint) : list (option (string * string)) :=
  map dropped_name (gen_remove_constraint t k).

(* CreateTable path: what the CREATE TABLE statement (PRIMARY KEY / inline UNIQUE KEY / CONSTRAINT .. FOREIGN
   KEY clauses) and the CREATE INDEX statements that follow it create for ONE constraint of the normalised
   table.  create_keys / create_fks / create_indexes are flat_maps, so the clauses of a table are the
   concatenation of the clauses of its constraints (create_clauses_flat below). *)
Definition create_path_names (t : string) (k : table_constraint) : list (option (string * string)) :=
  map (fun kc => match kc with KPrimary _ => Some (t, "PRIMARY") | KUnique n _ => Some (t, n) end) (create_keys t [k])
  ++ map (fun f => Some (t, fk_name f)) (create_fks t [k])
  ++ map created_name (create_indexes t [k]).

(* ---------- C14: the statement of the literally renamed project ---------- *)
(* derived names are uq_/ix_/fk_ + table + "__" + ...: the table part starts right after the 3-byte tag *)
Definition rename_name (p n : string) : string :=
  match n with
  | String a (String b (String c r)) =>
      if mem_str (String a (String b (String c EmptyString))) ["uq_"; "ix_"; "fk_"]
      then String a (String b (String c (p +++ r))) else n
  | _ => n
  end.
Definition rename_fk (p : string) (f : fkdef) : fkdef :=
  mkFk (rename_name p (fk_name f)) (fk_cols f) (p +++ fk_rtable f) (fk_rcols f) (fk_on_delete f) (fk_on_update f).
Definition rename_key (p : string) (k : key_clause) : key_clause :=
  match k with KPrimary c => KPrimary c | KUnique n c => KUnique (rename_name p n) c end.
(* table names and the table part of derived index / foreign-key names; CHECK names are user-chosen *)
Definition rename_stmt (p : string) (st : stmt) : stmt :=
  match st with
  | SCreateTable t cols keys fks checks => SCreateTable (p +++ t) cols (map (rename_key p) keys) (map (rename_fk p) fks) checks
  | SDropTable t => SDropTable (p +++ t)
  | SRenameTable a b => SRenameTable (p +++ a) (p +++ b)
  | SCreateIndex u n t cols => SCreateIndex u (rename_name p n) (p +++ t) cols
  | SDropIndexOn n t => SDropIndexOn (rename_name p n) (p +++ t)
  | SAlterDropIndex t n => SAlterDropIndex (p +++ t) (rename_name p n)
  | SAddColumn t c => SAddColumn (p +++ t) c
  | SDropColumn t c => SDropColumn (p +++ t) c
  | SRenameColumn t a b => SRenameColumn (p +++ t) a b
  | SModifyColumn t c => SModifyColumn (p +++ t) c
  | SAddFk t f => SAddFk (p +++ t) (rename_fk p f)
  | SDropFk t n => SDropFk (p +++ t) (rename_name p n)
  | SAddCheck t n e => SAddCheck (p +++ t) n e
  | SDropCheck t n => SDropCheck (p +++ t) n
  | SAddUnique t n cols => SAddUnique (p +++ t) (rename_name p n) cols
  | SAddPk t cols => SAddPk (p +++ t) cols
  | SDropPk t => SDropPk (p +++ t)
  | SUpdate t col e w => SUpdate (p +++ t) col e w
  | SRaw x => SRaw x
  end.
Definition rename_error (p : string) (e : gen_error) : gen_error :=
  match e with
  | GenNormalize => GenNormalize
  | GenTableNotFound t => GenTableNotFound (p +++ t)
  | GenColumnNotFound t c => GenColumnNotFound (p +++ t) c
  end.
Definition rename_result (p : string) (r : result (list stmt) gen_error) : result (list stmt) gen_error :=
  match r with Ok l => Ok (map (rename_stmt p) l) | Err e => Err (rename_error p e) end.
