(* MYSQL layer: catalog model of MySQL 8 (InnoDB) for the statements of Ast.v.  MODELLED, NOT VERIFIED:
   no MySQL server exists in the sandbox; every rule is written from DESIGN.md Appendix B (MySQL table)
   and the MySQL 8.0 reference manual, cited by rule id [Mnn] and, where there is one, the server error
   number.  Only object-lifetime / namespace / attribute rules; rows, type compatibility and the validity
   of opaque expressions are not judged.  Only refusals the engine certainly makes are modelled.
   No proofs here. *)
From VV.MYSQL Require Export Gen.

Record mcol := mkMCol {
  mc_name : string;
  mc_type : string;             (* rendered type text *)
  mc_notnull : bool;
  mc_default : option string;   (* default expression text *)
  mc_auto : bool }.

Record mindex := mkMIndex {
  ix_name : string;
  ix_cols : list string;
  ix_unique : bool;
  ix_generated : bool }.        (* created implicitly for a foreign key [M10] *)

Record mtable := mkMTable {
  tb_name : string;
  tb_cols : list mcol;
  tb_pk : option (list string);
  tb_indexes : list mindex;
  tb_fks : list fkdef;
  tb_checks : list (string * string) }.

Definition catalog := list mtable.

Inductive engine_error := EErr (rule : string) (object : string).

Definition mcol_eq_dec (x y : mcol) : {x = y} + {x <> y}.
Proof. decide equality; auto using string_dec, bool_dec; apply option_eq_dec, string_dec. Defined.
Definition mindex_eq_dec (x y : mindex) : {x = y} + {x <> y}.
Proof. decide equality; auto using string_dec, bool_dec; apply list_eq_dec, string_dec. Defined.
Definition mtable_eq_dec (x y : mtable) : {x = y} + {x <> y}.
Proof.
  decide equality; auto using string_dec;
    try (apply list_eq_dec; auto using mcol_eq_dec, mindex_eq_dec, fkdef_eq_dec; apply pair_eq_dec; apply string_dec).
  apply option_eq_dec, list_eq_dec, string_dec.
Defined.
Definition catalog_eq_dec : forall x y : catalog, {x = y} + {x <> y} := list_eq_dec mtable_eq_dec.

(* ---------- small helpers ---------- *)
Definition find_tb (n : string) (c : catalog) : option mtable :=
  find (fun t => String.eqb (tb_name t) n) c.
Definition has_tb (n : string) (c : catalog) : bool := is_some (find_tb n c).
Definition replace_tb (t' : mtable) (n : string) (c : catalog) : catalog :=
  map (fun t => if String.eqb (tb_name t) n then t' else t) c.
Definition has_mcol (n : string) (t : mtable) : bool := existsb (fun c => String.eqb (mc_name c) n) (tb_cols t).
Definition all_cols_exist (cols : list string) (t : mtable) : bool := forallb (fun c => has_mcol c t) cols.
Definition has_index (n : string) (t : mtable) : bool := existsb (fun i => String.eqb (ix_name i) n) (tb_indexes t).

Fixpoint is_prefix (p l : list string) : bool :=
  match p, l with
  | [], _ => true
  | x :: p', y :: l' => (String.eqb x y && is_prefix p' l')%bool
  | _ :: _, [] => false
  end.

(* column lists of every key of the table: PRIMARY first, then the named indexes *)
Definition key_col_lists (t : mtable) : list (list string) :=
  (match tb_pk t with Some p => [p] | None => [] end) ++ map ix_cols (tb_indexes t).
(* some key has [cols] as its leftmost columns: what a foreign key needs on either side [M10] *)
Definition covered (cols : list string) (t : mtable) : bool :=
  (nonempty cols && existsb (is_prefix cols) (key_col_lists t))%bool.

Definition all_fk_names (c : catalog) : list string := flat_map (fun t => map fk_name (tb_fks t)) c.
Definition all_check_names (c : catalog) : list string := flat_map (fun t => map fst (tb_checks t)) c.

(* foreign keys of any table that reference table [n] *)
Definition inbound_fks (n : string) (c : catalog) : list (string * fkdef) :=
  flat_map (fun t => map (fun f => (tb_name t, f)) (filter (fun f => String.eqb (fk_rtable f) n) (tb_fks t))) c.

(* every foreign key that touches the table still finds its index: child side (own FKs) and parent side
   (FKs of any table that reference it) [M10, error 1553 when an ALTER would break this] *)
Definition fks_served (t : mtable) (c : catalog) : bool :=
  (forallb (fun f => covered (fk_cols f) t) (tb_fks t)
   && forallb (fun tf => covered (fk_rcols (snd tf)) t) (inbound_fks (tb_name t) c))%bool.

(* [M1c, error 1075] there can be only one auto column and it must be defined as a key
   (the first column of PRIMARY or of some index) *)
Definition auto_ok (t : mtable) : bool :=
  match filter mc_auto (tb_cols t) with
  | [] => true
  | [a] => existsb (fun k => match k with x :: _ => String.eqb x (mc_name a) | [] => false end) (key_col_lists t)
  | _ => false
  end.

(* [M-GEN] "Such an index is created on the referencing table automatically if it does not exist.  This
   index might be silently dropped later if you create another index that can be used to enforce the
   foreign key constraint" (manual, FOREIGN KEY Constraints): an implicitly created index whose columns are
   the leftmost columns of a newly added explicit key is removed. *)
Definition drop_redundant_generated (newcols : list string) (l : list mindex) : list mindex :=
  filter (fun i => negb (ix_generated i && is_prefix (ix_cols i) newcols)) l.

(* [1063 Incorrect column specifier] AUTO_INCREMENT is accepted on integer (and, deprecated, floating-point) columns
   only (manual, "Using AUTO_INCREMENT"; CREATE TABLE, column_definition) *)
Definition auto_type_ok (ty : string) : bool :=
  mem_str ty ["tinyint"; "smallint"; "mediumint"; "int"; "integer"; "bigint"; "float"; "double"].
Definition auto_spec_ok (d : coldef) : bool := (negb (cd_auto d) || auto_type_ok (cd_type d))%bool.

Definition mcol_of_def (d : coldef) : mcol :=
  mkMCol (cd_name d) (cd_type d) (cd_notnull d) (cd_default d) (cd_auto d).

(* PRIMARY KEY columns are NOT NULL: "if they are not explicitly declared as NOT NULL, MySQL declares them
   so implicitly" [M1d] *)
Definition force_notnull (pk : list string) (cols : list mcol) : list mcol :=
  map (fun c => if mem_str (mc_name c) pk then mkMCol (mc_name c) (mc_type c) true (mc_default c) (mc_auto c) else c) cols.

(* ---------- adding a foreign key (CREATE TABLE or ALTER TABLE) [M10] ---------- *)
Definition add_fk (self : mtable) (c : catalog) (f : fkdef) : result mtable engine_error :=
  if mem_str (fk_name f) (all_fk_names c) || mem_str (fk_name f) (map fk_name (tb_fks self))
  then Err (EErr "M10a duplicate foreign key constraint name in the schema (1826)" (fk_name f))
  else if negb (nonempty (fk_cols f) && Nat.eqb (List.length (fk_cols f)) (List.length (fk_rcols f)))%bool
  then Err (EErr "M10b incorrect foreign key definition (1239)" (fk_name f))
  else if negb (all_cols_exist (fk_cols f) self)
  then Err (EErr "M10c foreign key column does not exist in the table (1072)" (fk_name f))
  else
    let target := if String.eqb (fk_rtable f) (tb_name self) then Some self else find_tb (fk_rtable f) c in
    match target with
    | None => Err (EErr "M10d referenced table does not exist (1824)" (fk_rtable f))
    | Some r =>
        if negb (all_cols_exist (fk_rcols f) r)
        then Err (EErr "M10e referenced column does not exist (3734)" (fk_name f))
        else if negb (covered (fk_rcols f) r)
        then Err (EErr "M10f missing index for the constraint in the referenced table (1822)" (fk_name f))
        else
          let idx := if covered (fk_cols f) self then tb_indexes self
                     else tb_indexes self ++ [mkMIndex (fk_name f) (fk_cols f) false true] in
          Ok (mkMTable (tb_name self) (tb_cols self) (tb_pk self) idx (tb_fks self ++ [f]) (tb_checks self))
    end.

Fixpoint add_fks (self : mtable) (c : catalog) (fs : list fkdef) : result mtable engine_error :=
  match fs with
  | [] => Ok self
  | f :: r => match add_fk self c f with Err e => Err e | Ok t' => add_fks t' c r end
  end.

Fixpoint add_checks (t : mtable) (c : catalog) (ks : list (string * string)) : result mtable engine_error :=
  match ks with
  | [] => Ok t
  | (n, e) :: r =>
      if mem_str n (all_check_names c) || mem_str n (map fst (tb_checks t))
      then Err (EErr "M12a duplicate check constraint name in the schema (3822)" n)
      else add_checks (mkMTable (tb_name t) (tb_cols t) (tb_pk t) (tb_indexes t) (tb_fks t) (tb_checks t ++ [(n, e)])) c r
  end.

(* adding one explicit key (unique or not) to a table: CREATE INDEX, UNIQUE KEY clause [M4].
   The index list is kept in three segments — unique keys, plain keys, implicitly created keys — each in
   creation order; a catalog has no key order, the layout only makes catalogs comparable with (=). *)
Definition seg_unique (l : list mindex) : list mindex := filter (fun i => (ix_unique i && negb (ix_generated i))%bool) l.
Definition seg_plain (l : list mindex) : list mindex := filter (fun i => (negb (ix_unique i) && negb (ix_generated i))%bool) l.
Definition seg_generated (l : list mindex) : list mindex := filter ix_generated l.
Definition insert_index (i : mindex) (l : list mindex) : list mindex :=
  if ix_unique i then seg_unique l ++ [i] ++ seg_plain l ++ seg_generated l
  else seg_unique l ++ seg_plain l ++ [i] ++ seg_generated l.

Definition add_index (t : mtable) (uniq : bool) (name : string) (cols : list string) : result mtable engine_error :=
  if (has_index name t || String.eqb name "PRIMARY")%bool
  then Err (EErr "M4a duplicate key name (1061)" name)
  else if negb (nonempty cols && all_cols_exist cols t)%bool
  then Err (EErr "M4b key column does not exist in the table (1072)" name)
  else Ok (mkMTable (tb_name t) (tb_cols t) (tb_pk t)
             (insert_index (mkMIndex name cols uniq false) (drop_redundant_generated cols (tb_indexes t)))
             (tb_fks t) (tb_checks t)).

Definition add_pk (t : mtable) (cols : list string) : result mtable engine_error :=
  match tb_pk t with
  | Some _ => Err (EErr "M13a multiple primary key defined (1068)" (tb_name t))
  | None =>
      if negb (nonempty cols && all_cols_exist cols t)%bool
      then Err (EErr "M13b key column does not exist in the table (1072)" (tb_name t))
      else Ok (mkMTable (tb_name t) (force_notnull cols (tb_cols t)) (Some cols)
                 (drop_redundant_generated cols (tb_indexes t)) (tb_fks t) (tb_checks t))
  end.

Fixpoint add_keys (t : mtable) (ks : list key_clause) : result mtable engine_error :=
  match ks with
  | [] => Ok t
  | KPrimary cols :: r => match add_pk t cols with Err e => Err e | Ok t' => add_keys t' r end
  | KUnique n cols :: r => match add_index t true n cols with Err e => Err e | Ok t' => add_keys t' r end
  end.

Definition with_tb (c : catalog) (n : string) (f : mtable -> result catalog engine_error) : result catalog engine_error :=
  match find_tb n c with
  | None => Err (EErr "M0 table does not exist (1146)" n)
  | Some t => f t
  end.
Definition set_tb (c : catalog) (n : string) (r : result mtable engine_error) : result catalog engine_error :=
  match r with Err e => Err e | Ok t' => Ok (replace_tb t' n c) end.

Definition rename_in_fk_child (a b : string) (f : fkdef) : fkdef :=
  mkFk (fk_name f) (rename_in a b (fk_cols f)) (fk_rtable f) (fk_rcols f) (fk_on_delete f) (fk_on_update f).
Definition rename_in_fk_parent (a b : string) (f : fkdef) : fkdef :=
  mkFk (fk_name f) (fk_cols f) (fk_rtable f) (rename_in a b (fk_rcols f)) (fk_on_delete f) (fk_on_update f).

(* ---------- exec ---------- *)
Definition exec (c : catalog) (s : stmt) : result catalog engine_error :=
  match s with
  | SCreateTable t cols keys fks checks =>
      (* [M1] CREATE TABLE: name free (1050); distinct columns (1060); one PRIMARY KEY (1068); key rules [M4];
         foreign keys [M10]; checks [M12]; auto column [M1c] *)
      if has_tb t c then Err (EErr "M1a table already exists (1050)" t)
      else if negb (nodup_str (map cd_name cols)) then Err (EErr "M1b duplicate column name (1060)" t)
      else if negb (forallb auto_spec_ok cols) then Err (EErr "M1e incorrect column specifier: AUTO_INCREMENT on a non-numeric column (1063)" t)
      else
        let inline_pk := map cd_name (filter cd_pk cols) in
        let t0 := mkMTable t (map mcol_of_def cols) None [] [] [] in
        let keys' := (match inline_pk with [] => [] | _ => map (fun n => KPrimary [n]) inline_pk end) ++ keys in
        match add_keys t0 keys' with
        | Err e => Err e
        | Ok t1 =>
            match add_fks t1 c fks with
            | Err e => Err e
            | Ok t2 =>
                match add_checks t2 c checks with
                | Err e => Err e
                | Ok t3 => if auto_ok t3 then Ok (c ++ [t3])
                           else Err (EErr "M1c there can be only one auto column and it must be defined as a key (1075)" t)
                end
            end
        end
  | SDropTable t =>
      (* [M2] exists (1051); not referenced by another table's foreign key (3730) *)
      with_tb c t (fun _ =>
        if existsb (fun tf => negb (String.eqb (fst tf) t)) (inbound_fks t c)
        then Err (EErr "M2b cannot drop table referenced by a foreign key constraint (3730)" t)
        else Ok (filter (fun x => negb (String.eqb (tb_name x) t)) c))
  | SRenameTable a b =>
      (* [M3] target name free (1050); index and constraint names unchanged; foreign keys that reference
         the table follow it *)
      with_tb c a (fun _ =>
        if has_tb b c then Err (EErr "M3a table already exists (1050)" b)
        else Ok (map (fun t =>
                   mkMTable (if String.eqb (tb_name t) a then b else tb_name t) (tb_cols t) (tb_pk t) (tb_indexes t)
                     (map (fun f => if String.eqb (fk_rtable f) a
                                    then mkFk (fk_name f) (fk_cols f) b (fk_rcols f) (fk_on_delete f) (fk_on_update f)
                                    else f) (tb_fks t))
                     (tb_checks t)) c))
  | SCreateIndex u n t cols => with_tb c t (fun tb => set_tb c t (add_index tb u n cols))          (* [M4] *)
  | SAddUnique t n cols => with_tb c t (fun tb => set_tb c t (add_index tb true n cols))          (* [M4] *)
  | SDropIndexOn n t | SAlterDropIndex t n =>
      (* [M5] exists (1091); not needed in a foreign key constraint (1553) *)
      with_tb c t (fun tb =>
        if negb (has_index n tb) then Err (EErr "M5a cannot drop index: it does not exist (1091)" n)
        else
          let tb' := mkMTable (tb_name tb) (tb_cols tb) (tb_pk tb)
                       (filter (fun i => negb (String.eqb (ix_name i) n)) (tb_indexes tb)) (tb_fks tb) (tb_checks tb) in
          if negb (fks_served tb' (replace_tb tb' t c))
          then Err (EErr "M5b cannot drop index needed in a foreign key constraint (1553)" n)
          else if negb (auto_ok tb') then Err (EErr "M1c auto column must be defined as a key (1075)" t)
          else Ok (replace_tb tb' t c))
  | SAddColumn t d =>
      (* [M6] column name new (1060) *)
      with_tb c t (fun tb =>
        if has_mcol (cd_name d) tb then Err (EErr "M6a duplicate column name (1060)" (cd_name d))
        else if negb (auto_spec_ok d) then Err (EErr "M6b incorrect column specifier: AUTO_INCREMENT on a non-numeric column (1063)" (cd_name d))
        else
          let tb' := mkMTable (tb_name tb) (tb_cols tb ++ [mcol_of_def d]) (tb_pk tb) (tb_indexes tb) (tb_fks tb) (tb_checks tb) in
          if auto_ok tb' then Ok (replace_tb tb' t c)
          else Err (EErr "M1c auto column must be defined as a key (1075)" t))
  | SDropColumn t col =>
      (* [M7] exists (1091); not the only column (1090); in no foreign key of the table (1828); not referenced by a
         foreign key (1829); the column leaves every key, a key left empty is dropped, key names unchanged *)
      with_tb c t (fun tb =>
        if negb (has_mcol col tb) then Err (EErr "M7a cannot drop column: it does not exist (1091)" col)
        else if Nat.leb (List.length (tb_cols tb)) 1 then Err (EErr "M7b cannot delete all columns (1090)" t)
        else if existsb (fun f => mem_str col (fk_cols f)) (tb_fks tb)
        then Err (EErr "M7c cannot drop column needed in a foreign key constraint (1828)" col)
        else if existsb (fun tf => mem_str col (fk_rcols (snd tf))) (inbound_fks t c)
        then Err (EErr "M7d cannot drop column needed in a foreign key constraint of another table (1829)" col)
        else
          let pk' := match tb_pk tb with
                     | Some p => let p' := drop_in col p in if nonempty p' then Some p' else None
                     | None => None
                     end in
          let idx' := flat_map (fun i => let cs := drop_in col (ix_cols i) in
                                         if nonempty cs then [mkMIndex (ix_name i) cs (ix_unique i) (ix_generated i)] else [])
                               (tb_indexes tb) in
          let tb' := mkMTable (tb_name tb) (filter (fun x => negb (String.eqb (mc_name x) col)) (tb_cols tb)) pk' idx'
                              (tb_fks tb) (tb_checks tb) in
          if negb (auto_ok tb') then Err (EErr "M1c auto column must be defined as a key (1075)" t)
          else Ok (replace_tb tb' t c))
  | SRenameColumn t a b =>
      (* [M8] source exists (1054), target name free (1060); keys and foreign keys on both sides follow *)
      with_tb c t (fun tb =>
        if negb (has_mcol a tb) then Err (EErr "M8a unknown column (1054)" a)
        else if has_mcol b tb then Err (EErr "M8b duplicate column name (1060)" b)
        else
          let tb' := mkMTable (tb_name tb)
                       (map (fun x => if String.eqb (mc_name x) a then mkMCol b (mc_type x) (mc_notnull x) (mc_default x) (mc_auto x) else x) (tb_cols tb))
                       (option_map (rename_in a b) (tb_pk tb))
                       (map (fun i => mkMIndex (ix_name i) (rename_in a b (ix_cols i)) (ix_unique i) (ix_generated i)) (tb_indexes tb))
                       (map (rename_in_fk_child a b) (tb_fks tb)) (tb_checks tb) in
          Ok (map (fun x =>
                mkMTable (tb_name x) (tb_cols x) (tb_pk x) (tb_indexes x)
                  (map (fun f => if String.eqb (fk_rtable f) t then rename_in_fk_parent a b f else f) (tb_fks x))
                  (tb_checks x)) (replace_tb tb' t c)))
  | SModifyColumn t d =>
      (* [M9] column exists (1054); the column becomes EXACTLY the definition: NOT NULL, DEFAULT, AUTO_INCREMENT
         not restated are lost; all parts of a PRIMARY KEY must be NOT NULL (1171) *)
      with_tb c t (fun tb =>
        if negb (has_mcol (cd_name d) tb) then Err (EErr "M9a unknown column (1054)" (cd_name d))
        else if (negb (cd_notnull d) && match tb_pk tb with Some p => mem_str (cd_name d) p | None => false end)%bool
        then Err (EErr "M9b all parts of a PRIMARY KEY must be NOT NULL (1171)" (cd_name d))
        else if negb (auto_spec_ok d) then Err (EErr "M9c incorrect column specifier: AUTO_INCREMENT on a non-numeric column (1063)" (cd_name d))
        else
          let tb' := mkMTable (tb_name tb)
                       (map (fun x => if String.eqb (mc_name x) (cd_name d) then mcol_of_def d else x) (tb_cols tb))
                       (tb_pk tb) (tb_indexes tb) (tb_fks tb) (tb_checks tb) in
          if auto_ok tb' then Ok (replace_tb tb' t c)
          else Err (EErr "M1c auto column must be defined as a key (1075)" t))
  | SAddFk t f => with_tb c t (fun tb => set_tb c t (add_fk tb (filter (fun x => negb (String.eqb (tb_name x) t)) c) f))   (* [M10] *)
  | SDropFk t n =>
      (* [M11] exists (1091); the implicitly created index stays *)
      with_tb c t (fun tb =>
        if negb (mem_str n (map fk_name (tb_fks tb))) then Err (EErr "M11a cannot drop foreign key: it does not exist (1091)" n)
        else Ok (replace_tb (mkMTable (tb_name tb) (tb_cols tb) (tb_pk tb) (tb_indexes tb)
                               (filter (fun f => negb (String.eqb (fk_name f) n)) (tb_fks tb)) (tb_checks tb)) t c))
  | SAddCheck t n e =>
      (* [M12] name free among the CHECK constraints of the schema (3822) *)
      with_tb c t (fun tb => set_tb c t (add_checks tb (filter (fun x => negb (String.eqb (tb_name x) t)) c) [(n, e)]))
  | SDropCheck t n =>
      with_tb c t (fun tb =>
        if negb (mem_str n (map fst (tb_checks tb))) then Err (EErr "M12b check constraint is not found in the table (3821)" n)
        else Ok (replace_tb (mkMTable (tb_name tb) (tb_cols tb) (tb_pk tb) (tb_indexes tb) (tb_fks tb)
                               (filter (fun k => negb (String.eqb (fst k) n)) (tb_checks tb))) t c))
  | SAddPk t cols => with_tb c t (fun tb => set_tb c t (add_pk tb cols))                           (* [M13] *)
  | SDropPk t =>
      (* [M14] exists (1091); no auto column left without a key (1075); not needed by a foreign key (1553) *)
      with_tb c t (fun tb =>
        match tb_pk tb with
        | None => Err (EErr "M14a cannot drop PRIMARY: it does not exist (1091)" t)
        | Some _ =>
            let tb' := mkMTable (tb_name tb) (tb_cols tb) None (tb_indexes tb) (tb_fks tb) (tb_checks tb) in
            if negb (auto_ok tb') then Err (EErr "M14b auto column must be defined as a key (1075)" t)
            else if negb (fks_served tb' (replace_tb tb' t c))
            then Err (EErr "M14c cannot drop index needed in a foreign key constraint (1553)" t)
            else Ok (replace_tb tb' t c)
        end)
  | SUpdate t col _ w =>
      (* [M15] table and columns exist (1146, 1054); no catalog effect *)
      with_tb c t (fun tb =>
        let wc := match w with Some (WIsNull x) | Some (WEq x _) => [x] | None => [] end in
        if all_cols_exist (col :: wc) tb then Ok c else Err (EErr "M15a unknown column (1054)" col))
  | SRaw _ => Ok c      (* [M16] raw SQL is excluded from catalog judgement (DESIGN 4.2 A4) *)
  end.

Inductive run_outcome :=
| RunOk (c : catalog)
| RunErr (index : nat) (e : engine_error).      (* position of the refused statement *)

Fixpoint run_from (i : nat) (c : catalog) (l : list stmt) : run_outcome :=
  match l with
  | [] => RunOk c
  | s :: r => match exec c s with Err e => RunErr i e | Ok c' => run_from (S i) c' r end
  end.
Definition run (c : catalog) (l : list stmt) : run_outcome := run_from 0 c l.

(* ---------- catalog_of: what a fresh creation of the schema must leave (DESIGN Appendix A, mysql) ---------- *)
Definition first_pk (ks : list table_constraint) : option (list string) :=
  match filter is_pk ks with CPrimaryKey _ cols :: _ => Some cols | _ => None end.

Definition unique_indexes (table : string) (ks : list table_constraint) : list mindex :=
  flat_map (fun k => match k with
                     | CUnique n cols => [mkMIndex (build_unique_constraint_name table cols n) cols true false]
                     | _ => []
                     end) ks.
Definition plain_indexes (table : string) (ks : list table_constraint) : list mindex :=
  flat_map (fun k => match k with
                     | CIndex n cols => [mkMIndex (build_index_name table cols n) cols false false]
                     | _ => []
                     end) ks.
(* unique keys first, then plain keys, each in constraint order (the layout of insert_index) *)
Definition explicit_indexes (table : string) (ks : list table_constraint) : list mindex :=
  unique_indexes table ks ++ plain_indexes table ks.

(* the implicit index of each foreign key that no other key serves, in constraint order [M10, M-GEN] *)
Fixpoint generated_indexes (keys : list (list string)) (fks : list fkdef) : list mindex :=
  match fks with
  | [] => []
  | f :: r =>
      if (nonempty (fk_cols f) && existsb (is_prefix (fk_cols f)) keys)%bool then generated_indexes keys r
      else mkMIndex (fk_name f) (fk_cols f) false true :: generated_indexes (keys ++ [fk_cols f]) r
  end.

Definition catalog_of_table (t : table_def) : mtable :=
  let ks := t_constraints t in
  let pk := first_pk ks in
  let pkc := match pk with Some p => p | None => [] end in
  let ex := explicit_indexes (t_name t) ks in
  let fks := create_fks (t_name t) ks in
  let cols := map (fun c =>
                mkMCol (c_name c) (mysql_type_text (c_type c)) (negb (c_nullable c) || mem_str (c_name c) pkc)%bool
                       (option_map (mysql_default_text (c_type c)) (c_default c))
                       (mem_str (c_name c) (auto_increment_columns ks) && supports_auto_increment (c_type c))%bool)
                  (t_columns t) in
  mkMTable (t_name t) cols pk
           (ex ++ generated_indexes ((match pk with Some p => [p] | None => [] end) ++ map ix_cols ex) fks)
           fks
           (flat_map (fun k => match k with CCheck n e => [(n, e)] | _ => [] end) ks).

Definition catalog_of (s : schema) : catalog := map catalog_of_table s.

(* ---------- comparison: tables, keys, foreign keys and checks as sets, columns in order; a quoted number is
   the number (MySQL stores the converted literal: DEFAULT '1' and DEFAULT 1 are the same default) ---------- *)
Fixpoint all_digits (s : string) : bool :=
  match s with
  | EmptyString => true
  | String a r => (let n := N_of_ascii a in (N.leb 48 n && N.leb n 57) || N.eqb n 46 || N.eqb n 45)%bool && all_digits r
  end.
Definition norm_default (d : option string) : option string :=
  match d with
  | Some s =>
      let t := trim s in
      if (starts_with "'" t && ends_with "'" t && Nat.leb 3 (String.length t) && all_digits (strip_ends t))%bool
      then Some (strip_ends t) else Some t
  | None => None
  end.

Definition str_le (a b : string) : bool := match String.compare a b with Gt => false | _ => true end.
Definition sort_by_name {A} (name : A -> string) (l : list A) : list A := sort_le (fun x y => str_le (name x) (name y)) l.

Definition norm_table (t : mtable) : mtable :=
  mkMTable (tb_name t)
    (map (fun c => mkMCol (mc_name c) (mc_type c) (mc_notnull c) (norm_default (mc_default c)) (mc_auto c)) (tb_cols t))
    (tb_pk t) (sort_by_name ix_name (tb_indexes t)) (sort_by_name fk_name (tb_fks t)) (sort_by_name fst (tb_checks t)).
Definition norm_catalog (c : catalog) : catalog := sort_by_name tb_name (map norm_table c).
Definition catalog_eqb (a b : catalog) : bool := dec_b catalog_eq_dec (norm_catalog a) (norm_catalog b).

(* which component of which table differs (for reports and classifiers) *)
Inductive cat_diff :=
| DTableMissing (t : string)        (* believed, not in the engine *)
| DTableExtra (t : string)          (* in the engine, not believed (leftover) *)
| DColumns (t : string) | DPrimary (t : string) | DIndexes (t : string) | DForeignKeys (t : string) | DChecks (t : string).

Definition table_diffs (e b : mtable) : list cat_diff :=
  let n := tb_name b in
  (if dec_b (list_eq_dec mcol_eq_dec) (tb_cols e) (tb_cols b) then [] else [DColumns n])
  ++ (if dec_b (option_eq_dec (list_eq_dec string_dec)) (tb_pk e) (tb_pk b) then [] else [DPrimary n])
  ++ (if dec_b (list_eq_dec mindex_eq_dec) (tb_indexes e) (tb_indexes b) then [] else [DIndexes n])
  ++ (if dec_b (list_eq_dec fkdef_eq_dec) (tb_fks e) (tb_fks b) then [] else [DForeignKeys n])
  ++ (if dec_b (list_eq_dec (pair_eq_dec string_dec string_dec)) (tb_checks e) (tb_checks b) then [] else [DChecks n]).

(* engine catalog [e] against believed catalog [b] *)
Definition catalog_diffs (e b : catalog) : list cat_diff :=
  let e' := norm_catalog e in
  let b' := norm_catalog b in
  flat_map (fun bt => match find_tb (tb_name bt) e' with
                      | None => [DTableMissing (tb_name bt)]
                      | Some et => table_diffs et bt
                      end) b'
  ++ flat_map (fun et => if has_tb (tb_name et) b' then [] else [DTableExtra (tb_name et)]) e'.
