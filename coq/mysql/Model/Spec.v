(* MYSQL layer: vocabulary of the C04 theorems (definitions only, no proofs). *)
From VV.MYSQL Require Export Engine Assumptions Known.

(* what a MODIFY COLUMN re-declares, and what a column of the schema declares (the part C04 judges:
   type text, nullability, default text) *)
Definition restated (d : coldef) : string * bool * option string := (cd_type d, cd_notnull d, cd_default d).
Definition declared (c : column_def) : string * bool * option string :=
  (mysql_type_text (c_type c), negb (c_nullable c), option_map (mysql_default_text (c_type c)) (c_default c)).

(* the four column-modifying actions and their target *)
Definition modify_target (a : action) : option (string * string) :=
  match a with
  | ModifyColumnType t c _ _ | ModifyColumnNullable t c _ _ | ModifyColumnDefault t c _ | ModifyColumnComment t c _ => Some (t, c)
  | _ => None
  end.

Definition is_update (s : stmt) : bool := match s with SUpdate _ _ _ _ => true | _ => false end.

(* modify_column_type.rs:281-285 re-quotes the kept default with normalize_enum_default (quotes whenever the
   NEW type is an enum and the text "needs quoting"), whereas a fresh declaration (helpers.rs:346-352) quotes
   only string defaults.  The two agree exactly when this holds: *)
Definition type_default_ok (new_type : column_type) (d : option default_value) : bool :=
  match d with
  | None => true
  | Some dv => negb (is_enum_type new_type && needs_quoting (convert_default_mysql (default_to_sql dv))
                     && negb (is_string_default dv))%bool
  end.
Definition modify_default_ok (a : action) (col : column_def) : bool :=
  match a with
  | ModifyColumnType _ _ ty _ => type_default_ok ty (c_default col)
  | _ => true
  end.

(* the body of the COMMENT literal a MODIFY carries for the column as it is after the action: sea-query's escape_string
   (ColumnSpec::Comment) for type / nullability / default changes, the hand-made doubling of quotes of
   modify_column_comment.rs for a comment change *)
Definition comment_body (a : action) (col' : column_def) : option string :=
  match a with
  | ModifyColumnComment _ _ _ => option_map hand_escape (c_comment col')
  | _ => option_map mysql_escape (c_comment col')
  end.

(* everything a MySQL column definition carries: type text, NOT NULL, DEFAULT text, the COMMENT as MySQL reads the
   literal, AUTO_INCREMENT, inline PRIMARY KEY *)
Definition restated_all (d : coldef) : string * bool * option string * option string * bool * bool :=
  (cd_type d, cd_notnull d, cd_default d, option_map mysql_unescape (cd_comment d), cd_auto d, cd_pk d).
(* what the evolving schema holds for column [c_name col] of table [t] (the column is [col] there) *)
Definition declared_all (s : schema) (t : string) (col : column_def) : string * bool * option string * option string * bool * bool :=
  (mysql_type_text (c_type col), negb (c_nullable col), option_map (mysql_default_text (c_type col)) (c_default col),
   c_comment col, (is_auto_col s t (c_name col) && supports_auto_increment (c_type col))%bool, false).
(* the hand-made escaping of modify_column_comment.rs doubles quotes only: MySQL reads the comment back unchanged when
   it contains no backslash *)
Fixpoint no_backslash (s : string) : bool :=
  match s with EmptyString => true | String a r => (negb (N.eqb (N_of_ascii a) 92) && no_backslash r)%bool end.
Definition hand_comment_ok (a : action) : bool :=
  match a with ModifyColumnComment _ _ (Some m) => no_backslash m | _ => true end.
(* the hypothesis of C04_modify_restates_all *)
Definition modify_all_hyp (a : action) (col : column_def) : bool := (modify_default_ok a col && hand_comment_ok a)%bool.

(* evolving schema of build_plan_queries before action number i *)
Definition schema_at (s : schema) (acts : list action) (i : nat) : schema := fold_left step (firstn i acts) s.

(* Sim: the engine catalog is the one the tool believes in *)
Definition Sim (s : schema) (c : catalog) : Prop := c = catalog_of s.

(* ---------- the full statement of C04 on one migration, as a boolean (the oracle applied to the MODEL's
   statements) ---------- *)
Definition migration_ok (s : schema) (acts : list action) : bool :=
  match apply_all s acts, gen_plan s acts with
  | Ok s', Ok L =>
      match run (catalog_of s) (List.concat L) with
      | RunOk c => catalog_eqb c (catalog_of s')
      | RunErr _ _ => false
      end
  | _, _ => false
  end.

Definition judged (s : schema) (acts : list action) : bool :=
  match apply_all s acts with
  | Ok s' => (assumptions_ok s && assumptions_ok s' && plan_a6_ok s acts)%bool
  | Err _ => false
  end.

Definition in_known_class (s : schema) (acts : list action) : bool :=
  existsb (fun k => k s acts) known_classifiers.

(* first engine refusal of a migration, by rule text *)
Definition migration_error (s : schema) (acts : list action) : option string :=
  match gen_plan s acts with
  | Ok L => match run (catalog_of s) (List.concat L) with RunErr _ (EErr r _) => Some r | RunOk _ => None end
  | Err _ => None
  end.

Definition col_auto (c : catalog) (t col : string) : option bool :=
  match find_tb t c with
  | Some tb => option_map mc_auto (find (fun x => String.eqb (mc_name x) col) (tb_cols tb))
  | None => None
  end.

(* plain column / table builders for witnesses *)
Definition pcol (n : string) (ty : column_type) (nullable : bool) : column_def :=
  mkCol n ty nullable None None None None None None.

(* ---------- vocabulary of the simulation lemmas ---------- *)
(* one action keeps the simulation: executing its statements from the believed catalog of [s] succeeds and ends
   in the believed catalog of the schema after it *)
Definition action_sim (s : schema) (a : action) : Prop :=
  forall s', apply_action s a = Ok s' ->
  forall P, exists st, gen s P a = Ok st /\ run (catalog_of s) st = RunOk (catalog_of s').

(* a history executed migration by migration, each from the evolving schema of build_plan_queries *)
Fixpoint run_history (c : catalog) (s : schema) (plans : list plan) : option catalog :=
  match plans with
  | [] => Some c
  | p :: r =>
      match gen_plan s (p_actions p) with
      | Ok L => match run c (List.concat L) with
                | RunOk c' => run_history c' (fold_left step (p_actions p) s) r
                | RunErr _ _ => None
                end
      | Err _ => None
      end
  end.

Definition wf_names (s : schema) : bool :=
  (nodup_str (map t_name s) && forallb (fun t => nodup_str (map c_name (t_columns t))) s)%bool.

(* the resulting nullability of a modified column that is part of the primary key stays NOT NULL (A2) *)
Definition pk_cols_of_table (s : schema) (t : string) : list string :=
  match first_pk (constraints_of s t) with Some p => p | None => [] end.

(* what apply_action does to the target column of a ModifyColumn* action *)
Definition after_col (a : action) (col : column_def) : column_def :=
  match a with
  | ModifyColumnType _ _ ty _ => set_type ty col
  | ModifyColumnNullable _ _ n _ => set_nullable n col
  | ModifyColumnDefault _ _ d => set_default (option_map default_of_string d) col
  | ModifyColumnComment _ _ m => set_comment m col
  | _ => col
  end.

(* hypothesis of sim_modify_column: distinct table / column names, the kept default is not re-quoted, a primary-key
   column stays NOT NULL (A2), and the table the engine ends with may exist (its auto column, if any, is still a key).
   Since fix N1 the auto-increment key column is no longer excluded: its MODIFY restates AUTO_INCREMENT *)
Definition wf_auto (s : schema) : bool := forallb (fun td => auto_ok (catalog_of_table td)) s.
Definition modify_sim_hyp (s : schema) (a : action) : bool :=
  match modify_target a with
  | Some (t, c) =>
      match lookup_column s t c with
      | Some col =>
          (wf_names s && modify_default_ok a col
           && (negb (mem_str c (pk_cols_of_table s t)) || negb (c_nullable (after_col a col)))
           && match apply_action s a with Ok s' => wf_auto s' | Err _ => true end)%bool
      | None => false
      end
  | None => false
  end.

(* hypothesis of sim_add_column: the column has a new name and carries no inline constraint; re-normalising
   the table with it appended leaves the constraints as they are; the name is not mentioned by a primary key *)
Definition plain_column (c : column_def) : bool :=
  (is_none (c_primary_key c) && is_none (c_unique c) && is_none (c_index c) && is_none (c_foreign_key c))%bool.
Definition add_column_sim_hyp (s : schema) (a : action) : bool :=
  match a with
  | AddColumn t col _ =>
      match find_table t s with
      | Some td =>
          (wf_names s && wf_auto s && plain_column col && negb (has_column (c_name col) td)
           && match normalize (mkTable (t_name td) (t_description td) (t_columns td ++ [col]) (t_constraints td)) with
              | Ok n => dec_b (list_eq_dec constraint_eq_dec) (t_constraints n) (t_constraints td)
              | Err _ => false
              end
           && negb (mem_str (c_name col) (pk_cols_of_table s t))
           && negb (mem_str (c_name col) (auto_increment_columns (t_constraints td))))%bool
      | None => false
      end
  | _ => false
  end.

(* hypothesis of sim_delete_column: the column is in no constraint of its table (neither as a column nor as a
   referenced column name), no foreign key references it, it is not the last column, and every foreign key of
   the table has columns on both sides *)
Definition constraint_mentions (c : string) (k : table_constraint) : bool :=
  match k with
  | CForeignKey _ cols _ rcols _ _ => (mem_str c cols || mem_str c rcols)%bool
  | other => mem_str c (constraint_columns other)
  end.
Definition constraint_nonempty (k : table_constraint) : bool :=
  match k with
  | CForeignKey _ cols _ rcols _ _ => (nonempty cols && nonempty rcols)%bool
  | CCheck _ _ => true
  | other => nonempty (constraint_columns other)
  end.
Definition delete_column_sim_hyp (s : schema) (a : action) : bool :=
  match a with
  | DeleteColumn t c =>
      match find_table t s with
      | Some td =>
          (wf_names s && wf_auto s && has_column c td
           && forallb (fun k => negb (constraint_mentions c k)) (t_constraints td)
           && forallb constraint_nonempty (t_constraints td)
           && negb (column_referenced s t c)
           && Nat.leb 2 (List.length (t_columns td)))%bool
      | None => false
      end
  | _ => false
  end.
