(* MYSQL layer: vocabulary of the C04 theorems (definitions only, no proofs). *)
From VV.MYSQL Require Export Engine Assumptions Known.

(* what a MODIFY COLUMN re-declares, and what a column of the schema declares (the part C04 judges:
   type text, nullability, default text) *)
Definition restated (d : coldef) : string * bool * option string := (cd_type d, cd_notnull d, cd_default d).
Definition declared (c : column_def) : string * bool * option string :=
  (mysql_type_text (c_type c), negb (c_nullable c), option_map (mysql_default_text (c_type c)) (c_default c)).

(* the four column-modifying actions and their target *)
Definition modify_target (a : action) : option (string * string) :=
  match a with
  | ModifyColumnType t c _ _ | ModifyColumnNullable t c _ _ | ModifyColumnDefault t c _ | ModifyColumnComment t c _ => Some (t, c)
  | _ => None
  end.

Definition is_update (s : stmt) : bool := match s with SUpdate _ _ _ _ => true | _ => false end.

(* modify_column_type.rs:281-285 re-quotes the kept default with normalize_enum_default (quotes whenever the
   NEW type is an enum and the text "needs quoting"), whereas a fresh declaration (helpers.rs:346-352) quotes
   only string defaults.  The two agree exactly when this holds: *)
Definition type_default_ok (new_type : column_type) (d : option default_value) : bool :=
  match d with
  | None => true
  | Some dv => negb (is_enum_type new_type && needs_quoting (convert_default_mysql (default_to_sql dv))
                     && negb (is_string_default dv))%bool
  end.
Definition modify_default_ok (a : action) (col : column_def) : bool :=
  match a with
  | ModifyColumnType _ _ ty _ => type_default_ok ty (c_default col)
  | _ => true
  end.

(* the comment a MODIFY carries: only ModifyColumnComment ever writes one *)
Definition modify_comment (a : action) : option string :=
  match a with ModifyColumnComment _ _ m => m | _ => None end.

(* evolving schema of build_plan_queries before action number i *)
Definition schema_at (s : schema) (acts : list action) (i : nat) : schema := fold_left step (firstn i acts) s.

(* Sim: the engine catalog is the one the tool believes in *)
Definition Sim (s : schema) (c : catalog) : Prop := c = catalog_of s.

(* ---------- the full statement of C04 on one migration, as a boolean (the oracle applied to the MODEL's
   statements) ---------- *)
Definition migration_ok (s : schema) (acts : list action) : bool :=
  match apply_all s acts, gen_plan s acts with
  | Ok s', Ok L =>
      match run (catalog_of s) (List.concat L) with
      | RunOk c => catalog_eqb c (catalog_of s')
      | RunErr _ _ => false
      end
  | _, _ => false
  end.

Definition judged (s : schema) (acts : list action) : bool :=
  match apply_all s acts with
  | Ok s' => (assumptions_ok s && assumptions_ok s' && plan_a6_ok s acts)%bool
  | Err _ => false
  end.

Definition in_known_class (s : schema) (acts : list action) : bool :=
  existsb (fun k => k s acts) known_classifiers.

(* first engine refusal of a migration, by rule text *)
Definition migration_error (s : schema) (acts : list action) : option string :=
  match gen_plan s acts with
  | Ok L => match run (catalog_of s) (List.concat L) with RunErr _ (EErr r _) => Some r | RunOk _ => None end
  | Err _ => None
  end.

Definition col_auto (c : catalog) (t col : string) : option bool :=
  match find_tb t c with
  | Some tb => option_map mc_auto (find (fun x => String.eqb (mc_name x) col) (tb_cols tb))
  | None => None
  end.

(* plain column / table builders for witnesses *)
Definition pcol (n : string) (ty : column_type) (nullable : bool) : column_def :=
  mkCol n ty nullable None None None None None None.
