(* MYSQL layer: hypotheses of the simulation lemmas for foreign keys, primary keys, key removal and renames;
   the explicit (schema-level) form of "the engine accepts the FOREIGN KEY clauses" (definitions only). *)
From VV.MYSQL Require Export SpecCreate.

(* primary key and explicit keys of a table of the schema, as column lists *)
Definition table_keys (td : table_def) : list (list string) :=
  (match first_pk (t_constraints td) with Some p => [p] | None => [] end)
  ++ map ix_cols (explicit_indexes (t_name td) (t_constraints td)).

(* one foreign key of table [self] (being created or altered) can be created: it has columns on both sides,
   its own columns exist, its target exists with the target columns, and the target has a key whose leftmost
   columns are the target columns — which A1 (DESIGN 4.2: foreign keys target the primary key or a declared
   unique constraint, same column order) implies.  [self_keys]: the keys [self] has at that moment. *)
Definition fk_cond (s : schema) (self : table_def) (self_keys : list (list string)) (k : table_constraint) : bool :=
  match k with
  | CForeignKey _ cols rt rcols _ _ =>
      (nonempty cols && Nat.eqb (List.length cols) (List.length rcols)
       && forallb (fun c => has_column c self) cols
       && (if String.eqb rt (t_name self)
           then (forallb (fun c => has_column c self) rcols && existsb (is_prefix rcols) self_keys)%bool
           else match find_table rt s with
                | Some r => (forallb (fun c => has_column c r) rcols && existsb (is_prefix rcols) (table_keys r))%bool
                | None => false
                end))%bool
  | _ => true
  end.

(* CreateTable with explicit conditions on its foreign keys instead of "the engine accepts them" *)
Definition create_table_a1_hyp (s : schema) (a : action) : bool :=
  match a with
  | CreateTable t cols ks0 =>
      match normalize (mkTable t None cols ks0) with
      | Err _ => false
      | Ok n =>
          let ks := t_constraints n in
          let names := map ix_name (unique_indexes t ks ++ plain_indexes t ks) in
          let fknames := map fk_name (create_fks t ks) in
          (negb (has_table t s)
           && nodup_str (map c_name cols)
           && Nat.leb (List.length (filter is_pk ks)) 1
           && forallb (fun c => negb (cd_pk (create_coldef ks c))) cols
           && negb (existsb is_check ks)
           && forallb (key_valid (map c_name cols)) ks
           && forallb constraint_nonempty ks
           && nodup_str names && negb (mem_str "PRIMARY" names)
           && forallb (fun nm => negb (mem_str nm fknames)) (map ix_name (plain_indexes t ks))
           && forallb (fk_cond s n ((match first_pk ks with Some p => [p] | None => [] end) ++ map ix_cols (unique_indexes t ks))) ks
           && nodup_str fknames
           && forallb (fun nm => negb (mem_str nm (flat_map fk_names s))) fknames
           && auto_by_pk (catalog_of_table n))%bool
      end
  | _ => false
  end.

Definition fks_nonempty (s : schema) : bool := forallb (fun td => forallb constraint_nonempty (t_constraints td)) s.

(* AddConstraint FOREIGN KEY *)
Definition add_fk_sim_hyp (s : schema) (a : action) : bool :=
  match a with
  | AddConstraint t (CForeignKey n cols rt rcols od ou) =>
      match find_table t s with
      | Some td =>
          let k := CForeignKey n cols rt rcols od ou in
          (wf_names s && negb (contains_constraint k (t_constraints td))
           && fk_cond s td (table_keys td) k
           && negb (mem_str (build_foreign_key_name t cols n) (flat_map fk_names s)))%bool
      | None => false
      end
  | _ => false
  end.

(* AddConstraint PRIMARY KEY (not auto-increment: class C04-autoinc-not-added-with-primary-key) *)
Definition add_pk_sim_hyp (s : schema) (a : action) : bool :=
  match a with
  | AddConstraint t (CPrimaryKey false cols) =>
      match find_table t s with
      | Some td =>
          (wf_names s && negb (existsb is_pk (t_constraints td))
           && nonempty cols && forallb (fun c => has_column c td) cols
           && forallb constraint_nonempty (t_constraints td))%bool
      | None => false
      end
  | _ => false
  end.

(* foreign keys of the whole schema that reference table [t], as referenced column lists *)
Definition inbound_rcols (s : schema) (t : string) : list (list string) :=
  flat_map (fun td => flat_map (fun k => match k with
                                         | CForeignKey _ _ rt rcols _ _ => if String.eqb rt t then [rcols] else []
                                         | _ => []
                                         end) (t_constraints td)) s.
Definition own_fk_cols (td : table_def) : list (list string) :=
  flat_map (fun k => match k with CForeignKey _ cols _ _ _ _ => [cols] | _ => [] end) (t_constraints td).

Definition derived_key_name (t : string) (k : table_constraint) : option string :=
  match k with
  | CUnique n cols => Some (build_unique_constraint_name t cols n)
  | CIndex n cols => Some (build_index_name t cols n)
  | _ => None
  end.
Definition opt_str_eqb (a b : option string) : bool := dec_b (option_eq_dec string_dec) a b.

(* RemoveConstraint INDEX / UNIQUE: the key is there, nothing else of the table carries its derived name, no
   foreign key of the table relies on it (class C04-key-needed-by-foreign-key), every foreign key that references
   the table still finds a key afterwards *)
Definition remove_key_sim_hyp (s : schema) (a : action) : bool :=
  match a with
  | RemoveConstraint t k =>
      match derived_key_name t k, find_table t s with
      | Some name, Some td =>
          let ks := t_constraints td in
          let ks' := filter (fun c => negb (constraint_eqb c k)) ks in
          let td' := mkTable (t_name td) (t_description td) (t_columns td) ks' in
          (wf_names s && fks_nonempty (step s a) && forallb constraint_nonempty ks && contains_constraint k ks
           && forallb (fun k' => implb (opt_str_eqb (derived_key_name t k') (Some name)) (constraint_eqb k' k)) ks
           && negb (mem_str name (map fk_name (create_fks t ks)))
           && forallb (fun fc => negb (is_prefix fc (constraint_columns k))) (own_fk_cols td)
           && forallb (fun rc => existsb (is_prefix rc) (table_keys td')) (inbound_rcols (step s a) t)
           && auto_by_pk (catalog_of_table td))%bool
      | _, _ => false
      end
  | _ => false
  end.

(* RemoveConstraint FOREIGN KEY: the key is there, no other foreign key of the table has its derived name, and
   an explicit key serves its columns (no implicit index was created: class C04-fk-drop-leaves-index) *)
Definition remove_fk_sim_hyp (s : schema) (a : action) : bool :=
  match a with
  | RemoveConstraint t (CForeignKey n cols rt rcols od ou) =>
      match find_table t s with
      | Some td =>
          let k := CForeignKey n cols rt rcols od ou in
          let ks := t_constraints td in
          (wf_names s && forallb constraint_nonempty ks && contains_constraint k ks
           && forallb (fun k' => match k' with
                                 | CForeignKey n' c' _ _ _ _ =>
                                     implb (String.eqb (build_foreign_key_name t c' n') (build_foreign_key_name t cols n)) (constraint_eqb k' k)
                                 | _ => true
                                 end) ks
           && existsb (is_prefix cols) (table_keys td))%bool
      | None => false
      end
  | _ => false
  end.

(* RemoveConstraint PRIMARY KEY (not auto-increment: class C04-autoinc-key-removed) *)
Definition remove_pk_sim_hyp (s : schema) (a : action) : bool :=
  match a with
  | RemoveConstraint t (CPrimaryKey false cols) =>
      match find_table t s with
      | Some td =>
          let k := CPrimaryKey false cols in
          let ks := t_constraints td in
          let td' := mkTable (t_name td) (t_description td) (t_columns td) (filter (fun c => negb (constraint_eqb c k)) ks) in
          (wf_names s && fks_nonempty (step s a) && forallb constraint_nonempty ks && contains_constraint k ks
           && forallb (fun k' => implb (is_pk k') (constraint_eqb k' k)) ks
           && forallb (fun c => implb (mem_str (c_name c) cols) (negb (c_nullable c))) (t_columns td)
           && forallb (fun fc => negb (is_prefix fc cols)) (own_fk_cols td)
           && forallb (fun rc => existsb (is_prefix rc) (table_keys td')) (inbound_rcols (step s a) t))%bool
      | None => false
      end
  | _ => false
  end.

(* RenameTable: no constraint of the table has a name derived from the table name and nothing references it
   (class C04-names-after-rename otherwise) *)
Definition rename_table_sim_hyp (s : schema) (a : action) : bool :=
  match a with
  | RenameTable from to =>
      match find_table from s with
      | Some td =>
          (wf_names s && negb (has_table to s)
           && forallb (fun k => negb (has_derived_name k)) (t_constraints td)
           && forallb (fun x => forallb (fun k => match k with
                                                  | CForeignKey _ _ rt _ _ _ => negb (String.eqb rt from)
                                                  | _ => true
                                                  end) (t_constraints x)) s)%bool
      | None => false
      end
  | _ => false
  end.

(* RenameColumn: the column is in no unique / index / foreign key of its table, nothing references it, the new
   name is not a column and is mentioned by no constraint *)
Definition rename_column_sim_hyp (s : schema) (a : action) : bool :=
  match a with
  | RenameColumn t from to =>
      match find_table t s with
      | Some td =>
          (wf_names s && has_column from td && negb (has_column to td)
           && forallb (fun k => (is_pk k || is_check k || negb (constraint_mentions from k))%bool) (t_constraints td)
           && forallb (fun k => negb (constraint_mentions to k)) (t_constraints td)
           && forallb constraint_nonempty (t_constraints td)
           && negb (column_referenced (step s a) t from))%bool
      | None => false
      end
  | _ => false
  end.

(* class C04-comment-lost-on-modify (FIXED by N1; kept for the record and for coverage counts): a ModifyColumnType /
   Nullable / Default on a column that carries a comment *)
Definition p_comment_lost (s : schema) (a : action) : bool :=
  match a with
  | ModifyColumnType t c _ _ | ModifyColumnNullable t c _ _ | ModifyColumnDefault t c _ =>
      match lookup_column s t c with Some col => is_some (c_comment col) | None => false end
  | _ => false
  end.
Definition known_C04_comment_lost := along p_comment_lost.

(* ---------- DeleteColumn of a column that is the only member of unique / index keys ---------- *)
(* every constraint either does not mention the column or is a single-column PRIMARY KEY / UNIQUE / INDEX over it (MySQL
   drops the emptied key, the baseline drops the emptied constraint); multi-column keys are the class
   C04-composite-member-drop, foreign keys C04-drop-column-with-foreign-key / C04-fk-lost-by-referenced-column-name;
   the table has at most one primary key *)
Definition single_key_of (c : string) (k : table_constraint) : bool :=
  match k with
  | CPrimaryKey _ [x] | CUnique _ [x] | CIndex _ [x] => String.eqb x c
  | _ => false
  end.
Definition delete_column_keys_sim_hyp (s : schema) (a : action) : bool :=
  match a with
  | DeleteColumn t c =>
      match find_table t s with
      | Some td =>
          (wf_names s && wf_auto s && has_column c td
           && forallb (fun k => (single_key_of c k || negb (constraint_mentions c k))%bool) (t_constraints td)
           && forallb constraint_nonempty (t_constraints td)
           && negb (column_referenced s t c)
           && Nat.leb 2 (List.length (t_columns td))
           && Nat.leb (List.length (filter is_pk (t_constraints td))) 1)%bool
      | None => false
      end
  | _ => false
  end.

(* ---------- RenameColumn of a column that NAMED keys / foreign keys contain ---------- *)
(* derived names embed the column names only for unnamed constraints (name_with): a column of a named unique / index /
   foreign key can be renamed; unnamed ones and referenced columns are the class C04-names-after-rename *)
Definition rename_ok_constraint (a : string) (k : table_constraint) : bool :=
  match k with
  | CPrimaryKey _ _ | CCheck _ _ => true
  | CUnique n cols | CIndex n cols => (is_some n || negb (mem_str a cols))%bool
  | CForeignKey n cols _ rcols _ _ => ((is_some n || negb (mem_str a cols)) && negb (mem_str a rcols))%bool
  end.
Definition rename_column_named_sim_hyp (s : schema) (a : action) : bool :=
  match a with
  | RenameColumn t from to =>
      match find_table t s with
      | Some td =>
          (wf_names s && has_column from td && negb (has_column to td)
           && forallb (rename_ok_constraint from) (t_constraints td)
           && forallb (fun k => negb (constraint_mentions to k)) (t_constraints td)
           && forallb constraint_nonempty (t_constraints td)
           && negb (column_referenced (step s a) t from))%bool
      | None => false
      end
  | _ => false
  end.

(* the action kinds and hypotheses proved up to round 3 (kept to report theorem coverage before / after) *)
Definition sim_proved_for_r3 (s : schema) (a : action) : bool :=
  match a with
  | CreateTable _ _ _ => create_table_sim_hyp s a
  | DeleteTable t => negb (referenced_by_other s t)
  | RawSql _ => true
  | AddColumn _ _ _ => add_column_sim_hyp s a
  | DeleteColumn _ _ => delete_column_sim_hyp s a
  | ModifyColumnType _ _ _ _ | ModifyColumnNullable _ _ _ _ | ModifyColumnDefault _ _ _ | ModifyColumnComment _ _ _ => modify_sim_hyp s a
  | AddConstraint _ (CCheck _ _) => add_check_sim_hyp s a
  | AddConstraint _ (CUnique _ _) | AddConstraint _ (CIndex _ _) => add_key_full_hyp s a
  | AddConstraint _ (CForeignKey _ _ _ _ _ _) => add_fk_sim_hyp s a
  | AddConstraint _ (CPrimaryKey _ _) => add_pk_sim_hyp s a
  | RemoveConstraint _ (CCheck _ _) => remove_check_sim_hyp s a
  | RemoveConstraint _ (CUnique _ _) | RemoveConstraint _ (CIndex _ _) => remove_key_sim_hyp s a
  | RemoveConstraint _ (CForeignKey _ _ _ _ _ _) => remove_fk_sim_hyp s a
  | RemoveConstraint _ (CPrimaryKey _ _) => remove_pk_sim_hyp s a
  | RenameTable _ _ => rename_table_sim_hyp s a
  | RenameColumn _ _ _ => rename_column_sim_hyp s a
  end.

(* the action falls under one of the proved simulation lemmas of Properties/C04.v *)
Definition sim_proved_for (s : schema) (a : action) : bool :=
  match a with
  | DeleteColumn _ _ => (delete_column_sim_hyp s a || delete_column_keys_sim_hyp s a)%bool
  | RenameColumn _ _ _ => (rename_column_sim_hyp s a || rename_column_named_sim_hyp s a)%bool
  | _ => sim_proved_for_r3 s a
  end.
