(* MYSQL layer: the pending-set invariant (definitions only).
   apply_action re-normalises the table after AddColumn and promotes the column's inline index / unique / foreign_key to
   table constraints of the baseline, but ALTER TABLE ADD COLUMN creates none of them: between the AddColumn and the
   equal AddConstraint that follows in the plan the believed catalog runs ahead of the engine.  The GHOST schema is what
   the engine has: it evolves by the same plan with every added column stripped of its inline fields, so the promoted
   constraints enter it only when their AddConstraint is executed. *)
From Coq Require Export Permutation.
From VV.MYSQL Require Export SpecFk.

Definition strip_inline (c : column_def) : column_def :=
  mkCol (c_name c) (c_type c) (c_nullable c) (c_default c) (c_comment c) None None None None.
Definition ghost_action (a : action) : action :=
  match a with AddColumn t c f => AddColumn t (strip_inline c) f | other => other end.
Definition ghost_plan (acts : list action) : list action := map ghost_action acts.

(* what the MySQL generator reads from the evolving schema: table names and, per column, name / type / nullability /
   default / comment; since fix N1 the MODIFY builders also read whether the column is in an auto-increment primary
   key of its table (modify_auto_agree below) *)
Definition col_core (c : column_def) := (c_name c, c_type c, c_nullable c, c_default c, c_comment c).
Definition table_core (t : table_def) := (t_name t, map col_core (t_columns t)).
Definition schema_core (s : schema) := map table_core s.
Definition col_core_eq_dec (x y : string * column_type * bool * option default_value * option string) : {x = y} + {x <> y}.
Proof.
  repeat (apply pair_eq_dec); auto using string_dec, column_type_eq_dec, bool_dec.
  - apply option_eq_dec, default_value_eq_dec.
  - apply option_eq_dec, string_dec.
Defined.
(* the ghost schema and the believed schema agree on "is an auto-increment key column" for the column a ModifyColumn*
   action targets *)
Definition modify_auto_agree (v s : schema) (a : action) : bool :=
  match modify_target a with
  | Some (t, c) => Bool.eqb (is_auto_col v t c) (is_auto_col s t c)
  | None => true
  end.
Definition same_core_b (v s : schema) : bool :=
  dec_b (list_eq_dec (pair_eq_dec string_dec (list_eq_dec col_core_eq_dec))) (schema_core v) (schema_core s).

(* pending set: (table, constraint) pairs promoted by AddColumn and not created yet *)
Definition pending := list (string * table_constraint).
Definition pend_of (P : pending) (t : string) : list table_constraint :=
  map snd (filter (fun x => String.eqb (fst x) t) P).
Definition pair_eqb (x y : string * table_constraint) : bool := (String.eqb (fst x) (fst y) && constraint_eqb (snd x) (snd y))%bool.
Fixpoint remove_one (x : string * table_constraint) (P : pending) : pending :=
  match P with
  | [] => []
  | y :: r => if pair_eqb y x then r else y :: remove_one x r
  end.
Definition in_pending (x : string * table_constraint) (P : pending) : bool := existsb (fun y => pair_eqb y x) P.

(* the pending set after one action of the plan *)
Definition pend_step (s : schema) (P : pending) (a : action) : pending :=
  match a with
  | AddColumn t _ _ =>
      (* normalisation only appends: what it appended are the promoted inline declarations *)
      P ++ map (fun k => (t, k)) (skipn (List.length (constraints_of s t)) (constraints_of (step s a) t))
  | AddConstraint t k => if in_pending (t, k) P then remove_one (t, k) P else P
  | _ => P
  end.
Fixpoint pend_at (s : schema) (P : pending) (acts : list action) : pending :=
  match acts with [] => P | a :: r => pend_at (step s a) (pend_step s P a) r end.

(* whole-plan condition, checked on the schemas only: every ghost action falls under a proved simulation lemma in the
   ghost schema it is generated from, and the ghost schema always shows the generator the same columns *)
Fixpoint simp_steps_ok (v s : schema) (acts : list action) : bool :=
  match acts with
  | [] => true
  | a :: r => (same_core_b v s && modify_auto_agree v s a && sim_proved_for v (ghost_action a)
               && match apply_action v (ghost_action a) with Ok _ => true | Err _ => false end
               && simp_steps_ok (step v (ghost_action a)) (step s a) r)%bool
  end.
Definition simp_plan_ok (s : schema) (acts : list action) : bool :=
  (simp_steps_ok s s acts
   && match apply_all s acts, apply_all s (ghost_plan acts) with
      | Ok s', Ok v' => catalog_eqb (catalog_of v') (catalog_of s')
      | _, _ => false
      end)%bool.

(* ---------- Part 2: the invariant and its per-step side conditions ---------- *)
(* the ghost table has the same name and the same column cores; the believed constraints are the ghost's constraints
   plus the pending ones of that table, in some order *)
Definition trel (P : pending) (ts tv : table_def) : Prop :=
  t_name ts = t_name tv /\ map col_core (t_columns ts) = map col_core (t_columns tv)
  /\ Permutation (t_constraints ts) (t_constraints tv ++ pend_of P (t_name ts)).
Definition pend_rel (P : pending) (s v : schema) : Prop := Forall2 (trel P) s v.
(* SimP s P c: the engine catalog is the believed catalog of s minus the pending constraints P (up to the order of
   constraints, which a catalog does not have) *)
Definition SimP (s : schema) (P : pending) (c : catalog) : Prop := exists v, c = catalog_of v /\ pend_rel P s v.

Definition simp_kind_ok (P : pending) (v : schema) (a : action) : bool :=
  match a with
  | AddColumn t _ _ => dec_b (list_eq_dec constraint_eq_dec) (constraints_of (step v (ghost_action a)) t) (constraints_of v t)
  | AddConstraint t k => negb (contains_constraint k (constraints_of v t))
  | CreateTable t _ _ => match pend_of P t with [] => true | _ => false end
  | DeleteTable _ | RawSql _ => true
  | ModifyColumnType t c _ _ | ModifyColumnNullable t c _ _ | ModifyColumnDefault t c _ | ModifyColumnComment t c _ =>
      (* the column is not in a pending auto-increment primary key: the engine and the baseline agree on AUTO_INCREMENT *)
      negb (mem_str c (auto_increment_columns (pend_of P t)))
  | RemoveConstraint t _ | DeleteColumn t _ | RenameColumn t _ _ => match pend_of P t with [] => true | _ => false end
  | RenameTable _ _ => false
  end.
Definition simp_step_ok (P : pending) (v : schema) (a : action) : bool :=
  (nodup_str (map t_name v) && sim_proved_for v (ghost_action a) && simp_kind_ok P v a
   && match apply_action v (ghost_action a) with Ok _ => true | Err _ => false end)%bool.
Fixpoint simp_plan_steps (P : pending) (v s : schema) (acts : list action) : bool :=
  match acts with
  | [] => true
  | a :: r => (simp_step_ok P v a && simp_plan_steps (pend_step s P a) (step v (ghost_action a)) (step s a) r)%bool
  end.

(* ---------- catalogs as sets: equal tables up to the order of keys, foreign keys and checks ---------- *)
Definition table_equiv (a b : mtable) : Prop :=
  tb_name a = tb_name b /\ tb_cols a = tb_cols b /\ tb_pk a = tb_pk b
  /\ Permutation (tb_indexes a) (tb_indexes b) /\ Permutation (tb_fks a) (tb_fks b) /\ Permutation (tb_checks a) (tb_checks b).
Definition cat_equiv (a b : catalog) : Prop := Forall2 table_equiv a b.

(* no foreign key's columns are the leftmost columns of an EARLIER foreign key's columns: then which implicit indexes
   exist does not depend on the order the foreign keys were created in *)
Fixpoint fk_indep (l : list fkdef) : bool :=
  match l with
  | [] => true
  | f :: r => (forallb (fun g => negb (is_prefix (fk_cols g) (fk_cols f))) r && fk_indep r)%bool
  end.
Definition table_order_free (td : table_def) : bool :=
  (Nat.leb (List.length (filter is_pk (t_constraints td))) 1 && fk_indep (create_fks (t_name td) (t_constraints td)))%bool.
Definition order_free (s : schema) : bool := forallb table_order_free s.

(* the whole-plan hypothesis of C04_SimP_plan_equiv *)
Definition simp_plan_full (s : schema) (acts : list action) : bool :=
  (simp_plan_steps [] s s acts
   && match pend_at s [] acts with [] => true | _ => false end
   && match apply_all s acts, apply_all s (ghost_plan acts) with
      | Ok s', Ok v' => (order_free s' && order_free v')%bool
      | _, _ => false
      end)%bool.
