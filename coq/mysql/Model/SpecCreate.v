(* MYSQL layer: hypothesis of the CreateTable simulation lemma (definitions only). *)
From VV.MYSQL Require Export SpecKeys.

Definition pkc_of (ks : list table_constraint) : list string :=
  match first_pk ks with Some p => p | None => [] end.

(* the table CREATE TABLE leaves after its column and key clauses, before the FOREIGN KEY clauses *)
Definition table_after_keys (n : table_def) : mtable :=
  mkMTable (t_name n) (tb_cols (catalog_of_table n)) (first_pk (t_constraints n))
           (unique_indexes (t_name n) (t_constraints n)) [] [].

Definition key_valid (colnames : list string) (k : table_constraint) : bool :=
  match k with
  | CPrimaryKey _ cols | CUnique _ cols | CIndex _ cols => (nonempty cols && forallb (fun c => mem_str c colnames) cols)%bool
  | _ => true
  end.

(* the auto column (if any) is the first column of the primary key: it stays a key whatever happens to indexes *)
Definition auto_by_pk (t : mtable) : bool :=
  match filter mc_auto (tb_cols t) with
  | [] => true
  | [a] => match tb_pk t with Some (x :: _) => String.eqb x (mc_name a) | _ => false end
  | _ => false
  end.

(* hypothesis of sim_create_table.  The FOREIGN KEY clauses are taken under "the engine accepts them" (their
   names are new, their columns exist, their targets exist with a key on the target columns): the lemma then
   says what the catalog is — the explicit conditions are those of add_fk (Model/Engine.v, M10a-M10f). *)
Definition create_table_sim_hyp (s : schema) (a : action) : bool :=
  match a with
  | CreateTable t cols ks0 =>
      match normalize (mkTable t None cols ks0) with
      | Err _ => false
      | Ok n =>
          let ks := t_constraints n in
          let names := map ix_name (unique_indexes t ks ++ plain_indexes t ks) in
          (negb (has_table t s)
           && nodup_str (map c_name cols)
           && Nat.leb (List.length (filter is_pk ks)) 1
           && forallb (fun c => negb (cd_pk (create_coldef ks c))) cols
           && negb (existsb is_check ks)
           && forallb (key_valid (map c_name cols)) ks
           && forallb constraint_nonempty ks
           && nodup_str names && negb (mem_str "PRIMARY" names)
           && forallb (fun nm => negb (mem_str nm (map fk_name (create_fks t ks)))) (map ix_name (plain_indexes t ks))
           && match add_fks (table_after_keys n) (catalog_of s) (create_fks t ks) with Ok _ => true | Err _ => false end
           && auto_by_pk (catalog_of_table n))%bool
      end
  | _ => false
  end.
