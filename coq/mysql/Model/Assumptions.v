(* MYSQL layer: the sanity assumptions A1-A7 of DESIGN.md 4.2 as booleans over a replayed (normalised)
   schema, and the plan-level part of A6.  The oracle judges only migrations whose baseline and result
   satisfy them ("models that a database could accept at all").  No proofs here. *)
From VV.MYSQL Require Export Gen.

Definition table_pks (t : table_def) : list (list string) :=
  flat_map (fun k => match k with CPrimaryKey _ cols => [cols] | _ => [] end) (t_constraints t).
Definition table_uniques (t : table_def) : list (list string) :=
  flat_map (fun k => match k with CUnique _ cols => [cols] | _ => [] end) (t_constraints t).
Definition str_list_eqb : list string -> list string -> bool := dec_b (list_eq_dec string_dec).
Definition col_type_of (t : table_def) (c : string) : option column_type := option_map c_type (find_column c t).

(* A1: foreign keys target keys (primary key or a declared unique constraint, same column order) *)
Definition a1_ok (s : schema) : bool :=
  forallb (fun t =>
    forallb (fun k =>
      match k with
      | CForeignKey _ cols rt rcols _ _ =>
          match find_table rt s with
          | None => false
          | Some r => (nonempty cols && Nat.eqb (List.length cols) (List.length rcols)
                       && existsb (str_list_eqb rcols) (table_pks r ++ table_uniques r))%bool
          end
      | _ => true
      end) (t_constraints t)) s.

(* A2: exactly one primary key, its columns NOT NULL *)
Definition a2_ok (s : schema) : bool :=
  forallb (fun t =>
    match table_pks t with
    | [pk] => forallb (fun c => match find_column c t with Some cd => negb (c_nullable cd) | None => false end) pk
    | _ => false
    end) s.

(* A3 (the part an engine with case-insensitive column names cares about): plain identifiers, table names
   and the column names of a table pairwise distinct case-insensitively *)
Definition plain_char (first : bool) (a : ascii) : bool :=
  let n := N_of_ascii a in
  ((N.leb 65 n && N.leb n 90) || (N.leb 97 n && N.leb n 122) || N.eqb n 95
   || (negb first && N.leb 48 n && N.leb n 57))%bool.
Fixpoint plain_rest (s : string) : bool :=
  match s with EmptyString => true | String a r => (plain_char false a && plain_rest r)%bool end.
Definition plain_ident (s : string) : bool :=
  match s with EmptyString => false | String a r => (plain_char true a && plain_rest r)%bool end.
Definition nodup_ci (l : list string) : bool := nodup_str (map to_lower l).
Definition a3_ok (s : schema) : bool :=
  (forallb plain_ident (map t_name s) && nodup_ci (map t_name s)
   && forallb (fun t => (forallb plain_ident (map c_name (t_columns t)) && nodup_ci (map c_name (t_columns t)))%bool) s)%bool.

(* A5: auto-increment only on a single-column primary key whose column exists.  The type need not support it: a
   migration may retype the key column (integer -> varchar) while the constraint keeps auto_increment: true; CREATE
   TABLE, MODIFY COLUMN and the believed catalog then all leave AUTO_INCREMENT out (supports_auto_increment), and the
   engine refuses AUTO_INCREMENT on such a column (1063), so these migrations are judged *)
Definition a5_ok (s : schema) : bool :=
  forallb (fun t =>
    forallb (fun k =>
      match k with
      | CPrimaryKey true [c] => match col_type_of t c with Some _ => true | None => false end
      | CPrimaryKey true _ => false
      | _ => true
      end) (t_constraints t)) s.

(* A6 (schema part): the column types of the two ends of a foreign key agree *)
Fixpoint types_agree (t r : table_def) (cols rcols : list string) : bool :=
  match cols, rcols with
  | c :: cs, rc :: rcs =>
      (match col_type_of t c, col_type_of r rc with
       | Some a, Some b => column_type_eqb a b
       | _, _ => false
       end && types_agree t r cs rcs)%bool
  | _, _ => true
  end.
Definition a6_ok (s : schema) : bool :=
  forallb (fun t =>
    forallb (fun k =>
      match k with
      | CForeignKey _ cols rt rcols _ _ =>
          match find_table rt s with Some r => types_agree t r cols rcols | None => false end
      | _ => true
      end) (t_constraints t)) s.

(* A7: enums well-formed; the default of a string-enum column is one of its labels, given as a string *)
Definition label_plain (l : string) : bool := negb (contains_char "'"%char l || contains_char "\"%char l).
Definition unquote (s : string) : string :=
  let t := trim s in
  if (starts_with "'" t && ends_with "'" t && Nat.leb 2 (String.length t))%bool then strip_ends t else t.
Definition a7_ok (s : schema) : bool :=
  forallb (fun t =>
    forallb (fun c =>
      match c_type c with
      | TEnum _ (EVString labels) =>
          (nonempty labels && forallb label_plain labels && nodup_str labels
           && match c_default c with
              | None => true
              | Some (DStr d) => mem_str (unquote d) labels
              | Some _ => false
              end)%bool
      | TEnum _ (EVInteger vals) => nonempty vals
      | _ => true
      end) (t_columns t)) s.

Definition assumptions_ok (s : schema) : bool :=
  (a1_ok s && a2_ok s && a3_ok s && a5_ok s && a6_ok s && a7_ok s)%bool.

Definition first_violated_in (s : schema) : string :=
  if negb (a1_ok s) then "A1" else if negb (a2_ok s) then "A2" else if negb (a3_ok s) then "A3"
  else if negb (a5_ok s) then "A5" else if negb (a6_ok s) then "A6" else if negb (a7_ok s) then "A7" else "".
Definition first_violated (base after : schema) : string :=
  match first_violated_in base with
  | EmptyString => "result:" +++ first_violated_in after
  | v => "baseline:" +++ v
  end.

(* A6 (plan part): a type change never targets a column that is an end of a foreign key *)
Definition fk_endpoint (s : schema) (table column : string) : bool :=
  existsb (fun t =>
    existsb (fun k =>
      match k with
      | CForeignKey _ cols rt rcols _ _ =>
          ((String.eqb (t_name t) table && mem_str column cols) || (String.eqb rt table && mem_str column rcols))%bool
      | _ => false
      end) (t_constraints t)) s.
Fixpoint plan_a6_ok (s : schema) (acts : list action) : bool :=
  match acts with
  | [] => true
  | a :: r =>
      (match a with ModifyColumnType t c _ _ => negb (fk_endpoint s t c) | _ => true end
       && plan_a6_ok (match apply_action s a with Ok s' => s' | Err _ => s end) r)%bool
  end.
