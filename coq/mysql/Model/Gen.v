(* MYSQL layer: the DatabaseBackend::MySql branch of vespertide-query's 13 builders
   (crates/vespertide-query/src/sql/*.rs) and of build_plan_queries (builder.rs), as statements of Ast.v.
   Mirrors the code as it is.  No proofs here. *)
From VV.MYSQL Require Export Ast.

(* ---------- sea-query 0.32.7 backend/mysql/table.rs:27-110 (prepare_column_type) composed with
   helpers.rs:49-142 (apply_column_type_with_table) ---------- *)
Definition mysql_simple_type (s : simple_type) : string :=
  match s with
  | SmallInt => "smallint" | Integer => "int" | BigInt => "bigint"
  | Real => "float" | DoublePrecision => "double" | Text => "text" | Boolean => "bool"
  | Date => "date" | Time => "time" | Timestamp => "timestamp" | Timestamptz => "timestamp"
  | Interval => "unsupported"         (* ColumnType::Interval(_, _) => "unsupported" *)
  | Bytea => "binary(1)"              (* col.binary() = binary_len(1) *)
  | Uuid => "binary(16)" | Json => "json"
  | Inet => "INET" | Cidr => "CIDR" | Macaddr => "MACADDR" | Xml => "XML"   (* col.custom(Alias) *)
  end.

Definition mysql_type_text (ty : column_type) : string :=
  match ty with
  | TSimple s => mysql_simple_type s
  | TVarchar n => "varchar(" +++ N_to_string n +++ ")"
  | TNumeric p s => "decimal(" +++ N_to_string p +++ ", " +++ N_to_string s +++ ")"
  | TChar n => "char(" +++ N_to_string n +++ ")"
  | TCustom c => c
  | TEnum _ (EVInteger _) => "int"                               (* helpers.rs:125-126 *)
  | TEnum _ (EVString l) => "ENUM('" +++ join "', '" l +++ "')"  (* labels verbatim, no escaping *)
  end.

(* ---------- helpers.rs:167-280 convert_default_for_backend, MySQL column ---------- *)
Definition to_lower (s : string) : string := map_string to_lower_ascii_char s.

Fixpoint find_sub (p s : string) : option (string * string) :=   (* str::find + split: (before, after p) *)
  if starts_with p s then Some (EmptyString, substring (String.length p) (String.length s - String.length p) s)
  else match s with
       | EmptyString => None
       | String a r => match find_sub p r with Some (b, e) => Some (String a b, e) | None => None end
       end.

Definition drop_n (n : nat) (s : string) : string := substring n (String.length s - n) s.

(* scanning for the closing quote of 'value' with '' escapes (helpers.rs:206-231): returns the bytes
   before the closing quote and the rest after it *)
Fixpoint scan_quoted (s acc : string) : option (string * string) :=
  match s with
  | EmptyString => None
  | String a r =>
      if Ascii.eqb a "'"%char then
        match r with
        | String b r' => if Ascii.eqb b "'"%char then scan_quoted r' (String b (String a acc))
                         else Some (rev_string acc, r)
        | EmptyString => Some (rev_string acc, r)
        end
      else scan_quoted r (String a acc)
  end.

Definition parse_pg_type_cast (expr : string) : option (string * string) :=
  let trimmed := trim expr in
  match trimmed with
  | String q after_open =>
      if Ascii.eqb q "'"%char then
        match scan_quoted after_open EmptyString with
        | Some (inner, rest) =>
            if starts_with "::" rest then
              let cast_type := to_lower (trim (drop_n 2 rest)) in
              if String.eqb cast_type "" then None else Some ("'" +++ inner +++ "'", cast_type)
            else None
        | None => None
        end
      else
        match find_sub "::" trimmed with
        | Some (before, after) =>
            let value := trim before in
            let cast_type := to_lower (trim after) in
            if (negb (String.eqb value "") && negb (String.eqb cast_type ""))%bool then Some (value, cast_type) else None
        | None => None
        end
  | EmptyString => None
  end.

Definition pg_type_to_mysql_cast (t : string) : string :=
  if mem_str t ["json"; "jsonb"] then "JSON"
  else if mem_str t ["text"; "varchar"; "char"; "character varying"] then "CHAR"
  else if mem_str t ["integer"; "int"; "int4"; "smallint"; "int2"; "bigint"; "int8"] then "SIGNED"
  else if mem_str t ["real"; "float4"; "double precision"; "float8"] then "DECIMAL"
  else if mem_str t ["boolean"; "bool"] then "UNSIGNED"
  else if String.eqb t "date" then "DATE"
  else if String.eqb t "time" then "TIME"
  else if mem_str t ["timestamp"; "timestamptz"; "timestamp with time zone"; "timestamp without time zone"] then "DATETIME"
  else if mem_str t ["numeric"; "decimal"] then "DECIMAL"
  else if String.eqb t "bytea" then "BINARY"
  else "CHAR".

Definition convert_default_mysql (d : string) : string :=
  let lower := to_lower d in   (* Rust to_lowercase: ASCII here; non-ASCII case mapping is not modelled *)
  if mem_str lower ["gen_random_uuid()"; "uuid()"; "lower(hex(randomblob(16)))"] then "(UUID())"
  else if mem_str lower ["current_timestamp()"; "now()"; "current_timestamp"; "getdate()"] then "CURRENT_TIMESTAMP"
  else match parse_pg_type_cast d with
       | Some (v, ty) => "CAST(" +++ v +++ " AS " +++ pg_type_to_mysql_cast ty +++ ")"
       | None => d
       end.

(* helpers.rs:283-327 *)
Definition is_enum_type (ty : column_type) : bool := match ty with TEnum _ _ => true | _ => false end.
Definition needs_quoting (s : string) : bool :=
  let t := trim s in
  if String.eqb t "" then true
  else if (starts_with "'" t || starts_with """" t)%bool then false
  else if (contains_char "("%char t || contains_char ")"%char t)%bool then false
  else if eq_ignore_ascii_case t "null" then false
  else if (eq_ignore_ascii_case t "current_timestamp" || eq_ignore_ascii_case t "current_date"
           || eq_ignore_ascii_case t "current_time")%bool then false
  else true.
Definition normalize_enum_default (ty : column_type) (v : string) : string :=
  if (is_enum_type ty && needs_quoting v)%bool then "'" +++ v +++ "'" else v.
Definition is_string_default (d : default_value) : bool := match d with DStr _ => true | _ => false end.

(* helpers.rs:14-22 *)
Definition normalize_fill_with (f : option string) : option string :=
  option_map (fun s => if String.eqb s "" then "''" else s) f.

(* the DEFAULT text build_sea_column_def_with_table emits (helpers.rs:342-368, MySQL: no parenthesising) *)
Definition mysql_default_text (ty : column_type) (d : default_value) : string :=
  let converted := convert_default_mysql (default_to_sql d) in
  if (is_enum_type ty && is_string_default d && needs_quoting converted)%bool then "'" +++ converted +++ "'"
  else converted.

(* build_sea_column_def_with_table (helpers.rs:330-371): name, type, NOT NULL, DEFAULT — nothing else:
   no AUTO_INCREMENT, no PRIMARY KEY, no COMMENT *)
Definition sea_coldef (c : column_def) : coldef :=
  mkColDef (c_name c) (mysql_type_text (c_type c)) (negb (c_nullable c))
           (option_map (mysql_default_text (c_type c)) (c_default c)) false false None.

Definition with_pk_auto (pk auto : bool) (d : coldef) : coldef :=
  mkColDef (cd_name d) (cd_type d) (cd_notnull d) (cd_default d) pk auto (cd_comment d).
Definition with_comment (cm : option string) (d : coldef) : coldef :=
  mkColDef (cd_name d) (cd_type d) (cd_notnull d) (cd_default d) (cd_pk d) (cd_auto d) cm.

(* sea-query backend/mod.rs:45-56 escape_string, and write_string_quoted *)
Fixpoint mysql_escape (s : string) : string :=
  match s with
  | EmptyString => EmptyString
  | String a r =>
      let n := N_of_ascii a in
      let rest := mysql_escape r in
      if N.eqb n 92 then "\\" +++ rest
      else if N.eqb n 34 then "\""" +++ rest
      else if N.eqb n 39 then "\'" +++ rest
      else if N.eqb n 0 then "\0" +++ rest
      else if N.eqb n 8 then "\b" +++ rest
      else if N.eqb n 9 then "\t" +++ rest
      else if N.eqb n 26 then "\z" +++ rest
      else if N.eqb n 10 then "\n" +++ rest
      else if N.eqb n 13 then "\r" +++ rest
      else String a rest
  end.
Definition sql_quote (s : string) : string := "'" +++ mysql_escape s +++ "'".

(* modify_column_comment.rs:75-76: comment.replace('\'', "''") — quotes doubled, nothing else escaped *)
Fixpoint hand_escape (s : string) : string :=
  match s with
  | EmptyString => EmptyString
  | String a r => if N.eqb (N_of_ascii a) 39 then String a (String a (hand_escape r)) else String a (hand_escape r)
  end.

(* what MySQL reads from the body of a string literal (default sql_mode: backslash escapes on; manual, "String
   Literals", Table 11.1): \0 \b \t \z \n \r name control characters, any other \x is x, '' is one quote.
   (\% and \_ keep their backslash in MySQL; neither escaping function above ever produces them.) *)
Definition unescape_char (a : ascii) : ascii :=
  let n := N_of_ascii a in
  if N.eqb n 48 then ascii_of_N 0
  else if N.eqb n 98 then ascii_of_N 8
  else if N.eqb n 116 then ascii_of_N 9
  else if N.eqb n 122 then ascii_of_N 26
  else if N.eqb n 110 then ascii_of_N 10
  else if N.eqb n 114 then ascii_of_N 13
  else a.
Fixpoint mysql_unescape (s : string) : string :=
  match s with
  | EmptyString => EmptyString
  | String a r =>
      match r with
      | String b r' =>
          if N.eqb (N_of_ascii a) 92 then String (unescape_char b) (mysql_unescape r')
          else if (N.eqb (N_of_ascii a) 39 && N.eqb (N_of_ascii b) 39)%bool then String a (mysql_unescape r')
          else String a (mysql_unescape r)
      | EmptyString => String a EmptyString
      end
  end.

Inductive gen_error :=
| GenNormalize                      (* create_table.rs:179-181 *)
| GenTableNotFound (t : string)     (* modify_column_{nullable,default,comment}.rs *)
| GenColumnNotFound (t c : string).

Definition find_table (n : string) (s : schema) : option table_def :=
  find (fun t => String.eqb (t_name t) n) s.
Definition find_column (n : string) (t : table_def) : option column_def :=
  find (fun c => String.eqb (c_name c) n) (t_columns t).
Definition lookup_column (s : schema) (table column : string) : option column_def :=
  match find_table table s with Some t => find_column column t | None => None end.

(* ---------- create_table.rs:12-291, MySQL ---------- *)
Definition auto_increment_columns (ks : list table_constraint) : list string :=
  flat_map (fun k => match k with CPrimaryKey true cols => cols | _ => [] end) ks.

Definition constraints_of (s : schema) (t : string) : list table_constraint :=
  match find_table t s with Some td => t_constraints td | None => [] end.

(* helpers.rs restate_mysql_auto_increment / restate_mysql_column_attributes (fix N1): a MODIFY COLUMN restates
   AUTO_INCREMENT when the column is a member of an auto-increment primary key of its table and its type supports it
   (the rule of create_table.rs), and COMMENT '<escape_string>' (ColumnSpec::Comment, backend/mysql/table.rs:195) when
   the column carries a comment *)
Definition restated_auto (s : schema) (table : string) (c : column_def) : bool :=
  (mem_str (c_name c) (auto_increment_columns (constraints_of s table)) && supports_auto_increment (c_type c))%bool.
Definition restate_auto (s : schema) (table : string) (c : column_def) (d : coldef) : coldef :=
  mkColDef (cd_name d) (cd_type d) (cd_notnull d) (cd_default d) (cd_pk d) (restated_auto s table c) (cd_comment d).
Definition restate_attrs (s : schema) (table : string) (c : column_def) (d : coldef) : coldef :=
  mkColDef (cd_name d) (cd_type d) (cd_notnull d) (cd_default d) (cd_pk d) (restated_auto s table c)
           (option_map mysql_escape (c_comment c)).

Definition create_coldef (ks : list table_constraint) (c : column_def) : coldef :=
  with_pk_auto (is_some (c_primary_key c) && negb (existsb is_pk ks))%bool
               (mem_str (c_name c) (auto_increment_columns ks) && supports_auto_increment (c_type c))%bool
               (sea_coldef c).

Definition create_keys (table : string) (ks : list table_constraint) : list key_clause :=
  flat_map (fun k => match k with
                     | CPrimaryKey _ cols => [KPrimary cols]
                     | CUnique name cols => [KUnique (build_unique_constraint_name table cols name) cols]
                     | _ => []
                     end) ks.
Definition fk_of_constraint (table : string) (name : option string) (cols : list string) (rt : string)
  (rcols : list string) (od ou : option ref_action) : fkdef :=
  mkFk (build_foreign_key_name table cols name) cols rt rcols od ou.
Definition create_fks (table : string) (ks : list table_constraint) : list fkdef :=
  flat_map (fun k => match k with
                     | CForeignKey name cols rt rcols od ou => [fk_of_constraint table name cols rt rcols od ou]
                     | _ => []
                     end) ks.
Definition create_indexes (table : string) (ks : list table_constraint) : list stmt :=
  flat_map (fun k => match k with
                     | CIndex name cols => [SCreateIndex false (build_index_name table cols name) table cols]
                     | _ => []
                     end) ks.

Definition gen_create_table (table : string) (cols : list column_def) (ks0 : list table_constraint)
  : result (list stmt) gen_error :=
  match normalize (mkTable table None cols ks0) with
  | Err _ => Err GenNormalize
  | Ok n =>
      let ks := t_constraints n in
      Ok (SCreateTable table (map (create_coldef ks) (t_columns n)) (create_keys table ks) (create_fks table ks)
                       []   (* create_table.rs:150-154: TableConstraint::Check is ignored *)
          :: create_indexes table ks)
  end.

(* ---------- add_column.rs:33-151, MySQL ---------- *)
Definition gen_add_column (table : string) (c : column_def) (fill : option string) : list stmt :=
  let needs_backfill := (negb (c_nullable c) && is_none (c_default c) && is_some fill)%bool in
  if needs_backfill then
    [SAddColumn table (sea_coldef (set_nullable true c))]
    ++ match normalize_fill_with fill with
       | Some f => [SUpdate table (c_name c) (convert_default_mysql f) None]
       | None => []
       end
    ++ [SModifyColumn table (sea_coldef c)]
  else [SAddColumn table (sea_coldef c)].

(* ---------- modify_column_type.rs:16-33, 246-297, MySQL ---------- *)
Definition fill_with_updates (table column : string) (fw : option (list (string * string))) : list stmt :=
  match fw with
  | None => []
  | Some l => map (fun rv => SUpdate table column (sql_quote (snd rv)) (Some (WEq column (sql_quote (fst rv))))) l
  end.

Definition modify_type_coldef (s : schema) (table column : string) (new_type : column_type) : coldef :=
  match lookup_column s table column with
  | Some c =>
      restate_attrs s table (set_type new_type c)
        (mkColDef column (mysql_type_text new_type) (negb (c_nullable c))
           (option_map (fun d => normalize_enum_default new_type (convert_default_mysql (default_to_sql d))) (c_default c))
           false false None)
  | None => mkColDef column (mysql_type_text new_type) false None false false None
  end.

Definition gen_modify_type (s : schema) (table column : string) (new_type : column_type)
  (fw : option (list (string * string))) : list stmt :=
  fill_with_updates table column fw ++ [SModifyColumn table (modify_type_coldef s table column new_type)].

(* the three builders that look the column up and fail without it *)
Definition with_column (s : schema) (table column : string) (f : column_def -> list stmt)
  : result (list stmt) gen_error :=
  match find_table table s with
  | None => Err (GenTableNotFound table)
  | Some t => match find_column column t with
              | None => Err (GenColumnNotFound table column)
              | Some c => Ok (f c)
              end
  end.

(* modify_column_nullable.rs:15-79 *)
Definition gen_modify_nullable (s : schema) (table column : string) (nullable : bool) (fill : option string)
  : result (list stmt) gen_error :=
  let upd := match nullable, normalize_fill_with fill with
             | false, Some f => [SUpdate table column (convert_default_mysql f) (Some (WIsNull column))]
             | _, _ => []
             end in
  with_column s table column
    (fun c => let c' := set_nullable nullable c in upd ++ [SModifyColumn table (restate_attrs s table c' (sea_coldef c'))]).

(* modify_column_default.rs:51-86 *)
Definition gen_modify_default (s : schema) (table column : string) (nd : option string)
  : result (list stmt) gen_error :=
  with_column s table column
    (fun c => let c' := set_default (option_map default_of_string nd) c in
              [SModifyColumn table (restate_attrs s table c' (sea_coldef c'))]).

(* modify_column_comment.rs:34-86: AUTO_INCREMENT is restated like above, the COMMENT clause is appended by hand
   with its own escaping (quotes doubled) *)
Definition gen_modify_comment (s : schema) (table column : string) (nc : option string)
  : result (list stmt) gen_error :=
  with_column s table column
    (fun c => let c' := set_comment nc c in
              [SModifyColumn table (with_comment (option_map hand_escape nc) (restate_auto s table c' (sea_coldef c')))]).

(* ---------- add_constraint.rs / remove_constraint.rs, MySQL ---------- *)
Definition gen_add_constraint (table : string) (k : table_constraint) : list stmt :=
  match k with
  | CPrimaryKey _ cols => [SAddPk table cols]
  | CUnique name cols => [SCreateIndex true (build_unique_constraint_name table cols name) table cols]
  | CForeignKey name cols rt rcols od ou => [SAddFk table (fk_of_constraint table name cols rt rcols od ou)]
  | CIndex name cols => [SCreateIndex false (build_index_name table cols name) table cols]
  | CCheck name expr => [SAddCheck table name expr]
  end.

Definition gen_remove_constraint (table : string) (k : table_constraint) : list stmt :=
  match k with
  | CPrimaryKey _ _ => [SDropPk table]
  | CUnique name cols => [SAlterDropIndex table (build_unique_constraint_name table cols name)]
  | CForeignKey name cols _ _ _ _ => [SDropFk table (build_foreign_key_name table cols name)]
  | CIndex name cols => [SDropIndexOn (build_index_name table cols name) table]
  | CCheck name _ => [SDropCheck table name]
  end.

(* ---------- sql/mod.rs:45-156 build_action_queries_with_pending, MySQL.  The pending list only
   matters to the SQLite rebuilds; it is kept as an argument to mirror the signature. ---------- *)
Definition gen (s : schema) (pending : list table_constraint) (a : action) : result (list stmt) gen_error :=
  match a with
  | CreateTable t cols ks => gen_create_table t cols ks
  | DeleteTable t => Ok [SDropTable t]
  | AddColumn t c f => Ok (gen_add_column t c f)
  | RenameColumn t a b => Ok [SRenameColumn t a b]
  | DeleteColumn t c => Ok [SDropColumn t c]            (* DROP TYPE is PostgreSQL-only text *)
  | ModifyColumnType t c ty fw => Ok (gen_modify_type s t c ty fw)
  | ModifyColumnNullable t c n f => gen_modify_nullable s t c n f
  | ModifyColumnDefault t c d => gen_modify_default s t c d
  | ModifyColumnComment t c m => gen_modify_comment s t c m
  | AddConstraint t k => Ok (gen_add_constraint t k)
  | RemoveConstraint t k => Ok (gen_remove_constraint t k)
  | RenameTable a b => Ok [SRenameTable a b]
  | RawSql sql => Ok (if String.eqb sql "" then [] else [SRaw sql])   (* empty strings are skipped by every consumer *)
  end.

(* builder.rs:30-58 *)
Definition pending_constraints (a : action) (rest : list action) : list table_constraint :=
  match a with
  | AddConstraint table _ =>
      flat_map (fun x => match x with
                         | AddConstraint t k =>
                             if String.eqb t table then
                               match k with CIndex _ _ | CUnique _ _ => [k] | _ => [] end
                             else []
                         | _ => []
                         end) rest
  | _ => []
  end.

(* builder.rs:16-90 restricted to the MySQL builder: evolving schema, apply errors ignored.
   (An apply_action error leaves the model's schema unchanged; the Rust AddColumn arm pushes the column
   before a failing re-normalisation — unreachable for plans that replay.) *)
Fixpoint gen_plan (s : schema) (acts : list action) : result (list (list stmt)) gen_error :=
  match acts with
  | [] => Ok []
  | a :: r =>
      match gen s (pending_constraints a r) a with
      | Err e => Err e
      | Ok st =>
          let s' := match apply_action s a with Ok s' => s' | Err _ => s end in
          match gen_plan s' r with
          | Err e => Err e
          | Ok rest => Ok (st :: rest)
          end
      end
  end.

(* build_plan_queries builds the three backends action by action and fails as a whole when any of them
   fails.  The SQLite builders need the table (and sometimes the column) in the evolving schema. *)
Definition sqlite_build_err (s : schema) (a : action) : bool :=
  let missing t := is_none (find_table t s) in
  match a with
  | CreateTable t cols ks => match normalize (mkTable t None cols ks) with Err _ => true | Ok _ => false end
  | AddColumn t c _ => ((negb (c_nullable c) || is_enum_type (c_type c)) && missing t)%bool
  | ModifyColumnType t c _ _ => is_none (lookup_column s t c)
  | ModifyColumnNullable t _ _ _ | ModifyColumnDefault t _ _ => missing t
  | AddConstraint t (CPrimaryKey _ _) | AddConstraint t (CForeignKey _ _ _ _ _ _) | AddConstraint t (CCheck _ _) => missing t
  | RemoveConstraint t (CIndex _ _) => false
  | RemoveConstraint t _ => missing t
  | _ => false
  end.
Fixpoint plan_build_err (s : schema) (acts : list action) : bool :=
  match acts with
  | [] => false
  | a :: r =>
      match gen s [] a with
      | Err _ => true
      | Ok _ => (sqlite_build_err s a
                 || plan_build_err (match apply_action s a with Ok s' => s' | Err _ => s end) r)%bool
      end
  end.
