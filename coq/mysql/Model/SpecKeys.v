(* MYSQL layer: hypotheses of the simulation lemmas for explicit constraint actions (definitions only). *)
From VV.MYSQL Require Export Spec.

(* AddConstraint CHECK: the table exists, table names are distinct, the name is new in the whole schema *)
Definition add_check_sim_hyp (s : schema) (a : action) : bool :=
  match a with
  | AddConstraint t (CCheck n _) =>
      (wf_names s && is_some (find_table t s) && negb (mem_str n (flat_map check_names s)))%bool
  | _ => false
  end.

(* RemoveConstraint CHECK: the constraint is there as named, and no other CHECK of the table shares its name *)
Definition remove_check_sim_hyp (s : schema) (a : action) : bool :=
  match a with
  | RemoveConstraint t (CCheck n e) =>
      match find_table t s with
      | Some td =>
          (wf_names s && contains_constraint (CCheck n e) (t_constraints td)
           && forallb (fun k => match k with
                                | CCheck n' e' => implb (String.eqb n' n) (String.eqb e' e)
                                | _ => true
                                end) (t_constraints td))%bool
      | None => false
      end
  | _ => false
  end.

(* AddConstraint INDEX / UNIQUE: the constraint is new, its derived name is new on the table and is not PRIMARY,
   its columns exist and there is at least one, the table's auto column (if any) keeps a key *)
Definition key_of_constraint (t : string) (k : table_constraint) : option (bool * string * list string) :=
  match k with
  | CUnique n cols => Some (true, build_unique_constraint_name t cols n, cols)
  | CIndex n cols => Some (false, build_index_name t cols n, cols)
  | _ => None
  end.
Definition add_key_sim_hyp (s : schema) (a : action) : bool :=
  match a with
  | AddConstraint t k =>
      match key_of_constraint t k, find_table t s with
      | Some (_, name, cols), Some td =>
          (wf_names s && negb (contains_constraint k (t_constraints td))
           && negb (mem_str name (map ix_name (tb_indexes (catalog_of_table td)))) && negb (String.eqb name "PRIMARY")
           && nonempty cols && forallb (fun c => has_column c td) cols)%bool
      | _, _ => false
      end
  | _ => false
  end.

Definition add_key_full_hyp (s : schema) (a : action) : bool :=
  (add_key_sim_hyp s a
   && match a with
      | AddConstraint t _ => match find_table t s with
                             | Some td => forallb constraint_nonempty (t_constraints td)
                             | None => false
                             end
      | _ => false
      end)%bool.
