(* MYSQL layer: abstract syntax of exactly the MySQL statements the 13 builders of vespertide-query can
   emit on DatabaseBackend::MySql (sea-query 0.32.7 backend/mysql/{table,index,foreign_key}.rs and the raw
   format! strings of the builders).  User-supplied fragments (default expressions, CHECK expressions,
   fill values, raw SQL, comments) are carried verbatim.  No proofs here. *)
From VV.M1 Require Export Oracles.

Definition is_some {A} (o : option A) : bool := match o with Some _ => true | None => false end.

(* a column definition as sea-query's prepare_column_def prints it: `name` type [NOT NULL] [DEFAULT e]
   [PRIMARY KEY] [AUTO_INCREMENT] [COMMENT '...'] (ColumnSpec::Comment, or the COMMENT '...' that
   modify_column_comment.rs appends by hand) *)
Record coldef := mkColDef {
  cd_name : string;
  cd_type : string;            (* rendered type text: int, varchar(32), decimal(10, 2), ENUM('a', 'b'), binary(16), ... *)
  cd_notnull : bool;
  cd_default : option string;  (* verbatim expression text *)
  cd_pk : bool;                (* inline PRIMARY KEY *)
  cd_auto : bool;              (* AUTO_INCREMENT *)
  cd_comment : option string   (* body of the COMMENT '..' literal as emitted: the text between the outer quotes, still escaped *) }.

Record fkdef := mkFk {
  fk_name : string;
  fk_cols : list string;
  fk_rtable : string;
  fk_rcols : list string;
  fk_on_delete : option ref_action;
  fk_on_update : option ref_action }.

(* the key clauses of CREATE TABLE, in the order sea-query prints them (= constraint order) *)
Inductive key_clause :=
| KPrimary (cols : list string)                      (* PRIMARY KEY (`a`, `b`) *)
| KUnique (name : string) (cols : list string).      (* UNIQUE KEY `n` (`a`, `b`) *)

Inductive where_clause :=
| WIsNull (col : string)                             (* WHERE `c` IS NULL *)
| WEq (col : string) (value : string).               (* WHERE `c` = <rendered literal> *)

Inductive stmt :=
| SCreateTable (t : string) (cols : list coldef) (keys : list key_clause) (fks : list fkdef)
               (checks : list (string * string))
| SDropTable (t : string)
| SRenameTable (a b : string)
| SCreateIndex (unique : bool) (name t : string) (cols : list string)
| SDropIndexOn (name t : string)                     (* DROP INDEX `n` ON `t` *)
| SAlterDropIndex (t name : string)                  (* ALTER TABLE `t` DROP INDEX `n` *)
| SAddColumn (t : string) (c : coldef)
| SDropColumn (t c : string)
| SRenameColumn (t a b : string)
| SModifyColumn (t : string) (c : coldef)
| SAddFk (t : string) (f : fkdef)                    (* ALTER TABLE `t` ADD CONSTRAINT `n` FOREIGN KEY ... *)
| SDropFk (t name : string)                          (* ALTER TABLE `t` DROP FOREIGN KEY `n` *)
| SAddCheck (t name expr : string)                   (* ALTER TABLE `t` ADD CONSTRAINT `n` CHECK (e) *)
| SDropCheck (t name : string)                       (* ALTER TABLE `t` DROP CHECK `n` *)
| SAddUnique (t name : string) (cols : list string)  (* ALTER TABLE `t` ADD CONSTRAINT `n` UNIQUE (..): parsed, never generated *)
| SAddPk (t : string) (cols : list string)           (* ALTER TABLE `t` ADD PRIMARY KEY (..) *)
| SDropPk (t : string)                               (* ALTER TABLE `t` DROP PRIMARY KEY *)
| SUpdate (t col expr : string) (w : option where_clause)
| SRaw (text : string).                              (* RawSql action: opaque *)

Definition coldef_eq_dec (x y : coldef) : {x = y} + {x <> y}.
Proof. decide equality; auto using string_dec, bool_dec; apply option_eq_dec, string_dec. Defined.
Definition fkdef_eq_dec (x y : fkdef) : {x = y} + {x <> y}.
Proof.
  decide equality; auto using string_dec; try (apply list_eq_dec, string_dec);
    apply option_eq_dec, ref_action_eq_dec.
Defined.
Definition key_clause_eq_dec (x y : key_clause) : {x = y} + {x <> y}.
Proof. decide equality; auto using string_dec; apply list_eq_dec, string_dec. Defined.
Definition where_clause_eq_dec (x y : where_clause) : {x = y} + {x <> y}.
Proof. decide equality; auto using string_dec. Defined.
Definition stmt_eq_dec (x y : stmt) : {x = y} + {x <> y}.
Proof.
  decide equality; auto using string_dec, bool_dec, coldef_eq_dec, fkdef_eq_dec;
    try (apply list_eq_dec; auto using string_dec, coldef_eq_dec, key_clause_eq_dec, fkdef_eq_dec);
    try (apply pair_eq_dec; apply string_dec);
    try (apply option_eq_dec, where_clause_eq_dec).
Defined.
