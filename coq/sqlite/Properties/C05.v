(* C05 — migrations succeed on populated databases and never lose unrelated rows (SQLite, rows model).
   Pinned statements only. *)
From VV.M1 Require Import Validate.
From VV.SQLITE Require Import Corr Known RowsP.

(* every listed column that the rebuilt table has carries the source value *)
Theorem C05_copy_preserves_column : forall dt cs r c,
  has_ccol c dt = true -> existsb (ieq c) cs = true ->
  rget c (inserted_row dt cs (map SelCol cs) r) = rget c r.
Proof. exact copy_preserves_column. Qed.
Print Assumptions C05_copy_preserves_column.
Check C05_copy_preserves_column : forall dt cs r c,
  has_ccol c dt = true -> existsb (ieq c) cs = true ->
  rget c (inserted_row dt cs (map SelCol cs) r) = rget c r.

(* CREATE t_temp ; INSERT INTO t_temp (cs) SELECT cs FROM t ; DROP TABLE t ; ALTER TABLE t_temp RENAME TO t with
   foreign_keys OFF: one row per old row, every copied column unchanged, every other table's rows untouched *)
Theorem C05_rebuild_preserves_rows : forall d d' t cols pks fks checks cs,
  let temp := temp_name t in
  let dt := table_of_create temp cols pks fks checks in
  has_rows_key temp (db_rows d) = false ->
  has_rows_key t (db_rows d) = true ->
  ieq temp t = false ->
  exec_db_all false d [SCreateTable temp cols pks fks checks; SInsertSelect temp cs t (map SelCol cs);
                       SDropTable t; SRenameTable temp t] 0 = Ok d' ->
  rows_of t (db_rows d') = map (inserted_row dt cs (map SelCol cs)) (rows_of t (db_rows d))
  /\ (forall r c, existsb (ieq c) cs = true -> rget c (inserted_row dt cs (map SelCol cs) r) = rget c r)
  /\ (forall o, ieq o t = false -> ieq o temp = false -> rows_of o (db_rows d') = rows_of o (db_rows d)).
Proof. exact rebuild_preserves_rows. Qed.
Print Assumptions C05_rebuild_preserves_rows.
Check C05_rebuild_preserves_rows : forall d d' t cols pks fks checks cs,
  let temp := temp_name t in
  let dt := table_of_create temp cols pks fks checks in
  has_rows_key temp (db_rows d) = false ->
  has_rows_key t (db_rows d) = true ->
  ieq temp t = false ->
  exec_db_all false d [SCreateTable temp cols pks fks checks; SInsertSelect temp cs t (map SelCol cs);
                       SDropTable t; SRenameTable temp t] 0 = Ok d' ->
  rows_of t (db_rows d') = map (inserted_row dt cs (map SelCol cs)) (rows_of t (db_rows d))
  /\ (forall r c, existsb (ieq c) cs = true -> rget c (inserted_row dt cs (map SelCol cs) r) = rget c r)
  /\ (forall o, ieq o t = false -> ieq o temp = false -> rows_of o (db_rows d') = rows_of o (db_rows d)).

(* D12: "no row of a table that the migration does not mention is deleted or altered" is false of the faithful model
   when foreign_keys is ON: the rebuild of parent table u deletes the CASCADE row of p; with OFF nothing is lost *)
Theorem cascade_loss_refuted :
  validate_migration_plan (mkPlan "" None None 2 d12_plan) = Ok tt
  /\ known_C05_parent_rebuild d12_schema d12_plan = true
  /\ run_rows false d12_schema d12_plan d12_rows
     = Some (Ok [("p", [[("id", VText "1"); ("u_id", VText "1")]; [("id", VText "2"); ("u_id", VNull)]]);
                 ("u", [[("id", VText "1"); ("a", VText "0")]; [("id", VText "2"); ("a", VText "5")]])])
  /\ run_rows true d12_schema d12_plan d12_rows
     = Some (Ok [("p", [[("id", VText "2"); ("u_id", VNull)]]);
                 ("u", [[("id", VText "1"); ("a", VText "0")]; [("id", VText "2"); ("a", VText "5")]])]).
Proof. exact d12_cascade_loss. Qed.
Print Assumptions cascade_loss_refuted.
Check cascade_loss_refuted :
  validate_migration_plan (mkPlan "" None None 2 d12_plan) = Ok tt
  /\ known_C05_parent_rebuild d12_schema d12_plan = true
  /\ run_rows false d12_schema d12_plan d12_rows
     = Some (Ok [("p", [[("id", VText "1"); ("u_id", VText "1")]; [("id", VText "2"); ("u_id", VNull)]]);
                 ("u", [[("id", VText "1"); ("a", VText "0")]; [("id", VText "2"); ("a", VText "5")]])])
  /\ run_rows true d12_schema d12_plan d12_rows
     = Some (Ok [("p", [[("id", VText "2"); ("u_id", VNull)]]);
                 ("u", [[("id", VText "1"); ("a", VText "0")]; [("id", VText "2"); ("a", VText "5")]])]).

(* with the default action (NO ACTION) the same migration fails at DROP TABLE "u" under foreign_keys=ON and succeeds under OFF *)
Theorem parent_rebuild_fails_refuted :
  run_rows true d12b_schema d12_plan d12_rows = Some (Err (3%nat, DForeignKey "p"))
  /\ (exists r, run_rows false d12b_schema d12_plan d12_rows = Some (Ok r)).
Proof. exact d12_no_action_fails. Qed.
Print Assumptions parent_rebuild_fails_refuted.
Check parent_rebuild_fails_refuted :
  run_rows true d12b_schema d12_plan d12_rows = Some (Err (3%nat, DForeignKey "p"))
  /\ (exists r, run_rows false d12b_schema d12_plan d12_rows = Some (Ok r)).
