(* C19 (SQLite part) — names symmetric between the create and the drop paths of the SQLite generator.
   Pinned statements only. *)
From VV.M1 Require Import Validate.
From VV.SQLITE Require Import Corr Known WitnessP Prefix NamesP.

(* whichever path creates the index of an index / unique constraint k of table t (AddConstraint, rebuild) and whichever path
   drops it (RemoveConstraint, DeleteColumn), the name is index_name_of t k *)
Theorem C19_sqlite_name_symmetry : forall s P t k,
  index_like k = true ->
  created_index_names (stmts_of (gen s P (AddConstraint t k))) = index_name_of t k
  /\ created_index_names (recreate_indexes t [k] []) = index_name_of t k
  /\ (forall n cols, k = CIndex n cols -> dropped_index_names (stmts_of (gen s P (RemoveConstraint t k))) = index_name_of t k)
  /\ (forall col l, mem_str col (constraint_columns k) = true -> delete_column_scan t col [k] [] = DcDrops l ->
        dropped_index_names l = index_name_of t k).
Proof. exact name_symmetry_sqlite. Qed.
Print Assumptions C19_sqlite_name_symmetry.
Check C19_sqlite_name_symmetry : forall s P t k,
  index_like k = true ->
  created_index_names (stmts_of (gen s P (AddConstraint t k))) = index_name_of t k
  /\ created_index_names (recreate_indexes t [k] []) = index_name_of t k
  /\ (forall n cols, k = CIndex n cols -> dropped_index_names (stmts_of (gen s P (RemoveConstraint t k))) = index_name_of t k)
  /\ (forall col l, mem_str col (constraint_columns k) = true -> delete_column_scan t col [k] [] = DcDrops l ->
        dropped_index_names l = index_name_of t k).

(* the CreateTable path creates exactly the derived names of the normalised index-like constraints *)
Theorem C19_sqlite_created_by_create_table : forall t cols cs n l,
  normalize (mkTable t None cols cs) = Ok n -> gen_create_table t cols cs = GOk l ->
  created_index_names l
  = flat_map (index_name_of t) (filter is_unique (t_constraints n)) ++ flat_map (index_name_of t) (filter is_index (t_constraints n)).
Proof. exact created_by_create_table. Qed.
Print Assumptions C19_sqlite_created_by_create_table.
Check C19_sqlite_created_by_create_table : forall t cols cs n l,
  normalize (mkTable t None cols cs) = Ok n -> gen_create_table t cols cs = GOk l ->
  created_index_names l
  = flat_map (index_name_of t) (filter is_unique (t_constraints n)) ++ flat_map (index_name_of t) (filter is_index (t_constraints n)).

(* every rebuild recreates, under the derived names, exactly the index-like constraints that are not pending *)
Theorem C19_sqlite_created_by_rebuild : forall t cs pending,
  created_index_names (recreate_indexes t cs pending)
  = flat_map (fun k => if contains_constraint k pending then [] else index_name_of t k) cs.
Proof. exact created_by_rebuild. Qed.
Print Assumptions C19_sqlite_created_by_rebuild.
Check C19_sqlite_created_by_rebuild : forall t cs pending,
  created_index_names (recreate_indexes t cs pending)
  = flat_map (fun k => if contains_constraint k pending then [] else index_name_of t k) cs.

(* DeleteColumn (ALTER path) first drops exactly the derived names of the index-like constraints containing the column *)
Theorem C19_sqlite_dropped_by_delete_column : forall t col cs acc l,
  delete_column_scan t col cs acc = DcDrops l ->
  dropped_index_names l
  = dropped_index_names acc ++ flat_map (fun k => if (index_like k && mem_str col (constraint_columns k))%bool then index_name_of t k else []) cs.
Proof. exact dropped_by_delete_column. Qed.
Print Assumptions C19_sqlite_dropped_by_delete_column.
Check C19_sqlite_dropped_by_delete_column : forall t col cs acc l,
  delete_column_scan t col cs acc = DcDrops l ->
  dropped_index_names l
  = dropped_index_names acc ++ flat_map (fun k => if (index_like k && mem_str col (constraint_columns k))%bool then index_name_of t k else []) cs.

(* the symmetry does not survive RenameTable: the index lives under the old table's name, the drop derives the new one *)
Theorem C19_sqlite_rename_table_refuted :
  index_name_of "u" (CIndex None ["a"]) = ["ix_u__a"]
  /\ index_name_of "v" (CIndex None ["a"]) = ["ix_v__a"]
  /\ (exists s', apply_all rn_base rn_plan = Ok s')
  /\ first_error true rn_base rn_plan = Some (1%nat, ENoSuchIndex "ix_v__a")
  /\ known_C02_rename_table rn_base rn_plan = true.
Proof. exact rename_table_asymmetry_refuted. Qed.
Print Assumptions C19_sqlite_rename_table_refuted.
Check C19_sqlite_rename_table_refuted :
  index_name_of "u" (CIndex None ["a"]) = ["ix_u__a"]
  /\ index_name_of "v" (CIndex None ["a"]) = ["ix_v__a"]
  /\ (exists s', apply_all rn_base rn_plan = Ok s')
  /\ first_error true rn_base rn_plan = Some (1%nat, ENoSuchIndex "ix_v__a")
  /\ known_C02_rename_table rn_base rn_plan = true.
