(* C14 (SQLite part) — a table prefix renames tables and nothing else, on the level of the SQLite generator.
   Pinned statements only.  PARTIAL: whole-call equivariance of gen is proved for the table-free actions and the index
   actions; for the rebuilding builders only the name-bearing building blocks are proved, the whole calls are checked by
   evaluation (prefix_agrees) on every generated case. *)
From VV.M1 Require Import Validate Oracles.
From VV.SQLITE Require Import Corr Known WitnessP Prefix NamesP.

Theorem C14_sqlite_index_name_prefix : forall p t cols key,
  rename_index_name p (build_index_name t cols key) = build_index_name (p +++ t) cols key
  /\ rename_index_name p (build_unique_constraint_name t cols key) = build_unique_constraint_name (p +++ t) cols key.
Proof. intros. split; [apply rename_name_with_ix|apply rename_name_with_uq]. Qed.
Print Assumptions C14_sqlite_index_name_prefix.
Check C14_sqlite_index_name_prefix : forall p t cols key,
  rename_index_name p (build_index_name t cols key) = build_index_name (p +++ t) cols key
  /\ rename_index_name p (build_unique_constraint_name t cols key) = build_unique_constraint_name (p +++ t) cols key.

Theorem C14_sqlite_helper_names_prefix : forall p t col,
  temp_name (p +++ t) = p +++ temp_name t
  /\ rename_check_name p (build_check_constraint_name t col) = build_check_constraint_name (p +++ t) col.
Proof. intros. split; [apply temp_name_prefix|apply rename_check_name_enum]. Qed.
Print Assumptions C14_sqlite_helper_names_prefix.
Check C14_sqlite_helper_names_prefix : forall p t col,
  temp_name (p +++ t) = p +++ temp_name t
  /\ rename_check_name p (build_check_constraint_name t col) = build_check_constraint_name (p +++ t) col.

(* the index recreation of every rebuild, with the pending set, is equivariant *)
Theorem C14_sqlite_recreate_indexes_prefix : forall p chk t cs pending,
  recreate_indexes (p +++ t) (map (literal_constraint p) cs) (map (literal_constraint p) pending)
  = map (rename_stmt p chk) (recreate_indexes t cs pending).
Proof. exact recreate_indexes_prefix. Qed.
Print Assumptions C14_sqlite_recreate_indexes_prefix.
Check C14_sqlite_recreate_indexes_prefix : forall p chk t cs pending,
  recreate_indexes (p +++ t) (map (literal_constraint p) cs) (map (literal_constraint p) pending)
  = map (rename_stmt p chk) (recreate_indexes t cs pending).

Theorem C14_sqlite_gen_prefix_equivariant_partial : forall p chk s P a,
  match a with
  | DeleteTable _ | RenameTable _ _ | RenameColumn _ _ _ | RawSql _ => True
  | AddConstraint _ k => index_like k = true
  | RemoveConstraint _ (CIndex _ _) => True
  | _ => False
  end ->
  gen (literal_schema p s) (map (literal_constraint p) P) (literal_action p a)
  = match gen s P a with GOk l => GOk (map (rename_stmt p chk) l) | o => o end.
Proof. exact gen_prefix_equivariant_partial. Qed.
Print Assumptions C14_sqlite_gen_prefix_equivariant_partial.
Check C14_sqlite_gen_prefix_equivariant_partial : forall p chk s P a,
  match a with
  | DeleteTable _ | RenameTable _ _ | RenameColumn _ _ _ | RawSql _ => True
  | AddConstraint _ k => index_like k = true
  | RemoveConstraint _ (CIndex _ _) => True
  | _ => False
  end ->
  gen (literal_schema p s) (map (literal_constraint p) P) (literal_action p a)
  = match gen s P a with GOk l => GOk (map (rename_stmt p chk) l) | o => o end.

(* non-vacuity / the whole-plan statement on a plan with rebuilds, an enum CHECK and a foreign key *)
Example C14_sqlite_prefix_agrees_somewhere :
  prefix_agrees "app_" ok_base ok_plan = true /\ prefix_agrees "app_" d17_base d17_plan = true
  /\ prefix_agrees "x" [] [CreateTable "t" [idcol; mkCol "e" (TEnum "lvl" (EVString ["a"; "b"])) true None None None None None None]
                                       [pk_id; CCheck "chk_pos" "id > 0"]] = true.
Proof. repeat split; vm_compute; reflexivity. Qed.
