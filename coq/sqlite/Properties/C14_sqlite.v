(* C14 (SQLite part) — a table prefix renames tables and nothing else, on the level of the SQLite generator.
   Pinned statements only.  The whole-plan statement gen_plan_prefix_equivariant holds for every action kind under the
   decidable side conditions of prefix_plan_ok (no user CHECK name that looks like a derived enum CHECK name, no created
   table named *_temp, VV.M1's side condition of apply_equivariant) and a prefix without a dot; the same statement is also
   evaluated (prefix_agrees) on every generated case. *)
From VV.M1 Require Import Validate Oracles.
From VV.M1 Require Import PrefixP PrefixApplyP.
From VV.SQLITE Require Import Corr Known WitnessP Prefix NamesP PrefixGenP.

Theorem C14_sqlite_index_name_prefix : forall p t cols key,
  rename_index_name p (build_index_name t cols key) = build_index_name (p +++ t) cols key
  /\ rename_index_name p (build_unique_constraint_name t cols key) = build_unique_constraint_name (p +++ t) cols key.
Proof. intros. split; [apply rename_name_with_ix|apply rename_name_with_uq]. Qed.
Print Assumptions C14_sqlite_index_name_prefix.
Check C14_sqlite_index_name_prefix : forall p t cols key,
  rename_index_name p (build_index_name t cols key) = build_index_name (p +++ t) cols key
  /\ rename_index_name p (build_unique_constraint_name t cols key) = build_unique_constraint_name (p +++ t) cols key.

Theorem C14_sqlite_helper_names_prefix : forall p t col,
  temp_name (p +++ t) = p +++ temp_name t
  /\ rename_check_name p (build_check_constraint_name t col) = build_check_constraint_name (p +++ t) col.
Proof. intros. split; [apply temp_name_prefix|apply rename_check_name_enum]. Qed.
Print Assumptions C14_sqlite_helper_names_prefix.
Check C14_sqlite_helper_names_prefix : forall p t col,
  temp_name (p +++ t) = p +++ temp_name t
  /\ rename_check_name p (build_check_constraint_name t col) = build_check_constraint_name (p +++ t) col.

(* the index recreation of every rebuild, with the pending set, is equivariant *)
Theorem C14_sqlite_recreate_indexes_prefix : forall p chk t cs pending,
  recreate_indexes (p +++ t) (map (literal_constraint p) cs) (map (literal_constraint p) pending)
  = map (rename_stmt p chk) (recreate_indexes t cs pending).
Proof. exact recreate_indexes_prefix. Qed.
Print Assumptions C14_sqlite_recreate_indexes_prefix.
Check C14_sqlite_recreate_indexes_prefix : forall p chk t cs pending,
  recreate_indexes (p +++ t) (map (literal_constraint p) cs) (map (literal_constraint p) pending)
  = map (rename_stmt p chk) (recreate_indexes t cs pending).

Theorem C14_sqlite_gen_prefix_equivariant_partial : forall p chk s P a,
  match a with
  | DeleteTable _ | RenameTable _ _ | RenameColumn _ _ _ | RawSql _ => True
  | AddConstraint _ k => index_like k = true
  | RemoveConstraint _ (CIndex _ _) => True
  | _ => False
  end ->
  gen (literal_schema p s) (map (literal_constraint p) P) (literal_action p a)
  = match gen s P a with GOk l => GOk (map (rename_stmt p chk) l) | o => o end.
Proof. exact gen_prefix_equivariant_partial. Qed.
Print Assumptions C14_sqlite_gen_prefix_equivariant_partial.
Check C14_sqlite_gen_prefix_equivariant_partial : forall p chk s P a,
  match a with
  | DeleteTable _ | RenameTable _ _ | RenameColumn _ _ _ | RawSql _ => True
  | AddConstraint _ k => index_like k = true
  | RemoveConstraint _ (CIndex _ _) => True
  | _ => False
  end ->
  gen (literal_schema p s) (map (literal_constraint p) P) (literal_action p a)
  = match gen s P a with GOk l => GOk (map (rename_stmt p chk) l) | o => o end.


(* one call of gen, every action kind *)
Theorem C14_sqlite_gen_literal : forall p s P a, contains_char "."%char p = false -> prefix_step_ok p s a = true ->
  gen (literal_schema p s) (map (literal_constraint p) P) (literal_action p a)
  = lift_gen p (gen s P a).     (* lift_gen p (GOk l) = GOk (map (rename_stmt p (chk_by_columns p)) l), errors and panics unchanged *)
Proof. intros p s P a Hp H. exact (gen_literal p s P a Hp H). Qed.
Print Assumptions C14_sqlite_gen_literal.
Check C14_sqlite_gen_literal : forall p s P a, contains_char "."%char p = false -> prefix_step_ok p s a = true ->
  gen (literal_schema p s) (map (literal_constraint p) P) (literal_action p a)
  = lift_gen p (gen s P a).     (* lift_gen p (GOk l) = GOk (map (rename_stmt p (chk_by_columns p)) l), errors and panics unchanged *)

(* the whole plan: evolving schema, pending constraints, ignored apply errors, dropped empty statements *)
Theorem C14_sqlite_gen_plan_prefix_equivariant : forall p s acts, contains_char "."%char p = false -> prefix_plan_ok p s acts = true ->
  gen_plan (literal_schema p s) (map (literal_action p) acts)
  = lift_plan p (gen_plan s acts).   (* lift_plan p (Ok ls) = Ok (map (map (rename_stmt p (chk_by_columns p))) ls), Err e unchanged *)
Proof. intros p s acts Hp H. exact (gen_plan_prefix_equivariant p s acts Hp H). Qed.
Print Assumptions C14_sqlite_gen_plan_prefix_equivariant.
Check C14_sqlite_gen_plan_prefix_equivariant : forall p s acts, contains_char "."%char p = false -> prefix_plan_ok p s acts = true ->
  gen_plan (literal_schema p s) (map (literal_action p) acts)
  = lift_plan p (gen_plan s acts).   (* lift_plan p (Ok ls) = Ok (map (map (rename_stmt p (chk_by_columns p))) ls), Err e unchanged *)

Example C14_sqlite_lifts_unfold : forall p l ls e,
  lift_gen p (GOk l) = GOk (map (rename_stmt p (chk_by_columns p)) l)
  /\ lift_plan p (Ok ls) = Ok (map (map (rename_stmt p (chk_by_columns p))) ls) /\ lift_plan p (Err e) = Err e.
Proof. intros. repeat split. Qed.
Example C14_sqlite_hyp_satisfiable :
  prefix_plan_ok "app_" eq_demo_base eq_demo_plan = true /\ (exists ls, gen_plan eq_demo_base eq_demo_plan = Ok ls).
Proof. exact eq_demo_ok. Qed.

(* non-vacuity / the whole-plan statement on a plan with rebuilds, an enum CHECK and a foreign key *)
Example C14_sqlite_prefix_agrees_somewhere :
  prefix_agrees "app_" ok_base ok_plan = true /\ prefix_agrees "app_" d17_base d17_plan = true
  /\ prefix_agrees "x" [] [CreateTable "t" [idcol; mkCol "e" (TEnum "lvl" (EVString ["a"; "b"])) true None None None None None None]
                                       [pk_id; CCheck "chk_pos" "id > 0"]] = true.
Proof. repeat split; vm_compute; reflexivity. Qed.

(* a table the project itself calls "…_temp": its enum CHECK derives from the full name (chk_item_temp__e), which the
   prefixed project renames like every other derived name; a later rebuild of that table uses "item_temp_temp" *)
Example C14_sqlite_prefix_agrees_table_named_temp :
  prefix_agrees "app_" [] [CreateTable "item_temp" [idcol; mkCol "e" (TEnum "lvl" (EVString ["a"; "b"])) true None None None None None None]
                                       [pk_id; CForeignKey None ["id"] "item_temp" ["id"] None None];
                           ModifyColumnNullable "item_temp" "e" false (Some "'a'")] = true.
Proof. vm_compute; reflexivity. Qed.
