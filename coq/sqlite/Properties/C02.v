(* C02 — SQLite: generated SQL runs and builds exactly the believed schema.  Pinned statements only. *)
From VV.M1 Require Import Validate.
From VV.SQLITE Require Import Corr Known WitnessP.

(* the full-strength target for one migration (a definition, not a claim): for every replayed baseline and every plan
   that replays, the model generator's statements execute on the engine model from the believed catalog and end in
   the believed catalog of the post schema, with foreign_keys on and off *)
Definition C02_full_statement : Prop :=
  forall fk s acts s', apply_all s acts = Ok s' -> c02_holds fk s acts = true.

(* ---- the full statement is false of the faithful model: D11 (explicit CHECK dropped by CREATE TABLE) ---- *)
Theorem check_dropped_refuted :
  validate_migration_plan (mkPlan "" None None 1 d11_plan) = Ok tt
  /\ apply_all [] d11_plan = Ok [mkTable "t" None [idcol] [pk_id; CCheck "ck1" "id > 0"]]
  /\ gen_plan [] d11_plan = Ok [[SCreateTable "t" [mkSCol "id" "integer" true None false false] [["id"]] [] []]]
  /\ c02_holds true [] d11_plan = false /\ c02_holds false [] d11_plan = false
  /\ first_error true [] d11_plan = None
  /\ known_C02_explicit_check [] d11_plan = true.
Proof. exact d11_refuted. Qed.
Print Assumptions check_dropped_refuted.
Check check_dropped_refuted :
  validate_migration_plan (mkPlan "" None None 1 d11_plan) = Ok tt
  /\ apply_all [] d11_plan = Ok [mkTable "t" None [idcol] [pk_id; CCheck "ck1" "id > 0"]]
  /\ gen_plan [] d11_plan = Ok [[SCreateTable "t" [mkSCol "id" "integer" true None false false] [["id"]] [] []]]
  /\ c02_holds true [] d11_plan = false /\ c02_holds false [] d11_plan = false
  /\ first_error true [] d11_plan = None
  /\ known_C02_explicit_check [] d11_plan = true.

Theorem C02_refuted : ~ C02_full_statement.
Proof.
  intro H. specialize (H true [] d11_plan _ (proj1 (proj2 d11_refuted))).
  destruct d11_refuted as (_ & _ & _ & E & _). rewrite E in H. discriminate.
Qed.
Print Assumptions C02_refuted.
Check C02_refuted : ~ C02_full_statement.

(* ---- D17: a rebuild re-creates an index before its own AddConstraint: "index ix_t__a already exists" ---- *)
Theorem inline_index_then_rebuild_refuted :
  validate_migration_plan (mkPlan "" None None 2 d17_plan) = Ok tt
  /\ (exists s', apply_all d17_base d17_plan = Ok s')
  /\ first_error true d17_base d17_plan = Some (6%nat, ENameTaken "ix_t__a")
  /\ first_error false d17_base d17_plan = Some (6%nat, ENameTaken "ix_t__a")
  /\ known_C02_inline_index_then_rebuild d17_base d17_plan = true.
Proof. exact d17_refuted. Qed.
Print Assumptions inline_index_then_rebuild_refuted.
Check inline_index_then_rebuild_refuted :
  validate_migration_plan (mkPlan "" None None 2 d17_plan) = Ok tt
  /\ (exists s', apply_all d17_base d17_plan = Ok s')
  /\ first_error true d17_base d17_plan = Some (6%nat, ENameTaken "ix_t__a")
  /\ first_error false d17_base d17_plan = Some (6%nat, ENameTaken "ix_t__a")
  /\ known_C02_inline_index_then_rebuild d17_base d17_plan = true.

(* ---- D18: composite index member deleted, index dropped twice: "no such index: ix_t__a_b" ---- *)
Theorem composite_member_drop_refuted :
  validate_migration_plan (mkPlan "" None None 2 d18_plan) = Ok tt
  /\ (exists s', apply_all d18_base d18_plan = Ok s')
  /\ first_error true d18_base d18_plan = Some (2%nat, ENoSuchIndex "ix_t__a_b")
  /\ known_C02_composite_member_drop d18_base d18_plan = true.
Proof. exact d18_refuted. Qed.
Print Assumptions composite_member_drop_refuted.
Check composite_member_drop_refuted :
  validate_migration_plan (mkPlan "" None None 2 d18_plan) = Ok tt
  /\ (exists s', apply_all d18_base d18_plan = Ok s')
  /\ first_error true d18_base d18_plan = Some (2%nat, ENoSuchIndex "ix_t__a_b")
  /\ known_C02_composite_member_drop d18_base d18_plan = true.

(* ---- RemoveConstraint PrimaryKey does not remove an inline-declared key ---- *)
Theorem inline_pk_survives_refuted :
  (exists s', apply_all ipk_base ipk_plan = Ok s')
  /\ first_error true ipk_base ipk_plan = None
  /\ c02_holds true ipk_base ipk_plan = false
  /\ known_C02_inline_pk_survives ipk_base ipk_plan = true.
Proof. exact inline_pk_refuted. Qed.
Print Assumptions inline_pk_survives_refuted.
Check inline_pk_survives_refuted :
  (exists s', apply_all ipk_base ipk_plan = Ok s')
  /\ first_error true ipk_base ipk_plan = None
  /\ c02_holds true ipk_base ipk_plan = false
  /\ known_C02_inline_pk_survives ipk_base ipk_plan = true.

(* non-vacuity of the positive statements: a plan with a rebuild, a plain ADD COLUMN, an index and a CREATE TABLE *)
Example C02_holds_somewhere : c02_holds true ok_base ok_plan = true /\ c02_holds false ok_base ok_plan = true.
Proof. exact c02_holds_somewhere. Qed.
