(* C02 — SQLite: generated SQL runs and builds exactly the believed schema.  Pinned statements only. *)
From VV.M1 Require Import Validate.
From Coq Require Import Permutation.
From VV.SQLITE Require Import Corr Known WitnessP RowsP RebuildP SimP Sim2P Sim4P Sim5P Sim6P Sim7P Sim8P Sim9P Sim3P.

(* the full-strength target for one migration (a definition, not a claim): for every replayed baseline and every plan
   that replays, the model generator's statements execute on the engine model from the believed catalog and end in
   the believed catalog of the post schema, with foreign_keys on and off *)
Definition C02_full_statement : Prop :=
  forall fk s acts s', apply_all s acts = Ok s' -> c02_holds fk s acts = true.

(* ---- the full statement is false of the faithful model: D11 (explicit CHECK dropped by CREATE TABLE) ---- *)
Theorem check_dropped_refuted :
  validate_migration_plan (mkPlan "" None None 1 d11_plan) = Ok tt
  /\ apply_all [] d11_plan = Ok [mkTable "t" None [idcol] [pk_id; CCheck "ck1" "id > 0"]]
  /\ gen_plan [] d11_plan = Ok [[SCreateTable "t" [mkSCol "id" "integer" true None false false] [["id"]] [] []]]
  /\ c02_holds true [] d11_plan = false /\ c02_holds false [] d11_plan = false
  /\ first_error true [] d11_plan = None
  /\ known_C02_explicit_check [] d11_plan = true.
Proof. exact d11_refuted. Qed.
Print Assumptions check_dropped_refuted.
Check check_dropped_refuted :
  validate_migration_plan (mkPlan "" None None 1 d11_plan) = Ok tt
  /\ apply_all [] d11_plan = Ok [mkTable "t" None [idcol] [pk_id; CCheck "ck1" "id > 0"]]
  /\ gen_plan [] d11_plan = Ok [[SCreateTable "t" [mkSCol "id" "integer" true None false false] [["id"]] [] []]]
  /\ c02_holds true [] d11_plan = false /\ c02_holds false [] d11_plan = false
  /\ first_error true [] d11_plan = None
  /\ known_C02_explicit_check [] d11_plan = true.

Theorem C02_refuted : ~ C02_full_statement.
Proof.
  intro H. specialize (H true [] d11_plan _ (proj1 (proj2 d11_refuted))).
  destruct d11_refuted as (_ & _ & _ & E & _). rewrite E in H. discriminate.
Qed.
Print Assumptions C02_refuted.
Check C02_refuted : ~ C02_full_statement.

(* ---- D17: a rebuild re-creates an index before its own AddConstraint: "index ix_t__a already exists" ---- *)
Theorem inline_index_then_rebuild_refuted :
  validate_migration_plan (mkPlan "" None None 2 d17_plan) = Ok tt
  /\ (exists s', apply_all d17_base d17_plan = Ok s')
  /\ first_error true d17_base d17_plan = Some (6%nat, ENameTaken "ix_t__a")
  /\ first_error false d17_base d17_plan = Some (6%nat, ENameTaken "ix_t__a")
  /\ known_C02_inline_index_then_rebuild d17_base d17_plan = true.
Proof. exact d17_refuted. Qed.
Print Assumptions inline_index_then_rebuild_refuted.
Check inline_index_then_rebuild_refuted :
  validate_migration_plan (mkPlan "" None None 2 d17_plan) = Ok tt
  /\ (exists s', apply_all d17_base d17_plan = Ok s')
  /\ first_error true d17_base d17_plan = Some (6%nat, ENameTaken "ix_t__a")
  /\ first_error false d17_base d17_plan = Some (6%nat, ENameTaken "ix_t__a")
  /\ known_C02_inline_index_then_rebuild d17_base d17_plan = true.

(* ---- D18: composite index member deleted, index dropped twice: "no such index: ix_t__a_b" ---- *)
Theorem composite_member_drop_refuted :
  validate_migration_plan (mkPlan "" None None 2 d18_plan) = Ok tt
  /\ (exists s', apply_all d18_base d18_plan = Ok s')
  /\ first_error true d18_base d18_plan = Some (2%nat, ENoSuchIndex "ix_t__a_b")
  /\ known_C02_composite_member_drop d18_base d18_plan = true.
Proof. exact d18_refuted. Qed.
Print Assumptions composite_member_drop_refuted.
Check composite_member_drop_refuted :
  validate_migration_plan (mkPlan "" None None 2 d18_plan) = Ok tt
  /\ (exists s', apply_all d18_base d18_plan = Ok s')
  /\ first_error true d18_base d18_plan = Some (2%nat, ENoSuchIndex "ix_t__a_b")
  /\ known_C02_composite_member_drop d18_base d18_plan = true.

(* ---- RemoveConstraint PrimaryKey does not remove an inline-declared key ---- *)
Theorem inline_pk_survives_refuted :
  (exists s', apply_all ipk_base ipk_plan = Ok s')
  /\ first_error true ipk_base ipk_plan = None
  /\ c02_holds true ipk_base ipk_plan = false
  /\ known_C02_inline_pk_survives ipk_base ipk_plan = true.
Proof. exact inline_pk_refuted. Qed.
Print Assumptions inline_pk_survives_refuted.
Check inline_pk_survives_refuted :
  (exists s', apply_all ipk_base ipk_plan = Ok s')
  /\ first_error true ipk_base ipk_plan = None
  /\ c02_holds true ipk_base ipk_plan = false
  /\ known_C02_inline_pk_survives ipk_base ipk_plan = true.

(* a foreign key added before the primary key it references: refused by the engine model with foreign_keys=ON only *)
Theorem reference_before_key_refuted_sqlite :
  (exists s', apply_all rbk_base rbk_plan = Ok s')
  /\ first_error true rbk_base rbk_plan = Some (1%nat, EForeignKey "item_temp")
  /\ c02_holds false rbk_base rbk_plan = true
  /\ known_C02_reference_before_key rbk_base rbk_plan = true.
Proof. exact reference_before_key_refuted. Qed.
Print Assumptions reference_before_key_refuted_sqlite.
Check reference_before_key_refuted_sqlite :
  (exists s', apply_all rbk_base rbk_plan = Ok s')
  /\ first_error true rbk_base rbk_plan = Some (1%nat, EForeignKey "item_temp")
  /\ c02_holds false rbk_base rbk_plan = true
  /\ known_C02_reference_before_key rbk_base rbk_plan = true.


(* ================= the positive side: theorems that hold for all inputs ================= *)

(* the 5-step temp-table rebuild shared by eight builders: if the statements execute, the catalog afterwards is the old one
   minus t and t's indexes, plus the entry the CREATE TABLE describes (under t's name) and exactly the indexes the
   trailing statements create *)
Theorem C02_rebuild_generic : forall fk c c' t cols pks fks checks cs exprs (idx : list index_spec),
  let temp := temp_name t in
  ieq temp t = false ->
  no_fk_to temp c = true -> no_index_on temp c = true ->
  forallb (fun f => negb (ieq (sf_table f) temp)) fks = true ->
  exec_all fk c ([SCreateTable temp cols pks fks checks; SInsertSelect temp cs t exprs; SDropTable t; SRenameTable temp t]
                 ++ map (index_stmt_of t) idx) 0 = Ok c' ->
  c' = mkCat (without_table t (cat_tables c) ++ [table_of_create t cols pks fks checks])
             (without_indexes_of t (cat_indexes c) ++ map (index_of_spec t) idx).
Proof. exact rebuild_generic. Qed.
Print Assumptions C02_rebuild_generic.
Check C02_rebuild_generic : forall fk c c' t cols pks fks checks cs exprs (idx : list index_spec),
  let temp := temp_name t in
  ieq temp t = false ->
  no_fk_to temp c = true -> no_index_on temp c = true ->
  forallb (fun f => negb (ieq (sf_table f) temp)) fks = true ->
  exec_all fk c ([SCreateTable temp cols pks fks checks; SInsertSelect temp cs t exprs; SDropTable t; SRenameTable temp t]
                 ++ map (index_stmt_of t) idx) 0 = Ok c' ->
  c' = mkCat (without_table t (cat_tables c) ++ [table_of_create t cols pks fks checks])
             (without_indexes_of t (cat_indexes c) ++ map (index_of_spec t) idx).

(* … hence the believed catalog, provided the created entry is table_entry td' and the recreated index set is
   index_entries td' (the generator's recreate_indexes with nothing pending) *)
Theorem C02_rebuild_to_believed : forall fk c c' td' cols pks fks checks cs exprs before,
  let t := t_name td' in
  let temp := temp_name t in
  ieq temp t = false ->
  no_fk_to temp c = true -> no_index_on temp c = true ->
  forallb (fun f => negb (ieq (sf_table f) temp)) fks = true ->
  table_of_create t cols pks fks checks = table_entry td' ->
  exec_all fk c ([SCreateTable temp cols pks fks checks; SInsertSelect temp cs t exprs; SDropTable t; SRenameTable temp t]
                 ++ recreate_indexes t (t_constraints td') []) before = Ok c' ->
  c' = mkCat (without_table t (cat_tables c) ++ [table_entry td'])
             (without_indexes_of t (cat_indexes c) ++ index_entries td').
Proof. exact rebuild_to_believed. Qed.
Print Assumptions C02_rebuild_to_believed.
Check C02_rebuild_to_believed : forall fk c c' td' cols pks fks checks cs exprs before,
  let t := t_name td' in
  let temp := temp_name t in
  ieq temp t = false ->
  no_fk_to temp c = true -> no_index_on temp c = true ->
  forallb (fun f => negb (ieq (sf_table f) temp)) fks = true ->
  table_of_create t cols pks fks checks = table_entry td' ->
  exec_all fk c ([SCreateTable temp cols pks fks checks; SInsertSelect temp cs t exprs; SDropTable t; SRenameTable temp t]
                 ++ recreate_indexes t (t_constraints td') []) before = Ok c' ->
  c' = mkCat (without_table t (cat_tables c) ++ [table_entry td'])
             (without_indexes_of t (cat_indexes c) ++ index_entries td').

(* CreateTable outside the explicit-CHECK class, for a sane primary key (A2, A5) *)
Theorem C02_sim_sqlite_create_table : forall fk s c t cols cs n l c',
  Sim s c ->
  normalize (mkTable t None cols cs) = Ok n ->
  explicit_checks (t_constraints n) = [] ->
  pk_sane n = true ->
  gen_create_table t cols cs = GOk l ->
  exec_all fk c l 0 = Ok c' ->
  Sim (s ++ [n]) c'.
Proof. exact sim_sqlite_create_table. Qed.
Print Assumptions C02_sim_sqlite_create_table.
Check C02_sim_sqlite_create_table : forall fk s c t cols cs n l c',
  (Permutation (cat_tables c) (map table_entry s) /\ Permutation (cat_indexes c) (flat_map index_entries s)) ->
  normalize (mkTable t None cols cs) = Ok n ->
  explicit_checks (t_constraints n) = [] ->
  pk_sane n = true ->
  gen_create_table t cols cs = GOk l ->
  exec_all fk c l 0 = Ok c' ->
  (Permutation (cat_tables c') (map table_entry (s ++ [n])) /\ Permutation (cat_indexes c') (flat_map index_entries (s ++ [n]))).

Theorem C02_sim_sqlite_delete_table : forall fk s c t c',
  Sim s c -> ci_exact s t = true ->
  exec_all fk c [SDropTable t] 0 = Ok c' ->
  Sim (filter (fun x => negb (String.eqb (t_name x) t)) s) c'.
Proof. exact sim_sqlite_delete_table. Qed.
Print Assumptions C02_sim_sqlite_delete_table.
Check C02_sim_sqlite_delete_table : forall fk s c t c',
  Sim s c -> ci_exact s t = true ->
  exec_all fk c [SDropTable t] 0 = Ok c' ->
  Sim (filter (fun x => negb (String.eqb (t_name x) t)) s) c'.

Theorem C02_sim_sqlite_add_index : forall fk s c t k s' c',
  Sim s c -> ci_exact s t = true -> index_like k = true ->
  apply_action s (AddConstraint t k) = Ok s' ->
  exec_all fk c (index_stmt t k) 0 = Ok c' ->
  Sim s' c'.
Proof. exact sim_sqlite_add_index. Qed.
Print Assumptions C02_sim_sqlite_add_index.
Check C02_sim_sqlite_add_index : forall fk s c t k s' c',
  Sim s c -> ci_exact s t = true -> index_like k = true ->
  apply_action s (AddConstraint t k) = Ok s' ->
  exec_all fk c (index_stmt t k) 0 = Ok c' ->
  Sim s' c'.

Theorem C02_sim_sqlite_modify_nullable : forall fk s c t col b fill td s' l c',
  Sim s c -> ci_exact s t = true -> temp_free s t = true -> unique_table s t = true ->
  find_table t s = Some td -> pk_sane (modified td col (set_nullable b)) = true ->
  apply_action s (ModifyColumnNullable t col b fill) = Ok s' ->
  gen s [] (ModifyColumnNullable t col b fill) = GOk l ->
  exec_all fk c l 0 = Ok c' ->
  Sim s' c'.
Proof. exact sim_sqlite_modify_nullable. Qed.
Print Assumptions C02_sim_sqlite_modify_nullable.
Check C02_sim_sqlite_modify_nullable : forall fk s c t col b fill td s' l c',
  Sim s c -> ci_exact s t = true -> temp_free s t = true -> unique_table s t = true ->
  find_table t s = Some td -> pk_sane (modified td col (set_nullable b)) = true ->
  apply_action s (ModifyColumnNullable t col b fill) = Ok s' ->
  gen s [] (ModifyColumnNullable t col b fill) = GOk l ->
  exec_all fk c l 0 = Ok c' ->
  Sim s' c'.

Theorem C02_sim_sqlite_modify_default : forall fk s c t col d td s' l c',
  Sim s c -> ci_exact s t = true -> temp_free s t = true -> unique_table s t = true ->
  find_table t s = Some td -> pk_sane (modified td col (set_default (option_map DStr d))) = true ->
  apply_action s (ModifyColumnDefault t col d) = Ok s' ->
  gen s [] (ModifyColumnDefault t col d) = GOk l ->
  exec_all fk c l 0 = Ok c' ->
  Sim s' c'.
Proof. exact sim_sqlite_modify_default. Qed.
Print Assumptions C02_sim_sqlite_modify_default.
Check C02_sim_sqlite_modify_default : forall fk s c t col d td s' l c',
  Sim s c -> ci_exact s t = true -> temp_free s t = true -> unique_table s t = true ->
  find_table t s = Some td -> pk_sane (modified td col (set_default (option_map DStr d))) = true ->
  apply_action s (ModifyColumnDefault t col d) = Ok s' ->
  gen s [] (ModifyColumnDefault t col d) = GOk l ->
  exec_all fk c l 0 = Ok c' ->
  Sim s' c'.

Theorem C02_sim_sqlite_modify_type : forall fk s c t col ty fw td s' l c',
  Sim s c -> ci_exact s t = true -> temp_free s t = true -> unique_table s t = true ->
  find_table t s = Some td -> pk_sane (modified td col (set_type ty)) = true ->
  apply_action s (ModifyColumnType t col ty fw) = Ok s' ->
  gen s [] (ModifyColumnType t col ty fw) = GOk l ->
  exec_all fk c l 0 = Ok c' ->
  Sim s' c'.
Proof. exact sim_sqlite_modify_type. Qed.
Print Assumptions C02_sim_sqlite_modify_type.
Check C02_sim_sqlite_modify_type : forall fk s c t col ty fw td s' l c',
  Sim s c -> ci_exact s t = true -> temp_free s t = true -> unique_table s t = true ->
  find_table t s = Some td -> pk_sane (modified td col (set_type ty)) = true ->
  apply_action s (ModifyColumnType t col ty fw) = Ok s' ->
  gen s [] (ModifyColumnType t col ty fw) = GOk l ->
  exec_all fk c l 0 = Ok c' ->
  Sim s' c'.

(* ---- further action kinds (each outside the recorded classes, under decidable side conditions) ---- *)
Theorem C02_sim_rebuild_general : forall fk s c t td td' s' scols pks fks checks dst exprs before c',
  Sim s c -> ci_exact s t = true -> temp_free s t = true -> unique_table s t = true ->
  find_table t s = Some td -> t_name td' = t ->
  update_table t (fun _ => Ok td') s = Ok s' ->
  forallb is_update before = true ->
  forallb (fun f => negb (ieq (sf_table f) (temp_name t))) fks = true ->
  table_of_create t scols pks fks checks = table_entry td' ->
  exec_all fk c (before ++ [SCreateTable (temp_name t) scols pks fks checks; SInsertSelect (temp_name t) dst t exprs;
                            SDropTable t; SRenameTable (temp_name t) t]
                        ++ recreate_indexes t (t_constraints td') []) 0 = Ok c' ->
  Sim s' c'.
Proof. exact sim_rebuild_general. Qed.
Print Assumptions C02_sim_rebuild_general.
Check C02_sim_rebuild_general : forall fk s c t td td' s' scols pks fks checks dst exprs before c',
  Sim s c -> ci_exact s t = true -> temp_free s t = true -> unique_table s t = true ->
  find_table t s = Some td -> t_name td' = t ->
  update_table t (fun _ => Ok td') s = Ok s' ->
  forallb is_update before = true ->
  forallb (fun f => negb (ieq (sf_table f) (temp_name t))) fks = true ->
  table_of_create t scols pks fks checks = table_entry td' ->
  exec_all fk c (before ++ [SCreateTable (temp_name t) scols pks fks checks; SInsertSelect (temp_name t) dst t exprs;
                            SDropTable t; SRenameTable (temp_name t) t]
                        ++ recreate_indexes t (t_constraints td') []) 0 = Ok c' ->
  Sim s' c'.

Theorem C02_sim_sqlite_add_constraint_rebuild : forall fk s c t k pending td s' l c',
  Sim s c -> ci_exact s t = true -> temp_free s t = true -> unique_table s t = true ->
  index_like k = false ->
  find_table t s = Some td ->
  contains_constraint k (t_constraints td) = false ->
  existsb (fun c0 => constraints_overlap c0 k) (t_constraints td) = false ->
  forallb (fun k0 => negb (contains_constraint k0 pending)) (t_constraints td) = true ->
  pk_sane (add_constraint_to k td) = true ->
  match k with CForeignKey _ _ rt _ _ _ => ieq rt (temp_name t) = false | _ => True end ->
  apply_action s (AddConstraint t k) = Ok s' ->
  gen s pending (AddConstraint t k) = GOk l ->
  exec_all fk c l 0 = Ok c' ->
  Sim s' c'.
Proof. exact sim_sqlite_add_constraint_rebuild. Qed.
Print Assumptions C02_sim_sqlite_add_constraint_rebuild.
Check C02_sim_sqlite_add_constraint_rebuild : forall fk s c t k pending td s' l c',
  Sim s c -> ci_exact s t = true -> temp_free s t = true -> unique_table s t = true ->
  index_like k = false ->
  find_table t s = Some td ->
  contains_constraint k (t_constraints td) = false ->
  existsb (fun c0 => constraints_overlap c0 k) (t_constraints td) = false ->
  forallb (fun k0 => negb (contains_constraint k0 pending)) (t_constraints td) = true ->
  pk_sane (add_constraint_to k td) = true ->
  match k with CForeignKey _ _ rt _ _ _ => ieq rt (temp_name t) = false | _ => True end ->
  apply_action s (AddConstraint t k) = Ok s' ->
  gen s pending (AddConstraint t k) = GOk l ->
  exec_all fk c l 0 = Ok c' ->
  Sim s' c'.

Theorem C02_sim_sqlite_modify_comment : forall fk s c t col cm s' l c',
  Sim s c ->
  apply_action s (ModifyColumnComment t col cm) = Ok s' ->
  gen s [] (ModifyColumnComment t col cm) = GOk l ->
  exec_all fk c l 0 = Ok c' ->
  Sim s' c'.
Proof. exact sim_sqlite_modify_comment. Qed.
Print Assumptions C02_sim_sqlite_modify_comment.
Check C02_sim_sqlite_modify_comment : forall fk s c t col cm s' l c',
  Sim s c ->
  apply_action s (ModifyColumnComment t col cm) = Ok s' ->
  gen s [] (ModifyColumnComment t col cm) = GOk l ->
  exec_all fk c l 0 = Ok c' ->
  Sim s' c'.

Theorem C02_sim_sqlite_add_column_rebuild : forall fk s c t col f td s' l c',
  Sim s c -> ci_exact s t = true -> temp_free s t = true -> unique_table s t = true ->
  find_table t s = Some td -> add_column_stable td col = true ->
  (negb (c_nullable col) || is_enum_type (c_type col))%bool = true ->
  pk_sane (with_column td col) = true ->
  apply_action s (AddColumn t col f) = Ok s' ->
  gen s [] (AddColumn t col f) = GOk l ->
  exec_all fk c l 0 = Ok c' ->
  Sim s' c'.
Proof. exact sim_sqlite_add_column_rebuild. Qed.
Print Assumptions C02_sim_sqlite_add_column_rebuild.
Check C02_sim_sqlite_add_column_rebuild : forall fk s c t col f td s' l c',
  Sim s c -> ci_exact s t = true -> temp_free s t = true -> unique_table s t = true ->
  find_table t s = Some td -> add_column_stable td col = true ->
  (negb (c_nullable col) || is_enum_type (c_type col))%bool = true ->
  pk_sane (with_column td col) = true ->
  apply_action s (AddColumn t col f) = Ok s' ->
  gen s [] (AddColumn t col f) = GOk l ->
  exec_all fk c l 0 = Ok c' ->
  Sim s' c'.

Theorem C02_sim_sqlite_add_column_plain : forall fk s c t col f td s' l c',
  Sim s c -> ci_exact s t = true -> unique_table s t = true ->
  find_table t s = Some td -> add_column_stable td col = true ->
  c_nullable col = true -> is_enum_type (c_type col) = false ->
  position_ci (c_name col) (snd (the_pk td)) 1 = 0 ->
  apply_action s (AddColumn t col f) = Ok s' ->
  gen s [] (AddColumn t col f) = GOk l ->
  exec_all fk c l 0 = Ok c' ->
  Sim s' c'.
Proof. exact sim_sqlite_add_column_plain. Qed.
Print Assumptions C02_sim_sqlite_add_column_plain.
Check C02_sim_sqlite_add_column_plain : forall fk s c t col f td s' l c',
  Sim s c -> ci_exact s t = true -> unique_table s t = true ->
  find_table t s = Some td -> add_column_stable td col = true ->
  c_nullable col = true -> is_enum_type (c_type col) = false ->
  position_ci (c_name col) (snd (the_pk td)) 1 = 0 ->
  apply_action s (AddColumn t col f) = Ok s' ->
  gen s [] (AddColumn t col f) = GOk l ->
  exec_all fk c l 0 = Ok c' ->
  Sim s' c'.

Theorem C02_sim_sqlite_delete_column_rebuild : forall fk s c t col td s' l c',
  Sim s c -> ci_exact s t = true -> temp_free s t = true -> unique_table s t = true ->
  find_table t s = Some td ->
  forallb (delcol_ok col) (t_constraints td) = true ->
  pk_sane (without_column td col) = true ->
  apply_action s (DeleteColumn t col) = Ok s' ->
  delete_column_temp t col td = GOk l ->
  exec_all fk c l 0 = Ok c' ->
  Sim s' c'.
Proof. exact sim_sqlite_delete_column_rebuild. Qed.
Print Assumptions C02_sim_sqlite_delete_column_rebuild.
Check C02_sim_sqlite_delete_column_rebuild : forall fk s c t col td s' l c',
  Sim s c -> ci_exact s t = true -> temp_free s t = true -> unique_table s t = true ->
  find_table t s = Some td ->
  forallb (delcol_ok col) (t_constraints td) = true ->
  pk_sane (without_column td col) = true ->
  apply_action s (DeleteColumn t col) = Ok s' ->
  delete_column_temp t col td = GOk l ->
  exec_all fk c l 0 = Ok c' ->
  Sim s' c'.

Theorem C02_sim_sqlite_remove_index : forall fk s c t n cols s' l c',
  let k := CIndex n cols in
  Sim s c -> unique_table s t = true -> name_owner_ok s t k = true ->
  apply_action s (RemoveConstraint t k) = Ok s' ->
  gen s [] (RemoveConstraint t k) = GOk l ->
  exec_all fk c l 0 = Ok c' ->
  Sim s' c'.
Proof. exact sim_sqlite_remove_index. Qed.
Print Assumptions C02_sim_sqlite_remove_index.
Check C02_sim_sqlite_remove_index : forall fk s c t n cols s' l c',
  let k := CIndex n cols in
  Sim s c -> unique_table s t = true -> name_owner_ok s t k = true ->
  apply_action s (RemoveConstraint t k) = Ok s' ->
  gen s [] (RemoveConstraint t k) = GOk l ->
  exec_all fk c l 0 = Ok c' ->
  Sim s' c'.

Theorem C02_sim_sqlite_remove_constraint_rebuild : forall fk s c t k td s' l c',
  Sim s c -> ci_exact s t = true -> temp_free s t = true -> unique_table s t = true ->
  match k with CIndex _ _ => False | _ => True end ->
  find_table t s = Some td ->
  forallb (fun c0 => Bool.eqb (keep_after_remove k c0) (negb (constraint_eqb c0 k))) (t_constraints td) = true ->
  pk_sane (mkTable (t_name td) (t_description td) (t_columns td)
                   (filter (fun c0 => negb (constraint_eqb c0 k)) (t_constraints td))) = true ->
  apply_action s (RemoveConstraint t k) = Ok s' ->
  gen s [] (RemoveConstraint t k) = GOk l ->
  exec_all fk c l 0 = Ok c' ->
  Sim s' c'.
Proof. exact sim_sqlite_remove_constraint_rebuild. Qed.
Print Assumptions C02_sim_sqlite_remove_constraint_rebuild.
Check C02_sim_sqlite_remove_constraint_rebuild : forall fk s c t k td s' l c',
  Sim s c -> ci_exact s t = true -> temp_free s t = true -> unique_table s t = true ->
  match k with CIndex _ _ => False | _ => True end ->
  find_table t s = Some td ->
  forallb (fun c0 => Bool.eqb (keep_after_remove k c0) (negb (constraint_eqb c0 k))) (t_constraints td) = true ->
  pk_sane (mkTable (t_name td) (t_description td) (t_columns td)
                   (filter (fun c0 => negb (constraint_eqb c0 k)) (t_constraints td))) = true ->
  apply_action s (RemoveConstraint t k) = Ok s' ->
  gen s [] (RemoveConstraint t k) = GOk l ->
  exec_all fk c l 0 = Ok c' ->
  Sim s' c'.

Theorem C02_sim_sqlite_rename_table : forall fk s c from to td s' c',
  Sim s c -> ci_exact s from = true -> unique_table s from = true ->
  find_table from s = Some td ->
  existsb index_like (t_constraints td) = false -> no_enum_cols td = true -> no_ref_ci s from = true ->
  apply_action s (RenameTable from to) = Ok s' ->
  exec_all fk c [SRenameTable from to] 0 = Ok c' ->
  Sim s' c'.
Proof. exact sim_sqlite_rename_table. Qed.
Print Assumptions C02_sim_sqlite_rename_table.
Check C02_sim_sqlite_rename_table : forall fk s c from to td s' c',
  Sim s c -> ci_exact s from = true -> unique_table s from = true ->
  find_table from s = Some td ->
  existsb index_like (t_constraints td) = false -> no_enum_cols td = true -> no_ref_ci s from = true ->
  apply_action s (RenameTable from to) = Ok s' ->
  exec_all fk c [SRenameTable from to] 0 = Ok c' ->
  Sim s' c'.

(* RemoveConstraint of the primary key, outside known_C02_inline_pk_survives (no inline primary_key field is left): the table is
   rebuilt without a key and [pk_sane] admits such tables in every later action *)
Theorem C02_sim_sqlite_remove_primary_key : forall fk s c t a cols td s' l c',
  let k := CPrimaryKey a cols in
  Sim s c -> ci_exact s t = true -> temp_free s t = true -> unique_table s t = true ->
  find_table t s = Some td ->
  forallb (fun c0 => Bool.eqb (keep_after_remove k c0) (negb (constraint_eqb c0 k))) (t_constraints td) = true ->
  nodup_names (map c_name (t_columns td)) = true -> no_inline_pk td = true ->
  apply_action s (RemoveConstraint t k) = Ok s' ->
  gen s [] (RemoveConstraint t k) = GOk l ->
  exec_all fk c l 0 = Ok c' ->
  Sim s' c'.
Proof. exact sim_sqlite_remove_primary_key. Qed.
Print Assumptions C02_sim_sqlite_remove_primary_key.
Check C02_sim_sqlite_remove_primary_key : forall fk s c t a cols td s' l c',
  let k := CPrimaryKey a cols in
  Sim s c -> ci_exact s t = true -> temp_free s t = true -> unique_table s t = true ->
  find_table t s = Some td ->
  forallb (fun c0 => Bool.eqb (keep_after_remove k c0) (negb (constraint_eqb c0 k))) (t_constraints td) = true ->
  nodup_names (map c_name (t_columns td)) = true -> no_inline_pk td = true ->
  apply_action s (RemoveConstraint t k) = Ok s' ->
  gen s [] (RemoveConstraint t k) = GOk l ->
  exec_all fk c l 0 = Ok c' ->
  Sim s' c'.


(* DeleteColumn through ALTER TABLE … DROP COLUMN, preceded by the DROP INDEX statements of the single-column indexes / uniques
   over the column: outside known_C02_composite_member_drop / known_C02_check_survives_column_drop ([delcol_ok]); the names of
   the dropped indexes belong to nothing else ([delcol_names_ok]) *)
Theorem C02_sim_sqlite_delete_column_plain : forall fk s c t col td drops s' c',
  Sim s c -> ci_exact s t = true -> unique_table s t = true ->
  find_table t s = Some td ->
  delete_column_scan t col (t_constraints td) [] = DcDrops drops ->
  col_not_enum col td = true ->
  col_ci_exact col td = true ->
  forallb (delcol_ok col) (t_constraints td) = true ->
  delcol_names_ok s t col td = true ->
  apply_action s (DeleteColumn t col) = Ok s' ->
  exec_all fk c (drops ++ [SDropColumn t col]) 0 = Ok c' ->
  Sim s' c'.
Proof. exact sim_sqlite_delete_column_plain. Qed.
Print Assumptions C02_sim_sqlite_delete_column_plain.
Check C02_sim_sqlite_delete_column_plain : forall fk s c t col td drops s' c',
  Sim s c -> ci_exact s t = true -> unique_table s t = true ->
  find_table t s = Some td ->
  delete_column_scan t col (t_constraints td) [] = DcDrops drops ->
  col_not_enum col td = true ->
  col_ci_exact col td = true ->
  forallb (delcol_ok col) (t_constraints td) = true ->
  delcol_names_ok s t col td = true ->
  apply_action s (DeleteColumn t col) = Ok s' ->
  exec_all fk c (drops ++ [SDropColumn t col]) 0 = Ok c' ->
  Sim s' c'.


(* RenameColumn, outside known_C02_rename_column ([rencol_ok]: the column is in no index / unique, is no enum, no CHECK text
   changes, no other table references it, no own foreign key to another table names a referenced column spelled like it; the
   old name has no case variant and the new name is unused) *)
Theorem C02_sim_sqlite_rename_column : forall fk s c t from to td s' c',
  Sim s c -> ci_exact s t = true -> unique_table s t = true ->
  find_table t s = Some td ->
  rencol_ok s t from to td = true ->
  apply_action s (RenameColumn t from to) = Ok s' ->
  exec_all fk c [SRenameColumn t from to] 0 = Ok c' ->
  Sim s' c'.
Proof. exact sim_sqlite_rename_column. Qed.
Print Assumptions C02_sim_sqlite_rename_column.
Check C02_sim_sqlite_rename_column : forall fk s c t from to td s' c',
  Sim s c -> ci_exact s t = true -> unique_table s t = true ->
  find_table t s = Some td ->
  rencol_ok s t from to td = true ->
  apply_action s (RenameColumn t from to) = Ok s' ->
  exec_all fk c [SRenameColumn t from to] 0 = Ok c' ->
  Sim s' c'.


(* lifted over whole plans (evolving schema, pending constraints) and whole histories by induction: no bound on tables, actions
   or migrations.  plan_hyp admits every action kind, each under the decidable side conditions of step_hyp (A2, A3, A5 and
   "outside the recorded classes"); PARTIAL as partial correctness (the engine model must execute the statements), and what
   the side conditions do not admit rests on the libsqlite3 oracle. *)
Theorem C02_Sim_plan_partial : forall fk acts s c ls s' c',
  Sim s c -> plan_hyp s acts = true ->
  apply_all s acts = Ok s' ->
  gen_plan s acts = Ok ls ->
  exec_all fk c (List.concat ls) 0 = Ok c' ->
  Sim s' c'.
Proof. exact Sim_plan_partial. Qed.
Print Assumptions C02_Sim_plan_partial.
Check C02_Sim_plan_partial : forall fk acts s c ls s' c',
  Sim s c -> plan_hyp s acts = true ->
  apply_all s acts = Ok s' ->
  gen_plan s acts = Ok ls ->
  exec_all fk c (List.concat ls) 0 = Ok c' ->
  Sim s' c'.

Theorem C02_Sim_history_partial : forall fk plans s c s' c',
  Sim s c -> run_history fk s c plans = Some (s', c') -> Sim s' c'.
Proof. exact Sim_history_partial. Qed.
Print Assumptions C02_Sim_history_partial.
Check C02_Sim_history_partial : forall fk plans s c s' c',
  Sim s c -> run_history fk s c plans = Some (s', c') -> Sim s' c'.

(* the hypotheses are satisfiable: a three-migration history over two tables with rebuilds, both pragmas *)
Example C02_history_hyp_satisfiable :
  (exists r, run_history true [] empty_catalog demo_history = Some r)
  /\ (exists r, run_history false [] empty_catalog demo_history = Some r).
Proof. exact demo_history_runs. Qed.
Example C02_history_hyp_satisfiable2 :
  (exists r, run_history true [] empty_catalog demo_history2 = Some r)
  /\ (exists r, run_history false [] empty_catalog demo_history2 = Some r).
Proof. exact demo_history2_runs. Qed.
(* … and by a history through RenameColumn, the ALTER TABLE DROP COLUMN path and RemoveConstraint of a primary key (the same
   history is corpus/sqlite/sim_demo_history3.json and replays on libsqlite3 with the implementation's SQL) *)
Example C02_history_hyp_satisfiable3 :
  (exists r, run_history true [] empty_catalog demo_history3 = Some r)
  /\ (exists r, run_history false [] empty_catalog demo_history3 = Some r).
Proof. exact demo_history3_runs. Qed.

(* non-vacuity of the positive statements: a plan with a rebuild, a plain ADD COLUMN, an index and a CREATE TABLE *)
Example C02_holds_somewhere : c02_holds true ok_base ok_plan = true /\ c02_holds false ok_base ok_plan = true.
Proof. exact c02_holds_somewhere. Qed.
