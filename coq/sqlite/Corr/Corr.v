(* Correspondence driver of the SQLITE layer.  K-sql(sqlite): for every migration the harness prints the replayed
   baseline and the plan's actions (vcommon::gallina) and the Python driver prints the statements the implementation
   emitted, parsed by tools/sqlite_sqlparse.py (or the error / panic outcome); [check_sql] recomputes them with
   gen_plan.  No proofs here. *)
From VV.SQLITE Require Export Gen.

Record sql_case := mkSqlCase {
  q_baseline : schema;
  q_actions : list action;
  q_impl : result (list (list stmt)) gen_error }.

Definition gen_error_eq_dec (x y : gen_error) : {x = y} + {x <> y}.
Proof. decide equality. Defined.

Definition res_eqb {A E} (da : forall x y : A, {x = y} + {x <> y}) (de : forall x y : E, {x = y} + {x <> y})
  (a b : result A E) : bool :=
  match a, b with
  | Ok x, Ok y => dec_b da x y
  | Err x, Err y => dec_b de x y
  | _, _ => false
  end.

Definition check_sql (c : sql_case) : bool :=
  res_eqb (list_eq_dec (list_eq_dec stmt_eq_dec)) gen_error_eq_dec
          (gen_plan (q_baseline c) (q_actions c)) (q_impl c).

Fixpoint sql_mismatches_from (i : nat) (cs : list sql_case) : list nat :=
  match cs with
  | [] => []
  | c :: r => if check_sql c then sql_mismatches_from (S i) r else i :: sql_mismatches_from (S i) r
  end.

(* index of the first action whose statements differ (for the replay file) *)
Fixpoint first_diff_action (i : nat) (a b : list (list stmt)) : option nat :=
  match a, b with
  | [], [] => None
  | x :: r, y :: s => if dec_b (list_eq_dec stmt_eq_dec) x y then first_diff_action (S i) r s else Some i
  | _, _ => Some i
  end.
Definition sql_diff_at (c : sql_case) : option nat :=
  match gen_plan (q_baseline c) (q_actions c), q_impl c with
  | Ok a, Ok b => first_diff_action 0 a b
  | Err x, Err y => if dec_b gen_error_eq_dec x y then None else Some 0
  | _, _ => Some 0
  end.
