(* Correspondence driver of the SQLITE layer.  K-sql(sqlite): for every migration the harness prints the replayed
   baseline and the plan's actions (vcommon::gallina) and the Python driver prints the statements the implementation
   emitted, parsed by tools/sqlite_sqlparse.py (or the error / panic outcome); [check_sql] recomputes them with
   gen_plan.  No proofs here. *)
From VV.SQLITE Require Export Gen.

Record sql_case := mkSqlCase {
  q_baseline : schema;
  q_actions : list action;
  q_impl : result (list (list stmt)) gen_error }.

Definition gen_error_eq_dec (x y : gen_error) : {x = y} + {x <> y}.
Proof. decide equality. Defined.

Definition res_eqb {A E} (da : forall x y : A, {x = y} + {x <> y}) (de : forall x y : E, {x = y} + {x <> y})
  (a b : result A E) : bool :=
  match a, b with
  | Ok x, Ok y => dec_b da x y
  | Err x, Err y => dec_b de x y
  | _, _ => false
  end.

Definition check_sql (c : sql_case) : bool :=
  res_eqb (list_eq_dec (list_eq_dec stmt_eq_dec)) gen_error_eq_dec
          (gen_plan (q_baseline c) (q_actions c)) (q_impl c).

Fixpoint sql_mismatches_from (i : nat) (cs : list sql_case) : list nat :=
  match cs with
  | [] => []
  | c :: r => if check_sql c then sql_mismatches_from (S i) r else i :: sql_mismatches_from (S i) r
  end.

(* index of the first action whose statements differ (for the replay file) *)
Fixpoint first_diff_action (i : nat) (a b : list (list stmt)) : option nat :=
  match a, b with
  | [], [] => None
  | x :: r, y :: s => if dec_b (list_eq_dec stmt_eq_dec) x y then first_diff_action (S i) r s else Some i
  | _, _ => Some i
  end.
Definition sql_diff_at (c : sql_case) : option nat :=
  match gen_plan (q_baseline c) (q_actions c), q_impl c with
  | Ok a, Ok b => first_diff_action 0 a b
  | Err x, Err y => if dec_b gen_error_eq_dec x y then None else Some 0
  | _, _ => Some 0
  end.

(* ------------------------------------------------------------------------------------------------------------
   K-eng-sqlite: the engine model against libsqlite3.  For one migration: the catalog libsqlite3 held before it
   (read back through PRAGMAs, printed as a term), the inputs of the generator, and what libsqlite3 answered when it
   executed the IMPLEMENTATION's statements: the catalog afterwards, or the flat position of the first failing
   statement.  The model executes the MODEL's statements (gen_plan) with [exec]. *)
From VV.SQLITE Require Export Engine.

Fixpoint remove_first {A} (eq : A -> A -> bool) (x : A) (l : list A) : option (list A) :=
  match l with
  | [] => None
  | y :: r => if eq x y then Some r else option_map (cons y) (remove_first eq x r)
  end.
Fixpoint perm_eqb {A} (eq : A -> A -> bool) (a b : list A) : bool :=
  match a with
  | [] => match b with [] => true | _ => false end
  | x :: r => match remove_first eq x b with Some b' => perm_eqb eq r b' | None => false end
  end.

Definition opt_str_eqb (a b : option string) : bool := dec_b (option_eq_dec string_dec) a b.
Definition strs_eqb (a b : list string) : bool := dec_b (list_eq_dec string_dec) a b.
Definition action_or_default (a : option ref_action) : ref_action := match a with Some x => x | None => NoAction end.
Definition ccol_equiv (a b : ccol) : bool :=
  (String.eqb (cc_name a) (cc_name b) && ieq (cc_type a) (cc_type b) && Bool.eqb (cc_notnull a) (cc_notnull b)
   && opt_str_eqb (cc_default a) (cc_default b) && Nat.eqb (cc_pk a) (cc_pk b))%bool.
Definition sfk_equiv (a b : sfk) : bool :=
  (strs_eqb (sf_cols a) (sf_cols b) && String.eqb (sf_table a) (sf_table b) && strs_eqb (sf_refcols a) (sf_refcols b)
   && dec_b ref_action_eq_dec (action_or_default (sf_on_delete a)) (action_or_default (sf_on_delete b))
   && dec_b ref_action_eq_dec (action_or_default (sf_on_update a)) (action_or_default (sf_on_update b)))%bool.
Definition ctable_equiv (a b : ctable) : bool :=
  (String.eqb (ct_name a) (ct_name b) && list_eqb ccol_equiv (ct_cols a) (ct_cols b)
   && Bool.eqb (ct_autoinc a) (ct_autoinc b) && perm_eqb sfk_equiv (ct_fks a) (ct_fks b)
   && perm_eqb check_eqb (ct_checks a) (ct_checks b))%bool.
Definition cindex_equiv (a b : cindex) : bool :=
  (String.eqb (ci_name a) (ci_name b) && String.eqb (ci_table a) (ci_table b) && Bool.eqb (ci_unique a) (ci_unique b)
   && strs_eqb (ci_cols a) (ci_cols b))%bool.
Definition cat_equiv (a b : catalog) : bool :=
  (perm_eqb ctable_equiv (cat_tables a) (cat_tables b) && perm_eqb cindex_equiv (cat_indexes a) (cat_indexes b))%bool.

Record eng_case := mkEngCase {
  e_fk : bool;                          (* PRAGMA foreign_keys *)
  e_pre : catalog;                      (* libsqlite3's catalog before the migration *)
  e_baseline : schema;
  e_actions : list action;
  e_real : result catalog nat;          (* libsqlite3: catalog afterwards / flat index of the first failing statement *)
  e_believed_ok : bool }.               (* O-C02's verdict: real catalog = catalog of the believed post schema *)

Definition post_schema (c : eng_case) : schema := fold_left apply_ignoring (e_actions c) (e_baseline c).
(* DESIGN.md Appendix A: the believed constraints of a table are those of its normalisation (an inline declaration left on a
   column re-promotes a constraint that DeleteColumn removed from the list) *)
Definition believed_table (t : table_def) : table_def := match normalize t with Ok n => n | Err _ => t end.

(* sub-checks: 1 = exec agrees with libsqlite3 (catalog / first error position);
               2 = catalog_of (believed post schema) vs the real catalog agrees with the Python oracle's verdict *)
Definition check_eng (c : eng_case) : list nat :=
  match gen_plan (e_baseline c) (e_actions c) with
  | Err _ => []                                        (* nothing was executed *)
  | Ok ls =>
      (match exec_all (e_fk c) (e_pre c) (List.concat ls) 0, e_real c with
       | Ok m, Ok r => if cat_equiv m r then [] else [1%nat]
       | Err (i, _), Err j => if Nat.eqb i j then [] else [1%nat]
       | _, _ => [1%nat]
       end)
      ++ (match e_real c with
          | Ok r => if Bool.eqb (cat_equiv (catalog_of (map believed_table (post_schema c))) r) (e_believed_ok c) then [] else [2%nat]
          | Err _ => []
          end)
  end.

Fixpoint eng_mismatches_from (i : nat) (cs : list eng_case) : list (nat * list nat) :=
  match cs with
  | [] => []
  | c :: r => match check_eng c with
              | [] => eng_mismatches_from (S i) r
              | l => (i, l) :: eng_mismatches_from (S i) r
              end
  end.

(* ------------------------------------------------------------------------------------------------------------
   K-eng-sqlite, rows (C05): libsqlite3's catalog and row snapshot before a migration, and its row snapshot after executing
   the implementation's statements (or the flat position of the first failing statement); the model executes the
   model's statements with Rows.exec_db. *)
From VV.SQLITE Require Export Rows.

Definition value_match (model real : value) : bool :=
  match model, real with
  | VAny, VText _ => true
  | _, _ => value_eqb model real
  end.
Definition row_match (m r : row) : bool :=
  list_eqb (fun a b => (String.eqb (fst a) (fst b) && value_match (snd a) (snd b))%bool) m r.
Definition table_rows_match (m r : string * list row) : bool :=
  (String.eqb (fst m) (fst r) && perm_eqb row_match (snd m) (snd r))%bool.
Definition rows_equiv (m r : rows_db) : bool := perm_eqb table_rows_match m r.

Record rows_case := mkRowsCase {
  r_fk : bool;
  r_pre_cat : catalog;
  r_pre_rows : rows_db;
  r_baseline : schema;
  r_actions : list action;
  r_real : result rows_db nat }.

Definition check_rows (c : rows_case) : bool :=
  match gen_plan (r_baseline c) (r_actions c) with
  | Err _ => true
  | Ok ls =>
      match exec_db_all (r_fk c) (mkDb (r_pre_cat c) (r_pre_rows c)) (List.concat ls) 0, r_real c with
      | Ok d, Ok rr => rows_equiv (db_rows d) rr
      | Err (i, _), Err j => Nat.eqb i j
      | _, _ => false
      end
  end.
Fixpoint rows_mismatches_from (i : nat) (cs : list rows_case) : list nat :=
  match cs with
  | [] => []
  | c :: r => if check_rows c then rows_mismatches_from (S i) r else i :: rows_mismatches_from (S i) r
  end.
