(* SQLITE layer: abstract statements — exactly the shapes vespertide-query can emit on the SQLite backend
   (sea-query 0.32.7 SqliteQueryBuilder text + the raw format!s of the builders).  Rendered column types and
   user-supplied fragments (defaults, CHECK expressions, fill values, raw SQL) are carried verbatim as strings.
   tools/sqlite_sqlparse.py parses the implementation's SQL text into these terms (and renders them back; the
   round trip is asserted on every statement).  No proofs here. *)
From VV.M1 Require Export Apply.

Record scol := mkSCol {
  sc_name : string;
  sc_type : string;               (* rendered type text, e.g. "varchar(32)", "enum_text" *)
  sc_notnull : bool;
  sc_default : option string;     (* text after DEFAULT, verbatim *)
  sc_pk : bool;                   (* inline PRIMARY KEY *)
  sc_autoinc : bool }.            (* AUTOINCREMENT *)

Record sfk := mkSFk {
  sf_cols : list string;
  sf_table : string;
  sf_refcols : list string;
  sf_on_delete : option ref_action;
  sf_on_update : option ref_action }.

Inductive sel_expr :=
| SelCol (c : string)                      (* "c" *)
| SelExpr (text alias : string).           (* text AS "alias" *)

Inductive upd_where :=
| WNone
| WIsNull (c : string)                     (* WHERE "c" IS NULL *)
| WEqLit (c lit : string).                 (* WHERE "c" = lit   (lit is the quoted literal text) *)

Inductive stmt :=
| SCreateTable (name : string) (cols : list scol) (pks : list (list string)) (fks : list sfk)
               (checks : list (string * string))        (* CONSTRAINT "name" CHECK (expr) *)
| SDropTable (name : string)
| SRenameTable (from to : string)
| SCreateIndex (unique : bool) (name table : string) (cols : list string)
| SDropIndex (name : string)
| SAddColumn (table : string) (col : scol)
| SDropColumn (table col : string)
| SRenameColumn (table from to : string)
| SInsertSelect (dst : string) (cols : list string) (src : string) (exprs : list sel_expr)
| SUpdate (table col value : string) (w : upd_where)
| SRaw (text : string).

(* ---------- decidable equality ---------- *)
Definition scol_eq_dec (x y : scol) : {x = y} + {x <> y}.
Proof. decide equality; auto using string_dec, bool_dec; apply option_eq_dec, string_dec. Defined.
Definition sfk_eq_dec (x y : sfk) : {x = y} + {x <> y}.
Proof.
  decide equality; auto using string_dec; try (apply list_eq_dec, string_dec);
    apply option_eq_dec, ref_action_eq_dec.
Defined.
Definition sel_expr_eq_dec (x y : sel_expr) : {x = y} + {x <> y}.
Proof. decide equality; auto using string_dec. Defined.
Definition upd_where_eq_dec (x y : upd_where) : {x = y} + {x <> y}.
Proof. decide equality; auto using string_dec. Defined.
Definition stmt_eq_dec (x y : stmt) : {x = y} + {x <> y}.
Proof.
  decide equality; auto using string_dec, bool_dec, scol_eq_dec, upd_where_eq_dec;
    try (apply list_eq_dec; auto using string_dec, scol_eq_dec, sfk_eq_dec, sel_expr_eq_dec);
    try (apply list_eq_dec, string_dec);
    try (apply pair_eq_dec; apply string_dec).
Defined.
Definition stmt_eqb := dec_b stmt_eq_dec.
