(* SQLITE layer: table contents for C05.  A database is a catalog (Engine.v) plus, per table, a list of rows
   (column -> value).  Only the row effects the generated statements can have are modelled: INSERT … SELECT with a
   column list and literal expressions, UPDATE … SET c = literal [WHERE c IS NULL | c = 'x'], ADD/DROP/RENAME COLUMN,
   the implicit DELETE of DROP TABLE under foreign_keys=ON with the five ON DELETE actions on child rows (one level:
   cascades do not recurse into grandchildren), NOT NULL and immediate foreign-key checks on produced rows, and the
   uniqueness check of CREATE UNIQUE INDEX.  CHECK evaluation is not modelled.  Validated against libsqlite3 on every
   C05 run (correspondence K-eng-sqlite, rows).  No proofs here. *)
From VV.SQLITE Require Export Engine.

Inductive value :=
| VNull
| VText (s : string)       (* canonical text of the stored value *)
| VAny.                    (* result of an expression that is not a literal (CURRENT_TIMESTAMP, function calls) *)

Definition row := list (string * value).
Definition rows_db := list (string * list row).
Record db := mkDb { db_cat : catalog; db_rows : rows_db }.

Inductive db_error :=
| DCat (e : engine_error)            (* the catalog rules of Engine.exec refuse the statement *)
| DNotNull (t c : string)
| DForeignKey (t : string)           (* immediate foreign-key violation / RESTRICT / NO ACTION *)
| DUnique (index : string)
| DAddColumn (t c : string).         (* ADD COLUMN refusals that depend on the table holding rows *)

Definition value_eqb (a b : value) : bool :=
  match a, b with
  | VNull, VNull => true
  | VText x, VText y => String.eqb x y
  | VAny, VAny => true
  | _, _ => false
  end.

(* ---------- literals ---------- *)
Fixpoint unescape_quotes (s : string) : string :=
  match s with
  | String a (String b r as r1) =>
      if (Ascii.eqb a "'"%char && Ascii.eqb b "'"%char)%bool then String a (unescape_quotes r)
      else String a (unescape_quotes r1)
  | _ => s
  end.
Fixpoint all_chars (p : ascii -> bool) (s : string) : bool :=
  match s with EmptyString => true | String a r => (p a && all_chars p r)%bool end.
Definition is_digit (a : ascii) : bool := let n := N_of_ascii a in (N.leb 48 n && N.leb n 57)%bool.
(* canonical text of a numeric literal: a fraction of zeros is dropped ("0.0" -> "0") *)
Definition canon_num (s : string) : string :=
  match split_on "."%char s with
  | [i; f] => if (negb (String.eqb i "") && all_chars (fun a => Ascii.eqb a "0"%char) f)%bool then i else s
  | _ => s
  end.
Definition is_numeric (s : string) : bool :=
  let body := match s with String "-"%char r => r | _ => s end in
  (negb (String.eqb body "") && all_chars (fun a => (is_digit a || Ascii.eqb a "."%char)%bool) body
   && Nat.leb (List.length (split_on "."%char body)) 2)%bool.
Definition eval_lit (text : string) : value :=
  let t := strip_outer_parens (trim text) in
  if ieq t "null" then VNull
  else if (first_char_is "'"%char t && ends_with "'" t && Nat.leb 2 (String.length t))%bool then VText (unescape_quotes (strip_ends t))
  else if ieq t "true" then VText "1"
  else if ieq t "false" then VText "0"
  else if is_numeric t then VText (canon_num t)
  else VAny.

(* ---------- rows ---------- *)
Definition rget (c : string) (r : row) : value :=
  match find (fun kv => ieq (fst kv) c) r with Some kv => snd kv | None => VNull end.
Definition rset (c : string) (v : value) (r : row) : row :=
  map (fun kv => if ieq (fst kv) c then (fst kv, v) else kv) r.
Definition rows_of (t : string) (d : rows_db) : list row :=
  match find (fun kv => ieq (fst kv) t) d with Some kv => snd kv | None => [] end.
Definition set_rows (t : string) (rs : list row) (d : rows_db) : rows_db :=
  map (fun kv => if ieq (fst kv) t then (fst kv, rs) else kv) d.
Definition drop_rows (t : string) (d : rows_db) : rows_db := filter (fun kv => negb (ieq (fst kv) t)) d.

Definition col_default_value (c : ccol) : value :=
  match cc_default c with Some dflt => eval_lit dflt | None => VNull end.

(* the row INSERT produces for the destination table: listed columns from the expressions, the others their default *)
Definition select_value (src : row) (e : sel_expr) : value :=
  match e with SelCol c => rget c src | SelExpr text _ => eval_lit text end.
Definition inserted_row (dst : ctable) (cols : list string) (exprs : list sel_expr) (src : row) : row :=
  let given := combine cols (map (select_value src) exprs) in
  map (fun c => (cc_name c, match find (fun kv => ieq (fst kv) (cc_name c)) given with
                            | Some kv => snd kv
                            | None => col_default_value c end)) (ct_cols dst).

Definition key_of (cols : list string) (r : row) : list value := map (fun c => rget c r) cols.
Definition key_nonnull (k : list value) : bool := forallb (fun v => negb (value_eqb v VNull)) k.
Definition key_eqb (a b : list value) : bool := list_eqb value_eqb a b.

(* immediate foreign-key check of freshly produced rows of [t] (foreign_keys=ON); a self reference is checked
   against the rows the table will hold *)
Definition fk_rows_ok (d : rows_db) (t : ctable) (rs : list row) : bool :=
  forallb (fun f =>
    let parent_rows := if ieq (sf_table f) (ct_name t) then rs ++ rows_of (ct_name t) d else rows_of (sf_table f) d in
    forallb (fun r => let k := key_of (sf_cols f) r in
                      (negb (key_nonnull k) || existsb (fun p => key_eqb (key_of (sf_refcols f) p) k) parent_rows)%bool) rs)
    (ct_fks t).

Definition first_null (t : ctable) (rs : list row) : option string :=
  match find (fun c => (cc_notnull c && existsb (fun r => value_eqb (rget (cc_name c) r) VNull) rs)%bool) (ct_cols t) with
  | Some c => Some (cc_name c)
  | None => None
  end.

(* ---------- DROP TABLE under foreign_keys=ON: the implicit DELETE FROM parent ---------- *)
Inductive child_outcome := ChildOk (rs : list row) | ChildFail (e : db_error).
Definition on_delete_child (parent : string) (parent_rows : list row) (child : ctable) (rs : list row) : child_outcome :=
  fold_left (fun acc f =>
    match acc with
    | ChildFail e => ChildFail e
    | ChildOk cur =>
        if negb (ieq (sf_table f) parent) then ChildOk cur else
        let hit (r : row) := let k := key_of (sf_cols f) r in
                             (key_nonnull k && existsb (fun p => key_eqb (key_of (sf_refcols f) p) k) parent_rows)%bool in
        if negb (existsb hit cur) then ChildOk cur else
        match action_of (sf_on_delete f) with
        | Cascade => ChildOk (filter (fun r => negb (hit r)) cur)
        | SetNull =>
            if existsb (fun c => (imem (cc_name c) (sf_cols f) && cc_notnull c)%bool) (ct_cols child)
            then ChildFail (DNotNull (ct_name child) (hd "" (sf_cols f)))
            else ChildOk (map (fun r => if hit r then fold_left (fun r' c => rset c VNull r') (sf_cols f) r else r) cur)
        | SetDefault =>
            (* the new key must exist in the (now empty) parent unless it is NULL *)
            let set_default (r : row) :=
              fold_left (fun r' c => match find (fun x => ieq (cc_name x) c) (ct_cols child) with
                                     | Some x => rset c (col_default_value x) r'
                                     | None => r' end) (sf_cols f) r in
            let cur' := map (fun r => if hit r then set_default r else r) cur in
            if existsb (fun r => (hit r && key_nonnull (key_of (sf_cols f) (set_default r)))%bool) cur
            then ChildFail (DForeignKey (ct_name child)) else ChildOk cur'
        | Restrict | NoAction => ChildFail (DForeignKey (ct_name child))
        end
    end) (ct_fks child) (ChildOk rs)
where "'action_of' x" := (match x with Some a => a | None => NoAction end).

Fixpoint implicit_delete (parent : string) (parent_rows : list row) (children : list ctable) (d : rows_db)
  : result rows_db db_error :=
  match children with
  | [] => Ok d
  | ch :: r =>
      if ieq (ct_name ch) parent then implicit_delete parent parent_rows r d
      else match on_delete_child parent parent_rows ch (rows_of (ct_name ch) d) with
           | ChildFail e => Err e
           | ChildOk rs => implicit_delete parent parent_rows r (set_rows (ct_name ch) rs d)
           end
  end.

Fixpoint has_dup_key (ks : list (list value)) : bool :=
  match ks with
  | [] => false
  | k :: r => ((key_nonnull k && existsb (key_eqb k) r) || has_dup_key r)%bool
  end.

(* ---------- one statement ---------- *)
Definition exec_db (fk_on : bool) (d : db) (st : stmt) : result db db_error :=
  let c := db_cat d in
  let rd := db_rows d in
  (* data-dependent refusals first (they need the catalog before the statement) *)
  let pre : option db_error :=
    match st with
    | SAddColumn table col =>
        if nonempty (rows_of table rd) then
          if (sc_notnull col && value_eqb (match sc_default col with Some x => eval_lit x | None => VNull end) VNull)%bool
          then Some (DAddColumn table (sc_name col))
          else match sc_default col with
               | Some x => let n := to_lower (trim x) in
                           if (first_char_is "("%char n || String.eqb n "current_timestamp" || String.eqb n "current_date"
                               || String.eqb n "current_time")%bool then Some (DAddColumn table (sc_name col)) else None
               | None => None
               end
        else None
    | SCreateIndex true name table cols =>
        if has_dup_key (map (key_of cols) (rows_of table rd)) then Some (DUnique name) else None
    | _ => None
    end in
  match pre with
  | Some e => Err e
  | None =>
  match exec fk_on c st with
  | Err e => Err (DCat e)
  | Ok c' =>
      match st with
      | SCreateTable name _ _ _ _ => Ok (mkDb c' (rd ++ [(name, [])]))
      | SDropTable name =>
          if fk_on then
            match implicit_delete name (rows_of name rd) (cat_tables c) rd with
            | Err e => Err e
            | Ok rd' => Ok (mkDb c' (drop_rows name rd'))
            end
          else Ok (mkDb c' (drop_rows name rd))
      | SRenameTable from to => Ok (mkDb c' (map (fun kv => if ieq (fst kv) from then (to, snd kv) else kv) rd))
      | SAddColumn table col =>
          Ok (mkDb c' (set_rows table (map (fun r => r ++ [(sc_name col, match sc_default col with
                                                                          | Some x => eval_lit x | None => VNull end)])
                                           (rows_of table rd)) rd))
      | SDropColumn table col =>
          Ok (mkDb c' (set_rows table (map (filter (fun kv => negb (ieq (fst kv) col))) (rows_of table rd)) rd))
      | SRenameColumn table from to =>
          Ok (mkDb c' (set_rows table (map (map (fun kv => if ieq (fst kv) from then (to, snd kv) else kv)) (rows_of table rd)) rd))
      | SInsertSelect dst cols src exprs =>
          match find_ctable dst c with
          | None => Err (DCat (ENoSuchTable dst))
          | Some dt =>
              let produced := map (inserted_row dt cols exprs) (rows_of src rd) in
              match first_null dt produced with
              | Some cn => Err (DNotNull dst cn)
              | None =>
                  if (fk_on && negb (fk_rows_ok rd dt produced))%bool then Err (DForeignKey dst)
                  else Ok (mkDb c' (set_rows dst (rows_of dst rd ++ produced) rd))
              end
          end
      | SUpdate table col v w =>
          let sel (r : row) := match w with
                               | WNone => true
                               | WIsNull x => value_eqb (rget x r) VNull
                               | WEqLit x lit => value_eqb (rget x r) (eval_lit lit)
                               end in
          let rs := map (fun r => if sel r then rset col (eval_lit v) r else r) (rows_of table rd) in
          match find_ctable table c with
          | Some t => if (fk_on && negb (fk_rows_ok (set_rows table [] rd) t rs))%bool then Err (DForeignKey table)
                      else Ok (mkDb c' (set_rows table rs rd))
          | None => Ok (mkDb c' (set_rows table rs rd))
          end
      | _ => Ok (mkDb c' rd)
      end
  end
  end.

Fixpoint exec_db_all (fk_on : bool) (d : db) (l : list stmt) (i : nat) : result db (nat * db_error) :=
  match l with
  | [] => Ok d
  | st :: r => match exec_db fk_on d st with
               | Ok d' => exec_db_all fk_on d' r (S i)
               | Err e => Err (i, e)
               end
  end.
