(* SQLITE layer: table contents for C05.  A database is a catalog (Engine.v) plus, per table, a list of rows
   (column -> value).  Only the row effects the generated statements can have are modelled: INSERT … SELECT with a
   column list and literal expressions, UPDATE … SET c = literal [WHERE c IS NULL | c = 'x'], ADD/DROP/RENAME COLUMN,
   the implicit DELETE of DROP TABLE under foreign_keys=ON with the five ON DELETE actions on child rows (one level:
   cascades do not recurse into grandchildren), NOT NULL and immediate foreign-key checks on produced rows, and the
   uniqueness check of CREATE UNIQUE INDEX.  CHECK evaluation is not modelled.  Validated against libsqlite3 on every
   C05 run (correspondence K-eng-sqlite, rows).  No proofs here. *)
From VV.SQLITE Require Export Engine.

Inductive value :=
| VNull
| VText (s : string)       (* canonical text of the stored value *)
| VAny.                    (* result of an expression that is not a literal (CURRENT_TIMESTAMP, function calls) *)

Definition row := list (string * value).
Definition rows_db := list (string * list row).
Record db := mkDb { db_cat : catalog; db_rows : rows_db }.

Inductive db_error :=
| DCat (e : engine_error)            (* the catalog rules of Engine.exec refuse the statement *)
| DNotNull (t c : string)
| DForeignKey (t : string)           (* immediate foreign-key violation / RESTRICT / NO ACTION *)
| DUnique (index : string)
| DCheck (t name : string)
| DDatatype (t : string)              (* a non-integer value for an INTEGER PRIMARY KEY (rowid alias) *)
| DAddColumn (t c : string).         (* ADD COLUMN refusals that depend on the table holding rows *)

Definition value_eqb (a b : value) : bool :=
  match a, b with
  | VNull, VNull => true
  | VText x, VText y => String.eqb x y
  | VAny, VAny => true
  | _, _ => false
  end.

(* ---------- literals ---------- *)
Fixpoint unescape_quotes (s : string) : string :=
  match s with
  | String a (String b r as r1) =>
      if (Ascii.eqb a "'"%char && Ascii.eqb b "'"%char)%bool then String a (unescape_quotes r)
      else String a (unescape_quotes r1)
  | _ => s
  end.
Fixpoint all_chars (p : ascii -> bool) (s : string) : bool :=
  match s with EmptyString => true | String a r => (p a && all_chars p r)%bool end.
Definition is_digit (a : ascii) : bool := let n := N_of_ascii a in (N.leb 48 n && N.leb n 57)%bool.
(* canonical text of a numeric literal: a fraction of zeros is dropped ("0.0" -> "0") *)
Definition canon_num (s : string) : string :=
  match split_on "."%char s with
  | [i; f] => if (negb (String.eqb i "") && all_chars (fun a => Ascii.eqb a "0"%char) f)%bool then i else s
  | _ => s
  end.
Fixpoint N_of_digits_acc (s : string) (acc : N) : N :=
  match s with
  | EmptyString => acc
  | String a r => N_of_digits_acc r (acc * 10 + (N_of_ascii a - 48))
  end.
Definition N_of_digits (s : string) : N := N_of_digits_acc s 0.
Definition is_numeric (s : string) : bool :=
  let body := match s with String "-"%char r => r | _ => s end in
  (negb (String.eqb body "") && all_chars (fun a => (is_digit a || Ascii.eqb a "."%char)%bool) body
   && Nat.leb (List.length (split_on "."%char body)) 2)%bool.
Definition eval_lit (text : string) : value :=
  let t := strip_outer_parens (trim text) in
  if ieq t "null" then VNull
  else if (first_char_is "'"%char t && ends_with "'" t && Nat.leb 2 (String.length t))%bool then VText (unescape_quotes (strip_ends t))
  else if ieq t "true" then VText "1"
  else if ieq t "false" then VText "0"
  else if is_numeric t then VText (canon_num t)
  else VAny.

(* ---------- rows ---------- *)
Definition rget (c : string) (r : row) : value :=
  match find (fun kv => ieq (fst kv) c) r with Some kv => snd kv | None => VNull end.
Definition rset (c : string) (v : value) (r : row) : row :=
  map (fun kv => if ieq (fst kv) c then (fst kv, v) else kv) r.
Definition rows_of (t : string) (d : rows_db) : list row :=
  match find (fun kv => ieq (fst kv) t) d with Some kv => snd kv | None => [] end.
Definition set_rows (t : string) (rs : list row) (d : rows_db) : rows_db :=
  map (fun kv => if ieq (fst kv) t then (fst kv, rs) else kv) d.
Definition drop_rows (t : string) (d : rows_db) : rows_db := filter (fun kv => negb (ieq (fst kv) t)) d.

Definition col_default_value (c : ccol) : value :=
  match cc_default c with Some dflt => eval_lit dflt | None => VNull end.

(* the row INSERT produces for the destination table: listed columns from the expressions, the others their default *)
Definition select_value (src : row) (e : sel_expr) : value :=
  match e with SelCol c => rget c src | SelExpr text _ => eval_lit text end.
Definition inserted_row (dst : ctable) (cols : list string) (exprs : list sel_expr) (src : row) : row :=
  let given := combine cols (map (select_value src) exprs) in
  map (fun c => (cc_name c, match find (fun kv => ieq (fst kv) (cc_name c)) given with
                            | Some kv => snd kv
                            | None => col_default_value c end)) (ct_cols dst).

Definition key_of (cols : list string) (r : row) : list value := map (fun c => rget c r) cols.
Definition key_nonnull (k : list value) : bool := forallb (fun v => negb (value_eqb v VNull)) k.
Definition key_eqb (a b : list value) : bool := list_eqb value_eqb a b.

(* immediate foreign-key check of freshly produced rows of [t] (foreign_keys=ON); a self reference is checked
   against the rows the table will hold *)
Definition fk_rows_ok (d : rows_db) (t : ctable) (rs : list row) : bool :=
  forallb (fun f =>
    let parent_rows := if ieq (sf_table f) (ct_name t) then rs ++ rows_of (ct_name t) d else rows_of (sf_table f) d in
    forallb (fun r => let k := key_of (sf_cols f) r in
                      (negb (key_nonnull k) || existsb (fun p => key_eqb (key_of (sf_refcols f) p) k) parent_rows)%bool) rs)
    (ct_fks t).

(* ---------- CHECK clauses: the two shapes whose truth the model can decide ----------
   "col" IN (lit, lit, …)   (the enum clauses vespertide writes)   and   ident > int   (the generator's explicit checks);
   anything else is taken to hold.  NULL satisfies a CHECK. *)
Definition strip_prefix (p s : string) : option string :=
  if starts_with p s then Some (str_drop (String.length p) s) else None.
Definition check_holds (chk : string * string) (r : row) : bool :=
  let e := snd chk in
  if first_char_is """"%char e then
    match String.index 1 """" e with
    | Some q =>
        let col := String.substring 1 (q - 1) e in
        match strip_prefix " IN (" (str_drop (S q) e) with
        | Some rest =>
            if ends_with ")" rest then
              let lits := split_on ","%char (str_take (String.length rest - 1) rest) in
              match rget col r with
              | VText v => existsb (fun l => value_eqb (eval_lit l) (VText v)) lits
              | _ => true
              end
            else true
        | None => true
        end
    | None => true
    end
  else
    match split_on " "%char e with
    | [col; ">"; n] =>
        if (all_chars is_ident_char col && all_chars is_digit n && negb (String.eqb n ""))%bool then
          match rget col r with
          | VText v => if all_chars is_digit v then N.ltb (N_of_digits n) (N_of_digits v) else true
          | _ => true
          end
        else true
    | _ => true
    end.
Definition first_failed_check (t : ctable) (rs : list row) : option string :=
  match find (fun k => existsb (fun r => negb (check_holds k r)) rs) (ct_checks t) with
  | Some k => Some (fst k)
  | None => None
  end.

(* a single-column primary key declared exactly INTEGER is the rowid: it only takes integers *)
Definition rowid_alias (t : ctable) : option string :=
  match filter (fun c => negb (Nat.eqb (cc_pk c) 0)) (ct_cols t) with
  | [c] => if ieq (cc_type c) "integer" then Some (cc_name c) else None
  | _ => None
  end.
Definition is_integer_text (s : string) : bool :=
  let body := match s with String "-"%char r => r | _ => s end in
  (negb (String.eqb body "") && all_chars is_digit body)%bool.
Definition rowid_ok (t : ctable) (rs : list row) : bool :=
  match rowid_alias t with
  | None => true
  | Some c => forallb (fun r => match rget c r with VText v => is_integer_text v | _ => true end) rs
  end.

Definition first_null (t : ctable) (rs : list row) : option string :=
  match find (fun c => (cc_notnull c && existsb (fun r => value_eqb (rget (cc_name c) r) VNull) rs)%bool) (ct_cols t) with
  | Some c => Some (cc_name c)
  | None => None
  end.

(* ---------- DROP TABLE under foreign_keys=ON: the implicit DELETE FROM parent ---------- *)
Definition action_of (x : option ref_action) : ref_action := match x with Some a => a | None => NoAction end.
(* Deleting the rows [gone] of table [parent] (DROP TABLE deletes all of them), one parent row at a time.  The foreign keys of
   a child table act last declared first (the order PRAGMA foreign_key_list reports; [ct_fks] keeps the declaration order, as
   CREATE TABLE wrote it and as the correspondence transcribes the real catalog): RESTRICT refuses when
   a referencing row is still there at its turn; CASCADE deletes the referencing rows — and that deletion fires the actions of
   the foreign keys that reference the child table, to any depth ([fuel]; running out of it is an explicit error) —; SET NULL /
   SET DEFAULT rewrite the child rows; NO ACTION (the default) is judged at the end of the statement on the rows that are
   left ([pending] checks). *)
Definition fk_hits (parent : string) (parent_rows : list row) (f : sfk) (r : row) : bool :=
  let k := key_of (sf_cols f) r in
  (ieq (sf_table f) parent && key_nonnull k && existsb (fun p => key_eqb (key_of (sf_refcols f) p) k) parent_rows)%bool.

Definition pending_check := (string * sfk * string * list row)%type.   (* child table, its foreign key, parent, deleted parent rows *)

(* the actions of one child table; returns the child's new rows and the rows CASCADE removed from it *)
Definition on_delete_child (parent : string) (gone : list row) (child : ctable) (rs : list row)
  : result (list row * list row) db_error :=
  let hit := fk_hits parent gone in
  fold_left (fun acc f =>
    match acc with
    | Err e => Err e
    | Ok (cur, removed) =>
        if negb (existsb (hit f) cur) then Ok (cur, removed) else
        match action_of (sf_on_delete f) with
        | Cascade => Ok (filter (fun r => negb (hit f r)) cur, removed ++ filter (hit f) cur)
        | SetNull =>
            if existsb (fun c => (imem (cc_name c) (sf_cols f) && cc_notnull c)%bool) (ct_cols child)
            then Err (DNotNull (ct_name child) (hd "" (sf_cols f)))
            else Ok (map (fun r => if hit f r then fold_left (fun r' c => rset c VNull r') (sf_cols f) r else r) cur, removed)
        | SetDefault =>
            (* the new key must exist in the parent (whose matching rows are gone) unless it is NULL *)
            let set_default (r : row) :=
              fold_left (fun r' c => match find (fun x => ieq (cc_name x) c) (ct_cols child) with
                                     | Some x => rset c (col_default_value x) r'
                                     | None => r' end) (sf_cols f) r in
            if existsb (fun c => (imem (cc_name c) (sf_cols f) && cc_notnull c && value_eqb (col_default_value c) VNull)%bool)
                       (ct_cols child)
            then Err (DNotNull (ct_name child) (hd "" (sf_cols f)))
            else if existsb (fun r => (hit f r && key_nonnull (key_of (sf_cols f) (set_default r)))%bool) cur
            then Err (DForeignKey (ct_name child))
            else Ok (map (fun r => if hit f r then set_default r else r) cur, removed)
        | Restrict => Err (DForeignKey (ct_name child))
        | NoAction => Ok (cur, removed)
        end
    end) (rev (ct_fks child)) (Ok (rs, [])).

Fixpoint delete_rows (fuel : nat) (tables : list ctable) (parent : string) (gone : list row)
  (st : rows_db * list pending_check) : result (rows_db * list pending_check) db_error :=
  match fuel with
  | O => Err (DForeignKey parent)
  | S fuel' =>
      (* the parent rows go one at a time; for each of them the actions fire child table by child table *)
      fold_left (fun acc0 p =>
      fold_left (fun acc ch =>
        match acc with
        | Err e => Err e
        | Ok (d, pend) =>
            if ieq (ct_name ch) parent then Ok (d, pend) else
            match on_delete_child parent [p] ch (rows_of (ct_name ch) d) with
            | Err e => Err e
            | Ok (rs, removed) =>
                let pend' := pend ++ flat_map (fun f => match action_of (sf_on_delete f) with
                                                        | NoAction => if ieq (sf_table f) parent then [(ct_name ch, f, parent, [p])] else []
                                                        | _ => [] end) (ct_fks ch) in
                let d' := set_rows (ct_name ch) rs d in
                match removed with
                | [] => Ok (d', pend')
                | _ => delete_rows fuel' tables (ct_name ch) removed (d', pend')
                end
            end
        end) tables acc0) gone (Ok st)
  end.

(* a self-referencing foreign key of the dropped table itself: the rows are deleted one by one, and RESTRICT refuses the
   deletion of a row that ANOTHER row of the table still references (CASCADE / SET NULL / NO ACTION end with an empty table) *)
Definition row_eqb (a b : row) : bool :=
  list_eqb (fun x y => (String.eqb (fst x) (fst y) && value_eqb (snd x) (snd y))%bool) a b.
Definition self_restrict_violated (t : ctable) (rs : list row) : bool :=
  existsb (fun f =>
    (ieq (sf_table f) (ct_name t)
     && match action_of (sf_on_delete f) with Restrict => true | _ => false end
     && existsb (fun r => let k := key_of (sf_cols f) r in
                          (key_nonnull k && existsb (fun p => (key_eqb (key_of (sf_refcols f) p) k && negb (row_eqb p r))%bool) rs)%bool) rs)%bool)
    (ct_fks t).

Definition implicit_delete (parent : string) (parent_rows : list row) (tables : list ctable) (d : rows_db)
  : result rows_db db_error :=
  if existsb (fun t => (ieq (ct_name t) parent && self_restrict_violated t parent_rows)%bool) tables
  then Err (DForeignKey parent) else
  (* the child tables act from the most recently created one to the oldest ([cat_tables] keeps the creation order) *)
  match delete_rows (S (List.length tables)) (rev tables) parent parent_rows (d, []) with
  | Err e => Err e
  | Ok (d', pend) =>
      match find (fun p => let '(ch, f, par, gone) := p in existsb (fk_hits par gone f) (rows_of ch d')) pend with
      | Some (ch, _, _, _) => Err (DForeignKey ch)
      | None => Ok d'
      end
  end.

Fixpoint has_dup_key (ks : list (list value)) : bool :=
  match ks with
  | [] => false
  | k :: r => ((key_nonnull k && existsb (key_eqb k) r) || has_dup_key r)%bool
  end.

Definition pk_columns (t : ctable) : list string :=
  map cc_name (filter (fun c => negb (Nat.eqb (cc_pk c) 0)) (ct_cols t)).

(* ---------- one statement ---------- *)
Definition exec_db (fk_on : bool) (d : db) (st : stmt) : result db db_error :=
  let c := db_cat d in
  let rd := db_rows d in
  (* data-dependent refusals first (they need the catalog before the statement) *)
  let pre : option db_error :=
    match st with
    | SAddColumn table col =>
        if nonempty (rows_of table rd) then
          if (sc_notnull col && value_eqb (match sc_default col with Some x => eval_lit x | None => VNull end) VNull)%bool
          then Some (DAddColumn table (sc_name col))
          else match sc_default col with
               | Some x => let n := to_lower (trim x) in
                           (* "Cannot add a column with non-constant default": a parenthesised expression that is not just a
                              literal in parentheses — DEFAULT ('(p)') is a constant —, or a CURRENT_* keyword *)
                           if ((first_char_is "("%char n && match eval_lit x with VAny => true | _ => false end)
                               || String.eqb n "current_timestamp" || String.eqb n "current_date"
                               || String.eqb n "current_time")%bool then Some (DAddColumn table (sc_name col)) else None
               | None => None
               end
        else None
    | SCreateIndex true name table cols =>
        if has_dup_key (map (key_of cols) (rows_of table rd)) then Some (DUnique name) else None
    | _ => None
    end in
  match pre with
  | Some e => Err e
  | None =>
  match exec fk_on c st with
  | Err e => Err (DCat e)
  | Ok c' =>
      match st with
      | SCreateTable name _ _ _ _ => Ok (mkDb c' (rd ++ [(name, [])]))
      | SDropTable name =>
          if fk_on then
            match implicit_delete name (rows_of name rd) (cat_tables c) rd with
            | Err e => Err e
            | Ok rd' => Ok (mkDb c' (drop_rows name rd'))
            end
          else Ok (mkDb c' (drop_rows name rd))
      | SRenameTable from to => Ok (mkDb c' (map (fun kv => if ieq (fst kv) from then (to, snd kv) else kv) rd))
      | SAddColumn table col =>
          Ok (mkDb c' (set_rows table (map (fun r => r ++ [(sc_name col, match sc_default col with
                                                                          | Some x => eval_lit x | None => VNull end)])
                                           (rows_of table rd)) rd))
      | SDropColumn table col =>
          Ok (mkDb c' (set_rows table (map (filter (fun kv => negb (ieq (fst kv) col))) (rows_of table rd)) rd))
      | SRenameColumn table from to =>
          Ok (mkDb c' (set_rows table (map (map (fun kv => if ieq (fst kv) from then (to, snd kv) else kv)) (rows_of table rd)) rd))
      | SInsertSelect dst cols src exprs =>
          match find_ctable dst c with
          | None => Err (DCat (ENoSuchTable dst))
          | Some dt =>
              let produced := map (inserted_row dt cols exprs) (rows_of src rd) in
              if negb (rowid_ok dt produced) then Err (DDatatype dst) else
              if (nonempty (pk_columns dt) && has_dup_key (map (key_of (pk_columns dt)) (rows_of dst rd ++ produced)))%bool
              then Err (DUnique dst) else
              match first_null dt produced, first_failed_check dt produced with
              | Some cn, _ => Err (DNotNull dst cn)
              | None, Some k => Err (DCheck dst k)
              | None, None =>
                  if (fk_on && negb (fk_rows_ok rd dt produced))%bool then Err (DForeignKey dst)
                  else Ok (mkDb c' (set_rows dst (rows_of dst rd ++ produced) rd))
              end
          end
      | SUpdate table col v w =>
          let sel (r : row) := match w with
                               | WNone => true
                               | WIsNull x => value_eqb (rget x r) VNull
                               | WEqLit x lit => value_eqb (rget x r) (eval_lit lit)
                               end in
          let rs := map (fun r => if sel r then rset col (eval_lit v) r else r) (rows_of table rd) in
          match find_ctable table c with
          | Some t =>
              match first_null t rs, first_failed_check t rs with
              | Some cn, _ => Err (DNotNull table cn)
              | None, Some k => Err (DCheck table k)
              | None, None =>
                  match find (fun i => (ieq (ci_table i) table && ci_unique i && has_dup_key (map (key_of (ci_cols i)) rs))%bool) (cat_indexes c) with
                  | Some i => Err (DUnique (ci_name i))
                  | None =>
                      if (nonempty (pk_columns t) && has_dup_key (map (key_of (pk_columns t)) rs))%bool then Err (DUnique table)
                      else if (fk_on && negb (fk_rows_ok (set_rows table [] rd) t rs))%bool then Err (DForeignKey table)
                      else Ok (mkDb c' (set_rows table rs rd))
                  end
              end
          | None => Ok (mkDb c' (set_rows table rs rd))
          end
      | _ => Ok (mkDb c' rd)
      end
  end
  end.

Fixpoint exec_db_all (fk_on : bool) (d : db) (l : list stmt) (i : nat) : result db (nat * db_error) :=
  match l with
  | [] => Ok d
  | st :: r => match exec_db fk_on d st with
               | Ok d' => exec_db_all fk_on d' r (S i)
               | Err e => Err (i, e)
               end
  end.
