(* SQLITE layer, C14: what "the SQL generated for the literally renamed project" means on statements.  Table names (and
   REFERENCES targets) get the prefix; derived index names carry the table name after a 3-byte tag ("ix_" / "uq_"), enum
   CHECK names after "chk_".  No proofs here. *)
From VV.M1 Require Export Oracles.
From VV.SQLITE Require Export Gen.

Definition rename_index_name (p name : string) : string := str_take 3 name +++ p +++ str_drop 3 name.
Definition rename_check_name (p name : string) : string := str_take 4 name +++ p +++ str_drop 4 name.

Definition rename_fk (p : string) (f : sfk) : sfk := mkSFk (sf_cols f) (p +++ sf_table f) (sf_refcols f) (sf_on_delete f) (sf_on_update f).

(* [chk] says how the CHECK names of a CREATE TABLE are renamed (enum clauses: after "chk_"; explicit ones: unchanged) *)
Definition rename_stmt (p : string) (chk : string -> list scol -> string * string -> string * string) (st : stmt) : stmt :=
  match st with
  | SCreateTable n cols pks fks checks => SCreateTable (p +++ n) cols pks (map (rename_fk p) fks) (map (chk n cols) checks)
  | SDropTable n => SDropTable (p +++ n)
  | SRenameTable a b => SRenameTable (p +++ a) (p +++ b)
  | SCreateIndex u n t cols => SCreateIndex u (rename_index_name p n) (p +++ t) cols
  | SDropIndex n => SDropIndex (rename_index_name p n)
  | SAddColumn t c => SAddColumn (p +++ t) c
  | SDropColumn t c => SDropColumn (p +++ t) c
  | SRenameColumn t a b => SRenameColumn (p +++ t) a b
  | SInsertSelect d cs s ex => SInsertSelect (p +++ d) cs (p +++ s) ex
  | SUpdate t c v w => SUpdate (p +++ t) c v w
  | SRaw x => SRaw x
  end.

(* the CHECK clauses a CREATE TABLE derives from the table name: chk_{table}__{column} for a column of the statement, where
   {table} is the created table or, for a temp table, the table it will replace *)
Definition base_table (n : string) : string :=
  if ends_with "_temp" n then str_take (String.length n - 5) n else n.
Definition chk_by_columns (p : string) (n : string) (cols : list scol) (k : string * string) : string * string :=
  if existsb (fun c => String.eqb (fst k) (build_check_constraint_name (base_table n) (sc_name c))) cols
  then (rename_check_name p (fst k), snd k) else k.

(* Inside the statements of ONE action a CREATE TABLE of a name that ends in "_temp" is the scratch table of a rebuild exactly
   when the same action later renames it to the name without the suffix; otherwise it is a table the project itself calls
   "…_temp" (CreateTable "item_temp"), whose enum CHECK names derive from its own full name.  [chk_by_columns] alone cannot
   tell the two apart; the whole-migration statement below decides per action. *)
Definition is_rebuild_temp (l : list stmt) (n : string) : bool :=
  existsb (fun st => match st with
                     | SRenameTable a b => (String.eqb a n && String.eqb b (base_table n))%bool
                     | _ => false
                     end) l.
Definition chk_own_name (p : string) (n : string) (cols : list scol) (k : string * string) : string * string :=
  if existsb (fun c => String.eqb (fst k) (build_check_constraint_name n (sc_name c))) cols
  then (rename_check_name p (fst k), snd k) else k.
Definition rename_action_stmts (p : string) (l : list stmt) : list stmt :=
  map (rename_stmt p (fun n cols k => if is_rebuild_temp l n then chk_by_columns p n cols k else chk_own_name p n cols k)) l.

(* model-level statement of C14 for one migration: generating for the literally renamed project = renaming the statements *)
Definition prefix_agrees (p : string) (s : schema) (acts : list action) : bool :=
  match gen_plan (literal_schema p s) (map (literal_action p) acts), gen_plan s acts with
  | Ok a, Ok b => dec_b (list_eq_dec (list_eq_dec stmt_eq_dec)) a (map (rename_action_stmts p) b)
  | Err GenError, Err GenError | Err GenPanic, Err GenPanic => true
  | _, _ => false
  end.
