(* SQLITE layer: decidable classes of inputs (replayed baseline, action list) on which the SQLite SQL of the
   unchanged tree is known to fail (props/known_C02.proposed.json, known_C05.proposed.json).  Every class is a
   boolean over the property's input only; the same booleans are the negated hypotheses of the simulation
   theorems.  No proofs here. *)
From VV.SQLITE Require Export Gen.

(* walk the plan the way build_plan_queries does and ask [p evolving_schema rest action] at every step *)
Fixpoint exists_step (p : schema -> list action -> action -> bool) (s : schema) (acts : list action) : bool :=
  match acts with
  | [] => false
  | a :: r => (p s r a || exists_step p (apply_ignoring s a) r)%bool
  end.

Definition is_check (k : table_constraint) : bool := match k with CCheck _ _ => true | _ => false end.
Definition is_fk (k : table_constraint) : bool := match k with CForeignKey _ _ _ _ _ _ => true | _ => false end.
Definition index_like (k : table_constraint) : bool := (is_index k || is_unique k)%bool.

(* derived physical name of an index-like constraint *)
Definition index_name_of (table : string) (k : table_constraint) : list string :=
  match k with
  | CIndex n cols => [build_index_name table cols n]
  | CUnique n cols => [build_unique_constraint_name table cols n]
  | _ => []
  end.
Definition table_index_names (t : table_def) : list string :=
  flat_map (index_name_of (t_name t)) (t_constraints t).
Definition schema_index_names (s : schema) : list string := flat_map table_index_names s.

(* ---- C02-unrenderable-type: sea-query's SQLite backend panics on Interval and on Numeric precision > 16 *)
Definition step_panics (s : schema) (r : list action) (a : action) : bool :=
  match gen s (pending_for a r) a with GPanicBuild | GPanicRender => true | _ => false end.
Definition known_C02_unrenderable_type (s : schema) (acts : list action) : bool := exists_step step_panics s acts.

(* ---- C02-explicit-check-dropped (DESIGN D11): CREATE TABLE never carries an explicit CHECK constraint *)
Definition creates_with_check (_ : schema) (_ : list action) (a : action) : bool :=
  match a with
  | CreateTable t cols cs =>
      match normalize (mkTable t None cols cs) with
      | Ok n => existsb is_check (t_constraints n)
      | Err _ => false
      end
  | _ => false
  end.
Definition known_C02_explicit_check (s : schema) (acts : list action) : bool := exists_step creates_with_check s acts.

(* ---- C02-composite-member-drop (DESIGN D18): a column is deleted that is one of several columns of a
   primary key / unique / index / foreign key, or whose name occurs among the referenced columns of a foreign
   key of the same table (drop_column_from_constraints shrinks those too) *)
Definition drops_composite_member (s : schema) (_ : list action) (a : action) : bool :=
  match a with
  | DeleteColumn t c =>
      match find_table t s with
      | Some td =>
          existsb (fun k =>
            ((mem_str c (constraint_columns k) && Nat.leb 2 (List.length (constraint_columns k)))
             || match k with CForeignKey _ _ _ rcols _ _ => mem_str c rcols | _ => false end)%bool)
            (t_constraints td)
      | None => false
      end
  | _ => false
  end.
Definition known_C02_composite_member_drop (s : schema) (acts : list action) : bool :=
  exists_step drops_composite_member s acts.

(* ---- C02-index-name-collision (DESIGN D16, C06 duplicate constraint): two indexes that must coexist get the
   same derived name (SQLite has one namespace for all indexes of all tables).  [phys] follows the names the
   plan's explicit statements create and drop, starting from the names the baseline derives. *)
Fixpoint has_dup_str (l : list string) : bool :=
  match l with [] => false | x :: r => (mem_str x r || has_dup_str r)%bool end.
Definition remove_strs (rm l : list string) : list string := filter (fun x => negb (mem_str x rm)) l.
Fixpoint name_collision (s : schema) (phys : list string) (acts : list action) : bool :=
  match acts with
  | [] => false
  | a :: r =>
      let s' := apply_ignoring s a in
      match a with
      | CreateTable t cols cs =>
          match normalize (mkTable t None cols cs) with
          | Ok n =>
              let names := table_index_names n in
              (has_dup_str names || existsb (fun x => mem_str x phys) names
               || name_collision s' (phys ++ names) r)%bool
          | Err _ => name_collision s' phys r
          end
      | AddConstraint t k =>
          let names := index_name_of t k in
          (existsb (fun x => mem_str x phys) names || name_collision s' (phys ++ names) r)%bool
      | RemoveConstraint t k => name_collision s' (remove_strs (index_name_of t k) phys) r
      | DeleteTable t =>
          name_collision s' (remove_strs (match find_table t s with Some td => table_index_names td | None => [] end) phys) r
      | DeleteColumn t c =>
          let gone := match find_table t s with
                      | Some td => flat_map (fun k => if mem_str c (constraint_columns k) then index_name_of t k else [])
                                            (t_constraints td)
                      | None => [] end in
          name_collision s' (remove_strs gone phys) r
      | _ => name_collision s' phys r
      end
  end.
Definition known_C02_index_name_collision (s : schema) (acts : list action) : bool :=
  name_collision s (schema_index_names s) acts.

(* ---- C02-inline-index-then-rebuild (DESIGN D17): a rebuild re-creates an index whose own AddConstraint comes
   later in the same plan (pending constraints are only computed for AddConstraint actions, builder.rs:30-58) *)
Definition stmts_of (o : gen_out) : list stmt := match o with GOk l => l | _ => [] end.
Definition is_rebuild (l : list stmt) : bool :=
  existsb (fun st => match st with SDropTable _ => true | _ => false end) l.
Definition created_index_names (l : list stmt) : list string :=
  flat_map (fun st => match st with SCreateIndex _ n _ _ => [n] | _ => [] end) l.
Definition later_added_names (r : list action) : list string :=
  flat_map (fun b => match b with AddConstraint t k => index_name_of t k | _ => [] end) r.
Definition rebuild_recreates_pending (s : schema) (r : list action) (a : action) : bool :=
  let l := stmts_of (gen s (pending_for a r) a) in
  (is_rebuild l && existsb (fun n => mem_str n (later_added_names r)) (created_index_names l))%bool.
Definition known_C02_inline_index_then_rebuild (s : schema) (acts : list action) : bool :=
  exists_step rebuild_recreates_pending s acts.

(* ---- C02-rename-table-derived-names (DESIGN D13/C19): RenameTable of a table that owns derived names (indexes,
   enum CHECKs) or is the target of a foreign key: the engine keeps the old index / CHECK names and rewrites
   the referencing tables, the replayed baseline derives new names and keeps the old reference *)
Definition has_enum_col (t : table_def) : bool := existsb (fun c => is_enum_type (c_type c)) (t_columns t).
Definition references (target : string) (t : table_def) : bool :=
  existsb (fun k => match k with CForeignKey _ _ rt _ _ _ => String.eqb rt target | _ => false end) (t_constraints t).
Definition renames_table_with_names (s : schema) (_ : list action) (a : action) : bool :=
  match a with
  | RenameTable from _ =>
      match find_table from s with
      | Some td => (existsb index_like (t_constraints td) || has_enum_col td || existsb (references from) s)%bool
      | None => false
      end
  | _ => false
  end.
Definition known_C02_rename_table (s : schema) (acts : list action) : bool := exists_step renames_table_with_names s acts.

(* ---- C02-rename-column-derived-names: RenameColumn of a column that occurs in an index / unique (derived name),
   is an enum column (CHECK name and text), is mentioned by an explicit CHECK, is referenced by another table's
   foreign key, or whose name equals a referenced column name of one of the table's own foreign keys to another
   table (rename_column_in_constraints renames ref_columns as well, apply.rs:310-353) *)
Definition renames_column_with_names (s : schema) (_ : list action) (a : action) : bool :=
  match a with
  | RenameColumn t from _ =>
      match find_table t s with
      | Some td =>
          (existsb (fun k => (index_like k && mem_str from (constraint_columns k))%bool) (t_constraints td)
           || match find_col from (t_columns td) with Some c => is_enum_type (c_type c) | None => false end
           || existsb (fun k => match k with CCheck _ e => check_mentions from e | _ => false end) (t_constraints td)
           || existsb (fun k => match k with
                                | CForeignKey _ _ rt rcols _ _ => (negb (String.eqb rt t) && mem_str from rcols)%bool
                                | _ => false end) (t_constraints td)
           || existsb (fun o => (negb (String.eqb (t_name o) t) &&
                                 existsb (fun k => match k with
                                                   | CForeignKey _ _ rt rcols _ _ => (String.eqb rt t && mem_str from rcols)%bool
                                                   | _ => false end) (t_constraints o))%bool) s)%bool
      | None => false
      end
  | _ => false
  end.
Definition known_C02_rename_column (s : schema) (acts : list action) : bool := exists_step renames_column_with_names s acts.

(* ---- C02-last-column-deleted: the plan deletes every column the table had (a table replaced by a different one
   of the same name is diffed column by column): CREATE TABLE "t_temp" (  ) is a syntax error *)
Definition deletes_last_column (s : schema) (_ : list action) (a : action) : bool :=
  match a with
  | DeleteColumn t c =>
      match find_table t s with
      | Some td => forallb (fun x => String.eqb (c_name x) c) (t_columns td)
      | None => false
      end
  | _ => false
  end.
Definition known_C02_last_column_deleted (s : schema) (acts : list action) : bool := exists_step deletes_last_column s acts.

(* ---- C02-inline-pk-survives-remove: RemoveConstraint PrimaryKey rebuilds from the evolving table's columns, whose
   inline primary_key fields are still set (create_table.rs:46 re-emits PRIMARY KEY when no table-level key is left) *)
Definition removes_pk_with_inline (s : schema) (_ : list action) (a : action) : bool :=
  match a with
  | RemoveConstraint t (CPrimaryKey _ _) =>
      match find_table t s with
      | Some td => existsb (fun c => match c_primary_key c with Some _ => true | None => false end) (t_columns td)
      | None => false
      end
  | _ => false
  end.
Definition known_C02_inline_pk_survives (s : schema) (acts : list action) : bool := exists_step removes_pk_with_inline s acts.

(* ---- C02-drop-before-unreference (DESIGN D2): a table is dropped while another table still declares a foreign key
   to it; with foreign_keys=ON the next statement that writes the referencing table fails (no such table) *)
Definition drops_referenced (s : schema) (_ : list action) (a : action) : bool :=
  match a with
  | DeleteTable t => existsb (fun o => (negb (String.eqb (t_name o) t) && references t o)%bool) s
  | _ => false
  end.
Definition known_C02_drop_before_unreference (s : schema) (acts : list action) : bool := exists_step drops_referenced s acts.

(* ---- C02-added-column-inline-constraint: AddColumn whose column carries an inline unique / index / foreign_key /
   primary_key: replay promotes it to a table constraint (apply.rs:62-73 re-normalises), the SQL of AddColumn never
   creates it; the planner always pairs it with an AddConstraint, a hand-written migration need not *)
Definition new_constraints_of (s : schema) (a : action) (t : string) : list table_constraint :=
  match find_table t s, find_table t (apply_ignoring s a) with
  | Some before, Some after => filter (fun k => negb (contains_constraint k (t_constraints before))) (t_constraints after)
  | _, _ => []
  end.
Definition adds_unpaired_inline (s : schema) (r : list action) (a : action) : bool :=
  match a with
  | AddColumn t _ _ =>
      existsb (fun k => negb (existsb (fun b => match b with
                                                | AddConstraint t' k' => (String.eqb t' t && constraint_eqb k k')%bool
                                                | _ => false end) r))
              (new_constraints_of s a t)
  | _ => false
  end.
Definition known_C02_added_column_inline (s : schema) (acts : list action) : bool := exists_step adds_unpaired_inline s acts.

(* ---- C02-overlapping-constraint-merged: AddConstraint of a foreign key / primary key whose column list equals that of a
   different constraint of the same kind already on the table: merge_constraint (add_constraint.rs:14-38) REPLACES the
   old one in the rebuilt table, apply_action (apply.rs) appends, so the baseline believes in both *)
Definition adds_overlapping (s : schema) (_ : list action) (a : action) : bool :=
  match a with
  | AddConstraint t k =>
      match find_table t s with
      | Some td => existsb (fun c => (constraints_overlap c k && negb (constraint_eqb c k))%bool) (t_constraints td)
      | None => false
      end
  | _ => false
  end.
Definition known_C02_overlapping_merged (s : schema) (acts : list action) : bool := exists_step adds_overlapping s acts.

(* ---- C02-check-survives-column-drop: DeleteColumn of a column an explicit CHECK mentions: the rebuild of DeleteColumn drops
   the CHECK (delete_column.rs:139-150), drop_column_from_constraints keeps it (apply.rs:355-380, Check => true), so the
   baseline believes in a CHECK over a missing column and the next rebuild of the table re-emits it *)
Definition deletes_checked_column (s : schema) (_ : list action) (a : action) : bool :=
  match a with
  | DeleteColumn t c =>
      match find_table t s with
      | Some td => existsb (fun k => match k with CCheck _ e => check_mentions c e | _ => false end) (t_constraints td)
      | None => false
      end
  | _ => false
  end.
Definition known_C02_check_survives_column_drop (s : schema) (acts : list action) : bool := exists_step deletes_checked_column s acts.

(* ================================================= C05 ================================================= *)
Fixpoint all_digits (s : string) : bool :=
  match s with
  | EmptyString => true
  | String a r => let n := N_of_ascii a in (N.leb 48 n && N.leb n 57 && all_digits r)%bool
  end.
Definition is_numeric_text (s : string) : bool :=
  let body := match s with String "-"%char r => r | _ => s end in
  (negb (String.eqb body "") && all_digits body)%bool.

(* ---- C05-parent-rebuild-fk-on (DESIGN D12): some statement of the plan drops a table that a foreign key (of another table,
   or of the table itself) references: with foreign_keys=ON the implicit DELETE fires the ON DELETE action on every
   referencing row (rows deleted / nullified) or fails (RESTRICT, NO ACTION, SET NULL on a NOT NULL column) *)
Definition drops_of (l : list stmt) : list string :=
  flat_map (fun st => match st with SDropTable t => [t] | _ => [] end) l.
Definition drops_referenced_table (s : schema) (r : list action) (a : action) : bool :=
  let l := stmts_of (gen s (pending_for a r) a) in
  existsb (fun t => (existsb (references t) s
                     || existsb (fun st => match st with
                                           | SCreateTable _ _ _ fks _ => existsb (fun f => String.eqb (sf_table f) t) fks
                                           | _ => false end) l)%bool) (drops_of l).
Definition known_C05_parent_rebuild (s : schema) (acts : list action) : bool := exists_step drops_referenced_table s acts.

(* ---- C05-add-column-nonconstant-default: a nullable, non-enum column with a default of CURRENT_TIMESTAMP / CURRENT_DATE /
   CURRENT_TIME or a parenthesised expression is added with ALTER TABLE ADD COLUMN, which SQLite refuses on a table that
   holds rows ("Cannot add a column with non-constant default") *)
Definition nonconstant_default (d : string) : bool :=
  let n := to_lower (trim d) in
  (first_char_is "("%char n || String.eqb n "current_timestamp" || String.eqb n "current_date" || String.eqb n "current_time")%bool.
Definition adds_nonconstant_default (s : schema) (r : list action) (a : action) : bool :=
  existsb (fun st => match st with
                     | SAddColumn _ c => match sc_default c with Some d => nonconstant_default d | None => false end
                     | _ => false end) (stmts_of (gen s (pending_for a r) a)).
Definition known_C05_add_column_nonconstant_default (s : schema) (acts : list action) : bool :=
  exists_step adds_nonconstant_default s acts.

(* ---- C05-new-key-constant-fill: a unique / primary key whose columns are all added by this plan with a constant fill or
   default: every existing row receives the same key, CREATE UNIQUE INDEX / the rebuilt table fails as soon as the table
   holds two rows *)
Definition added_columns (t : string) (acts : list action) : list string :=
  flat_map (fun a => match a with AddColumn t' c _ => if String.eqb t' t then [c_name c] else [] | _ => [] end) acts.
Definition key_of_new_columns (acts : list action) (a : action) : bool :=
  match a with
  | AddConstraint t (CUnique _ cols) | AddConstraint t (CPrimaryKey _ cols) =>
      (nonempty cols && forallb (fun c => mem_str c (added_columns t acts)) cols)%bool
  | _ => false
  end.
Definition known_C05_new_key_constant_fill (_ : schema) (acts : list action) : bool := existsb (key_of_new_columns acts) acts.

(* ---- C05-int-enum-fill-by-name: an integer-enum column is added with a fill value / default that is a (quoted) label NAME
   (what `revision` proposes, and what the loader demands of a default); the CHECK of an integer enum lists the numeric
   values, so the copied rows fail it *)
Definition int_enum_filled_by_name (a : action) : bool :=
  match a with
  | AddColumn _ c f =>
      match c_type c with
      | TEnum _ (EVInteger _) =>
          match normalize_fill_with f, c_default c with
          | Some x, _ => negb (is_numeric_text (trim x))
          | None, Some d => negb (is_numeric_text (trim (default_to_sql d)))
          | None, None => false
          end
      | _ => false
      end
  | _ => false
  end.
Definition known_C05_int_enum_fill_by_name (_ : schema) (acts : list action) : bool := existsb int_enum_filled_by_name acts.

(* ---- C02-remove-constraint-overmatch: RemoveConstraint of a unique / foreign key rebuilds the table without every constraint
   that "matches" the removed one by remove_constraint.rs:94-115,187-210 — same name when both are named, otherwise same
   column list — which can be more than the one constraint apply_action removes (exact equality) *)
Definition removes_more_than_named (s : schema) (_ : list action) (a : action) : bool :=
  match a with
  | RemoveConstraint t k =>
      match k, find_table t s with
      | CIndex _ _, _ => false
      | _, Some td => existsb (fun c => (negb (constraint_eqb c k) && negb (keep_after_remove k c))%bool) (t_constraints td)
      | _, None => false
      end
  | _ => false
  end.
Definition known_C02_remove_constraint_overmatch (s : schema) (acts : list action) : bool :=
  exists_step removes_more_than_named s acts.

(* ---- C02-autoincrement-not-integer: a SmallInt primary key with auto_increment (supports_auto_increment accepts SmallInt,
   column.rs) renders as "smallint … PRIMARY KEY AUTOINCREMENT"; SQLite allows AUTOINCREMENT only on a column declared exactly
   INTEGER (sea-query maps BigInt to "integer" when the column auto-increments, SmallInt stays "smallint") *)
Definition renders_bad_autoincrement (s : schema) (r : list action) (a : action) : bool :=
  existsb (fun st => match st with
                     | SCreateTable _ cols _ _ _ => existsb (fun c => (sc_autoinc c && negb (String.eqb (to_lower (sc_type c)) "integer"))%bool) cols
                     | _ => false end) (stmts_of (gen s (pending_for a r) a)).
Definition known_C02_autoincrement_not_integer (s : schema) (acts : list action) : bool :=
  exists_step renders_bad_autoincrement s acts.

(* ---- C05-enum-fill-before-rebuild: ModifyColumnType between two string enums with a fill_with mapping: the UPDATEs that
   rewrite the removed labels run BEFORE the rebuild (modify_column_type.rs:106-109), i.e. under the OLD CHECK clause; a
   replacement label that the old enum did not have (a label added by the same change) violates it *)
Definition maps_to_new_label (s : schema) (_ : list action) (a : action) : bool :=
  match a with
  | ModifyColumnType t c _ (Some m) =>
      match find_table t s with
      | Some td =>
          match find_col c (t_columns td) with
          | Some cd => match c_type cd with
                       | TEnum _ (EVString old) => existsb (fun kv => negb (mem_str (snd kv) old)) m
                       | _ => false
                       end
          | None => false
          end
      | None => false
      end
  | _ => false
  end.
Definition known_C05_enum_fill_before_rebuild (s : schema) (acts : list action) : bool := exists_step maps_to_new_label s acts.

(* ---- C02-nullable-fill-bareword-enum: ModifyColumnNullable to NOT NULL on an enum column whose fill value is a bare word
   (since fix 446c8b4 `revision` proposes the column default, DefaultValue::to_sql, which for an enum default written
   without quotes is the bare label): modify_column_nullable.rs:25-40 writes it into UPDATE … SET c = label unquoted
   (add_column.rs passes the same value through normalize_enum_default): "no such column: label" *)
Definition fills_enum_with_bareword (s : schema) (_ : list action) (a : action) : bool :=
  match a with
  | ModifyColumnNullable t c false (Some f) =>
      match find_table t s with
      | Some td => match find_col c (t_columns td) with
                   | Some cd => (is_enum_type (c_type cd) && needs_quoting (convert_default (if String.eqb f "" then "''" else f)))%bool
                   | None => false
                   end
      | None => false
      end
  | _ => false
  end.
Definition known_C02_nullable_fill_bareword_enum (s : schema) (acts : list action) : bool := exists_step fills_enum_with_bareword s acts.

(* ---- C02-reference-before-key (the SQLite side of C06-reference-added-later; C03-reference-before-key on PostgreSQL):
   a foreign key is created — CreateTable is hoisted to the front of the plan, AddConstraint of an earlier table — while
   its target table, target column or the primary key / unique over exactly the referenced columns is only established by
   a later action of the same plan.  SQLite accepts the declaration; with foreign_keys=ON the next statement that has to
   look the key up (the INSERT of the rebuild that adds the foreign key, the DROP TABLE of a rebuild of the target) answers
   'foreign key mismatch - "child" referencing "parent"' (or 'no such table' when the target does not exist yet).
   Self references are included: the temp table of the rebuild that adds the key carries REFERENCES "t" ("idx") while the
   old "t" — the table the copy reads from and the parent the engine checks — still has no key over idx. *)
Definition same_names (a b : list string) : bool :=
  (forallb (fun x => existsb (String.eqb x) b) a && forallb (fun x => existsb (String.eqb x) a) b)%bool.
Definition is_key_in (s : schema) (rt : string) (rcs : list string) : bool :=
  match find_table rt s with
  | None => false
  | Some p => existsb (fun k => match k with
                                | CPrimaryKey _ cols | CUnique _ cols => same_names cols rcs
                                | _ => false
                                end) (t_constraints p)
  end.
Definition foreign_keys_created (s : schema) (a : action) : list (string * list string) :=
  match a with
  | AddConstraint _ (CForeignKey _ _ rt rcs _ _) => [(rt, rcs)]
  | CreateTable t _ _ =>
      match find_table t (apply_ignoring s a) with
      | Some td => flat_map (fun k => match k with
                                      | CForeignKey _ _ rt rcs _ _ => if String.eqb rt t then [] else [(rt, rcs)]
                                      | _ => []
                                      end) (t_constraints td)
      | None => []
      end
  | AddColumn t _ _ =>
      (* an inline foreign_key of the new column is promoted to a table constraint by the replay: the next rebuild of the table
         (often the AddConstraint of the very key it references, a self reference included) writes it into the temp table *)
      flat_map (fun k => match k with CForeignKey _ _ rt rcs _ _ => [(rt, rcs)] | _ => [] end) (new_constraints_of s a t)
  | _ => []
  end.
Definition references_before_key (s : schema) (_ : list action) (a : action) : bool :=
  existsb (fun x => negb (is_key_in s (fst x) (snd x))) (foreign_keys_created s a).
Definition known_C02_reference_before_key (s : schema) (acts : list action) : bool := exists_step references_before_key s acts.
