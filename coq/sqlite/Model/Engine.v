(* SQLITE layer: catalog model of SQLite 3.40 — only the object-lifetime / namespace / attribute rules that decide
   whether a statement is legal and which objects exist afterwards (DESIGN.md Appendix B, SQLite table).  Validated
   against libsqlite3 on every check run (correspondence K-eng-sqlite).  [catalog_of] is the catalog the tool
   believes in (DESIGN.md Appendix A).  No proofs here. *)
From VV.SQLITE Require Export Gen.

Record ccol := mkCCol {
  cc_name : string;
  cc_type : string;              (* declared type text *)
  cc_notnull : bool;
  cc_default : option string;    (* default expression text, outer white space and one pair of parentheses removed *)
  cc_pk : nat }.                 (* 1-based position in the primary key, 0 = not part of it *)

Record ctable := mkCTable {
  ct_name : string;
  ct_cols : list ccol;
  ct_autoinc : bool;
  ct_fks : list sfk;
  ct_checks : list (string * string) }.

Record cindex := mkCIndex {
  ci_name : string;
  ci_table : string;
  ci_unique : bool;
  ci_cols : list string }.

Record catalog := mkCat { cat_tables : list ctable; cat_indexes : list cindex }.
Definition empty_catalog : catalog := mkCat [] [].

Inductive engine_error :=
| ENameTaken (n : string)            (* table/index already exists, or "there is already another table or index with this name" *)
| ENoSuchTable (n : string)
| ENoSuchIndex (n : string)
| ENoSuchColumn (t c : string)
| EDuplicateColumn (t c : string)
| EBadCreate (t : string)            (* no columns, two primary keys, AUTOINCREMENT off an INTEGER PRIMARY KEY, unknown key column *)
| EAddColumn (t c : string)          (* ADD COLUMN restrictions *)
| EDropColumn (t c : string)         (* DROP COLUMN refusals *)
| EForeignKey (t : string)           (* foreign_keys=ON: parent table missing / foreign key mismatch when the child is written *)
| EArity (t : string).

(* SQLite identifiers compare case-insensitively (ASCII) *)
Definition ieq (a b : string) : bool := eq_ignore_ascii_case a b.
Definition imem (a : string) (l : list string) : bool := existsb (ieq a) l.

Definition find_ctable (n : string) (c : catalog) : option ctable :=
  find (fun t => ieq (ct_name t) n) (cat_tables c).
Definition has_ctable (n : string) (c : catalog) : bool := match find_ctable n c with Some _ => true | None => false end.
Definition has_cindex (n : string) (c : catalog) : bool := existsb (fun i => ieq (ci_name i) n) (cat_indexes c).
Definition name_taken (n : string) (c : catalog) : bool := (has_ctable n c || has_cindex n c)%bool.
Definition ccol_names (t : ctable) : list string := map cc_name (ct_cols t).
Definition has_ccol (n : string) (t : ctable) : bool := imem n (ccol_names t).

Definition replace_ctable (t : ctable) (c : catalog) : catalog :=
  mkCat (map (fun x => if ieq (ct_name x) (ct_name t) then t else x) (cat_tables c)) (cat_indexes c).

Fixpoint has_dup_ci (l : list string) : bool :=
  match l with [] => false | x :: r => (imem x r || has_dup_ci r)%bool end.

Fixpoint position_ci (n : string) (l : list string) (i : nat) : nat :=
  match l with [] => 0 | x :: r => if ieq x n then i else position_ci n r (S i) end.

(* the default text as PRAGMA table_xinfo reports it *)
Definition strip_outer_parens (s : string) : string :=
  if (first_char_is "("%char s && ends_with ")" s)%bool then strip_ends s else s.
Definition norm_default (d : option string) : option string :=
  match d with
  | None => None
  | Some s => Some (strip_outer_parens (trim s))
  end.

(* ---------- CHECK text: identifier tokens ---------- *)
Definition is_ident_char (a : ascii) : bool :=
  let n := N_of_ascii a in
  ((N.leb 48 n && N.leb n 57) || (N.leb 65 n && N.leb n 90) || (N.leb 97 n && N.leb n 122) || N.eqb n 95)%bool.

(* rewrite every identifier token equal (case-insensitively) to [old] — bare or double-quoted — into "[new]": ALTER TABLE
   RENAME COLUMN substitutes the new-name token as it was written in the ALTER statement, and vespertide always writes
   it double-quoted (checked on libsqlite3 3.40.1: CHECK (id > 0) becomes CHECK ("code" > 0)).  Single-quoted literals
   are skipped.  mode: 0 = code, 1 = 'literal',
   2 = "identifier", 3 = bare identifier being accumulated in [tok]. *)
Definition tok_step0 (a : ascii) : string * nat * string :=
  if Ascii.eqb a "'"%char then (String a EmptyString, 1, EmptyString)
  else if Ascii.eqb a """"%char then (EmptyString, 2, EmptyString)
  else if is_ident_char a then (EmptyString, 3, String a EmptyString)
  else (String a EmptyString, 0, EmptyString).

Fixpoint rename_tokens (old new : string) (s : string) (mode : nat) (tok : string) : string :=
  let flush (t : string) : string :=
    let w := rev_string t in if ieq w old then """" +++ new +++ """" else w in
  match s with
  | EmptyString =>
      match mode with
      | 3 => flush tok
      | 2 => """" +++ rev_string tok
      | _ => EmptyString
      end
  | String a r =>
      match mode with
      | 0 => let '(e, m, t) := tok_step0 a in e +++ rename_tokens old new r m t
      | 1 =>
          if Ascii.eqb a "'"%char then String a (rename_tokens old new r 0 EmptyString)
          else String a (rename_tokens old new r 1 EmptyString)
      | 2 =>
          if Ascii.eqb a """"%char then
            (let w := rev_string tok in """" +++ (if ieq w old then new else w) +++ """")
            +++ rename_tokens old new r 0 EmptyString
          else rename_tokens old new r 2 (String a tok)
      | _ =>
          if is_ident_char a then rename_tokens old new r 3 (String a tok)
          else let '(e, m, t) := tok_step0 a in flush tok +++ e +++ rename_tokens old new r m t
      end
  end.

(* does the CHECK text mention the column (as an identifier token)? *)
Fixpoint mentions_token (col : string) (s : string) (mode : nat) (tok : string) : bool :=
  match s with
  | EmptyString => match mode with 3 | 2 => ieq (rev_string tok) col | _ => false end
  | String a r =>
      match mode with
      | 0 => let '(_, m, t) := tok_step0 a in mentions_token col r m t
      | 1 => if Ascii.eqb a "'"%char then mentions_token col r 0 EmptyString else mentions_token col r 1 EmptyString
      | 2 => if Ascii.eqb a """"%char then (ieq (rev_string tok) col || mentions_token col r 0 EmptyString)%bool
             else mentions_token col r 2 (String a tok)
      | _ => if is_ident_char a then mentions_token col r 3 (String a tok)
             else let '(_, m, t) := tok_step0 a in (ieq (rev_string tok) col || mentions_token col r m t)%bool
      end
  end.
(* bare identifier tokens of a CHECK text (double-quoted names fall back to string literals in SQLite when no such column
   exists, so only bare tokens can make CREATE TABLE fail with "no such column") *)
Fixpoint bare_tokens (s : string) (mode : nat) (tok : string) : list string :=
  match s with
  | EmptyString => match mode with 3 => [rev_string tok] | _ => [] end
  | String a r =>
      match mode with
      | 0 => let '(_, m, t) := tok_step0 a in bare_tokens r m t
      | 1 => if Ascii.eqb a "'"%char then bare_tokens r 0 EmptyString else bare_tokens r 1 EmptyString
      | 2 => if Ascii.eqb a """"%char then bare_tokens r 0 EmptyString else bare_tokens r 2 EmptyString
      | _ => if is_ident_char a then bare_tokens r 3 (String a tok)
             else let '(_, m, t) := tok_step0 a in rev_string tok :: bare_tokens r m t
      end
  end.
Definition sql_words : list string :=
  ["in"; "and"; "or"; "not"; "null"; "is"; "like"; "between"; "true"; "false"; "length"; "lower"; "upper"; "abs";
   "glob"; "case"; "when"; "then"; "else"; "end"; "cast"; "as"; "integer"; "text"; "real"; "coalesce"; "typeof"].
Definition starts_with_digit (s : string) : bool :=
  match s with String a _ => let n := N_of_ascii a in (N.leb 48 n && N.leb n 57)%bool | EmptyString => true end.
(* approximation of SQLite's name resolution inside a CHECK: a bare token that is neither a number nor one of the
   SQL words above must be a column of the table *)
Definition check_resolves (cols : list string) (chk : string * string) : bool :=
  forallb (fun w => (starts_with_digit w || imem w sql_words || imem w cols)%bool) (bare_tokens (snd chk) 0 EmptyString).

(* a value expression (fill value, default literal) resolves: its bare tokens are numbers, SQL words or columns of the table *)
Definition value_words : list string := sql_words ++ ["current_timestamp"; "current_date"; "current_time"; "hex"; "randomblob"].
Definition value_resolves (cols : list string) (text : string) : bool :=
  forallb (fun w => (starts_with_digit w || imem w value_words || imem w cols)%bool) (bare_tokens text 0 EmptyString).

Definition check_uses (col : string) (chk : string * string) : bool := mentions_token col (snd chk) 0 EmptyString.

(* ---------- CREATE TABLE ---------- *)
Definition table_of_create (name : string) (cols : list scol) (pks : list (list string)) (fks : list sfk)
  (checks : list (string * string)) : ctable :=
  let inline_pk := map sc_name (filter sc_pk cols) in
  let pkcols := match pks with p :: _ => p | [] => inline_pk end in
  mkCTable name
    (map (fun c => mkCCol (sc_name c) (sc_type c) (sc_notnull c) (norm_default (sc_default c))
                          (position_ci (sc_name c) pkcols 1)) cols)
    (existsb sc_autoinc cols) fks checks.

Definition create_ok (cols : list scol) (pks : list (list string)) (fks : list sfk) (checks : list (string * string)) : bool :=
  let names := map sc_name cols in
  (nonempty cols
   && forallb (check_resolves names) checks
   && negb (has_dup_ci names)
   && Nat.leb (List.length (filter sc_pk cols) + List.length pks) 1
   && forallb (fun c => implb (sc_autoinc c) (sc_pk c && ieq (sc_type c) "integer")) cols
   && forallb (fun p => forallb (fun n => imem n names) p) pks
   && forallb (fun f => (forallb (fun n => imem n names) (sf_cols f)
                         && Nat.eqb (List.length (sf_cols f)) (List.length (sf_refcols f)))%bool) fks)%bool.

(* ---------- foreign_keys=ON: writing a child table needs every parent to exist with a usable key ---------- *)
Definition is_key_of (parent : ctable) (idx : list cindex) (cols : list string) : bool :=
  let pk := map cc_name (filter (fun c => negb (Nat.eqb (cc_pk c) 0)) (ct_cols parent)) in
  let same_set (a b : list string) :=
    (Nat.eqb (List.length a) (List.length b) && forallb (fun x => imem x b) a && forallb (fun x => imem x a) b)%bool in
  (same_set pk cols
   || existsb (fun i => (ieq (ci_table i) (ct_name parent) && ci_unique i && same_set (ci_cols i) cols)%bool) idx)%bool.
Definition child_writable (c : catalog) (child : ctable) : bool :=
  forallb (fun f => match find_ctable (sf_table f) c with
                    | None => false
                    | Some p => is_key_of p (cat_indexes c) (sf_refcols f)
                    end) (ct_fks child).

(* ---------- DROP TABLE under foreign_keys=ON: what the implicit DELETE compiles ----------
   The implicit DELETE FROM the dropped table ignores foreign keys that do not resolve ("foreign key mismatch" is not raised
   for it).  Every foreign key that references the table and does resolve contributes its ON DELETE action as a nested
   statement: CASCADE a DELETE on the child, SET NULL / SET DEFAULT an UPDATE of the child columns.  Nested statements are
   compiled like ordinary ones:
     - a nested DELETE or UPDATE on T needs every foreign key that references T to resolve to a key of T;
     - a nested DELETE on T needs every foreign key of T to find its parent table and key; a nested UPDATE needs that of the
       foreign keys of T that use an updated column, and of the self-referencing ones;
     - a nested DELETE fires the ON DELETE actions of the keys referencing T, a nested UPDATE the ON UPDATE actions of the
       keys whose parent columns are updated.
   Nothing here depends on rows: the refusal happens while the statement is prepared. *)
Inductive nnode := NDel (t : string) | NUpd (t : string) (cols : list string).
Definition nnode_eqb (a b : nnode) : bool :=
  match a, b with
  | NDel x, NDel y => ieq x y
  | NUpd x cx, NUpd y cy => (ieq x y && list_eqb ieq cx cy)%bool
  | _, _ => false
  end.
Definition fk_resolves (c : catalog) (f : sfk) : bool :=
  match find_ctable (sf_table f) c with
  | None => false
  | Some p => is_key_of p (cat_indexes c) (sf_refcols f)
  end.
Definition refs_to (c : catalog) (t : string) : list (string * sfk) :=
  flat_map (fun ch => map (fun f => (ct_name ch, f)) (filter (fun f => ieq (sf_table f) t) (ct_fks ch))) (cat_tables c).
Definition nnode_ok (c : catalog) (n : nnode) : bool :=
  match n with
  | NDel t =>
      match find_ctable t c with
      | None => true
      | Some tb => (child_writable c tb && forallb (fun cf => fk_resolves c (snd cf)) (refs_to c t))%bool
      end
  | NUpd t cols =>
      match find_ctable t c with
      | None => true
      | Some tb =>
          (forallb (fun f => implb (ieq (sf_table f) t || existsb (fun x => imem x cols) (sf_cols f)) (fk_resolves c f)) (ct_fks tb)
           && forallb (fun cf => fk_resolves c (snd cf)) (refs_to c t))%bool
      end
  end.
Definition delete_actions (c : catalog) (t : string) : list nnode :=
  flat_map (fun cf => if fk_resolves c (snd cf) then
                        match sf_on_delete (snd cf) with
                        | Some Cascade => [NDel (fst cf)]
                        | Some SetNull | Some SetDefault => [NUpd (fst cf) (sf_cols (snd cf))]
                        | _ => []
                        end
                      else []) (refs_to c t).
Definition nnode_next (c : catalog) (n : nnode) : list nnode :=
  match n with
  | NDel t => delete_actions c t
  | NUpd t cols =>
      flat_map (fun cf => if existsb (fun x => imem x cols) (sf_refcols (snd cf)) then
                            match sf_on_update (snd cf) with
                            | Some Cascade | Some SetNull | Some SetDefault => [NUpd (fst cf) (sf_cols (snd cf))]
                            | _ => []
                            end
                          else []) (refs_to c t)
  end.
Fixpoint nested_compile (fuel : nat) (c : catalog) (todo seen : list nnode) : bool :=
  match fuel with
  | O => true
  | S k =>
      match todo with
      | [] => true
      | n :: rest =>
          if existsb (nnode_eqb n) seen then nested_compile k c rest seen
          else (nnode_ok c n && nested_compile k c (nnode_next c n ++ rest) (n :: seen))%bool
      end
  end.
Definition drop_compiles (c : catalog) (name : string) : bool :=
  let n := S (List.length (cat_tables c) + List.length (flat_map ct_fks (cat_tables c))) in
  nested_compile (n * n) c (delete_actions c name) [].

(* ---------- UPDATE t SET col = … / INSERT INTO t under foreign_keys=ON ----------
   An UPDATE needs foreign-key processing when [col] is a child column of one of t's foreign keys or is named among the
   referenced columns of a foreign key that references t (from any table, t included).  Then the statement is prepared with
   EVERY foreign key that references t resolved to a key of t ('foreign key mismatch - "b" referencing "t"' otherwise, also
   for keys the update does not touch), and with the parents of t's own foreign keys over [col] looked up.
   An INSERT INTO t always looks up the parents of t's foreign keys and resolves every foreign key that references t. *)
Definition update_fk_ok (c : catalog) (t : ctable) (col : string) : bool :=
  let refs := refs_to c (ct_name t) in
  if (existsb (fun f => imem col (sf_cols f)) (ct_fks t) || existsb (fun cf => imem col (sf_refcols (snd cf))) refs)%bool
  then (forallb (fun cf => fk_resolves c (snd cf)) refs
        && child_writable c (mkCTable (ct_name t) (ct_cols t) (ct_autoinc t)
                                      (filter (fun f => imem col (sf_cols f)) (ct_fks t)) (ct_checks t)))%bool
  else true.

Definition ren (old new : string) (l : list string) : list string := map (fun x => if ieq x old then new else x) l.

(* ---------- exec ---------- *)
Definition exec (fk_on : bool) (c : catalog) (st : stmt) : result catalog engine_error :=
  match st with
  | SCreateTable name cols pks fks checks =>
      if name_taken name c then Err (ENameTaken name)
      else if negb (create_ok cols pks fks checks) then Err (EBadCreate name)
      else Ok (mkCat (cat_tables c ++ [table_of_create name cols pks fks checks]) (cat_indexes c))
  | SDropTable name =>
      if has_ctable name c then
        (* foreign_keys=ON: the implicit DELETE compiles the ON DELETE / ON UPDATE actions it can reach as nested statements;
           a nested statement is refused when a foreign key it has to look at does not resolve *)
        if (fk_on && negb (drop_compiles c name))%bool
        then Err (EForeignKey name) else
        Ok (mkCat (filter (fun t => negb (ieq (ct_name t) name)) (cat_tables c))
                  (filter (fun i => negb (ieq (ci_table i) name)) (cat_indexes c)))
      else Err (ENoSuchTable name)
  | SRenameTable from to =>
      match find_ctable from c with
      | None => Err (ENoSuchTable from)
      | Some _ =>
          if name_taken to c then Err (ENameTaken to)
          else
            (* indexes follow; REFERENCES clauses naming [from] — in any table — are rewritten *)
            let fix_fk f := if ieq (sf_table f) from then mkSFk (sf_cols f) to (sf_refcols f) (sf_on_delete f) (sf_on_update f) else f in
            Ok (mkCat (map (fun t => mkCTable (if ieq (ct_name t) from then to else ct_name t) (ct_cols t) (ct_autoinc t)
                                              (map fix_fk (ct_fks t)) (ct_checks t)) (cat_tables c))
                      (map (fun i => if ieq (ci_table i) from then mkCIndex (ci_name i) to (ci_unique i) (ci_cols i) else i)
                           (cat_indexes c)))
      end
  | SCreateIndex u name table cols =>
      if name_taken name c then Err (ENameTaken name)
      else match find_ctable table c with
           | None => Err (ENoSuchTable table)
           | Some t =>
               match find (fun n => negb (has_ccol n t)) cols with
               | Some n => Err (ENoSuchColumn table n)
               | None => Ok (mkCat (cat_tables c) (cat_indexes c ++ [mkCIndex name (ct_name t) u cols]))
               end
           end
  | SDropIndex name =>
      if has_cindex name c then Ok (mkCat (cat_tables c) (filter (fun i => negb (ieq (ci_name i) name)) (cat_indexes c)))
      else Err (ENoSuchIndex name)
  | SAddColumn table col =>
      match find_ctable table c with
      | None => Err (ENoSuchTable table)
      | Some t =>
          if has_ccol (sc_name col) t then Err (EDuplicateColumn table (sc_name col))
          else if (sc_pk col || sc_autoinc col)%bool then Err (EAddColumn table (sc_name col))
          (* NOT NULL without default and non-constant defaults are refused only when the table holds rows (3.40 checks
             them at run time); this catalog model has no rows — Rows.v adds the data-dependent refusals *)
          else Ok (replace_ctable (mkCTable (ct_name t)
                                     (ct_cols t ++ [mkCCol (sc_name col) (sc_type col) (sc_notnull col)
                                                           (norm_default (sc_default col)) 0])
                                     (ct_autoinc t) (ct_fks t) (ct_checks t)) c)
      end
  | SDropColumn table col =>
      match find_ctable table c with
      | None => Err (ENoSuchTable table)
      | Some t =>
          match find (fun x => ieq (cc_name x) col) (ct_cols t) with
          | None => Err (ENoSuchColumn table col)
          | Some cc =>
              if (negb (Nat.eqb (cc_pk cc) 0)
                  || Nat.leb (List.length (ct_cols t)) 1
                  || existsb (fun i => (ieq (ci_table i) table && imem col (ci_cols i))%bool) (cat_indexes c)
                  || existsb (check_uses col) (ct_checks t)
                  || existsb (fun f => imem col (sf_cols f)) (ct_fks t))%bool
              then Err (EDropColumn table col)
              else Ok (replace_ctable (mkCTable (ct_name t) (filter (fun x => negb (ieq (cc_name x) col)) (ct_cols t))
                                                (ct_autoinc t) (ct_fks t) (ct_checks t)) c)
          end
      end
  | SRenameColumn table from to =>
      match find_ctable table c with
      | None => Err (ENoSuchTable table)
      | Some t =>
          if negb (has_ccol from t) then Err (ENoSuchColumn table from)
          else if has_ccol to t then Err (EDuplicateColumn table to)
          else
            let fix_own f := mkSFk (ren from to (sf_cols f)) (sf_table f)
                                   (if ieq (sf_table f) table then ren from to (sf_refcols f) else sf_refcols f)
                                   (sf_on_delete f) (sf_on_update f) in
            let fix_other f := if ieq (sf_table f) table
                               then mkSFk (sf_cols f) (sf_table f) (ren from to (sf_refcols f)) (sf_on_delete f) (sf_on_update f)
                               else f in
            Ok (mkCat
                  (map (fun x =>
                          if ieq (ct_name x) table then
                            mkCTable (ct_name x)
                              (map (fun cc => if ieq (cc_name cc) from
                                              then mkCCol to (cc_type cc) (cc_notnull cc) (cc_default cc) (cc_pk cc) else cc) (ct_cols x))
                              (ct_autoinc x) (map fix_own (ct_fks x))
                              (map (fun k => (fst k, rename_tokens from to (snd k) 0 EmptyString)) (ct_checks x))
                          else mkCTable (ct_name x) (ct_cols x) (ct_autoinc x) (map fix_other (ct_fks x)) (ct_checks x))
                       (cat_tables c))
                  (map (fun i => if ieq (ci_table i) table then mkCIndex (ci_name i) (ci_table i) (ci_unique i) (ren from to (ci_cols i)) else i)
                       (cat_indexes c)))
      end
  | SInsertSelect dst cols src exprs =>
      match find_ctable dst c, find_ctable src c with
      | None, _ => Err (ENoSuchTable dst)
      | _, None => Err (ENoSuchTable src)
      | Some d, Some s =>
          match find (fun n => negb (has_ccol n d)) cols with
          | Some n => Err (ENoSuchColumn dst n)
          | None =>
              match find (fun e => match e with SelCol n => negb (has_ccol n s) | SelExpr x _ => negb (value_resolves (ccol_names s) x) end) exprs with
              | Some (SelCol n) => Err (ENoSuchColumn src n)
              | Some (SelExpr x _) => Err (ENoSuchColumn src x)
              | None =>
                  if negb (Nat.eqb (List.length cols) (List.length exprs)) then Err (EArity dst)
                  else if (fk_on && negb (child_writable c d && forallb (fun cf => fk_resolves c (snd cf)) (refs_to c (ct_name d))))%bool
                       then Err (EForeignKey dst)
                  else Ok c
              end
          end
      end
  | SUpdate table col v w =>
      match find_ctable table c with
      | None => Err (ENoSuchTable table)
      | Some t =>
          if negb (has_ccol col t) then Err (ENoSuchColumn table col)
          else if negb (value_resolves (ccol_names t) v) then Err (ENoSuchColumn table v)
          else match (match w with WNone => None | WIsNull x | WEqLit x _ => Some x end) with
               | Some x => if has_ccol x t then
                             (* foreign_keys=ON: see [update_fk_ok] *)
                             if (fk_on && negb (update_fk_ok c t col))%bool
                             then Err (EForeignKey table) else Ok c
                           else Err (ENoSuchColumn table x)
               | None => if (fk_on && negb (update_fk_ok c t col))%bool
                         then Err (EForeignKey table) else Ok c
               end
      end
  | SRaw _ => Ok c
  end.

(* run a list of statements; on error report the position of the failing statement *)
Fixpoint exec_all (fk_on : bool) (c : catalog) (l : list stmt) (i : nat) : result catalog (nat * engine_error) :=
  match l with
  | [] => Ok c
  | st :: r => match exec fk_on c st with
               | Ok c' => exec_all fk_on c' r (S i)
               | Err e => Err (i, e)
               end
  end.

(* ---------- the catalog the tool believes in (DESIGN.md Appendix A, sqlite) ---------- *)
Definition pk_of (t : table_def) : option (bool * list string) :=
  match find is_pk (t_constraints t) with Some (CPrimaryKey a cols) => Some (a, cols) | _ => None end.

Definition table_entry (t : table_def) : ctable :=
  let '(auto, pkcols) := match pk_of t with Some p => p | None => (false, []) end in
  mkCTable (t_name t)
    (map (fun c => mkCCol (c_name c)
                          (match render_type (c_type c) (auto && mem_str (c_name c) pkcols)%bool with Some ty => ty | None => "?" end)
                          (negb (c_nullable c)) (norm_default (column_default_text c))
                          (position_ci (c_name c) pkcols 1)) (t_columns t))
    auto
    (table_fks (t_constraints t))
    (all_checks (t_name t) (t_columns t) (t_constraints t)).

Definition index_entries (t : table_def) : list cindex :=
  flat_map (fun k => match k with
                     | CIndex n cols => [mkCIndex (build_index_name (t_name t) cols n) (t_name t) false cols]
                     | CUnique n cols => [mkCIndex (build_unique_constraint_name (t_name t) cols n) (t_name t) true cols]
                     | _ => []
                     end) (t_constraints t).

Definition catalog_of (s : schema) : catalog := mkCat (map table_entry s) (flat_map index_entries s).
