(* SQLITE layer: model of vespertide-query's SQL generation for the SQLite backend only.
   gen       mirrors build_action_queries_with_pending (sql/mod.rs:47-156) and its 13 builders,
   gen_plan  mirrors build_plan_queries (builder.rs:16-93): evolving schema, pending constraints, apply errors
             ignored, empty statements dropped the way every consumer drops them.
   Rendering facts come from sea-query 0.32.7 (backend/sqlite/table.rs, backend/table_builder.rs,
   backend/query_builder.rs).  Quirks are kept.  No proofs here. *)
From VV.SQLITE Require Export Ast.

(* ------------------------------------------------------------------ small string utilities *)
Fixpoint contains_sub (pat s : string) : bool :=
  (starts_with pat s ||
   match s with EmptyString => false | String _ r => contains_sub pat r end)%bool.

(* str::replace('\'', "''") *)
Fixpoint escape_quotes (s : string) : string :=
  match s with
  | EmptyString => EmptyString
  | String a r => if Ascii.eqb a "'"%char then String "'"%char (String "'"%char (escape_quotes r))
                  else String a (escape_quotes r)
  end.
Definition quote_lit (s : string) : string := "'" +++ escape_quotes s +++ "'".
Definition to_lower (s : string) : string := map_string to_lower_ascii_char s.
Definition first_char_is (c : ascii) (s : string) : bool :=
  match s with String a _ => Ascii.eqb a c | EmptyString => false end.
Definition str_drop (n : nat) (s : string) : string := String.substring n (String.length s - n) s.
Definition str_take (n : nat) (s : string) : string := String.substring 0 n s.

(* ------------------------------------------------------------------ helpers.rs *)
(* normalize_fill_with (helpers.rs:14-22) *)
Definition normalize_fill_with (f : option string) : option string :=
  option_map (fun s => if String.eqb s "" then "''" else s) f.

(* parse_pg_type_cast (helpers.rs:202-244), returning only the value: on SQLite convert_type_cast
   (helpers.rs:268-280) keeps the value and drops the cast.  Scan for the closing quote with '' skipped. *)
Fixpoint closing_quote (fuel : nat) (i : nat) (s : string) : option nat :=
  (* index (in s) of the first single quote that is not doubled; s is the text after the opening quote *)
  match fuel with
  | O => None
  | S f =>
      match String.get i s with
      | None => None
      | Some a =>
          if Ascii.eqb a "'"%char then
            match String.get (S i) s with
            | Some b => if Ascii.eqb b "'"%char then closing_quote f (S (S i)) s else Some i
            | None => Some i
            end
          else closing_quote f (S i) s
      end
  end.
Definition pg_cast_value (expr : string) : option string :=
  let t := trim expr in
  if first_char_is "'"%char t then
    let after := str_drop 1 t in
    match closing_quote (S (String.length after)) 0 after with
    | None => None
    | Some i =>
        let rest := str_drop (S i) after in
        if starts_with "::" rest then
          if String.eqb (trim (str_drop 2 rest)) "" then None
          else Some ("'" +++ str_take i after +++ "'")
        else None
    end
  else
    match String.index 0 "::" t with
    | None => None
    | Some pos =>
        let v := trim (str_take pos t) in
        let c := trim (str_drop (pos + 2) t) in
        if (String.eqb v "" || String.eqb c "")%bool then None else Some v
    end.

(* convert_default_for_backend (helpers.rs:167-198), SQLite column.  to_lowercase is modelled for ASCII. *)
Definition convert_default (d : string) : string :=
  let lower := to_lower d in
  if (String.eqb lower "gen_random_uuid()" || String.eqb lower "uuid()"
      || String.eqb lower "lower(hex(randomblob(16)))")%bool then "lower(hex(randomblob(16)))"
  else if (String.eqb lower "current_timestamp()" || String.eqb lower "now()"
           || String.eqb lower "current_timestamp" || String.eqb lower "getdate()")%bool then "CURRENT_TIMESTAMP"
  else match pg_cast_value d with Some v => v | None => d end.

Definition is_enum_type (t : column_type) : bool := match t with TEnum _ _ => true | _ => false end.

(* needs_quoting (helpers.rs:301-327) *)
Definition needs_quoting (s : string) : bool :=
  let t := trim s in
  if String.eqb t "" then true
  else if (first_char_is "'"%char t || first_char_is """"%char t)%bool then false
  else if (contains_char "("%char t || contains_char ")"%char t)%bool then false
  else if eq_ignore_ascii_case t "null" then false
  else if (eq_ignore_ascii_case t "current_timestamp" || eq_ignore_ascii_case t "current_date"
           || eq_ignore_ascii_case t "current_time")%bool then false
  else true.
(* normalize_enum_default (helpers.rs:292-298) *)
Definition normalize_enum_default (t : column_type) (v : string) : string :=
  if (is_enum_type t && needs_quoting v)%bool then "'" +++ v +++ "'" else v.

Definition default_is_string (d : default_value) : bool := match d with DStr _ => true | _ => false end.

(* the DEFAULT text of build_sea_column_def_with_table (helpers.rs:342-368) on SQLite *)
Definition column_default_text (c : column_def) : option string :=
  match c_default c with
  | None => None
  | Some d =>
      let converted := convert_default (default_to_sql d) in
      let fin := if (is_enum_type (c_type c) && default_is_string d && needs_quoting converted)%bool
                 then "'" +++ converted +++ "'" else converted in
      Some (if (contains_char "("%char fin && negb (first_char_is "("%char fin))%bool
            then "(" +++ fin +++ ")" else fin)
  end.

(* apply_column_type_with_table (helpers.rs:49-142) followed by SqliteQueryBuilder::prepare_column_type
   (sea-query backend/sqlite/table.rs).  None = sea-query panics (unimplemented! / panic!). *)
Definition render_type (t : column_type) (autoinc : bool) : option string :=
  match t with
  | TSimple SmallInt => Some "smallint"
  | TSimple Integer => Some "integer"
  | TSimple BigInt => Some (if autoinc then "integer" else "bigint")
  | TSimple Real => Some "float"
  | TSimple DoublePrecision => Some "double"
  | TSimple Text => Some "text"
  | TSimple Boolean => Some "boolean"
  | TSimple Date => Some "date_text"
  | TSimple Time => Some "time_text"
  | TSimple Timestamp => Some "timestamp_text"
  | TSimple Timestamptz => Some "timestamp_with_timezone_text"
  | TSimple Interval => None                           (* unimplemented!("Interval is not available in Sqlite.") *)
  | TSimple Bytea => Some "blob(1)"                    (* col.binary() = binary_len(1) *)
  | TSimple Uuid => Some "uuid_text"
  | TSimple Json => Some "json_text"
  | TSimple Inet => Some "INET"
  | TSimple Cidr => Some "CIDR"
  | TSimple Macaddr => Some "MACADDR"
  | TSimple Xml => Some "XML"
  | TVarchar n => Some ("varchar(" +++ N_to_string n +++ ")")
  | TNumeric p s => if N.ltb 16 p then None            (* panic!("precision cannot be larger than 16") *)
                    else Some ("real(" +++ N_to_string p +++ ", " +++ N_to_string s +++ ")")
  | TChar n => Some ("char(" +++ N_to_string n +++ ")")
  | TCustom s => Some s
  | TEnum _ v => Some (if ev_is_integer v then "integer" else "enum_text")
  end.

(* EnumValues::to_sql_values (column.rs:297-305) *)
Definition enum_sql_values (v : enum_values) : list string :=
  match v with
  | EVString l => map quote_lit l
  | EVInteger l => map (fun x => Z_to_string (nv_value x)) l
  end.

(* build_sqlite_enum_check_clause (helpers.rs:447-462), as (name, expr) *)
Definition enum_check (table : string) (c : column_def) : list (string * string) :=
  match c_type c with
  | TEnum _ v => [(build_check_constraint_name table (c_name c),
                   """" +++ c_name c +++ """ IN (" +++ join ", " (enum_sql_values v) +++ ")")]
  | _ => []
  end.
Definition enum_checks (table : string) (cols : list column_def) : list (string * string) :=
  flat_map (enum_check table) cols.
Definition explicit_checks (cs : list table_constraint) : list (string * string) :=
  flat_map (fun k => match k with CCheck n e => [(n, e)] | _ => [] end) cs.
Definition check_eqb (a b : string * string) : bool :=
  (String.eqb (fst a) (fst b) && String.eqb (snd a) (snd b))%bool.
(* collect_all_check_clauses (helpers.rs:493-506): enum clauses, then explicit ones not yet present.
   The Rust code compares the formatted clause texts; for names without quotes that is pair equality. *)
Definition all_checks (table : string) (cols : list column_def) (cs : list table_constraint)
  : list (string * string) :=
  fold_left (fun acc k => if existsb (check_eqb k) acc then acc else acc ++ [k])
            (explicit_checks cs) (enum_checks table cols).

(* ------------------------------------------------------------------ create_table.rs *)
Inductive gen_error := GenError | GenPanic.

(* a generated action: its statements, or an error; [render_panic] = some statement of the action makes
   sea-query panic when it is rendered; [build_panic] = the panic happens inside the builder (CHECK splicing
   renders the CREATE TABLE eagerly: create_table.rs:225, helpers.rs:519) *)
Inductive gen_out :=
| GOk (l : list stmt)
| GErr
| GPanicBuild
| GPanicRender.

Definition auto_increment_columns (cs : list table_constraint) : list string :=
  flat_map (fun k => match k with CPrimaryKey true cols => cols | _ => [] end) cs.

(* one column of build_create_table_for_backend (create_table.rs:42-70) *)
Definition gen_coldef (has_table_pk : bool) (auto_cols : list string) (c : column_def) : option scol :=
  let auto := (mem_str (c_name c) auto_cols && supports_auto_increment (c_type c))%bool in
  let pk := ((match c_primary_key c with Some _ => true | None => false end) && negb has_table_pk)%bool in
  match render_type (c_type c) auto with
  | None => None
  | Some ty => Some (mkSCol (c_name c) ty (negb (c_nullable c)) (column_default_text c) (pk || auto)%bool auto)
  end.
(* the column of ALTER TABLE ADD COLUMN (add_column.rs:14-24) *)
Definition gen_add_coldef (c : column_def) : option scol :=
  match render_type (c_type c) false with
  | None => None
  | Some ty => Some (mkSCol (c_name c) ty (negb (c_nullable c)) (column_default_text c) false false)
  end.

Fixpoint map_option {A B} (f : A -> option B) (l : list A) : option (list B) :=
  match l with
  | [] => Some []
  | x :: r => match f x, map_option f r with Some y, Some ys => Some (y :: ys) | _, _ => None end
  end.

Definition find_col (n : string) (cols : list column_def) : option column_def :=
  find (fun c => String.eqb (c_name c) n) cols.

(* table-level PRIMARY KEY clauses (create_table.rs:75-99) *)
Definition table_pks (cols : list column_def) (cs : list table_constraint) : list (list string) :=
  flat_map (fun k =>
    match k with
    | CPrimaryKey auto pk_cols =>
        if (auto && forallb (fun n => match find_col n cols with
                                      | Some c => supports_auto_increment (c_type c)
                                      | None => false end) pk_cols)%bool
        then [] else [pk_cols]
    | _ => []
    end) cs.
(* FOREIGN KEY clauses (create_table.rs:122-149); the constraint name is not printed on SQLite *)
Definition table_fks (cs : list table_constraint) : list sfk :=
  flat_map (fun k => match k with
                     | CForeignKey _ cols rt rcols od ou => [mkSFk cols rt rcols od ou]
                     | _ => []
                     end) cs.

(* build_create_table_for_backend on SQLite; Unique, Check and Index constraints contribute nothing *)
Definition create_table_stmt (name : string) (cols : list column_def) (cs : list table_constraint)
  (checks : list (string * string)) : option stmt :=
  let has_pk := existsb is_pk cs in
  match map_option (gen_coldef has_pk (auto_increment_columns cs)) cols with
  | None => None
  | Some scols => Some (SCreateTable name scols (table_pks cols cs) (table_fks cs) checks)
  end.

Definition index_stmt (table : string) (k : table_constraint) : list stmt :=
  match k with
  | CIndex n cols => [SCreateIndex false (build_index_name table cols n) table cols]
  | CUnique n cols => [SCreateIndex true (build_unique_constraint_name table cols n) table cols]
  | _ => []
  end.
Definition is_unique (k : table_constraint) : bool := match k with CUnique _ _ => true | _ => false end.
Definition is_index (k : table_constraint) : bool := match k with CIndex _ _ => true | _ => false end.

(* build_create_table (create_table.rs:165-291), SQLite: the explicit CHECK constraints are NOT emitted
   (create_table.rs:150-154 drops them and only the enum clauses are spliced, :220-238) *)
Definition gen_create_table (table : string) (columns : list column_def) (constraints : list table_constraint)
  : gen_out :=
  match normalize (mkTable table None columns constraints) with
  | Err _ => GErr
  | Ok n =>
      let cols := t_columns n in
      let cs := t_constraints n in
      let table_cs := filter (fun k => negb (is_unique k)) cs in
      let checks := enum_checks table cols in
      match create_table_stmt table cols table_cs checks with
      | None => match checks with [] => GPanicRender | _ => GPanicBuild end
      | Some ct =>
          GOk (ct :: flat_map (index_stmt table) (filter is_unique cs)
                  ++ flat_map (index_stmt table) (filter is_index cs))
      end
  end.

(* ------------------------------------------------------------------ the 5-step rebuild *)
Definition temp_name (table : string) : string := table +++ "_temp".

(* build_sqlite_temp_table_create (helpers.rs:538-548): all constraints are handed to
   build_create_table_for_backend, every CHECK (enum + explicit) is spliced *)
Definition temp_table_create (table : string) (cols : list column_def) (cs : list table_constraint)
  : option stmt * bool (* spliced, i.e. rendered inside the builder *) :=
  let checks := all_checks table cols cs in
  (create_table_stmt (temp_name table) cols cs checks, match checks with [] => false | _ => true end).

(* recreate_indexes_after_rebuild (helpers.rs:556-606) *)
Definition recreate_indexes (table : string) (cs pending : list table_constraint) : list stmt :=
  flat_map (fun k => if contains_constraint k pending then [] else index_stmt table k) cs.

Definition copy_stmt (table : string) (dst_cols : list string) (exprs : list sel_expr) : stmt :=
  SInsertSelect (temp_name table) dst_cols table exprs.

(* CREATE temp ; INSERT…SELECT ; DROP ; RENAME ; recreate indexes *)
Definition rebuild (table : string) (new_cols : list column_def) (new_cs : list table_constraint)
  (dst_cols : list string) (exprs : list sel_expr) (index_cs pending : list table_constraint)
  (before : list stmt) : gen_out :=
  match temp_table_create table new_cols new_cs with
  | (None, spliced) => if spliced then GPanicBuild else GPanicRender
  | (Some ct, _) =>
      GOk (before ++ [ct; copy_stmt table dst_cols exprs; SDropTable table; SRenameTable (temp_name table) table]
                  ++ recreate_indexes table index_cs pending)
  end.

Definition find_table (n : string) (s : schema) : option table_def :=
  find (fun t => String.eqb (t_name t) n) s.
Definition col_names (cols : list column_def) : list string := map c_name cols.
Definition copy_all (cols : list column_def) : list sel_expr := map (fun c => SelCol (c_name c)) cols.

(* ------------------------------------------------------------------ add_column.rs *)
Definition gen_add_column (s : schema) (table : string) (column : column_def) (fill_with : option string)
  : gen_out :=
  if (negb (c_nullable column) || is_enum_type (c_type column))%bool then
    match find_table table s with
    | None => GErr
    | Some td =>
        let fill :=
          match normalize_fill_with fill_with with
          | Some f => normalize_enum_default (c_type column) (convert_default f)
          | None =>
              match c_default column with
              | Some d => normalize_enum_default (c_type column) (convert_default (default_to_sql d))
              | None => "NULL"
              end
          end in
        rebuild table (t_columns td ++ [column]) (t_constraints td)
                (col_names (t_columns td) ++ [c_name column])
                (copy_all (t_columns td) ++ [SelExpr fill (c_name column)])
                (t_constraints td) [] []
    end
  else
    (* nullable, non-enum: plain ALTER TABLE ADD COLUMN; needs_backfill is false here *)
    match gen_add_coldef column with
    | None => GPanicRender
    | Some sc => GOk [SAddColumn table sc]
    end.

(* ------------------------------------------------------------------ delete_column.rs *)
Definition check_mentions (column expr : string) : bool :=
  (contains_sub ("""" +++ column +++ """") expr || contains_sub column expr)%bool.

Definition delete_column_temp (table column : string) (td : table_def) : gen_out :=
  let new_cols := filter (fun c => negb (String.eqb (c_name c) column)) (t_columns td) in
  let new_cs := filter (fun k => match k with
                                 | CCheck _ e => negb (check_mentions column e)
                                 | _ => negb (mem_str column (constraint_columns k))
                                 end) (t_constraints td) in
  rebuild table new_cols new_cs (col_names new_cols) (copy_all new_cols) new_cs [] [].

Inductive dc_scan := DcTemp | DcDrops (l : list stmt).
Fixpoint delete_column_scan (table column : string) (cs : list table_constraint) (acc : list stmt) : dc_scan :=
  match cs with
  | [] => DcDrops acc
  | k :: r =>
      match k with
      | CCheck _ e => if check_mentions column e then DcTemp else delete_column_scan table column r acc
      | _ =>
          if negb (mem_str column (constraint_columns k)) then delete_column_scan table column r acc
          else match k with
               | CForeignKey _ _ _ _ _ _ | CPrimaryKey _ _ => DcTemp
               | CUnique n cols =>
                   delete_column_scan table column r (acc ++ [SDropIndex (build_unique_constraint_name table cols n)])
               | CIndex n cols =>
                   delete_column_scan table column r (acc ++ [SDropIndex (build_index_name table cols n)])
               | CCheck _ _ => delete_column_scan table column r acc
               end
      end
  end.

Definition gen_delete_column (s : schema) (table column : string) : gen_out :=
  match find_table table s with
  | None => GOk [SDropColumn table column]
  | Some td =>
      match find_col column (t_columns td) with
      | Some cd =>
          if is_enum_type (c_type cd) then delete_column_temp table column td
          else match delete_column_scan table column (t_constraints td) [] with
               | DcTemp => delete_column_temp table column td
               | DcDrops l => GOk (l ++ [SDropColumn table column])
               end
      | None =>
          match delete_column_scan table column (t_constraints td) [] with
          | DcTemp => delete_column_temp table column td
          | DcDrops l => GOk (l ++ [SDropColumn table column])
          end
      end
  end.

(* ------------------------------------------------------------------ modify_column_*.rs *)
Definition fill_updates (table column : string) (fw : option (list (string * string))) : list stmt :=
  match fw with
  | None => []
  | Some m => map (fun kv => SUpdate table column (quote_lit (snd kv)) (WEqLit column (quote_lit (fst kv))))
                  (bt_of_list m)
  end.

Definition gen_modify_type (s : schema) (table column : string) (new_type : column_type)
  (fw : option (list (string * string))) : gen_out :=
  match find_table table s with
  | None => GErr
  | Some td =>
      match update_first_col column (set_type new_type) (t_columns td) with
      | None => GErr
      | Some new_cols =>
          rebuild table new_cols (t_constraints td) (col_names new_cols) (copy_all new_cols)
                  (t_constraints td) [] (fill_updates table column fw)
      end
  end.

Definition modify_first_named (n : string) (f : column_def -> column_def) (cols : list column_def) :=
  modify_first (named n) f cols.

(* MySQL's builder runs before SQLite's inside build_plan_queries and fails on a missing table or column
   (modify_column_nullable.rs:59-61, modify_column_default.rs:53-69, modify_column_comment.rs:36-52); that
   error aborts the whole call, so it is part of what the SQLite consumer observes *)
Definition mysql_needs_column (s : schema) (table column : string) : bool :=
  match find_table table s with
  | None => false
  | Some td => match find_col column (t_columns td) with Some _ => true | None => false end
  end.

Definition gen_modify_nullable (s : schema) (table column : string) (nullable : bool) (fill_with : option string)
  : gen_out :=
  if negb (mysql_needs_column s table column) then GErr else
  match find_table table s with
  | None => GErr
  | Some td =>
      let upd := match (if nullable then None else normalize_fill_with fill_with) with
                 | Some f => [SUpdate table column (convert_default f) (WIsNull column)]
                 | None => []
                 end in
      rebuild table (modify_first_named column (set_nullable nullable) (t_columns td)) (t_constraints td)
              (col_names (t_columns td)) (copy_all (t_columns td)) (t_constraints td) [] upd
  end.

Definition gen_modify_default (s : schema) (table column : string) (new_default : option string) : gen_out :=
  if negb (mysql_needs_column s table column) then GErr else
  match find_table table s with
  | None => GErr
  | Some td =>
      rebuild table (modify_first_named column (set_default (option_map DStr new_default)) (t_columns td))
              (t_constraints td) (col_names (t_columns td)) (copy_all (t_columns td)) (t_constraints td) [] []
  end.

Definition gen_modify_comment (s : schema) (table column : string) : gen_out :=
  if negb (mysql_needs_column s table column) then GErr else GOk [].

(* ------------------------------------------------------------------ add_constraint.rs *)
(* constraints_overlap (add_constraint.rs:42-72) *)
Definition constraints_overlap (a b : table_constraint) : bool :=
  match a, b with
  | CForeignKey _ ac _ _ _ _, CForeignKey _ bc _ _ _ _ => dec_b (list_eq_dec string_dec) ac bc
  | CPrimaryKey _ ac, CPrimaryKey _ bc => dec_b (list_eq_dec string_dec) ac bc
  | CCheck an ae, CCheck bn be => (String.eqb an bn && String.eqb ae be)%bool
  | _, _ => false
  end.
(* merge_constraint (add_constraint.rs:14-38) *)
Fixpoint merge_aux (existing : list table_constraint) (k : table_constraint) (replaced : bool)
  : list table_constraint * bool :=
  match existing with
  | [] => ([], replaced)
  | c :: r =>
      if constraints_overlap c k then
        let '(out, rep) := merge_aux r k true in
        (if replaced then out else k :: out, rep)
      else
        let '(out, rep) := merge_aux r k replaced in (c :: out, rep)
  end.
Definition merge_constraint (existing : list table_constraint) (k : table_constraint) : list table_constraint :=
  let '(out, rep) := merge_aux existing k false in if rep then out else out ++ [k].

Definition gen_add_constraint (s : schema) (pending : list table_constraint) (table : string)
  (k : table_constraint) : gen_out :=
  match k with
  | CUnique _ _ | CIndex _ _ => GOk (index_stmt table k)
  | _ =>
      match find_table table s with
      | None => GErr
      | Some td =>
          rebuild table (t_columns td) (merge_constraint (t_constraints td) k)
                  (col_names (t_columns td)) (copy_all (t_columns td)) (t_constraints td) pending []
      end
  end.

(* ------------------------------------------------------------------ remove_constraint.rs *)
Definition keep_after_remove (removed c : table_constraint) : bool :=
  match removed, c with
  | CPrimaryKey _ _, CPrimaryKey _ _ => false
  | CUnique rn rc, CUnique cn cc =>
      match cn, rn with
      | Some a, Some b => negb (String.eqb a b)
      | _, _ => negb (dec_b (list_eq_dec string_dec) cc rc)
      end
  | CForeignKey rn rc _ _ _ _, CForeignKey cn cc _ _ _ _ =>
      match cn, rn with
      | Some a, Some b => negb (String.eqb a b)
      | _, _ => negb (dec_b (list_eq_dec string_dec) cc rc)
      end
  | CCheck rn _, CCheck cn _ => negb (String.eqb cn rn)
  | _, _ => true
  end.

Definition gen_remove_constraint (s : schema) (table : string) (k : table_constraint) : gen_out :=
  match k with
  | CIndex n cols => GOk [SDropIndex (build_index_name table cols n)]
  | _ =>
      match find_table table s with
      | None => GErr
      | Some td =>
          let new_cs := filter (keep_after_remove k) (t_constraints td) in
          rebuild table (t_columns td) new_cs (col_names (t_columns td)) (copy_all (t_columns td))
                  (match k with CUnique _ _ => new_cs | _ => t_constraints td end) [] []
      end
  end.

(* ------------------------------------------------------------------ sql/mod.rs dispatch *)
Definition gen (s : schema) (pending : list table_constraint) (a : action) : gen_out :=
  match a with
  | CreateTable t cols cs => gen_create_table t cols cs
  | DeleteTable t => GOk [SDropTable t]
  | AddColumn t c f => gen_add_column s t c f
  | RenameColumn t a b => GOk [SRenameColumn t a b]
  | DeleteColumn t c => gen_delete_column s t c
  | ModifyColumnType t c ty f => gen_modify_type s t c ty f
  | ModifyColumnNullable t c n f => gen_modify_nullable s t c n f
  | ModifyColumnDefault t c d => gen_modify_default s t c d
  | ModifyColumnComment t c _ => gen_modify_comment s t c
  | AddConstraint t k => gen_add_constraint s pending t k
  | RemoveConstraint t k => gen_remove_constraint s t k
  | RenameTable a b => GOk [SRenameTable a b]
  | RawSql sql => GOk [SRaw sql]
  end.

(* ------------------------------------------------------------------ builder.rs *)
(* pending constraints (builder.rs:30-58): only for an AddConstraint action, the Index/Unique constraints of
   the later AddConstraint actions on the same table *)
Definition pending_for (a : action) (rest : list action) : list table_constraint :=
  match a with
  | AddConstraint table _ =>
      flat_map (fun b => match b with
                         | AddConstraint t k =>
                             if (String.eqb t table && (is_index k || is_unique k))%bool then [k] else []
                         | _ => []
                         end) rest
  | _ => []
  end.

(* `let _ = apply_action(&mut evolving_schema, action)` (builder.rs:90): the error is ignored but the
   mutation done before it stays: AddColumn pushes the column before normalisation can fail (apply.rs:62-73) *)
Definition apply_ignoring (s : schema) (a : action) : schema :=
  match apply_action s a with
  | Ok s' => s'
  | Err TableValidation =>
      match a with
      | AddColumn table column _ =>
          match update_table table (fun t => Ok (mkTable (t_name t) (t_description t) (t_columns t ++ [column])
                                                        (t_constraints t))) s with
          | Ok s' => s'
          | Err _ => s
          end
      | _ => s
      end
  | Err _ => s
  end.

(* empty strings are skipped by every consumer (macro, CLI) *)
Definition drop_empty (l : list stmt) : list stmt :=
  filter (fun st => match st with SRaw t => negb (String.eqb t "") | _ => true end) l.

(* the observable of build_plan_queries + rendering: statements per action, or an error / a panic.
   An error stops the loop at once; a panic inside a builder too; a statement that cannot be rendered
   panics only after the whole plan was built. *)
Fixpoint gen_plan_aux (s : schema) (acts : list action) (render_panic : bool)
  : result (list (list stmt)) gen_error :=
  match acts with
  | [] => if render_panic then Err GenPanic else Ok []
  | a :: r =>
      match gen s (pending_for a r) a with
      | GErr => Err GenError
      | GPanicBuild => Err GenPanic
      | GPanicRender =>
          match gen_plan_aux (apply_ignoring s a) r true with
          | Ok _ => Err GenPanic
          | Err e => Err e
          end
      | GOk l =>
          match gen_plan_aux (apply_ignoring s a) r render_panic with
          | Ok ls => Ok (drop_empty l :: ls)
          | Err e => Err e
          end
      end
  end.
Definition gen_plan (s : schema) (acts : list action) : result (list (list stmt)) gen_error :=
  gen_plan_aux s acts false.
