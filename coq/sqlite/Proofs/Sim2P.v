(* SQLITE layer, C02: simulation lemmas for DeleteTable, AddConstraint (index / unique) and the rebuilding column
   modifications (ModifyColumnNullable / ModifyColumnDefault / ModifyColumnType), and their lifting over plans. *)
From Coq Require Import Lia Permutation.
From VV.SQLITE Require Import Corr Known RowsP RebuildP SimP.

(* names that differ only by case would be one object for SQLite and two for the planner: excluded (A3) *)
Definition ci_exact (s : schema) (t : string) : bool :=
  forallb (fun x => Bool.eqb (ieq (t_name x) t) (String.eqb (t_name x) t)) s.

Lemma table_entry_name x : ct_name (table_entry x) = t_name x.
Proof. unfold table_entry. destruct (match pk_of x with Some p => p | None => (false, []) end). reflexivity. Qed.

Lemma Permutation_filter {A} (p : A -> bool) (l l' : list A) : Permutation l l' -> Permutation (filter p l) (filter p l').
Proof.
  induction 1 as [|x l l' H IH|x y l|l l' l'' H1 IH1 H2 IH2]; cbn [filter].
  - constructor.
  - destruct (p x); [now constructor|exact IH].
  - destruct (p x), (p y); try apply Permutation_refl. apply perm_swap.
  - eapply Permutation_trans; eauto.
Qed.

Lemma ci_exact_spec s t x : ci_exact s t = true -> In x s -> ieq (t_name x) t = String.eqb (t_name x) t.
Proof. unfold ci_exact. rewrite forallb_forall. intros H Hin. apply Bool.eqb_prop. now apply H. Qed.

Lemma without_table_entries s t : ci_exact s t = true ->
  without_table t (map table_entry s) = map table_entry (filter (fun x => negb (String.eqb (t_name x) t)) s).
Proof.
  unfold without_table. induction s as [|x s IH]; intro H; [reflexivity|].
  cbn [map filter]. rewrite table_entry_name.
  rewrite (ci_exact_spec (x :: s) t x H (or_introl eq_refl)).
  assert (Hs : ci_exact s t = true) by (unfold ci_exact in *; cbn [forallb] in H; now apply andb_prop in H as [_ H]).
  destruct (String.eqb (t_name x) t); cbn [negb map]; now rewrite IH.
Qed.

Lemma index_entries_table x i : In i (index_entries x) -> ci_table i = t_name x.
Proof.
  unfold index_entries. intro H. apply in_flat_map in H as (k & _ & H).
  destruct k; cbn in H; try contradiction; destruct H as [<-|[]]; reflexivity.
Qed.

Lemma without_indexes_entries s t : ci_exact s t = true ->
  without_indexes_of t (flat_map index_entries s) = flat_map index_entries (filter (fun x => negb (String.eqb (t_name x) t)) s).
Proof.
  unfold without_indexes_of. induction s as [|x s IH]; intro H; [reflexivity|].
  cbn [flat_map filter]. rewrite filter_app.
  assert (Hs : ci_exact s t = true) by (unfold ci_exact in *; cbn [forallb] in H; now apply andb_prop in H as [_ H]).
  rewrite (IH Hs).
  pose proof (ci_exact_spec (x :: s) t x H (or_introl eq_refl)) as E.
  assert (F : filter (fun i => negb (ieq (ci_table i) t)) (index_entries x)
              = if String.eqb (t_name x) t then [] else index_entries x).
  { rewrite <- E. clear -x. assert (G : forall l, (forall i, In i l -> ci_table i = t_name x) ->
      filter (fun i => negb (ieq (ci_table i) t)) l = if ieq (t_name x) t then [] else l).
    { induction l as [|i l IH]; intro Hl; cbn [filter]; [now destruct (ieq (t_name x) t)|].
      rewrite (Hl i (or_introl eq_refl)), IH by (intros j Hj; apply Hl; now right).
      destruct (ieq (t_name x) t); reflexivity. }
    apply G. intros i Hi. now apply index_entries_table. }
  rewrite F. destruct (String.eqb (t_name x) t); cbn [negb flat_map app]; reflexivity.
Qed.

(* ---------- DeleteTable ---------- *)
Theorem sim_sqlite_delete_table : forall fk s c t c',
  Sim s c -> ci_exact s t = true ->
  exec_all fk c [SDropTable t] 0 = Ok c' ->
  Sim (filter (fun x => negb (String.eqb (t_name x) t)) s) c'.
Proof.
  intros fk s c t c' [Ht Hi] Hci Hrun. cbn [exec_all] in Hrun.
  destruct (exec fk c (SDropTable t)) as [c1|] eqn:E; [|discriminate]. injection Hrun as <-.
  apply exec_drop_cat in E as ->. split; cbn [cat_tables cat_indexes].
  - rewrite <- without_table_entries by exact Hci. now apply Permutation_filter.
  - rewrite <- without_indexes_entries by exact Hci. now apply Permutation_filter.
Qed.

(* ---------- AddConstraint of an index / unique ---------- *)
Definition add_constraint_to (k : table_constraint) (td : table_def) : table_def :=
  mkTable (t_name td) (t_description td) (t_columns td) (t_constraints td ++ [k]).

Lemma find_is_pk_app cs k : is_pk k = false -> find is_pk (cs ++ [k]) = find is_pk cs.
Proof. intro H. induction cs as [|x cs IH]; cbn [app find]; [now rewrite H|]. destruct (is_pk x); [reflexivity|exact IH]. Qed.

Lemma table_entry_add_index k td : index_like k = true -> table_entry (add_constraint_to k td) = table_entry td.
Proof.
  intro H. unfold table_entry, add_constraint_to, pk_of. cbn [t_constraints t_columns t_name].
  rewrite find_is_pk_app by (destruct k; try discriminate; reflexivity).
  assert (F : table_fks (t_constraints td ++ [k]) = table_fks (t_constraints td)).
  { unfold table_fks. rewrite flat_map_app. destruct k; try discriminate; cbn [flat_map]; now rewrite app_nil_r. }
  assert (C : explicit_checks (t_constraints td ++ [k]) = explicit_checks (t_constraints td)).
  { unfold explicit_checks. rewrite flat_map_app. destruct k; try discriminate; cbn [flat_map]; now rewrite app_nil_r. }
  unfold all_checks. rewrite F, C. reflexivity.
Qed.

Definition index_entry_of (t : string) (k : table_constraint) : list cindex :=
  match k with
  | CIndex n cols => [mkCIndex (build_index_name t cols n) t false cols]
  | CUnique n cols => [mkCIndex (build_unique_constraint_name t cols n) t true cols]
  | _ => []
  end.

Lemma index_entries_add k td : index_entries (add_constraint_to k td) = index_entries td ++ index_entry_of (t_name td) k.
Proof.
  unfold index_entries, add_constraint_to. cbn [t_constraints t_name]. rewrite flat_map_app. cbn [flat_map].
  rewrite app_nil_r. reflexivity.
Qed.

(* update_table with a total function that keeps the table name *)
Lemma update_table_split t (f : table_def -> table_def) : forall s s',
  update_table t (fun td => Ok (f td)) s = Ok s' ->
  exists s1 td s2, s = s1 ++ td :: s2 /\ s' = s1 ++ f td :: s2 /\ t_name td = t
                   /\ (forall x, In x s1 -> String.eqb (t_name x) t = false).
Proof.
  induction s as [|x s IH]; intros s' H; cbn [update_table] in H; [discriminate|].
  destruct (String.eqb (t_name x) t) eqn:E.
  - injection H as <-. exists [], x, s. apply String.eqb_eq in E. repeat split; auto. intros y [].
  - destruct (update_table t (fun td => Ok (f td)) s) as [r|] eqn:U; [|discriminate]. injection H as <-.
    destruct (IH _ eq_refl) as (s1 & td & s2 & -> & -> & Hn & Hs1).
    exists (x :: s1), td, s2. repeat split; auto. intros y [<-|Hy]; [exact E|now apply Hs1].
Qed.

Theorem sim_sqlite_add_index : forall fk s c t k s' c',
  Sim s c -> ci_exact s t = true -> index_like k = true ->
  apply_action s (AddConstraint t k) = Ok s' ->
  exec_all fk c (index_stmt t k) 0 = Ok c' ->
  Sim s' c'.
Proof.
  intros fk s c t k s' c' [Ht Hi] Hci Hk Happ Hrun.
  cbn [apply_action] in Happ.
  (* the statement and its execution *)
  assert (exists u name cols, index_stmt t k = [SCreateIndex u name t cols] /\ index_entry_of t k = [mkCIndex name t u cols])
    as (u & name & cols & Hst & Hent).
  { destruct k; try discriminate; cbn [index_stmt index_entry_of]; eauto. }
  rewrite Hst in Hrun. cbn [exec_all] in Hrun.
  destruct (exec fk c (SCreateIndex u name t cols)) as [c1|] eqn:E; [|discriminate]. injection Hrun as <-.
  cbn [exec] in E. destruct (name_taken name c) eqn:NT; [discriminate|].
  destruct (find_ctable t c) as [T|] eqn:FT; [|discriminate].
  destruct (find _ cols); [discriminate|]. injection E as <-.
  (* the table found carries exactly the name t *)
  assert (HT : ct_name T = t).
  { unfold find_ctable in FT. apply find_some in FT as [Hin Hieq].
    eapply Permutation_in in Hin; [|exact Ht]. apply in_map_iff in Hin as (x & <- & Hx).
    rewrite table_entry_name in *. rewrite (ci_exact_spec s t x Hci Hx) in Hieq. now apply String.eqb_eq. }
  (* the baseline after the action *)
  set (f := fun td => if contains_constraint k (t_constraints td) then td else add_constraint_to k td).
  assert (Happ2 : update_table t (fun td => Ok (f td)) s = Ok s').
  { rewrite <- Happ. clear. induction s as [|x s IH]; [reflexivity|]. cbn [update_table].
    destruct (String.eqb (t_name x) t).
    - unfold f, add_constraint_to. destruct (contains_constraint k (t_constraints x)); reflexivity.
    - now rewrite IH. }
  clear Happ. rename Happ2 into Happ.
  destruct (update_table_split _ _ _ _ Happ) as (s1 & td & s2 & -> & -> & Hn & Hs1).
  unfold f. destruct (contains_constraint k (t_constraints td)) eqn:Ck.
  - (* the constraint is already believed in: its index exists, CREATE INDEX cannot have succeeded *)
    exfalso. unfold contains_constraint in Ck. apply existsb_exists in Ck as (k' & Hin & Heq).
    unfold constraint_eqb, dec_b in Heq. destruct (constraint_eq_dec k k') as [<-|]; [|discriminate].
    assert (Hix : In (mkCIndex name t u cols) (flat_map index_entries (s1 ++ td :: s2))).
    { apply in_flat_map. exists td. split; [apply in_or_app; right; now left|].
      unfold index_entries. apply in_flat_map. exists k. split; [exact Hin|]. rewrite Hn.
      fold (index_entry_of t k). rewrite Hent. now left. }
    eapply Permutation_in in Hix; [|apply Permutation_sym; exact Hi].
    unfold name_taken in NT. apply Bool.orb_false_iff in NT as [_ NT]. unfold has_cindex in NT.
    assert (existsb (fun i => ieq (ci_name i) name) (cat_indexes c) = true).
    { apply existsb_exists. eexists. split; [exact Hix|]. cbn [ci_name]. apply ieq_refl. }
    congruence.
  - split; cbn [cat_tables cat_indexes].
    + rewrite map_app. cbn [map]. rewrite table_entry_add_index by exact Hk. rewrite <- (map_app table_entry s1 (td :: s2)) at 1.
      rewrite map_app in Ht |- *. exact Ht.
    + rewrite HT. rewrite flat_map_app. cbn [flat_map]. rewrite index_entries_add, Hn, Hent.
      rewrite flat_map_app in Hi. cbn [flat_map] in Hi.
      eapply Permutation_trans; [apply Permutation_app_tail; exact Hi|].
      rewrite <- (app_assoc (flat_map index_entries s1)). apply Permutation_app_head.
      rewrite <- !app_assoc. apply Permutation_app_head. apply Permutation_app_comm.
Qed.

(* ---------- the rebuilding column modifications ---------- *)
Lemma map_string_length f : forall s, String.length (map_string f s) = String.length s.
Proof. induction s as [|a s IH]; cbn [map_string String.length]; [reflexivity|now rewrite IH]. Qed.
Lemma append_length : forall a b, String.length (a +++ b) = String.length a + String.length b.
Proof. induction a as [|x a IH]; intro b; cbn [String.append String.length]; [reflexivity|now rewrite IH]. Qed.
Lemma temp_ne t : ieq (temp_name t) t = false.
Proof.
  destruct (ieq (temp_name t) t) eqn:E; [|reflexivity]. apply ieq_spec in E.
  apply (f_equal String.length) in E. rewrite !map_string_length in E. unfold temp_name in E.
  rewrite append_length in E. cbn [String.length] in E. lia.
Qed.

(* A3: no table is called t_temp and no foreign key points at that name *)
Definition temp_free (s : schema) (t : string) : bool :=
  forallb (fun x => (negb (ieq (t_name x) (temp_name t))
                     && forallb (fun k => match k with
                                          | CForeignKey _ _ rt _ _ _ => negb (ieq rt (temp_name t))
                                          | _ => true end) (t_constraints x))%bool) s.
Definition unique_table (s : schema) (t : string) : bool :=
  Nat.eqb (List.length (filter (fun x => String.eqb (t_name x) t) s)) 1.

Lemma table_entry_fks x : ct_fks (table_entry x) = table_fks (t_constraints x).
Proof. unfold table_entry. destruct (match pk_of x with Some p => p | None => (false, []) end). reflexivity. Qed.

Lemma fks_avoid temp cs :
  forallb (fun k => match k with CForeignKey _ _ rt _ _ _ => negb (ieq rt temp) | _ => true end) cs = true ->
  forallb (fun f => negb (ieq (sf_table f) temp)) (table_fks cs) = true.
Proof.
  unfold table_fks. induction cs as [|k cs IH]; cbn [forallb flat_map]; [reflexivity|].
  intro H. apply andb_prop in H as [H1 H2]. rewrite forallb_app, (IH H2), Bool.andb_true_r.
  destruct k; cbn [forallb sf_table]; try reflexivity. now rewrite H1.
Qed.

Lemma temp_free_catalog s c t : Sim s c -> temp_free s t = true ->
  no_fk_to (temp_name t) c = true /\ no_index_on (temp_name t) c = true.
Proof.
  intros [Ht Hi] Hf. unfold temp_free in Hf. rewrite forallb_forall in Hf. split.
  - unfold no_fk_to. apply forallb_forall. intros x Hx. eapply Permutation_in in Hx; [|exact Ht].
    apply in_map_iff in Hx as (y & <- & Hy). rewrite table_entry_fks. apply fks_avoid.
    specialize (Hf y Hy). now apply andb_prop in Hf as [_ Hf].
  - unfold no_index_on. apply forallb_forall. intros i Hi'. eapply Permutation_in in Hi'; [|exact Hi].
    apply in_flat_map in Hi' as (y & Hy & Hiy). rewrite (index_entries_table _ _ Hiy).
    specialize (Hf y Hy). now apply andb_prop in Hf as [Hf _].
Qed.

Definition is_update (st : stmt) : bool := match st with SUpdate _ _ _ _ => true | _ => false end.
Lemma exec_updates fk : forall before c rest i c',
  forallb is_update before = true ->
  exec_all fk c (before ++ rest) i = Ok c' -> exec_all fk c rest (i + List.length before) = Ok c'.
Proof.
  induction before as [|st before IH]; intros c rest i c' Hu H; cbn [app List.length] in *.
  - now rewrite Nat.add_0_r.
  - cbn [forallb] in Hu. apply andb_prop in Hu as [H1 H2]. cbn [exec_all] in H.
    destruct (exec fk c st) as [c1|] eqn:E; [|discriminate].
    assert (c1 = c).
    { destruct st; try discriminate. cbn [exec] in E. destruct (find_ctable table c); [|discriminate].
      destruct (negb (has_ccol col c0)); [discriminate|].
      destruct (negb (value_resolves (ccol_names c0) value)); [discriminate|].
      destruct w; [|destruct (has_ccol c2 c0); [|discriminate]|destruct (has_ccol c2 c0); [|discriminate]];
        (destruct (fk && _)%bool; [discriminate|]); now injection E. }
    subst c1. apply IH in H; [|exact H2]. replace (i + S (List.length before)) with (S i + List.length before) by lia. exact H.
Qed.

Lemma filter_none_named t : forall l : list table_def,
  (forall x, In x l -> String.eqb (t_name x) t = false) -> filter (fun x => negb (String.eqb (t_name x) t)) l = l.
Proof.
  induction l as [|x l IH]; intro H; cbn [filter]; [reflexivity|].
  rewrite (H x (or_introl eq_refl)). cbn [negb]. f_equal. apply IH. intros y Hy. apply H. now right.
Qed.

Theorem sim_rebuild_columns : forall fk s c t td new_cols before dst exprs l s' c',
  Sim s c -> ci_exact s t = true -> temp_free s t = true -> unique_table s t = true ->
  find_table t s = Some td ->
  let td' := mkTable (t_name td) (t_description td) new_cols (t_constraints td) in
  pk_sane td' = true ->
  forallb is_update before = true ->
  update_table t (fun _ => Ok td') s = Ok s' ->
  rebuild t new_cols (t_constraints td) dst exprs (t_constraints td) [] before = GOk l ->
  exec_all fk c l 0 = Ok c' ->
  Sim s' c'.
Proof.
  intros fk s c t td new_cols before dst exprs l s' c' HS Hci Htf Huniq Hfind td' Hsane Hupd Happ Hgen Hrun.
  assert (Hname : t_name td = t).
  { unfold find_table in Hfind. apply find_some in Hfind as [_ H]. now apply String.eqb_eq. }
  assert (Hin : In td s) by (unfold find_table in Hfind; now apply find_some in Hfind as [H _]).
  unfold rebuild, temp_table_create in Hgen.
  unfold create_table_stmt in Hgen.
  destruct (map_option _ new_cols) as [scols|] eqn:Hmap.
  2:{ destruct (all_checks t new_cols (t_constraints td)); discriminate. }
  injection Hgen as <-.
  apply exec_updates in Hrun; [|exact Hupd].
  destruct (temp_free_catalog s c t HS Htf) as [Hnf Hni].
  assert (Hown : forallb (fun f => negb (ieq (sf_table f) (temp_name t))) (table_fks (t_constraints td)) = true).
  { apply fks_avoid. unfold temp_free in Htf. rewrite forallb_forall in Htf. specialize (Htf td Hin).
    now apply andb_prop in Htf as [_ Htf]. }
  assert (Hent : table_of_create t scols (table_pks new_cols (t_constraints td)) (table_fks (t_constraints td))
                                 (all_checks t new_cols (t_constraints td)) = table_entry td').
  { apply (entry_believed t td' scols (t_constraints td)); try reflexivity; try assumption. }
  assert (Ht' : t_name td' = t) by exact Hname.
  pose proof (rebuild_to_believed fk c c' td' scols (table_pks new_cols (t_constraints td)) (table_fks (t_constraints td))
                (all_checks t new_cols (t_constraints td)) dst exprs (0 + List.length before)) as R.
  cbn zeta in R. rewrite Ht' in R. cbn [t_constraints td'] in R.
  specialize (R (temp_ne t) Hnf Hni Hown Hent Hrun). subst c'.
  (* the baseline after the action *)
  destruct (update_table_split t (fun _ => td') s s' Happ) as (s1 & x & s2 & -> & -> & Hx & Hs1).
  assert (x = td).
  { unfold find_table in Hfind. rewrite find_app_none in Hfind.
    - cbn [find] in Hfind. rewrite Hx, String.eqb_refl in Hfind. now injection Hfind.
    - clear -Hs1. induction s1 as [|y s1 IH]; [reflexivity|]. cbn [find]. rewrite (Hs1 y (or_introl eq_refl)).
      apply IH. intros z Hz. apply Hs1. now right. }
  subst x.
  assert (Hs2 : forall y, In y s2 -> String.eqb (t_name y) t = false).
  { unfold unique_table in Huniq. rewrite filter_app in Huniq. cbn [filter] in Huniq. rewrite Hx, String.eqb_refl in Huniq.
    rewrite app_length in Huniq. cbn [List.length] in Huniq. apply Nat.eqb_eq in Huniq.
    assert (L2 : List.length (filter (fun x => String.eqb (t_name x) t) s2) = 0) by lia.
    intros y Hy. destruct (String.eqb (t_name y) t) eqn:E; [|reflexivity].
    assert (In y (filter (fun x => String.eqb (t_name x) t) s2)) by (apply filter_In; auto).
    destruct (filter (fun x => String.eqb (t_name x) t) s2); [contradiction|discriminate]. }
  assert (Hfil : filter (fun y => negb (String.eqb (t_name y) t)) (s1 ++ td :: s2) = s1 ++ s2).
  { rewrite filter_app. cbn [filter]. rewrite Hx, String.eqb_refl. cbn [negb].
    now rewrite (filter_none_named t s1 Hs1), (filter_none_named t s2 Hs2). }
  destruct HS as [Ht Hi]. split; cbn [cat_tables cat_indexes].
  - eapply Permutation_trans.
    + apply Permutation_app_tail. apply (Permutation_filter (fun y => negb (ieq (ct_name y) t))). exact Ht.
    + fold (without_table t (map table_entry (s1 ++ td :: s2))). rewrite without_table_entries by exact Hci. rewrite Hfil.
      rewrite !map_app. cbn [map]. rewrite <- app_assoc. apply Permutation_app_head. apply Permutation_app_comm.
  - eapply Permutation_trans.
    + apply Permutation_app_tail. apply (Permutation_filter (fun i => negb (ieq (ci_table i) t))). exact Hi.
    + fold (without_indexes_of t (flat_map index_entries (s1 ++ td :: s2))). rewrite without_indexes_entries by exact Hci. rewrite Hfil.
      rewrite !flat_map_app. cbn [flat_map]. rewrite <- app_assoc. apply Permutation_app_head. apply Permutation_app_comm.
Qed.

(* ---------- ModifyColumnNullable / ModifyColumnDefault / ModifyColumnType ---------- *)
Lemma update_first_col_modify col f : forall cols cols',
  update_first_col col f cols = Some cols' -> cols' = modify_first (named col) f cols.
Proof.
  induction cols as [|c cols IH]; intros cols' H; cbn [update_first_col modify_first] in *; [discriminate|].
  unfold named. destruct (String.eqb (c_name c) col); [now injection H|].
  destruct (update_first_col col f cols) as [r|]; [|discriminate]. injection H as <-. f_equal. now apply IH.
Qed.

Lemma update_table_first t g : forall s s' td td2,
  update_table t g s = Ok s' -> find_table t s = Some td -> g td = Ok td2 ->
  update_table t (fun _ => Ok td2) s = Ok s'.
Proof.
  induction s as [|x s IH]; intros s' td td2 H F G; cbn [update_table] in *; [discriminate|].
  unfold find_table in F. cbn [find] in F. destruct (String.eqb (t_name x) t).
  - injection F as ->. now rewrite G in H.
  - destruct (update_table t g s) as [r|] eqn:U; [|discriminate]. injection H as <-.
    now rewrite (IH r td td2 eq_refl F G).
Qed.

Definition modified (td : table_def) (col : string) (f : column_def -> column_def) : table_def :=
  mkTable (t_name td) (t_description td) (modify_first_named col f (t_columns td)) (t_constraints td).

Lemma sim_modify_column : forall fk s c t col f td s' l before dst exprs c',
  Sim s c -> ci_exact s t = true -> temp_free s t = true -> unique_table s t = true ->
  find_table t s = Some td ->
  pk_sane (modified td col f) = true ->
  update_table t (update_column t col f) s = Ok s' ->
  forallb is_update before = true ->
  rebuild t (modify_first_named col f (t_columns td)) (t_constraints td) dst exprs (t_constraints td) [] before = GOk l ->
  exec_all fk c l 0 = Ok c' ->
  Sim s' c'.
Proof.
  intros fk s c t col f td s' l before dst exprs c' HS Hci Htf Hu Hfind Hsane Happ Hupd Hgen Hrun.
  assert (Hname : t_name td = t).
  { unfold find_table in Hfind. apply find_some in Hfind as [_ H]. now apply String.eqb_eq. }
  assert (G : exists td2, update_column t col f td = Ok td2).
  { clear -Happ Hfind. revert s' Happ. induction s as [|x s IH]; intros s' H; cbn [update_table] in H; [discriminate|].
    unfold find_table in Hfind. cbn [find] in Hfind. destruct (String.eqb (t_name x) t).
    - injection Hfind as ->. destruct (update_column t col f td); [eauto|discriminate].
    - destruct (update_table t (update_column t col f) s) eqn:U; [|discriminate]. eapply IH; eauto. }
  destruct G as (td2 & G).
  assert (td2 = modified td col f).
  { unfold update_column in G. destruct (update_first_col col f (t_columns td)) as [cols'|] eqn:U; [|discriminate].
    injection G as <-. unfold modified, modify_first_named. now rewrite (update_first_col_modify _ _ _ _ U). }
  subst td2.
  eapply (sim_rebuild_columns fk s c t td (modify_first_named col f (t_columns td)) before dst exprs l s' c'); eauto.
  eapply update_table_first; eauto.
Qed.

Theorem sim_sqlite_modify_nullable : forall fk s c t col b fill td s' l c',
  Sim s c -> ci_exact s t = true -> temp_free s t = true -> unique_table s t = true ->
  find_table t s = Some td -> pk_sane (modified td col (set_nullable b)) = true ->
  apply_action s (ModifyColumnNullable t col b fill) = Ok s' ->
  gen s [] (ModifyColumnNullable t col b fill) = GOk l ->
  exec_all fk c l 0 = Ok c' ->
  Sim s' c'.
Proof.
  intros fk s c t col b fill td s' l c' HS Hci Htf Hu Hfind Hsane Happ Hgen Hrun.
  cbn [apply_action] in Happ. cbn [gen] in Hgen. unfold gen_modify_nullable in Hgen.
  destruct (negb (mysql_needs_column s t col)); [discriminate|]. rewrite Hfind in Hgen.
  eapply sim_modify_column; eauto.
  destruct (if b then None else normalize_fill_with fill); reflexivity.
Qed.

Theorem sim_sqlite_modify_default : forall fk s c t col d td s' l c',
  Sim s c -> ci_exact s t = true -> temp_free s t = true -> unique_table s t = true ->
  find_table t s = Some td -> pk_sane (modified td col (set_default (option_map DStr d))) = true ->
  apply_action s (ModifyColumnDefault t col d) = Ok s' ->
  gen s [] (ModifyColumnDefault t col d) = GOk l ->
  exec_all fk c l 0 = Ok c' ->
  Sim s' c'.
Proof.
  intros fk s c t col d td s' l c' HS Hci Htf Hu Hfind Hsane Happ Hgen Hrun.
  cbn [apply_action] in Happ. cbn [gen] in Hgen. unfold gen_modify_default in Hgen.
  destruct (negb (mysql_needs_column s t col)); [discriminate|]. rewrite Hfind in Hgen.
  eapply (sim_modify_column fk s c t col (set_default (option_map DStr d)) td s' l []); eauto.
Qed.

Theorem sim_sqlite_modify_type : forall fk s c t col ty fw td s' l c',
  Sim s c -> ci_exact s t = true -> temp_free s t = true -> unique_table s t = true ->
  find_table t s = Some td -> pk_sane (modified td col (set_type ty)) = true ->
  apply_action s (ModifyColumnType t col ty fw) = Ok s' ->
  gen s [] (ModifyColumnType t col ty fw) = GOk l ->
  exec_all fk c l 0 = Ok c' ->
  Sim s' c'.
Proof.
  intros fk s c t col ty fw td s' l c' HS Hci Htf Hu Hfind Hsane Happ Hgen Hrun.
  cbn [apply_action] in Happ. cbn [gen] in Hgen. unfold gen_modify_type in Hgen. rewrite Hfind in Hgen.
  destruct (update_first_col col (set_type ty) (t_columns td)) as [cols'|] eqn:U; [|discriminate].
  rewrite (update_first_col_modify _ _ _ _ U) in Hgen.
  eapply (sim_modify_column fk s c t col (set_type ty) td s' l (fill_updates t col fw)); eauto.
  unfold fill_updates. destruct fw as [m|]; [|reflexivity].
  induction (bt_of_list m) as [|kv r IH]; [reflexivity|]. cbn [map forallb is_update]. exact IH.
Qed.
