(* SQLITE layer, C02: simulation lemma for RenameColumn (ALTER TABLE … RENAME COLUMN).
   The engine rewrites the column in the table, in its indexes, in the CHECK texts, in its own foreign keys and in the foreign
   keys of the other tables that reference it; apply_action renames the column and the column lists of the table's own
   constraints (rename_column_in_constraint), and derives index / CHECK names afresh.  Side conditions ([rencol_ok]): outside
   known_C02_rename_column_derived_names (the column is in no index / unique, is no enum, no CHECK text changes, no other
   table references it), no case variants of the old name and the new name is unused (A2/A3 for columns), and a foreign key
   of the table to ANOTHER table does not name a referenced column that is spelled like the renamed one (apply.rs renames
   ref_columns of every own foreign key, SQLite only those of a self-reference). *)
From Coq Require Import Lia Permutation.
From VV.SQLITE Require Import Corr Known RowsP RebuildP SimP Sim2P Sim4P Sim5P Sim6P Sim7P Sim8P.

(* ---------- what the engine does, as functions ---------- *)
Definition rencol_fix_own (t from to : string) (f : sfk) : sfk :=
  mkSFk (ren from to (sf_cols f)) (sf_table f)
        (if ieq (sf_table f) t then ren from to (sf_refcols f) else sf_refcols f) (sf_on_delete f) (sf_on_update f).
Definition rencol_fix_other (t from to : string) (f : sfk) : sfk :=
  if ieq (sf_table f) t then mkSFk (sf_cols f) (sf_table f) (ren from to (sf_refcols f)) (sf_on_delete f) (sf_on_update f) else f.
Definition rencol_col (from to : string) (cc : ccol) : ccol :=
  if ieq (cc_name cc) from then mkCCol to (cc_type cc) (cc_notnull cc) (cc_default cc) (cc_pk cc) else cc.
Definition rencol_check (from to : string) (k : string * string) : string * string :=
  (fst k, rename_tokens from to (snd k) 0 EmptyString).
Definition rencol_table (t from to : string) (x : ctable) : ctable :=
  if ieq (ct_name x) t then
    mkCTable (ct_name x) (map (rencol_col from to) (ct_cols x)) (ct_autoinc x) (map (rencol_fix_own t from to) (ct_fks x))
             (map (rencol_check from to) (ct_checks x))
  else mkCTable (ct_name x) (ct_cols x) (ct_autoinc x) (map (rencol_fix_other t from to) (ct_fks x)) (ct_checks x).
Definition rencol_index (t from to : string) (i : cindex) : cindex :=
  if ieq (ci_table i) t then mkCIndex (ci_name i) (ci_table i) (ci_unique i) (ren from to (ci_cols i)) else i.

Lemma exec_rename_column_cat fk c t from to c' :
  exec fk c (SRenameColumn t from to) = Ok c' ->
  c' = mkCat (map (rencol_table t from to) (cat_tables c)) (map (rencol_index t from to) (cat_indexes c)).
Proof.
  cbn [exec]. destruct (find_ctable t c) as [T|]; [|discriminate].
  destruct (negb (has_ccol from T)); [discriminate|]. destruct (has_ccol to T); [discriminate|].
  intro H. injection H as <-. reflexivity.
Qed.

(* ---------- lists of names ---------- *)
(* every name of the list that is spelled like [from] IS [from], and none is spelled like [to] *)
Definition fresh_ok (from to : string) (l : list string) : bool :=
  forallb (fun p => (Bool.eqb (ieq p from) (String.eqb p from) && negb (ieq p to))%bool) l.
Definition none_like (from : string) (l : list string) : bool := forallb (fun p => negb (ieq p from)) l.

Lemma eqb_ieq a b : String.eqb a b = true -> ieq a b = true.
Proof. intro H. apply String.eqb_eq in H. subst. apply ieq_refl. Qed.
Lemma ieq_false_eqb a b : ieq a b = false -> String.eqb a b = false.
Proof. intro H. destruct (String.eqb a b) eqn:E; [|reflexivity]. apply eqb_ieq in E. congruence. Qed.

Lemma ren_rename from to : forall l, fresh_ok from to l = true -> ren from to l = rename_in from to l.
Proof.
  unfold ren, rename_in, fresh_ok. induction l as [|p l IH]; intro H; [reflexivity|]. cbn [forallb map] in *.
  apply andb_prop in H as [H1 H2]. apply andb_prop in H1 as [H1 _]. apply Bool.eqb_prop in H1. now rewrite H1, IH.
Qed.
Lemma ren_id from to : forall l, none_like from l = true -> ren from to l = l.
Proof.
  unfold ren, none_like. induction l as [|p l IH]; intro H; [reflexivity|]. cbn [forallb map] in *.
  apply andb_prop in H as [H1 H2]. apply Bool.negb_true_iff in H1. now rewrite H1, IH.
Qed.
Lemma rename_in_id from to : forall l, none_like from l = true -> rename_in from to l = l.
Proof.
  unfold rename_in, none_like. induction l as [|p l IH]; intro H; [reflexivity|]. cbn [forallb map] in *.
  apply andb_prop in H as [H1 H2]. apply Bool.negb_true_iff in H1. now rewrite (ieq_false_eqb _ _ H1), IH.
Qed.
Lemma rename_in_absent from to : forall l, mem_str from l = false -> rename_in from to l = l.
Proof.
  unfold rename_in, mem_str. induction l as [|p l IH]; intro H; [reflexivity|]. cbn [existsb map] in *.
  apply Bool.orb_false_iff in H as [H1 H2]. rewrite String.eqb_sym, H1. now rewrite IH.
Qed.

(* positions and membership in a renamed primary-key list *)
Lemma pos_renamed from to : forall l i, fresh_ok from to l = true ->
  position_ci to (rename_in from to l) i = position_ci from l i.
Proof.
  unfold rename_in, fresh_ok. induction l as [|p l IH]; intros i H; [reflexivity|]. cbn [forallb map position_ci] in *.
  apply andb_prop in H as [H1 H2]. apply andb_prop in H1 as [H1 H3]. apply Bool.eqb_prop in H1. apply Bool.negb_true_iff in H3.
  destruct (String.eqb p from) eqn:E.
  - rewrite ieq_refl, H1. reflexivity.
  - rewrite H3, H1. now apply IH.
Qed.
Lemma pos_other from to x : ieq from x = false -> ieq to x = false -> forall l i,
  position_ci x (rename_in from to l) i = position_ci x l i.
Proof.
  intros Hf Ht. unfold rename_in. induction l as [|p l IH]; intro i; [reflexivity|]. cbn [map position_ci].
  destruct (String.eqb p from) eqn:E.
  - apply String.eqb_eq in E. subst p. rewrite Ht, Hf. apply IH.
  - destruct (ieq p x); [reflexivity|apply IH].
Qed.
Lemma mem_renamed from to : forall l, fresh_ok from to l = true ->
  mem_str to (rename_in from to l) = mem_str from l.
Proof.
  unfold rename_in, fresh_ok, mem_str. induction l as [|p l IH]; intro H; [reflexivity|]. cbn [forallb map existsb] in *.
  apply andb_prop in H as [H1 H2]. apply andb_prop in H1 as [_ H3]. apply Bool.negb_true_iff in H3.
  rewrite (IH H2). destruct (String.eqb p from) eqn:E.
  - rewrite String.eqb_refl. apply String.eqb_eq in E. subst p. now rewrite String.eqb_refl.
  - rewrite (String.eqb_sym to p), (ieq_false_eqb _ _ H3). rewrite (String.eqb_sym from p), E. reflexivity.
Qed.
Lemma mem_other from to x : String.eqb x from = false -> String.eqb x to = false -> forall l,
  mem_str x (rename_in from to l) = mem_str x l.
Proof.
  intros Hf Ht. unfold rename_in, mem_str. induction l as [|p l IH]; [reflexivity|]. cbn [map existsb]. rewrite IH.
  destruct (String.eqb p from) eqn:E; [|reflexivity].
  apply String.eqb_eq in E. subst p. now rewrite Ht, Hf.
Qed.

(* ---------- the columns: update_first_col on distinct names is a map ---------- *)
Definition rencol_def (from to : string) (c : column_def) : column_def :=
  if String.eqb (c_name c) from then set_name to c else c.

Lemma update_first_map from to : forall cols cols',
  nodup_names (map c_name cols) = true ->
  update_first_col from (set_name to) cols = Some cols' -> cols' = map (rencol_def from to) cols.
Proof.
  induction cols as [|c cols IH]; intros cols' Hnd H; cbn [update_first_col] in H; [discriminate|].
  cbn [map nodup_names] in Hnd. apply andb_prop in Hnd as [Hnot Hnd]. cbn [map]. unfold rencol_def at 1.
  destruct (String.eqb (c_name c) from) eqn:E.
  - injection H as <-. f_equal. symmetry. apply map_id_when. intros y Hy. unfold rencol_def.
    destruct (String.eqb (c_name y) from) eqn:E2; [|reflexivity]. exfalso.
    apply String.eqb_eq in E, E2. apply Bool.negb_true_iff in Hnot.
    assert (mem_str (c_name c) (map c_name cols) = true).
    { unfold mem_str. apply existsb_exists. exists (c_name y). split; [now apply in_map|]. rewrite E, E2. apply String.eqb_refl. }
    congruence.
  - destruct (update_first_col from (set_name to) cols) as [r|] eqn:U; [|discriminate]. cbn [option_map] in H. injection H as <-.
    f_equal. now apply IH.
Qed.

(* ---------- side conditions on one table ---------- *)
Definition rencol_constraint_ok (t from to : string) (k : table_constraint) : bool :=
  match k with
  | CPrimaryKey _ cols => fresh_ok from to cols
  | CUnique _ cols | CIndex _ cols => none_like from cols
  | CForeignKey _ cols rt rcols _ _ =>
      (fresh_ok from to cols &&
       if String.eqb rt t then fresh_ok from to rcols
       else (negb (ieq rt t) && negb (mem_str from rcols)))%bool
  | CCheck _ _ => true
  end.

Definition rencol_table_ok (t from to : string) (td : table_def) : bool :=
  (nodup_names (map c_name (t_columns td))
   && fresh_ok from to (map c_name (t_columns td))
   && col_not_enum from td
   && forallb (rencol_constraint_ok t from to) (t_constraints td)
   && forallb (fun k => String.eqb (rename_tokens from to (snd k) 0 EmptyString) (snd k))
              (all_checks t (t_columns td) (t_constraints td)))%bool.

(* another table: its foreign keys to [t] do not name the column *)
Definition rencol_other_ok (t from : string) (x : table_def) : bool :=
  forallb (fun k => match k with
                    | CForeignKey _ _ rt rcols _ _ => if ieq rt t then none_like from rcols else true
                    | _ => true
                    end) (t_constraints x).

Definition renamed_table (from to : string) (td : table_def) : table_def :=
  mkTable (t_name td) (t_description td) (map (rencol_def from to) (t_columns td))
          (map (rename_column_in_constraint from to) (t_constraints td)).

(* ---------- pieces of the believed entry of the renamed table ---------- *)
Lemma find_pk_renamed from to : forall cs,
  find is_pk (map (rename_column_in_constraint from to) cs)
  = option_map (rename_column_in_constraint from to) (find is_pk cs).
Proof.
  induction cs as [|k cs IH]; [reflexivity|]. cbn [map find]. destruct k; cbn [rename_column_in_constraint is_pk]; try exact IH. reflexivity.
Qed.

Lemma pk_constraint_ok t from to cs a pk :
  forallb (rencol_constraint_ok t from to) cs = true -> find is_pk cs = Some (CPrimaryKey a pk) -> fresh_ok from to pk = true.
Proof.
  intros H F. apply find_some in F as [Hin _]. rewrite forallb_forall in H. exact (H _ Hin).
Qed.

Lemma fks_renamed t from to : forall cs, forallb (rencol_constraint_ok t from to) cs = true ->
  table_fks (map (rename_column_in_constraint from to) cs) = map (rencol_fix_own t from to) (table_fks cs).
Proof.
  unfold table_fks. induction cs as [|k cs IH]; intro H; [reflexivity|]. cbn [forallb] in H. apply andb_prop in H as [H1 H2].
  cbn [map flat_map]. rewrite (IH H2).
  destruct k as [a pc|n uc|n fc rt rc od ou|n e|n ic]; cbn [rename_column_in_constraint app map]; try reflexivity.
  cbn [rencol_constraint_ok] in H1. apply andb_prop in H1 as [Hc Hr]. f_equal.
  unfold rencol_fix_own. cbn [sf_cols sf_table sf_refcols sf_on_delete sf_on_update]. rewrite (ren_rename _ _ _ Hc). f_equal.
  destruct (String.eqb rt t) eqn:E.
  - rewrite (eqb_ieq _ _ E). now rewrite (ren_rename _ _ _ Hr).
  - apply andb_prop in Hr as [Hi Hm]. apply Bool.negb_true_iff in Hi, Hm. rewrite Hi. now apply rename_in_absent.
Qed.

Lemma explicit_renamed from to : forall cs, explicit_checks (map (rename_column_in_constraint from to) cs) = explicit_checks cs.
Proof.
  unfold explicit_checks. induction cs as [|k cs IH]; [reflexivity|]. cbn [map flat_map]. rewrite IH. now destruct k.
Qed.

Lemma enum_checks_renamed t from to : forall cols,
  forallb (fun c => negb (String.eqb (c_name c) from && is_enum_type (c_type c))) cols = true ->
  enum_checks t (map (rencol_def from to) cols) = enum_checks t cols.
Proof.
  unfold enum_checks. induction cols as [|c cols IH]; intro H; [reflexivity|]. cbn [forallb] in H. apply andb_prop in H as [H1 H2].
  cbn [map flat_map]. rewrite (IH H2). f_equal. unfold rencol_def. destruct (String.eqb (c_name c) from); [|reflexivity].
  cbn [andb] in H1. unfold enum_check, set_name. cbn [c_type]. destruct (c_type c); try reflexivity. discriminate.
Qed.

Lemma index_entries_renamed from to td :
  forallb (rencol_constraint_ok (t_name td) from to) (t_constraints td) = true ->
  index_entries (renamed_table from to td) = index_entries td.
Proof.
  unfold index_entries, renamed_table. cbn [t_name t_constraints]. generalize (t_name td) as nm. intro nm.
  induction (t_constraints td) as [|k cs IH]; intro H; [reflexivity|]. cbn [forallb] in H. apply andb_prop in H as [H1 H2].
  cbn [map flat_map]. rewrite (IH H2).
  destruct k as [a pc|n uc|n fc rt rc od ou|n e|n ic]; cbn [rename_column_in_constraint rencol_constraint_ok] in *; try reflexivity.
  - now rewrite (rename_in_id _ _ _ H1).
  - now rewrite (rename_in_id _ _ _ H1).
Qed.

(* the believed entry of the renamed table is what the engine makes of the old entry *)
Lemma entry_renamed t from to td :
  t_name td = t -> rencol_table_ok t from to td = true ->
  rencol_table t from to (table_entry td) = table_entry (renamed_table from to td).
Proof.
  intros Hname Hok. unfold rencol_table_ok in Hok.
  apply andb_prop in Hok as [Hok Hchk]. apply andb_prop in Hok as [Hok Hcs]. apply andb_prop in Hok as [Hok Hen].
  apply andb_prop in Hok as [Hnd Hnames].
  unfold rencol_table. rewrite table_entry_name, Hname, ieq_refl.
  unfold table_entry, renamed_table, pk_of. cbn [t_name t_columns t_constraints]. rewrite find_pk_renamed.
  destruct (find is_pk (t_constraints td)) as [k|] eqn:Fpk.
  2:{ (* no primary key *)
    cbn [option_map ct_name ct_cols ct_autoinc ct_fks ct_checks]. f_equal.
    - now symmetry.
    - rewrite !map_map. apply map_ext_in. intros c Hc. unfold rencol_col, rencol_def. cbn [cc_name].
      unfold fresh_ok in Hnames. rewrite forallb_forall in Hnames. specialize (Hnames (c_name c) (in_map c_name _ _ Hc)).
      apply andb_prop in Hnames as [Hn _]. apply Bool.eqb_prop in Hn. rewrite Hn.
      destruct (String.eqb (c_name c) from); reflexivity.
    - symmetry. now apply fks_renamed.
    - unfold all_checks. rewrite explicit_renamed. unfold col_not_enum in Hen. rewrite Hname, (enum_checks_renamed _ _ _ _ Hen).
      unfold all_checks in Hchk. apply map_id_when. intros p Hp. rewrite forallb_forall in Hchk. specialize (Hchk p Hp).
      apply String.eqb_eq in Hchk. unfold rencol_check. rewrite Hchk. now destruct p. }
  assert (Hk : is_pk k = true) by (apply find_some in Fpk as [_ H]; exact H).
  destruct k as [a pk| | | |]; try discriminate. pose proof (pk_constraint_ok _ _ _ _ _ _ Hcs Fpk) as Hpk.
  cbn [option_map rename_column_in_constraint ct_name ct_cols ct_autoinc ct_fks ct_checks]. f_equal.
  - now symmetry.
  - rewrite !map_map. apply map_ext_in. intros c Hc. unfold rencol_col, rencol_def. cbn [cc_name].
    pose proof Hnames as Hn0. unfold fresh_ok in Hn0. rewrite forallb_forall in Hn0. specialize (Hn0 (c_name c) (in_map c_name _ _ Hc)).
    apply andb_prop in Hn0 as [Hn Hto]. apply Bool.eqb_prop in Hn. apply Bool.negb_true_iff in Hto. rewrite Hn.
    destruct (String.eqb (c_name c) from) eqn:E.
    + apply String.eqb_eq in E. cbn [set_name c_name c_type c_nullable cc_type cc_notnull cc_default cc_pk].
      rewrite (mem_renamed _ _ _ Hpk), (pos_renamed _ _ _ _ Hpk), E. reflexivity.
    + assert (Hf2 : ieq from (c_name c) = false) by (rewrite ieq_sym; exact Hn).
      assert (Ht2 : ieq to (c_name c) = false) by (rewrite ieq_sym; exact Hto).
      rewrite (pos_other _ _ _ Hf2 Ht2), (mem_other _ _ _ E (ieq_false_eqb _ _ Hto)). reflexivity.
  - symmetry. now apply fks_renamed.
  - unfold all_checks. rewrite explicit_renamed. unfold col_not_enum in Hen. rewrite Hname, (enum_checks_renamed _ _ _ _ Hen).
    unfold all_checks in Hchk. apply map_id_when. intros p Hp. rewrite forallb_forall in Hchk. specialize (Hchk p Hp).
    apply String.eqb_eq in Hchk. unfold rencol_check. rewrite Hchk. now destruct p.
Qed.

(* the entry of another table does not move *)
Lemma fks_other_id t from to : forall cs,
  forallb (fun k => match k with
                    | CForeignKey _ _ rt rcols _ _ => if ieq rt t then none_like from rcols else true
                    | _ => true end) cs = true ->
  map (rencol_fix_other t from to) (table_fks cs) = table_fks cs.
Proof.
  unfold table_fks. induction cs as [|k cs IH]; intro H; [reflexivity|]. cbn [forallb] in H. apply andb_prop in H as [H1 H2].
  cbn [flat_map]. rewrite map_app, (IH H2). f_equal.
  destruct k as [a pc|n uc|n fc rt rc od ou|n e|n ic]; try reflexivity. cbn [map]. f_equal.
  unfold rencol_fix_other. cbn [sf_table sf_cols sf_refcols sf_on_delete sf_on_update].
  destruct (ieq rt t); [|reflexivity]. now rewrite (ren_id _ _ _ H1).
Qed.

Lemma entry_other t from to x :
  ieq (t_name x) t = false -> rencol_other_ok t from x = true ->
  rencol_table t from to (table_entry x) = table_entry x.
Proof.
  intros Hn Hok. unfold rencol_table.
  destruct (ieq (ct_name (table_entry x)) t) eqn:E; [rewrite table_entry_name in E; congruence|]. rewrite table_entry_fks.
  unfold rencol_other_ok in Hok. rewrite (fks_other_id _ _ _ _ Hok). rewrite <- table_entry_fks. apply ctable_eta.
Qed.

(* ---------- the whole schema ---------- *)
Definition rencol_ok (s : schema) (t from to : string) (td : table_def) : bool :=
  (rencol_table_ok t from to td
   && forallb (fun x => (String.eqb (t_name x) t || rencol_other_ok t from x)%bool) s)%bool.

Theorem sim_sqlite_rename_column : forall fk s c t from to td s' c',
  Sim s c -> ci_exact s t = true -> unique_table s t = true ->
  find_table t s = Some td ->
  rencol_ok s t from to td = true ->               (* outside known_C02_rename_column; A2/A3 for the column names *)
  apply_action s (RenameColumn t from to) = Ok s' ->
  exec_all fk c [SRenameColumn t from to] 0 = Ok c' ->
  Sim s' c'.
Proof.
  intros fk s c t from to td s' c' [Ht Hi] Hci Huniq Hfind Hok Happ Hrun.
  cbn [exec_all] in Hrun. destruct (exec fk c (SRenameColumn t from to)) as [c1|] eqn:E; [|discriminate]. injection Hrun as <-.
  apply exec_rename_column_cat in E. subst c1.
  unfold rencol_ok in Hok. apply andb_prop in Hok as [Htd Hoth].
  assert (Hname : t_name td = t).
  { unfold find_table in Hfind. apply find_some in Hfind as [_ H]. now apply String.eqb_eq. }
  assert (Hnd : nodup_names (map c_name (t_columns td)) = true).
  { unfold rencol_table_ok in Htd. repeat (apply andb_prop in Htd as [Htd _]). exact Htd. }
  assert (Hcsok : forallb (rencol_constraint_ok t from to) (t_constraints td) = true).
  { unfold rencol_table_ok in Htd. apply andb_prop in Htd as [Htd _]. now apply andb_prop in Htd as [_ Htd]. }
  (* what apply_action does to the table *)
  assert (Happ2 : update_table t (fun _ => Ok (renamed_table from to td)) s = Ok s').
  { cbn [apply_action] in Happ. eapply update_table_first; [exact Happ|exact Hfind|]. cbn beta.
    destruct (update_first_col from (set_name to) (t_columns td)) as [cols'|] eqn:U.
    - rewrite (update_first_map _ _ _ _ Hnd U). reflexivity.
    - exfalso. revert s' Happ. unfold find_table in Hfind. clear -Hfind U.
      induction s as [|x s IH]; intros s' H; cbn [update_table find] in *; [discriminate|].
      destruct (String.eqb (t_name x) t).
      + injection Hfind as ->. rewrite U in H. discriminate.
      + destruct (update_table t _ s) eqn:U2; [|discriminate]. eapply IH; eauto. }
  destruct (split_unique_table t s s' td (renamed_table from to td) Huniq Hfind Happ2) as (s1 & s2 & -> & -> & Hx & Hfil).
  destruct (none_named_split t s1 s2 td Hfil Hx) as [Hs1 Hs2].
  destruct (ci_exact_app s1 (td :: s2) t Hci) as [C1 C2].
  assert (C3 : ci_exact s2 t = true) by (unfold ci_exact in C2; cbn [forallb] in C2; now apply andb_prop in C2 as [_ C2]).
  rewrite forallb_app in Hoth. apply andb_prop in Hoth as [O1 O2]. cbn [forallb] in O2. apply andb_prop in O2 as [_ O3].
  assert (Hother : forall l, (forall x, In x l -> String.eqb (t_name x) t = false) -> ci_exact l t = true ->
            forallb (fun x => (String.eqb (t_name x) t || rencol_other_ok t from x)%bool) l = true ->
            map (rencol_table t from to) (map table_entry l) = map table_entry l).
  { induction l as [|x l IH]; intros H C O; [reflexivity|]. cbn [map]. cbn [forallb] in O. apply andb_prop in O as [Ox O].
    rewrite (H x (or_introl eq_refl)) in Ox. cbn [orb] in Ox. f_equal.
    - apply entry_other; [|exact Ox]. rewrite (ci_exact_spec (x :: l) t x C (or_introl eq_refl)). apply H. now left.
    - apply IH; [intros y Hy; apply H; now right| |exact O].
      unfold ci_exact in *. cbn [forallb] in C. now apply andb_prop in C as [_ C]. }
  split; cbn [cat_tables cat_indexes].
  - eapply Permutation_trans; [apply Permutation_map; exact Ht|].
    rewrite !map_app. cbn [map]. rewrite (Hother s1 Hs1 C1 O1), (Hother s2 Hs2 C3 O3).
    rewrite (entry_renamed t from to td Hname Htd). apply Permutation_refl.
  - eapply Permutation_trans; [apply Permutation_map; exact Hi|].
    rewrite map_id_when.
    + rewrite !flat_map_app. cbn [flat_map]. rewrite index_entries_renamed by (rewrite Hname; exact Hcsok). apply Permutation_refl.
    + intros i Hin. apply in_flat_map in Hin as (x & Hxin & Hix). unfold rencol_index.
      destruct (ieq (ci_table i) t) eqn:Ei; [|reflexivity].
      rewrite (index_entries_table _ _ Hix) in Ei.
      apply in_app_or in Hxin as [Hx1|[<-|Hx2]].
      * rewrite (ci_exact_spec _ t x C1 Hx1), (Hs1 x Hx1) in Ei. discriminate.
      * assert (Hnl : none_like from (ci_cols i) = true).
        { unfold index_entries in Hix. apply in_flat_map in Hix as (k & Hk & Hik). rewrite forallb_forall in Hcsok. specialize (Hcsok k Hk).
          destruct k; cbn in Hik; try contradiction; destruct Hik as [<-|[]]; exact Hcsok. }
        rewrite (ren_id _ _ _ Hnl). apply cindex_eta.
      * rewrite (ci_exact_spec _ t x C3 Hx2), (Hs2 x Hx2) in Ei. discriminate.
Qed.
