(* SQLITE layer, C05: the temp-table rebuild copies every surviving column of every row (foreign_keys OFF, or no
   foreign key referencing the rebuilt table), and the D12 witness: with foreign_keys ON the same statements delete
   the ON DELETE CASCADE rows of a child table. *)
From Coq Require Import Lia.
From VV.M1 Require Import Validate.
From VV.SQLITE Require Import Corr Known.

(* ---------- ieq is an equivalence ---------- *)
Lemma ieq_spec a b : ieq a b = true <-> map_string to_lower_ascii_char a = map_string to_lower_ascii_char b.
Proof. unfold ieq, eq_ignore_ascii_case. apply String.eqb_eq. Qed.
Lemma ieq_refl a : ieq a a = true.
Proof. apply ieq_spec. reflexivity. Qed.
Lemma ieq_sym a b : ieq a b = ieq b a.
Proof. unfold ieq, eq_ignore_ascii_case. apply String.eqb_sym. Qed.
Lemma ieq_trans a b c : ieq a b = true -> ieq b c = true -> ieq a c = true.
Proof. rewrite !ieq_spec. congruence. Qed.
Lemma ieq_congr_l a b c : ieq a b = true -> ieq a c = ieq b c.
Proof.
  intro H. destruct (ieq b c) eqn:E.
  - eapply ieq_trans; eauto.
  - destruct (ieq a c) eqn:E2; [|reflexivity].
    rewrite ieq_sym in H. rewrite <- E. symmetry. eapply ieq_trans; eauto.
Qed.

Lemma rget_ieq c c' r : ieq c c' = true -> rget c r = rget c' r.
Proof.
  intro H. unfold rget.
  assert (E : forall kv : string * value, ieq (fst kv) c = ieq (fst kv) c').
  { intro kv. rewrite (ieq_sym (fst kv) c), (ieq_sym (fst kv) c'). now apply ieq_congr_l. }
  induction r as [|kv r IH]; cbn [find]; [reflexivity|].
  rewrite E. destruct (ieq (fst kv) c'); [reflexivity|exact IH].
Qed.

(* ---------- the copied row ---------- *)
Lemma find_given c (f : string -> value) : forall cs,
  existsb (ieq c) cs = true ->
  exists c', ieq c c' = true /\
    find (fun kv : string * value => ieq (fst kv) c) (combine cs (map f cs)) = Some (c', f c').
Proof.
  induction cs as [|x cs IH]; cbn [existsb combine map find fst]; [discriminate|].
  intro H. destruct (ieq x c) eqn:E.
  - exists x. split; [now rewrite ieq_sym|reflexivity].
  - rewrite ieq_sym, E in H. cbn [orb] in H. exact (IH H).
Qed.

Lemma rget_map_first (V : ccol -> value) c : forall cols : list ccol,
  existsb (ieq c) (map cc_name cols) = true ->
  exists col, ieq (cc_name col) c = true /\ rget c (map (fun x => (cc_name x, V x)) cols) = V col.
Proof.
  induction cols as [|x cols IH]; cbn [map existsb]; [discriminate|].
  intro H. unfold rget. cbn [find fst].
  destruct (ieq (cc_name x) c) eqn:E.
  - exists x. split; [exact E|reflexivity].
  - rewrite ieq_sym, E in H. cbn [orb] in H. destruct (IH H) as (col & H1 & H2).
    exists col. split; [exact H1|exact H2].
Qed.

Lemma existsb_ieq_congr a b l : ieq a b = true -> existsb (ieq a) l = existsb (ieq b) l.
Proof.
  intro H. induction l as [|x l IH]; cbn [existsb]; [reflexivity|].
  rewrite IH. f_equal. now apply ieq_congr_l.
Qed.

(* every listed column that the destination table has carries the source value *)
Theorem copy_preserves_column : forall dt cs r c,
  has_ccol c dt = true -> existsb (ieq c) cs = true ->
  rget c (inserted_row dt cs (map SelCol cs) r) = rget c r.
Proof.
  intros dt cs r c Hcol Hin. unfold inserted_row.
  assert (Hm : map (select_value r) (map SelCol cs) = map (fun c0 => rget c0 r) cs)
    by (rewrite map_map; reflexivity).
  rewrite Hm. clear Hm.
  unfold has_ccol, imem, ccol_names in Hcol.
  destruct (rget_map_first
              (fun x => match find (fun kv : string * value => ieq (fst kv) (cc_name x))
                                   (combine cs (map (fun c0 => rget c0 r) cs)) with
                        | Some kv => snd kv | None => col_default_value x end) c (ct_cols dt) Hcol)
    as (col & Hc & ->).
  assert (Hin' : existsb (ieq (cc_name col)) cs = true) by (rewrite <- Hin; now apply existsb_ieq_congr).
  destruct (find_given (cc_name col) (fun c0 => rget c0 r) cs Hin') as (c' & Hc' & ->).
  cbn [snd]. apply rget_ieq. rewrite ieq_sym. eapply ieq_trans; [|exact Hc']. now rewrite ieq_sym.
Qed.

(* ---------- row effect of each of the four rebuild statements (foreign_keys OFF) ---------- *)
Lemma exec_create_rows fk d n cols pks fks checks d1 :
  exec_db fk d (SCreateTable n cols pks fks checks) = Ok d1 ->
  db_rows d1 = db_rows d ++ [(n, [])]
  /\ name_taken n (db_cat d) = false
  /\ db_cat d1 = mkCat (cat_tables (db_cat d) ++ [table_of_create n cols pks fks checks]) (cat_indexes (db_cat d)).
Proof.
  unfold exec_db. cbn [exec].
  destruct (name_taken n (db_cat d)) eqn:T; [discriminate|].
  destruct (negb (create_ok cols pks fks checks)); [discriminate|].
  intro H. injection H as <-. cbn [db_rows db_cat]. auto.
Qed.

Lemma exec_insert_rows d dst cs src d2 dt :
  exec_db false d (SInsertSelect dst cs src (map SelCol cs)) = Ok d2 ->
  find_ctable dst (db_cat d) = Some dt ->
  db_rows d2 = set_rows dst (rows_of dst (db_rows d) ++ map (inserted_row dt cs (map SelCol cs)) (rows_of src (db_rows d))) (db_rows d)
  /\ db_cat d2 = db_cat d
  /\ forallb (fun n => has_ccol n dt) cs = true.
Proof.
  unfold exec_db. intros H Hdt. cbn [exec] in H. rewrite Hdt in H.
  destruct (find_ctable src (db_cat d)) as [st|]; [|discriminate].
  destruct (find (fun n => negb (has_ccol n dt)) cs) eqn:F; [discriminate|].
  destruct (find _ (map SelCol cs)) as [[?|? ?]|]; try discriminate.
  destruct (negb (Nat.eqb (List.length cs) (List.length (map SelCol cs)))); [discriminate|].
  cbn [andb] in H.
  destruct (negb (rowid_ok dt _)); [discriminate|].
  destruct (nonempty (pk_columns dt) && _)%bool; [discriminate|].
  destruct (first_null dt _); [discriminate|]. destruct (first_failed_check dt _); [discriminate|].
  injection H as <-. cbn [db_rows db_cat]. repeat split.
  apply forallb_forall. intros x Hx. destruct (has_ccol x dt) eqn:E; [reflexivity|].
  exfalso. eapply find_none in F; [|exact Hx]. rewrite E in F. discriminate.
Qed.

Lemma exec_drop_rows d t d3 :
  exec_db false d (SDropTable t) = Ok d3 -> db_rows d3 = drop_rows t (db_rows d).
Proof.
  unfold exec_db. cbn [exec andb]. destruct (has_ctable t (db_cat d)); [|discriminate].
  intro H. injection H as <-. reflexivity.
Qed.

Lemma exec_rename_rows fk d a b d4 :
  exec_db fk d (SRenameTable a b) = Ok d4 ->
  db_rows d4 = map (fun kv => if ieq (fst kv) a then (b, snd kv) else kv) (db_rows d).
Proof.
  unfold exec_db. cbn [exec]. destruct (find_ctable a (db_cat d)); [|discriminate].
  destruct (name_taken b (db_cat d)); [discriminate|].
  intro H. injection H as <-. reflexivity.
Qed.

(* ---------- lookups through the list operations ---------- *)
Definition has_rows_key (n : string) (rd : rows_db) : bool := existsb (fun kv => ieq (fst kv) n) rd.

Lemma rows_of_app_absent n rd x rs : has_rows_key n rd = false ->
  rows_of n (rd ++ [(x, rs)]) = if ieq x n then rs else [].
Proof.
  unfold rows_of, has_rows_key. induction rd as [|kv rd IH]; cbn [app find existsb fst snd]; intro H.
  - destruct (ieq x n); reflexivity.
  - apply Bool.orb_false_iff in H as [H1 H2]. rewrite H1. exact (IH H2).
Qed.
Lemma rows_of_app_present n rd x rs : has_rows_key n rd = true -> rows_of n (rd ++ [(x, rs)]) = rows_of n rd.
Proof.
  unfold rows_of, has_rows_key. induction rd as [|kv rd IH]; cbn [app find existsb fst]; intro H; [discriminate|].
  destruct (ieq (fst kv) n); [reflexivity|]. exact (IH H).
Qed.
Lemma rows_of_set n m rs rd : rows_of n (set_rows m rs rd) = if ieq n m then (if has_rows_key n rd then rs else []) else rows_of n rd.
Proof.
  unfold rows_of, set_rows, has_rows_key. induction rd as [|kv rd IH]; cbn [map find existsb fst snd].
  - destruct (ieq n m); reflexivity.
  - destruct (ieq (fst kv) m) eqn:E; cbn [fst snd].
    + destruct (ieq (fst kv) n) eqn:E2.
      * assert (ieq n m = true) by (eapply ieq_trans; [rewrite ieq_sym; exact E2|exact E]). rewrite H. reflexivity.
      * cbn [orb]. exact IH.
    + destruct (ieq (fst kv) n) eqn:E2.
      * assert (ieq n m = false).
        { destruct (ieq n m) eqn:E3; [|reflexivity]. rewrite <- E. symmetry. eapply ieq_trans; eauto. }
        rewrite H. reflexivity.
      * cbn [orb]. exact IH.
Qed.
Lemma rows_of_drop n m rd : rows_of n (drop_rows m rd) = if ieq n m then [] else rows_of n rd.
Proof.
  unfold rows_of, drop_rows. induction rd as [|kv rd IH]; cbn [filter find].
  - destruct (ieq n m); reflexivity.
  - destruct (ieq (fst kv) m) eqn:E; cbn [negb find].
    + destruct (ieq (fst kv) n) eqn:E2.
      * assert (ieq n m = true) by (eapply ieq_trans; [rewrite ieq_sym; exact E2|exact E]).
        rewrite H in *. exact IH.
      * exact IH.
    + destruct (ieq (fst kv) n) eqn:E2.
      * assert (ieq n m = false).
        { destruct (ieq n m) eqn:E3; [|reflexivity]. rewrite <- E. symmetry. eapply ieq_trans; eauto. }
        rewrite H. reflexivity.
      * exact IH.
Qed.
Lemma has_key_app n rd x rs : has_rows_key n (rd ++ [(x, rs)]) = (has_rows_key n rd || ieq x n)%bool.
Proof. unfold has_rows_key. rewrite existsb_app. cbn [existsb fst]. now rewrite Bool.orb_false_r. Qed.

(* after the rename: the temp table's rows are found under the original name, provided no other key has that name *)
Lemma rows_of_rename n a b rd :
  has_rows_key b rd = false ->
  rows_of n (map (fun kv : string * list row => if ieq (fst kv) a then (b, snd kv) else kv) rd)
  = if ieq n b then rows_of a rd else if ieq n a then [] else rows_of n rd.
Proof.
  unfold rows_of, has_rows_key. induction rd as [|kv rd IH]; cbn [map find existsb]; intro H.
  - destruct (ieq n b), (ieq n a); reflexivity.
  - apply Bool.orb_false_iff in H as [H1 H2]. specialize (IH H2).
    destruct (ieq (fst kv) a) eqn:Ea; cbn [fst snd].
    + rewrite (ieq_sym b n). destruct (ieq n b) eqn:Eb; [reflexivity|].
      destruct (ieq n a) eqn:Ena; [exact IH|].
      assert (ieq (fst kv) n = false).
      { destruct (ieq (fst kv) n) eqn:E; [|reflexivity]. rewrite <- Ena. symmetry.
        eapply ieq_trans; [rewrite ieq_sym; exact E|exact Ea]. }
      rewrite H. exact IH.
    + destruct (ieq (fst kv) n) eqn:En.
      * assert (ieq n b = false).
        { destruct (ieq n b) eqn:E; [|reflexivity]. rewrite <- H1. symmetry. eapply ieq_trans; eauto. }
        assert (ieq n a = false).
        { destruct (ieq n a) eqn:E; [|reflexivity]. rewrite <- Ea. symmetry. eapply ieq_trans; eauto. }
        rewrite H, H0. reflexivity.
      * exact IH.
Qed.

Lemma find_app_none {A} (p : A -> bool) (l1 l2 : list A) : find p l1 = None -> find p (l1 ++ l2) = find p l2.
Proof. induction l1 as [|x l IH]; cbn [app find]; [reflexivity|]. destruct (p x); [discriminate|exact IH]. Qed.

(* ---------- the theorem ---------- *)
(* CREATE t_temp(cols') ; INSERT INTO t_temp (cs) SELECT cs FROM t ; DROP TABLE t ; ALTER TABLE t_temp RENAME TO t
   with foreign_keys OFF: if the four statements succeed then
   (1) t holds exactly one row per old row, built by [inserted_row] (listed columns copied, the others their default);
   (2) every listed column of every row carries its old value;
   (3) the rows of every other table are untouched. *)
Theorem rebuild_preserves_rows : forall d d' t cols pks fks checks cs,
  let temp := temp_name t in
  let dt := table_of_create temp cols pks fks checks in
  has_rows_key temp (db_rows d) = false ->
  has_rows_key t (db_rows d) = true ->
  ieq temp t = false ->
  exec_db_all false d [SCreateTable temp cols pks fks checks; SInsertSelect temp cs t (map SelCol cs);
                       SDropTable t; SRenameTable temp t] 0 = Ok d' ->
  rows_of t (db_rows d') = map (inserted_row dt cs (map SelCol cs)) (rows_of t (db_rows d))
  /\ (forall r c, existsb (ieq c) cs = true -> rget c (inserted_row dt cs (map SelCol cs) r) = rget c r)
  /\ (forall o, ieq o t = false -> ieq o temp = false -> rows_of o (db_rows d') = rows_of o (db_rows d)).
Proof.
  intros d d' t cols pks fks checks cs temp dt Hnt Hht Hne Hrun.
  cbn [exec_db_all] in Hrun.
  destruct (exec_db false d (SCreateTable temp cols pks fks checks)) as [d1|] eqn:E1; [|discriminate].
  destruct (exec_db false d1 (SInsertSelect temp cs t (map SelCol cs))) as [d2|] eqn:E2; [|discriminate].
  destruct (exec_db false d2 (SDropTable t)) as [d3|] eqn:E3; [|discriminate].
  destruct (exec_db false d3 (SRenameTable temp t)) as [d4|] eqn:E4; [|discriminate].
  injection Hrun as <-.
  apply exec_create_rows in E1 as (R1 & T1 & C1).
  assert (Hfind : find_ctable temp (db_cat d1) = Some dt).
  { rewrite C1. unfold find_ctable. cbn [cat_tables].
    unfold name_taken in T1. apply Bool.orb_false_iff in T1 as [T1 _]. unfold has_ctable, find_ctable in T1.
    destruct (find (fun t0 => ieq (ct_name t0) temp) (cat_tables (db_cat d))) eqn:F; [discriminate|].
    rewrite (find_app_none _ _ _ F).
    cbn [find]. unfold dt, table_of_create. cbn [ct_name]. now rewrite ieq_refl. }
  destruct (exec_insert_rows _ _ _ _ _ _ E2 Hfind) as (R2 & C2 & Hcols).
  apply exec_drop_rows in E3 as R3. apply exec_rename_rows in E4 as R4.
  assert (Htemp1 : rows_of temp (db_rows d1) = []).
  { rewrite R1, rows_of_app_absent by exact Hnt. now rewrite ieq_refl. }
  assert (Ht1 : rows_of t (db_rows d1) = rows_of t (db_rows d)).
  { rewrite R1. now apply rows_of_app_present. }
  assert (Hkey3 : has_rows_key t (db_rows d3) = false).
  { rewrite R3. unfold has_rows_key, drop_rows. clear.
    induction (db_rows d2) as [|kv rd IH]; cbn [filter existsb]; [reflexivity|].
    destruct (ieq (fst kv) t) eqn:E; cbn [negb existsb]; [exact IH|]. rewrite E. exact IH. }
  split; [|split].
  - rewrite R4, rows_of_rename by exact Hkey3. rewrite ieq_refl.
    rewrite R3, rows_of_drop, Hne. rewrite R2, rows_of_set, ieq_refl.
    rewrite R1, has_key_app, ieq_refl, Bool.orb_true_r. rewrite <- R1, Htemp1, Ht1. reflexivity.
  - intros r c Hc. apply copy_preserves_column; [|exact Hc].
    rewrite forallb_forall in Hcols.
    (* c is ieq to a listed column, which the temp table has *)
    clear -Hc Hcols. unfold has_ccol, imem in *.
    induction cs as [|x cs IH]; cbn [existsb] in Hc; [discriminate|].
    destruct (ieq c x) eqn:E.
    + specialize (Hcols x (or_introl eq_refl)). rewrite <- Hcols. now apply existsb_ieq_congr.
    + apply IH; [intros y Hy; apply Hcols; now right|exact Hc].
  - intros o Hot Hotemp.
    rewrite R4, rows_of_rename by exact Hkey3. rewrite Hot, Hotemp.
    rewrite R3, rows_of_drop, Hot. rewrite R2, rows_of_set, Hotemp.
    rewrite R1. destruct (has_rows_key o (db_rows d)) eqn:Ho.
    + now apply rows_of_app_present.
    + rewrite rows_of_app_absent by exact Ho. rewrite ieq_sym, Hotemp.
      unfold rows_of, has_rows_key in *. clear -Ho. induction (db_rows d) as [|kv rd IH]; cbn [find existsb] in *; [reflexivity|].
      apply Bool.orb_false_iff in Ho as [H1 H2]. rewrite H1. exact (IH H2).
Qed.

(* ---------- D12: the same rebuild under foreign_keys=ON deletes the CASCADE rows of a child table ---------- *)
Definition d12_schema : schema :=
  [mkTable "u" None [mkCol "id" (TSimple Integer) false None None None None None None;
                     mkCol "a" (TSimple Integer) true None None None None None None] [CPrimaryKey false ["id"]];
   mkTable "p" None [mkCol "id" (TSimple Integer) false None None None None None None;
                     mkCol "u_id" (TSimple Integer) true None None None None None None]
     [CPrimaryKey false ["id"]; CForeignKey None ["u_id"] "u" ["id"] (Some Cascade) None]].
Definition d12_plan : list action := [ModifyColumnNullable "u" "a" false (Some "0")].
Definition d12_rows : rows_db :=
  [("u", [[("id", VText "1"); ("a", VNull)]; [("id", VText "2"); ("a", VText "5")]]);
   ("p", [[("id", VText "1"); ("u_id", VText "1")]; [("id", VText "2"); ("u_id", VNull)]])].
Definition run_rows (fk : bool) (s : schema) (acts : list action) (rd : rows_db) : option (result rows_db (nat * db_error)) :=
  match gen_plan s acts with
  | Ok ls => Some (match exec_db_all fk (mkDb (catalog_of s) rd) (List.concat ls) 0 with
                   | Ok d => Ok (db_rows d) | Err e => Err e end)
  | Err _ => None
  end.

Lemma d12_cascade_loss :
  validate_migration_plan (mkPlan "" None None 2 d12_plan) = Ok tt
  /\ known_C05_parent_rebuild d12_schema d12_plan = true
  (* foreign_keys OFF: nothing is lost, the NULL is filled *)
  /\ run_rows false d12_schema d12_plan d12_rows
     = Some (Ok [("p", [[("id", VText "1"); ("u_id", VText "1")]; [("id", VText "2"); ("u_id", VNull)]]);
                 ("u", [[("id", VText "1"); ("a", VText "0")]; [("id", VText "2"); ("a", VText "5")]])])
  (* foreign_keys ON: the row of p that referenced u is gone although the migration does not mention p *)
  /\ run_rows true d12_schema d12_plan d12_rows
     = Some (Ok [("p", [[("id", VText "2"); ("u_id", VNull)]]);
                 ("u", [[("id", VText "1"); ("a", VText "0")]; [("id", VText "2"); ("a", VText "5")]])]).
Proof. repeat split; vm_compute; reflexivity. Qed.

(* the default action (NO ACTION) makes the same rebuild fail at DROP TABLE "u" *)
Definition d12b_schema : schema :=
  [mkTable "u" None [mkCol "id" (TSimple Integer) false None None None None None None;
                     mkCol "a" (TSimple Integer) true None None None None None None] [CPrimaryKey false ["id"]];
   mkTable "p" None [mkCol "id" (TSimple Integer) false None None None None None None;
                     mkCol "u_id" (TSimple Integer) true None None None None None None]
     [CPrimaryKey false ["id"]; CForeignKey None ["u_id"] "u" ["id"] None None]].
Lemma d12_no_action_fails :
  run_rows true d12b_schema d12_plan d12_rows = Some (Err (3%nat, DForeignKey "p"))
  /\ (exists r, run_rows false d12b_schema d12_plan d12_rows = Some (Ok r)).
Proof. split; [vm_compute; reflexivity|]. eexists. vm_compute. reflexivity. Qed.
