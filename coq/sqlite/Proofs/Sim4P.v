(* SQLITE layer, C02: further simulation lemmas — the general rebuild, AddConstraint of a key / foreign key / check,
   ModifyColumnComment, AddColumn (plain and rebuild), RenameTable. *)
From Coq Require Import Lia Permutation.
From VV.SQLITE Require Import Corr Known RowsP RebuildP SimP Sim2P.

(* ---------- replacing one table's entry and indexes ---------- *)
Lemma split_unique_table t : forall s s' (td td' : table_def),
  unique_table s t = true -> find_table t s = Some td ->
  update_table t (fun _ => Ok td') s = Ok s' ->
  exists s1 s2, s = s1 ++ td :: s2 /\ s' = s1 ++ td' :: s2 /\ t_name td = t
    /\ filter (fun y => negb (String.eqb (t_name y) t)) s = s1 ++ s2.
Proof.
  intros s s' td td' Huniq Hfind Happ.
  destruct (update_table_split t (fun _ => td') s s' Happ) as (s1 & x & s2 & -> & -> & Hx & Hs1).
  assert (x = td).
  { unfold find_table in Hfind. rewrite find_app_none in Hfind.
    - cbn [find] in Hfind. rewrite Hx, String.eqb_refl in Hfind. now injection Hfind.
    - clear -Hs1. induction s1 as [|y s1 IH]; [reflexivity|]. cbn [find]. rewrite (Hs1 y (or_introl eq_refl)).
      apply IH. intros z Hz. apply Hs1. now right. }
  subst x.
  assert (Hs2 : forall y, In y s2 -> String.eqb (t_name y) t = false).
  { unfold unique_table in Huniq. rewrite filter_app in Huniq. cbn [filter] in Huniq. rewrite Hx, String.eqb_refl in Huniq.
    rewrite app_length in Huniq. cbn [List.length] in Huniq. apply Nat.eqb_eq in Huniq.
    assert (L2 : List.length (filter (fun x => String.eqb (t_name x) t) s2) = 0) by lia.
    intros y Hy. destruct (String.eqb (t_name y) t) eqn:E; [|reflexivity].
    assert (In y (filter (fun x => String.eqb (t_name x) t) s2)) by (apply filter_In; auto).
    destruct (filter (fun x => String.eqb (t_name x) t) s2); [contradiction|discriminate]. }
  exists s1, s2. repeat split; auto.
  rewrite filter_app. cbn [filter]. rewrite Hx, String.eqb_refl. cbn [negb].
  now rewrite (filter_none_named t s1 Hs1), (filter_none_named t s2 Hs2).
Qed.

Lemma Sim_replace : forall s c t td td' s',
  Sim s c -> ci_exact s t = true -> unique_table s t = true -> find_table t s = Some td ->
  update_table t (fun _ => Ok td') s = Ok s' ->
  Sim s' (mkCat (without_table t (cat_tables c) ++ [table_entry td'])
                (without_indexes_of t (cat_indexes c) ++ index_entries td')).
Proof.
  intros s c t td td' s' [Ht Hi] Hci Huniq Hfind Happ.
  destruct (split_unique_table t s s' td td' Huniq Hfind Happ) as (s1 & s2 & -> & -> & Hx & Hfil).
  split; cbn [cat_tables cat_indexes].
  - eapply Permutation_trans.
    + apply Permutation_app_tail. apply (Permutation_filter (fun y => negb (ieq (ct_name y) t))). exact Ht.
    + fold (without_table t (map table_entry (s1 ++ td :: s2))). rewrite without_table_entries by exact Hci. rewrite Hfil.
      rewrite !map_app. cbn [map]. rewrite <- app_assoc. apply Permutation_app_head. apply Permutation_app_comm.
  - eapply Permutation_trans.
    + apply Permutation_app_tail. apply (Permutation_filter (fun i => negb (ieq (ci_table i) t))). exact Hi.
    + fold (without_indexes_of t (flat_map index_entries (s1 ++ td :: s2))). rewrite without_indexes_entries by exact Hci. rewrite Hfil.
      rewrite !flat_map_app. cbn [flat_map]. rewrite <- app_assoc. apply Permutation_app_head. apply Permutation_app_comm.
Qed.

(* ---------- the general rebuild: any new table definition td' whose entry the CREATE TABLE describes and whose
   index set the trailing statements recreate ---------- *)
Theorem sim_rebuild_general : forall fk s c t td td' s' scols pks fks checks dst exprs before c',
  Sim s c -> ci_exact s t = true -> temp_free s t = true -> unique_table s t = true ->
  find_table t s = Some td -> t_name td' = t ->
  update_table t (fun _ => Ok td') s = Ok s' ->
  forallb is_update before = true ->
  forallb (fun f => negb (ieq (sf_table f) (temp_name t))) fks = true ->
  table_of_create t scols pks fks checks = table_entry td' ->
  exec_all fk c (before ++ [SCreateTable (temp_name t) scols pks fks checks; SInsertSelect (temp_name t) dst t exprs;
                            SDropTable t; SRenameTable (temp_name t) t]
                        ++ recreate_indexes t (t_constraints td') []) 0 = Ok c' ->
  Sim s' c'.
Proof.
  intros fk s c t td td' s' scols pks fks checks dst exprs before c' HS Hci Htf Huniq Hfind Hn Happ Hupd Hown Hent Hrun.
  apply exec_updates in Hrun; [|exact Hupd].
  destruct (temp_free_catalog s c t HS Htf) as [Hnf Hni].
  pose proof (rebuild_to_believed fk c c' td' scols pks fks checks dst exprs (0 + List.length before)) as R.
  cbn zeta in R. rewrite Hn in R. specialize (R (temp_ne t) Hnf Hni Hown Hent Hrun). subst c'.
  eapply Sim_replace; eauto.
Qed.

(* ---------- AddConstraint of a primary key / foreign key / check: the rebuild with merge_constraint ---------- *)
Lemma merge_no_overlap cs k : existsb (fun c => constraints_overlap c k) cs = false -> merge_constraint cs k = cs ++ [k].
Proof.
  intro H. unfold merge_constraint.
  assert (G : forall b, merge_aux cs k b = (cs, b)).
  { induction cs as [|c cs IH]; intro b; [reflexivity|]. cbn [merge_aux existsb] in *.
    apply Bool.orb_false_iff in H as [H1 H2]. rewrite H1, (IH H2). reflexivity. }
  now rewrite G.
Qed.

Lemma recreate_app_not_index t cs k pending : index_like k = false ->
  recreate_indexes t (cs ++ [k]) pending = recreate_indexes t cs pending.
Proof.
  intro H. unfold recreate_indexes. rewrite flat_map_app. cbn [flat_map].
  destruct (contains_constraint k pending); [now rewrite !app_nil_r|].
  destruct k; try discriminate; cbn [index_stmt]; now rewrite !app_nil_r.
Qed.

Lemma recreate_pending_disjoint t cs pending :
  forallb (fun k => negb (contains_constraint k pending)) cs = true ->
  recreate_indexes t cs pending = recreate_indexes t cs [].
Proof.
  unfold recreate_indexes. induction cs as [|k cs IH]; [reflexivity|]. cbn [forallb flat_map]. intro H.
  apply andb_prop in H as [H1 H2]. rewrite (IH H2). apply Bool.negb_true_iff in H1. rewrite H1. reflexivity.
Qed.

Lemma fks_app cs k : table_fks (cs ++ [k]) = table_fks cs ++ table_fks [k].
Proof. unfold table_fks. apply flat_map_app. Qed.

Theorem sim_sqlite_add_constraint_rebuild : forall fk s c t k pending td s' l c',
  Sim s c -> ci_exact s t = true -> temp_free s t = true -> unique_table s t = true ->
  index_like k = false ->
  find_table t s = Some td ->
  contains_constraint k (t_constraints td) = false ->
  existsb (fun c0 => constraints_overlap c0 k) (t_constraints td) = false ->     (* outside known_C02_overlapping_merged *)
  forallb (fun k0 => negb (contains_constraint k0 pending)) (t_constraints td) = true ->  (* nothing believed is still pending *)
  pk_sane (add_constraint_to k td) = true ->
  match k with CForeignKey _ _ rt _ _ _ => ieq rt (temp_name t) = false | _ => True end ->
  apply_action s (AddConstraint t k) = Ok s' ->
  gen s pending (AddConstraint t k) = GOk l ->
  exec_all fk c l 0 = Ok c' ->
  Sim s' c'.
Proof.
  intros fk s c t k pending td s' l c' HS Hci Htf Huniq Hk Hfind Hnc Hov Hpend Hsane Hrt Happ Hgen Hrun.
  assert (Hname : t_name td = t).
  { unfold find_table in Hfind. apply find_some in Hfind as [_ H]. now apply String.eqb_eq. }
  assert (Hin : In td s) by (unfold find_table in Hfind; now apply find_some in Hfind as [H _]).
  cbn [apply_action] in Happ.
  assert (Happ2 : update_table t (fun _ => Ok (add_constraint_to k td)) s = Ok s').
  { eapply update_table_first; [exact Happ|exact Hfind|]. cbn beta. rewrite Hnc. reflexivity. }
  cbn [gen] in Hgen. unfold gen_add_constraint in Hgen.
  assert (Hgen2 : rebuild t (t_columns td) (merge_constraint (t_constraints td) k) (col_names (t_columns td))
                          (copy_all (t_columns td)) (t_constraints td) pending [] = GOk l).
  { destruct k; try discriminate; rewrite Hfind in Hgen; exact Hgen. }
  clear Hgen. rewrite (merge_no_overlap _ _ Hov) in Hgen2.
  unfold rebuild, temp_table_create, create_table_stmt in Hgen2.
  destruct (map_option _ (t_columns td)) as [scols|] eqn:Hmap.
  2:{ destruct (all_checks t (t_columns td) (t_constraints td ++ [k])); discriminate. }
  injection Hgen2 as <-.
  rewrite (recreate_pending_disjoint _ _ _ Hpend) in Hrun.
  rewrite <- (recreate_app_not_index t (t_constraints td) k [] Hk) in Hrun.
  eapply (sim_rebuild_general fk s c t td (add_constraint_to k td) s' scols
            (table_pks (t_columns td) (t_constraints td ++ [k])) (table_fks (t_constraints td ++ [k]))
            (all_checks t (t_columns td) (t_constraints td ++ [k])) (col_names (t_columns td)) (copy_all (t_columns td)) []); eauto.
  - (* the new table's foreign keys avoid the temp name *)
    rewrite fks_app, forallb_app. apply andb_true_intro. split.
    + apply fks_avoid. unfold temp_free in Htf. rewrite forallb_forall in Htf. specialize (Htf td Hin).
      now apply andb_prop in Htf as [_ Htf].
    + destruct k; cbn [table_fks flat_map forallb app sf_table]; try reflexivity. now rewrite Hrt.
  - apply (entry_believed t (add_constraint_to k td) scols (t_constraints td ++ [k])); try reflexivity; try assumption.
Qed.

(* ---------- ModifyColumnComment: no statement, and nothing the catalog sees changes ---------- *)
Lemma table_entry_cols_ext td cols' :
  map (fun c => (c_name c, c_type c, c_nullable c, c_default c)) cols'
  = map (fun c => (c_name c, c_type c, c_nullable c, c_default c)) (t_columns td) ->
  table_entry (mkTable (t_name td) (t_description td) cols' (t_constraints td)) = table_entry td.
Proof.
  intro H. unfold table_entry, pk_of. cbn [t_name t_columns t_constraints].
  destruct (match match find is_pk (t_constraints td) with Some (CPrimaryKey a cols) => Some (a, cols) | _ => None end with
            | Some p => p | None => (false, []) end) as [auto pkcols].
  assert (C : forall (f : string * column_type * bool * option default_value -> ccol),
            map (fun c => f (c_name c, c_type c, c_nullable c, c_default c)) cols'
            = map (fun c => f (c_name c, c_type c, c_nullable c, c_default c)) (t_columns td)).
  { intro f. rewrite <- (map_map (fun c => (c_name c, c_type c, c_nullable c, c_default c)) f cols').
    rewrite <- (map_map (fun c => (c_name c, c_type c, c_nullable c, c_default c)) f (t_columns td)). now rewrite H. }
  f_equal.
  - apply (C (fun q => let '(n, ty, nl, d) := q in
                       mkCCol n (match render_type ty (auto && mem_str n pkcols)%bool with Some x => x | None => "?" end)
                              (negb nl) (norm_default (column_default_text (mkCol n ty nl d None None None None None)))
                              (position_ci n pkcols 1))).
  - unfold all_checks, enum_checks. f_equal.
    assert (E : forall cols, flat_map (enum_check (t_name td)) cols
                = flat_map (fun q : string * column_type * bool * option default_value =>
                              let '(n, ty, _, _) := q in enum_check (t_name td) (mkCol n ty true None None None None None None))
                           (map (fun c => (c_name c, c_type c, c_nullable c, c_default c)) cols)).
    { induction cols as [|x cols IH]; [reflexivity|]. cbn [map flat_map]. rewrite IH. reflexivity. }
    now rewrite (E cols'), (E (t_columns td)), H.
Qed.

Lemma modify_first_core p f : (forall c, (c_name (f c), c_type (f c), c_nullable (f c), c_default (f c))
                                         = (c_name c, c_type c, c_nullable c, c_default c)) ->
  forall cols, map (fun c => (c_name c, c_type c, c_nullable c, c_default c)) (modify_first p f cols)
               = map (fun c => (c_name c, c_type c, c_nullable c, c_default c)) cols.
Proof.
  intros Hf. induction cols as [|c cols IH]; [reflexivity|]. cbn [modify_first]. destruct (p c); cbn [map].
  - now rewrite Hf.
  - now rewrite IH.
Qed.

Lemma Sim_same_entries s s' c :
  Sim s c -> map table_entry s' = map table_entry s -> flat_map index_entries s' = flat_map index_entries s -> Sim s' c.
Proof. intros [Ht Hi] E1 E2. split; [now rewrite E1|now rewrite E2]. Qed.

Lemma update_table_map t (g : table_def -> table_def) : forall s s',
  update_table t (fun td => Ok (g td)) s = Ok s' ->
  (forall td, table_entry (g td) = table_entry td) -> (forall td, index_entries (g td) = index_entries td) ->
  map table_entry s' = map table_entry s /\ flat_map index_entries s' = flat_map index_entries s.
Proof.
  intros s s' H E1 E2. destruct (update_table_split t g s s' H) as (s1 & td & s2 & -> & -> & _ & _).
  rewrite !map_app, !flat_map_app. cbn [map flat_map]. now rewrite E1, E2.
Qed.

Lemma update_table_result t g : forall s s',
  update_table t g s = Ok s' ->
  exists s1 td td2 s2, s = s1 ++ td :: s2 /\ s' = s1 ++ td2 :: s2 /\ g td = Ok td2 /\ t_name td = t.
Proof.
  induction s as [|x s IH]; intros s' H; cbn [update_table] in H; [discriminate|].
  destruct (String.eqb (t_name x) t) eqn:E.
  - destruct (g x) as [x2|] eqn:G; [|discriminate]. injection H as <-. apply String.eqb_eq in E.
    exists [], x, x2, s. auto.
  - destruct (update_table t g s) as [r|] eqn:U; [|discriminate]. injection H as <-.
    destruct (IH _ eq_refl) as (s1 & td & td2 & s2 & -> & -> & G & N). exists (x :: s1), td, td2, s2. auto.
Qed.

Theorem sim_sqlite_modify_comment : forall fk s c t col cm s' l c',
  Sim s c ->
  apply_action s (ModifyColumnComment t col cm) = Ok s' ->
  gen s [] (ModifyColumnComment t col cm) = GOk l ->
  exec_all fk c l 0 = Ok c' ->
  Sim s' c'.
Proof.
  intros fk s c t col cm s' l c' HS Happ Hgen Hrun.
  cbn [gen] in Hgen. unfold gen_modify_comment in Hgen. destruct (negb (mysql_needs_column s t col)); [discriminate|].
  injection Hgen as <-. cbn [exec_all] in Hrun. injection Hrun as <-.
  cbn [apply_action] in Happ.
  destruct (update_table_result _ _ _ _ Happ) as (s1 & td & td2 & s2 & -> & -> & G & N).
  unfold update_column in G. destruct (update_first_col col (set_comment cm) (t_columns td)) as [cols'|] eqn:U; [|discriminate].
  injection G as <-. rewrite (update_first_col_modify _ _ _ _ U).
  eapply Sim_same_entries; [exact HS| |].
  - rewrite !map_app. cbn [map]. f_equal. f_equal. apply table_entry_cols_ext. apply modify_first_core. reflexivity.
  - rewrite !flat_map_app. cbn [flat_map]. reflexivity.
Qed.
