(* SQLITE layer, C02: lifting the per-action simulation lemmas over plans and histories (induction, no bound on the
   number of tables, actions or migrations).  PARTIAL: [step_hyp] admits the action kinds for which a simulation lemma is
   proved (CreateTable outside the explicit-CHECK class, DeleteTable, AddConstraint of an index / unique,
   ModifyColumnNullable / Default / Type, RawSql) under decidable side conditions (A2, A3, A5); AddColumn, DeleteColumn,
   RenameTable / RenameColumn, RemoveConstraint, AddConstraint of a key / foreign key / check and ModifyColumnComment are
   not covered yet. *)
From Coq Require Import Lia Permutation.
From VV.SQLITE Require Import Corr Known RowsP RebuildP SimP Sim2P.

Definition no_explicit_checks (n : table_def) : bool :=
  match explicit_checks (t_constraints n) with [] => true | _ => false end.

Definition rebuild_hyp (s : schema) (t : string) (td' : table_def -> table_def) : bool :=
  (ci_exact s t && temp_free s t && unique_table s t
   && match find_table t s with Some td => pk_sane (td' td) | None => false end)%bool.

Definition step_hyp (s : schema) (a : action) : bool :=
  match a with
  | CreateTable t cols cs =>
      match normalize (mkTable t None cols cs) with
      | Ok n => (no_explicit_checks n && pk_sane n)%bool
      | Err _ => false
      end
  | DeleteTable t => ci_exact s t
  | AddConstraint t k => (index_like k && ci_exact s t)%bool
  | ModifyColumnNullable t col b _ => rebuild_hyp s t (fun td => modified td col (set_nullable b))
  | ModifyColumnDefault t col d => rebuild_hyp s t (fun td => modified td col (set_default (option_map DStr d)))
  | ModifyColumnType t col ty _ => rebuild_hyp s t (fun td => modified td col (set_type ty))
  | RawSql _ => true
  | _ => false
  end.

Fixpoint plan_hyp (s : schema) (acts : list action) : bool :=
  match acts with
  | [] => true
  | a :: r => (step_hyp s a && match apply_action s a with Ok s' => plan_hyp s' r | Err _ => false end)%bool
  end.

(* raw statements have no catalog effect; dropping the empty ones changes nothing *)
Lemma exec_drop_empty fk : forall l c i c', exec_all fk c (drop_empty l) i = Ok c' -> forall j, exec_all fk c l j = Ok c'.
Proof.
  induction l as [|st l IH]; intros c i c' H j; cbn [drop_empty filter exec_all] in *; [exact H|].
  destruct st; cbn [negb] in H; try (cbn [exec_all] in H; destruct (exec fk c _) as [c1|]; [|discriminate]; eapply IH; exact H).
  cbn [exec]. destruct (negb (String.eqb text "")) eqn:E; cbn [exec_all exec] in H; eapply IH; exact H.
Qed.

(* one step *)
Lemma sim_step : forall fk s c a pending s' l c',
  Sim s c -> step_hyp s a = true -> apply_action s a = Ok s' ->
  gen s pending a = GOk l -> exec_all fk c l 0 = Ok c' -> Sim s' c'.
Proof.
  intros fk s c a pending s' l c' HS Hh Happ Hgen Hrun.
  destruct a; cbn [step_hyp] in Hh; try discriminate.
  - (* CreateTable *)
    destruct (normalize (mkTable table None columns constraints)) as [n|] eqn:N; [|discriminate].
    apply andb_prop in Hh as [H1 H2]. unfold no_explicit_checks in H1.
    destruct (explicit_checks (t_constraints n)) eqn:EC; [|discriminate].
    cbn [apply_action] in Happ. destruct (has_table table s); [discriminate|]. rewrite N in Happ. injection Happ as <-.
    cbn [gen] in Hgen. eapply sim_sqlite_create_table; eauto.
  - (* DeleteTable *)
    cbn [apply_action] in Happ. destruct (has_table table s); [|discriminate]. injection Happ as <-.
    cbn [gen] in Hgen. injection Hgen as <-. eapply sim_sqlite_delete_table; eauto.
  - (* ModifyColumnType *)
    unfold rebuild_hyp in Hh. destruct (find_table table s) as [td|] eqn:F; [|rewrite Bool.andb_false_r in Hh; discriminate].
    apply andb_prop in Hh as [Hh H4]. apply andb_prop in Hh as [Hh H3]. apply andb_prop in Hh as [H1 H2].
    eapply sim_sqlite_modify_type; eauto.
  - (* ModifyColumnNullable *)
    unfold rebuild_hyp in Hh. destruct (find_table table s) as [td|] eqn:F; [|rewrite Bool.andb_false_r in Hh; discriminate].
    apply andb_prop in Hh as [Hh H4]. apply andb_prop in Hh as [Hh H3]. apply andb_prop in Hh as [H1 H2].
    eapply sim_sqlite_modify_nullable; eauto.
  - (* ModifyColumnDefault *)
    unfold rebuild_hyp in Hh. destruct (find_table table s) as [td|] eqn:F; [|rewrite Bool.andb_false_r in Hh; discriminate].
    apply andb_prop in Hh as [Hh H4]. apply andb_prop in Hh as [Hh H3]. apply andb_prop in Hh as [H1 H2].
    eapply sim_sqlite_modify_default; eauto.
  - (* AddConstraint of an index / unique *)
    apply andb_prop in Hh as [H1 H2].
    cbn [gen] in Hgen. unfold gen_add_constraint in Hgen.
    assert (l = index_stmt table constraint) by (destruct constraint; try discriminate; now injection Hgen).
    subst l. eapply sim_sqlite_add_index; eauto.
  - (* RawSql *)
    cbn [apply_action] in Happ. injection Happ as <-. cbn [gen] in Hgen. injection Hgen as <-.
    cbn [exec_all exec] in Hrun. now injection Hrun as <-.
Qed.

Lemma apply_ignoring_ok s a s' : apply_action s a = Ok s' -> apply_ignoring s a = s'.
Proof. unfold apply_ignoring. now intros ->. Qed.

Lemma gen_plan_aux_cons s a r ls : gen_plan_aux s (a :: r) false = Ok ls ->
  exists l ls', gen s (pending_for a r) a = GOk l /\ gen_plan_aux (apply_ignoring s a) r false = Ok ls' /\ ls = drop_empty l :: ls'.
Proof.
  cbn [gen_plan_aux]. destruct (gen s (pending_for a r) a) as [l| | |]; try discriminate.
  - destruct (gen_plan_aux (apply_ignoring s a) r false) as [ls'|] eqn:E; [|discriminate].
    intro H. injection H as <-. eauto.
  - destruct (gen_plan_aux (apply_ignoring s a) r true); discriminate.
Qed.

Lemma exec_all_split fk : forall l1 l2 c i c',
  exec_all fk c (l1 ++ l2) i = Ok c' -> exists c1, exec_all fk c l1 0 = Ok c1 /\ exec_all fk c1 l2 0 = Ok c'.
Proof.
  intros l1 l2 c i c' H. apply exec_all_app in H as (c1 & H1 & H2). exists c1.
  split; eapply exec_all_ok_index; eauto.
Qed.

(* a plan *)
Theorem Sim_plan_partial : forall fk acts s c ls s' c',
  Sim s c -> plan_hyp s acts = true ->
  apply_all s acts = Ok s' ->
  gen_plan s acts = Ok ls ->
  exec_all fk c (List.concat ls) 0 = Ok c' ->
  Sim s' c'.
Proof.
  unfold gen_plan. intros fk acts. induction acts as [|a r IH]; intros s c ls s' c' HS Hh Happ Hgen Hrun.
  - cbn [apply_all gen_plan_aux] in *. injection Happ as <-. injection Hgen as <-. cbn [List.concat exec_all] in Hrun.
    now injection Hrun as <-.
  - cbn [plan_hyp apply_all] in *. apply andb_prop in Hh as [Hstep Hrest].
    destruct (apply_action s a) as [s1|] eqn:A; [|discriminate].
    apply gen_plan_aux_cons in Hgen as (l & ls' & G & Gr & ->).
    rewrite (apply_ignoring_ok _ _ _ A) in Gr.
    cbn [List.concat] in Hrun. apply exec_all_split in Hrun as (c1 & R1 & R2).
    eapply exec_drop_empty in R1.
    eapply IH; [|exact Hrest|exact Happ|exact Gr|exact R2].
    eapply sim_step; eauto.
Qed.

(* a history: every migration generated against the replayed baseline of the previous ones and executed on the catalog
   they left *)
Fixpoint run_history (fk : bool) (s : schema) (c : catalog) (plans : list (list action)) : option (schema * catalog) :=
  match plans with
  | [] => Some (s, c)
  | acts :: r =>
      if plan_hyp s acts then
        match apply_all s acts, gen_plan s acts with
        | Ok s', Ok ls =>
            match exec_all fk c (List.concat ls) 0 with
            | Ok c' => run_history fk s' c' r
            | Err _ => None
            end
        | _, _ => None
        end
      else None
  end.

Theorem Sim_history_partial : forall fk plans s c s' c',
  Sim s c -> run_history fk s c plans = Some (s', c') -> Sim s' c'.
Proof.
  intros fk plans. induction plans as [|acts r IH]; intros s c s' c' HS H; cbn [run_history] in H.
  - now injection H as <- <-.
  - destruct (plan_hyp s acts) eqn:Hh; [|discriminate].
    destruct (apply_all s acts) as [s1|] eqn:A; [|discriminate].
    destruct (gen_plan s acts) as [ls|] eqn:G; [|discriminate].
    destruct (exec_all fk c (List.concat ls) 0) as [c1|] eqn:R; [|discriminate].
    eapply IH; [|exact H]. eapply Sim_plan_partial; eauto.
Qed.

(* from the empty database *)
Corollary Sim_history_from_empty : forall fk plans s' c',
  run_history fk [] empty_catalog plans = Some (s', c') -> Sim s' c'.
Proof. intros. eapply Sim_history_partial; [|eassumption]. split; apply Permutation_refl. Qed.

(* the hypotheses are satisfiable by a non-trivial history: three migrations over two tables with a rebuild *)
Definition demo_history : list (list action) :=
  [[CreateTable "u" [mkCol "id" (TSimple Integer) false None None None None None None;
                     mkCol "a" (TSimple Text) true None None None None None None] [CPrimaryKey true ["id"]];
    CreateTable "p" [mkCol "id" (TSimple BigInt) false None None None None None None;
                     mkCol "u_id" (TSimple Integer) true None None None None None None]
      [CPrimaryKey false ["id"]; CForeignKey None ["u_id"] "u" ["id"] (Some Cascade) None; CIndex None ["u_id"]]];
   [ModifyColumnNullable "u" "a" false (Some "''"); AddConstraint "u" (CUnique None ["a"]); RawSql "SELECT 1"];
   [ModifyColumnType "p" "u_id" (TSimple Integer) None; DeleteTable "p"]].
Lemma demo_history_runs :
  (exists r, run_history true [] empty_catalog demo_history = Some r)
  /\ (exists r, run_history false [] empty_catalog demo_history = Some r).
Proof. split; eexists; vm_compute; reflexivity. Qed.
