(* SQLITE layer, C02: lifting the per-action simulation lemmas over plans and histories (induction, no bound on the
   number of tables, actions or migrations).  [step_hyp] admits every action kind under decidable side conditions (A2, A3, A5
   and "outside the known classes"): CreateTable (no explicit CHECK), DeleteTable, AddColumn (ALTER path and rebuild path, no
   unpaired inline constraint), DeleteColumn (rebuild path and ALTER TABLE DROP COLUMN path with its DROP INDEX statements),
   ModifyColumnType / Nullable / Default / Comment, AddConstraint (index / unique; key / foreign key / check through the
   rebuild with merge_constraint and the pending set), RemoveConstraint (index; unique / foreign key / check / primary key
   through the rebuild), RenameTable (no derived names, not referenced), RenameColumn (no derived names, not referenced),
   RawSql.  PARTIAL in the sense of partial correctness: the theorems say "if the engine model executes the statements, the
   catalog is the believed one". *)
From Coq Require Import Lia Permutation.
From VV.SQLITE Require Import Corr Known RowsP RebuildP SimP Sim2P Sim4P Sim5P Sim6P Sim7P Sim8P Sim9P.

Definition no_explicit_checks (n : table_def) : bool :=
  match explicit_checks (t_constraints n) with [] => true | _ => false end.

Definition rebuild_hyp (s : schema) (t : string) (td' : table_def -> table_def) : bool :=
  (ci_exact s t && temp_free s t && unique_table s t
   && match find_table t s with Some td => pk_sane (td' td) | None => false end)%bool.

Definition base_hyp (s : schema) (t : string) : bool := (ci_exact s t && temp_free s t && unique_table s t)%bool.

(* DeleteColumn takes the rebuild path (delete_column.rs:34-68) *)
Definition delcol_takes_temp (td : table_def) (t col : string) : bool :=
  (match find_col col (t_columns td) with Some cd => is_enum_type (c_type cd) | None => false end
   || match delete_column_scan t col (t_constraints td) [] with DcTemp => true | DcDrops _ => false end)%bool.

Definition step_hyp (s : schema) (r : list action) (a : action) : bool :=
  match a with
  | CreateTable t cols cs =>
      match normalize (mkTable t None cols cs) with
      | Ok n => (no_explicit_checks n && pk_sane n)%bool
      | Err _ => false
      end
  | DeleteTable t => ci_exact s t
  | AddColumn t col _ =>
      match find_table t s with
      | Some td =>
          (add_column_stable td col &&
           if (negb (c_nullable col) || is_enum_type (c_type col))%bool
           then (base_hyp s t && pk_sane (with_column td col))%bool
           else (ci_exact s t && unique_table s t && Nat.eqb (position_ci (c_name col) (snd (the_pk td)) 1) 0)%bool)%bool
      | None => false
      end
  | DeleteColumn t col =>
      match find_table t s with
      | Some td =>
          (forallb (delcol_ok col) (t_constraints td) &&
           if delcol_takes_temp td t col
           then (base_hyp s t && pk_sane (without_column td col))%bool
           else (ci_exact s t && unique_table s t && col_not_enum col td && col_ci_exact col td
                 && delcol_names_ok s t col td)%bool)%bool
      | None => false
      end
  | AddConstraint t k =>
      if index_like k then ci_exact s t
      else match find_table t s with
           | Some td =>
               (base_hyp s t && negb (contains_constraint k (t_constraints td))
                && negb (existsb (fun c0 => constraints_overlap c0 k) (t_constraints td))
                && forallb (fun k0 => negb (contains_constraint k0 (pending_for a r))) (t_constraints td)
                && pk_sane (add_constraint_to k td)
                && match k with CForeignKey _ _ rt _ _ _ => negb (ieq rt (temp_name t)) | _ => true end)%bool
           | None => false
           end
  | RemoveConstraint t k =>
      match k with
      | CIndex _ _ => (unique_table s t && name_owner_ok s t k)%bool
      | _ => match find_table t s with
             | Some td =>
                 (base_hyp s t
                  && forallb (fun c0 => Bool.eqb (keep_after_remove k c0) (negb (constraint_eqb c0 k))) (t_constraints td)
                  && pk_sane (mkTable (t_name td) (t_description td) (t_columns td)
                                      (filter (fun c0 => negb (constraint_eqb c0 k)) (t_constraints td))))%bool
             | None => false
             end
      end
  | ModifyColumnNullable t col b _ => rebuild_hyp s t (fun td => modified td col (set_nullable b))
  | ModifyColumnDefault t col d => rebuild_hyp s t (fun td => modified td col (set_default (option_map DStr d)))
  | ModifyColumnType t col ty _ => rebuild_hyp s t (fun td => modified td col (set_type ty))
  | ModifyColumnComment _ _ _ => true
  | RenameTable from _ =>
      match find_table from s with
      | Some td => (ci_exact s from && unique_table s from && negb (existsb index_like (t_constraints td))
                    && no_enum_cols td && no_ref_ci s from)%bool
      | None => false
      end
  | RawSql _ => true
  | RenameColumn t from to =>
      match find_table t s with
      | Some td => (ci_exact s t && unique_table s t && rencol_ok s t from to td)%bool
      | None => false
      end
  end.

Fixpoint plan_hyp (s : schema) (acts : list action) : bool :=
  match acts with
  | [] => true
  | a :: r => (step_hyp s r a && match apply_action s a with Ok s' => plan_hyp s' r | Err _ => false end)%bool
  end.

(* raw statements have no catalog effect; dropping the empty ones changes nothing *)
Lemma exec_drop_empty fk : forall l c i c', exec_all fk c (drop_empty l) i = Ok c' -> forall j, exec_all fk c l j = Ok c'.
Proof.
  induction l as [|st l IH]; intros c i c' H j; cbn [drop_empty filter exec_all] in *; [exact H|].
  destruct st; cbn [negb] in H; try (cbn [exec_all] in H; destruct (exec fk c _) as [c1|]; [|discriminate]; eapply IH; exact H).
  cbn [exec]. destruct (negb (String.eqb text "")) eqn:E; cbn [exec_all exec] in H; eapply IH; exact H.
Qed.

(* gen does not look at the pending set except in the rebuilding AddConstraint *)
Lemma gen_pending_irrelevant s P a :
  match a with AddConstraint _ k => index_like k = true | _ => True end -> gen s P a = gen s [] a.
Proof. destruct a; try reflexivity. intro H. cbn [gen]. unfold gen_add_constraint. destruct constraint; try discriminate; reflexivity. Qed.

Ltac split_hyp H :=
  repeat match type of H with (_ && _)%bool = true => let H' := fresh "Hh" in apply andb_prop in H as [H H'] end.

(* one step *)
Lemma sim_step : forall fk s c a r s' l c',
  Sim s c -> step_hyp s r a = true -> apply_action s a = Ok s' ->
  gen s (pending_for a r) a = GOk l -> exec_all fk c l 0 = Ok c' -> Sim s' c'.
Proof.
  intros fk s c a r s' l c' HS Hh Happ Hgen Hrun.
  destruct a; cbn [step_hyp] in Hh; try discriminate.
  - (* CreateTable *)
    destruct (normalize (mkTable table None columns constraints)) as [n|] eqn:N; [|discriminate].
    apply andb_prop in Hh as [H1 H2]. unfold no_explicit_checks in H1.
    destruct (explicit_checks (t_constraints n)) eqn:EC; [|discriminate].
    cbn [apply_action] in Happ. destruct (has_table table s); [discriminate|]. rewrite N in Happ. injection Happ as <-.
    cbn [gen] in Hgen. eapply sim_sqlite_create_table; eauto.
  - (* DeleteTable *)
    cbn [apply_action] in Happ. destruct (has_table table s); [|discriminate]. injection Happ as <-.
    cbn [gen] in Hgen. injection Hgen as <-. eapply sim_sqlite_delete_table; eauto.
  - (* AddColumn *)
    rewrite gen_pending_irrelevant in Hgen by exact I.
    destruct (find_table table s) as [td|] eqn:F; [|discriminate]. apply andb_prop in Hh as [Hst Hh].
    destruct (negb (c_nullable column) || is_enum_type (c_type column))%bool eqn:Re.
    + unfold base_hyp in Hh. split_hyp Hh. eapply sim_sqlite_add_column_rebuild; eauto.
    + split_hyp Hh. apply Bool.orb_false_iff in Re as [Re1 Re2]. apply Bool.negb_false_iff in Re1.
      eapply sim_sqlite_add_column_plain; eauto. now apply Nat.eqb_eq.
  - (* RenameColumn *)
    destruct (find_table table s) as [td|] eqn:F; [|discriminate]. split_hyp Hh.
    cbn [gen] in Hgen. injection Hgen as <-. eapply sim_sqlite_rename_column; eauto.
  - (* DeleteColumn *)
    destruct (find_table table s) as [td|] eqn:F; [|discriminate]. apply andb_prop in Hh as [Hok Hh].
    destruct (delcol_takes_temp td table column) eqn:TT.
    + (* rebuild path *)
      unfold base_hyp in Hh. split_hyp Hh.
      assert (G : delete_column_temp table column td = GOk l).
      { cbn [gen] in Hgen. unfold gen_delete_column in Hgen. rewrite F in Hgen. unfold delcol_takes_temp in TT.
        destruct (find_col column (t_columns td)) as [cd|].
        - destruct (is_enum_type (c_type cd)); [exact Hgen|]. cbn [orb] in TT.
          destruct (delete_column_scan table column (t_constraints td) []); [exact Hgen|discriminate].
        - cbn [orb] in TT. destruct (delete_column_scan table column (t_constraints td) []); [exact Hgen|discriminate]. }
      eapply sim_sqlite_delete_column_rebuild; eauto.
    + (* ALTER TABLE DROP COLUMN path *)
      split_hyp Hh.
      assert (G : exists drops, delete_column_scan table column (t_constraints td) [] = DcDrops drops
                                /\ l = drops ++ [SDropColumn table column]).
      { cbn [gen] in Hgen. unfold gen_delete_column in Hgen. rewrite F in Hgen. unfold delcol_takes_temp in TT.
        apply Bool.orb_false_iff in TT as [T1 T2].
        destruct (delete_column_scan table column (t_constraints td) []) as [|drops]; [discriminate|].
        exists drops. split; [reflexivity|].
        destruct (find_col column (t_columns td)) as [cd|]; [rewrite T1 in Hgen|]; now injection Hgen. }
      destruct G as (drops & Gs & ->).
      eapply sim_sqlite_delete_column_plain; eauto.
  - (* ModifyColumnType *)
    rewrite gen_pending_irrelevant in Hgen by exact I.
    unfold rebuild_hyp in Hh. destruct (find_table table s) as [td|] eqn:F; [|rewrite Bool.andb_false_r in Hh; discriminate].
    split_hyp Hh. eapply sim_sqlite_modify_type; eauto.
  - (* ModifyColumnNullable *)
    rewrite gen_pending_irrelevant in Hgen by exact I.
    unfold rebuild_hyp in Hh. destruct (find_table table s) as [td|] eqn:F; [|rewrite Bool.andb_false_r in Hh; discriminate].
    split_hyp Hh. eapply sim_sqlite_modify_nullable; eauto.
  - (* ModifyColumnDefault *)
    rewrite gen_pending_irrelevant in Hgen by exact I.
    unfold rebuild_hyp in Hh. destruct (find_table table s) as [td|] eqn:F; [|rewrite Bool.andb_false_r in Hh; discriminate].
    split_hyp Hh. eapply sim_sqlite_modify_default; eauto.
  - (* ModifyColumnComment *)
    rewrite gen_pending_irrelevant in Hgen by exact I. eapply sim_sqlite_modify_comment; eauto.
  - (* AddConstraint *)
    destruct (index_like constraint) eqn:IL.
    + cbn [gen] in Hgen. unfold gen_add_constraint in Hgen.
      assert (l = index_stmt table constraint) by (destruct constraint; try discriminate; now injection Hgen).
      subst l. eapply sim_sqlite_add_index; eauto.
    + destruct (find_table table s) as [td|] eqn:F; [|discriminate]. unfold base_hyp in Hh. split_hyp Hh.
      repeat match goal with H : negb _ = true |- _ => apply Bool.negb_true_iff in H end.
      eapply (sim_sqlite_add_constraint_rebuild fk s c table constraint (pending_for (AddConstraint table constraint) r) td); eauto.
      destruct constraint; try exact I. match goal with H : negb _ = true |- _ => now apply Bool.negb_true_iff in H end.
  - (* RemoveConstraint *)
    rewrite gen_pending_irrelevant in Hgen by exact I.
    destruct constraint as [a pc|n uc|n fc rt rc od ou|n e|n ic]; try discriminate.
    + destruct (find_table table s) as [td|] eqn:F; [|discriminate]. unfold base_hyp in Hh. split_hyp Hh.
      eapply (sim_sqlite_remove_constraint_rebuild fk s c table (CPrimaryKey a pc) td); eauto; exact I.
    + destruct (find_table table s) as [td|] eqn:F; [|discriminate]. unfold base_hyp in Hh. split_hyp Hh.
      eapply (sim_sqlite_remove_constraint_rebuild fk s c table (CUnique n uc) td); eauto; exact I.
    + destruct (find_table table s) as [td|] eqn:F; [|discriminate]. unfold base_hyp in Hh. split_hyp Hh.
      eapply (sim_sqlite_remove_constraint_rebuild fk s c table (CForeignKey n fc rt rc od ou) td); eauto; exact I.
    + destruct (find_table table s) as [td|] eqn:F; [|discriminate]. unfold base_hyp in Hh. split_hyp Hh.
      eapply (sim_sqlite_remove_constraint_rebuild fk s c table (CCheck n e) td); eauto; exact I.
    + split_hyp Hh. eapply (sim_sqlite_remove_index fk s c table n ic); eauto.
  - (* RenameTable *)
    destruct (find_table from s) as [td|] eqn:F; [|discriminate]. split_hyp Hh.
    repeat match goal with H : negb _ = true |- _ => apply Bool.negb_true_iff in H end.
    cbn [gen] in Hgen. injection Hgen as <-. eapply sim_sqlite_rename_table; eauto.
  - (* RawSql *)
    cbn [apply_action] in Happ. injection Happ as <-. cbn [gen] in Hgen. injection Hgen as <-.
    cbn [exec_all exec] in Hrun. now injection Hrun as <-.
Qed.

Lemma apply_ignoring_ok s a s' : apply_action s a = Ok s' -> apply_ignoring s a = s'.
Proof. unfold apply_ignoring. now intros ->. Qed.

Lemma gen_plan_aux_cons s a r ls : gen_plan_aux s (a :: r) false = Ok ls ->
  exists l ls', gen s (pending_for a r) a = GOk l /\ gen_plan_aux (apply_ignoring s a) r false = Ok ls' /\ ls = drop_empty l :: ls'.
Proof.
  cbn [gen_plan_aux]. destruct (gen s (pending_for a r) a) as [l| | |]; try discriminate.
  - destruct (gen_plan_aux (apply_ignoring s a) r false) as [ls'|] eqn:E; [|discriminate].
    intro H. injection H as <-. eauto.
  - destruct (gen_plan_aux (apply_ignoring s a) r true); discriminate.
Qed.

Lemma exec_all_split fk : forall l1 l2 c i c',
  exec_all fk c (l1 ++ l2) i = Ok c' -> exists c1, exec_all fk c l1 0 = Ok c1 /\ exec_all fk c1 l2 0 = Ok c'.
Proof.
  intros l1 l2 c i c' H. apply exec_all_app in H as (c1 & H1 & H2). exists c1.
  split; eapply exec_all_ok_index; eauto.
Qed.

(* a plan *)
Theorem Sim_plan_partial : forall fk acts s c ls s' c',
  Sim s c -> plan_hyp s acts = true ->
  apply_all s acts = Ok s' ->
  gen_plan s acts = Ok ls ->
  exec_all fk c (List.concat ls) 0 = Ok c' ->
  Sim s' c'.
Proof.
  unfold gen_plan. intros fk acts. induction acts as [|a r IH]; intros s c ls s' c' HS Hh Happ Hgen Hrun.
  - cbn [apply_all gen_plan_aux] in *. injection Happ as <-. injection Hgen as <-. cbn [List.concat exec_all] in Hrun.
    now injection Hrun as <-.
  - cbn [plan_hyp apply_all] in *. apply andb_prop in Hh as [Hstep Hrest].
    destruct (apply_action s a) as [s1|] eqn:A; [|discriminate].
    apply gen_plan_aux_cons in Hgen as (l & ls' & G & Gr & ->).
    rewrite (apply_ignoring_ok _ _ _ A) in Gr.
    cbn [List.concat] in Hrun. apply exec_all_split in Hrun as (c1 & R1 & R2).
    eapply exec_drop_empty in R1.
    eapply IH; [|exact Hrest|exact Happ|exact Gr|exact R2].
    eapply sim_step; eauto.
Qed.

(* a history: every migration generated against the replayed baseline of the previous ones and executed on the catalog
   they left *)
Fixpoint run_history (fk : bool) (s : schema) (c : catalog) (plans : list (list action)) : option (schema * catalog) :=
  match plans with
  | [] => Some (s, c)
  | acts :: r =>
      if plan_hyp s acts then
        match apply_all s acts, gen_plan s acts with
        | Ok s', Ok ls =>
            match exec_all fk c (List.concat ls) 0 with
            | Ok c' => run_history fk s' c' r
            | Err _ => None
            end
        | _, _ => None
        end
      else None
  end.

Theorem Sim_history_partial : forall fk plans s c s' c',
  Sim s c -> run_history fk s c plans = Some (s', c') -> Sim s' c'.
Proof.
  intros fk plans. induction plans as [|acts r IH]; intros s c s' c' HS H; cbn [run_history] in H.
  - now injection H as <- <-.
  - destruct (plan_hyp s acts) eqn:Hh; [|discriminate].
    destruct (apply_all s acts) as [s1|] eqn:A; [|discriminate].
    destruct (gen_plan s acts) as [ls|] eqn:G; [|discriminate].
    destruct (exec_all fk c (List.concat ls) 0) as [c1|] eqn:R; [|discriminate].
    eapply IH; [|exact H]. eapply Sim_plan_partial; eauto.
Qed.

(* from the empty database *)
Corollary Sim_history_from_empty : forall fk plans s' c',
  run_history fk [] empty_catalog plans = Some (s', c') -> Sim s' c'.
Proof. intros. eapply Sim_history_partial; [|eassumption]. split; apply Permutation_refl. Qed.

(* the hypotheses are satisfiable by a non-trivial history: three migrations over two tables with a rebuild *)
Definition demo_history : list (list action) :=
  [[CreateTable "u" [mkCol "id" (TSimple Integer) false None None None None None None;
                     mkCol "a" (TSimple Text) true None None None None None None] [CPrimaryKey true ["id"]];
    CreateTable "p" [mkCol "id" (TSimple BigInt) false None None None None None None;
                     mkCol "u_id" (TSimple Integer) true None None None None None None]
      [CPrimaryKey false ["id"]; CForeignKey None ["u_id"] "u" ["id"] (Some Cascade) None; CIndex None ["u_id"]]];
   [ModifyColumnNullable "u" "a" false (Some "''"); AddConstraint "u" (CUnique None ["a"]); RawSql "SELECT 1"];
   [ModifyColumnType "p" "u_id" (TSimple Integer) None; DeleteTable "p"]].
Lemma demo_history_runs :
  (exists r, run_history true [] empty_catalog demo_history = Some r)
  /\ (exists r, run_history false [] empty_catalog demo_history = Some r).
Proof. split; eexists; vm_compute; reflexivity. Qed.

(* a second history through the remaining covered kinds: AddColumn (both paths), AddConstraint foreign key and check (rebuild
   with a pending index), RemoveConstraint (index, unique, foreign key), ModifyColumnComment, DeleteColumn (rebuild),
   RenameTable *)
Definition demo_history2 : list (list action) :=
  [[CreateTable "u" [mkCol "id" (TSimple Integer) false None None None None None None] [CPrimaryKey false ["id"]];
    CreateTable "p" [mkCol "id" (TSimple Integer) false None None None None None None;
                     mkCol "u_id" (TSimple Integer) true None None None None None None;
                     mkCol "e" (TEnum "lvl" (EVString ["a"; "b"])) true None None None None None None]
      [CPrimaryKey false ["id"]; CUnique None ["u_id"]]];
   [AddColumn "p" (mkCol "n" (TSimple Text) true None None None None None None) None;
    AddColumn "p" (mkCol "m" (TSimple Integer) false (Some (DInt 0)) None None None None None) None;
    AddConstraint "p" (CForeignKey None ["u_id"] "u" ["id"] (Some Cascade) None);
    AddConstraint "p" (CCheck "ck1" "m > 0");
    AddConstraint "p" (CIndex None ["n"]);
    ModifyColumnComment "p" "n" (Some "note")];
   [RemoveConstraint "p" (CIndex None ["n"]);
    RemoveConstraint "p" (CUnique None ["u_id"]);
    RemoveConstraint "p" (CForeignKey None ["u_id"] "u" ["id"] (Some Cascade) None);
    DeleteColumn "p" "e";
    RenameTable "u" "v"]].
Lemma demo_history2_runs :
  (exists r, run_history true [] empty_catalog demo_history2 = Some r)
  /\ (exists r, run_history false [] empty_catalog demo_history2 = Some r).
Proof. split; eexists; vm_compute; reflexivity. Qed.

(* a third history through the kinds admitted last: RenameColumn (a plain column, a foreign-key column, a primary-key
   column), DeleteColumn through ALTER TABLE DROP COLUMN with a single-column index and a single-column unique dropped first,
   RemoveConstraint of a table-level primary key, and a later rebuild of the table that is left without a key *)
Definition demo_history3 : list (list action) :=
  [[CreateTable "u" [mkCol "id" (TSimple Integer) false None None None None None None;
                     mkCol "a" (TSimple Text) true None None None None None None;
                     mkCol "b" (TSimple Integer) true None None None None None None;
                     mkCol "c" (TSimple Integer) true None None None None None None]
      [CPrimaryKey false ["id"]; CIndex None ["a"]; CUnique None ["c"]];
    CreateTable "p" [mkCol "id" (TSimple Integer) false None None None None None None;
                     mkCol "u_id" (TSimple Integer) true None None None None None None]
      [CPrimaryKey false ["id"]; CForeignKey None ["u_id"] "u" ["id"] None None];
    CreateTable "q" [mkCol "k" (TSimple Integer) false None None None None None None;
                     mkCol "v" (TSimple Text) true None None None None None None]
      [CPrimaryKey false ["k"]]];
   [RenameColumn "u" "b" "bb";
    RenameColumn "p" "u_id" "owner_id";
    RenameColumn "q" "k" "key";
    DeleteColumn "u" "a";
    DeleteColumn "u" "c"];
   [RemoveConstraint "q" (CPrimaryKey false ["key"]);
    ModifyColumnNullable "q" "v" false (Some "''")]].
Lemma demo_history3_runs :
  (exists r, run_history true [] empty_catalog demo_history3 = Some r)
  /\ (exists r, run_history false [] empty_catalog demo_history3 = Some r).
Proof. split; eexists; vm_compute; reflexivity. Qed.
