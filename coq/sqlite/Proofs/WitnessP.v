(* SQLITE layer: concrete witnesses (closed by computation) of the known C02 failure classes, in the faithful model:
   the model generator's statements, executed by the engine model from the catalog of the replayed baseline, fail or end in a
   catalog that is not the believed one.  Each witness is also stored in corpus/sqlite/ and replayed on libsqlite3 with
   the implementation's own SQL on every check run. *)
From VV.M1 Require Import Validate.
From VV.SQLITE Require Import Corr Known.

Definition icol (n : string) : column_def := mkCol n (TSimple Integer) true None None None None None None.
Definition idcol : column_def := mkCol "id" (TSimple Integer) false None None None None None None.
Definition pk_id : table_constraint := CPrimaryKey false ["id"].

(* what the C02 statement demands of one migration, in the model: generation succeeds, every statement executes, and
   the catalog afterwards is (up to order) the catalog of the replayed post schema *)
Definition c02_holds (fk_on : bool) (s : schema) (acts : list action) : bool :=
  match gen_plan s acts with
  | Err _ => false
  | Ok ls =>
      match exec_all fk_on (catalog_of s) (List.concat ls) 0 with
      | Err _ => false
      | Ok c => cat_equiv c (catalog_of (fold_left apply_ignoring acts s))
      end
  end.
Definition first_error (fk_on : bool) (s : schema) (acts : list action) : option (nat * engine_error) :=
  match gen_plan s acts with
  | Err _ => None
  | Ok ls => match exec_all fk_on (catalog_of s) (List.concat ls) 0 with Err e => Some e | Ok _ => None end
  end.

(* ---- D11: explicit CHECK constraint absent from CREATE TABLE ---- *)
Definition d11_plan : list action :=
  [CreateTable "t" [idcol] [pk_id; CCheck "ck1" "id > 0"]].
Lemma d11_refuted :
  validate_migration_plan (mkPlan "" None None 1 d11_plan) = Ok tt
  /\ apply_all [] d11_plan = Ok [mkTable "t" None [idcol] [pk_id; CCheck "ck1" "id > 0"]]
  /\ gen_plan [] d11_plan = Ok [[SCreateTable "t" [mkSCol "id" "integer" true None false false] [["id"]] [] []]]
  /\ c02_holds true [] d11_plan = false /\ c02_holds false [] d11_plan = false
  /\ first_error true [] d11_plan = None
  /\ known_C02_explicit_check [] d11_plan = true.
Proof. repeat split; vm_compute; reflexivity. Qed.

(* ---- D17: AddColumn with an inline index, then a rebuilding AddColumn, then the index's own AddConstraint ---- *)
Definition d17_base : schema := [mkTable "t" None [idcol] [pk_id]].
Definition d17_plan : list action :=
  [AddColumn "t" (mkCol "a" (TSimple Integer) true None None None None (Some (SBool true)) None) None;
   AddColumn "t" (mkCol "b" (TSimple Integer) false (Some (DInt 0)) None None None None None) None;
   AddConstraint "t" (CIndex None ["a"])].
Lemma d17_refuted :
  validate_migration_plan (mkPlan "" None None 2 d17_plan) = Ok tt
  /\ (exists s', apply_all d17_base d17_plan = Ok s')
  /\ first_error true d17_base d17_plan = Some (6%nat, ENameTaken "ix_t__a")
  /\ first_error false d17_base d17_plan = Some (6%nat, ENameTaken "ix_t__a")
  /\ known_C02_inline_index_then_rebuild d17_base d17_plan = true.
Proof. repeat split; try (vm_compute; reflexivity). eexists. vm_compute. reflexivity. Qed.

(* ---- D18: one member of a composite index is deleted; the planner then removes the index by its original name ---- *)
Definition d18_base : schema :=
  [mkTable "t" None [idcol; icol "a"; icol "b"] [pk_id; CIndex None ["a"; "b"]]].
Definition d18_plan : list action :=
  [DeleteColumn "t" "b"; RemoveConstraint "t" (CIndex None ["a"; "b"]); AddConstraint "t" (CIndex None ["a"])].
Lemma d18_refuted :
  validate_migration_plan (mkPlan "" None None 2 d18_plan) = Ok tt
  /\ (exists s', apply_all d18_base d18_plan = Ok s')
  /\ first_error true d18_base d18_plan = Some (2%nat, ENoSuchIndex "ix_t__a_b")
  /\ known_C02_composite_member_drop d18_base d18_plan = true.
Proof. repeat split; try (vm_compute; reflexivity). eexists. vm_compute. reflexivity. Qed.

(* ---- RemoveConstraint PrimaryKey on a table whose key was declared inline: the rebuilt table still has the key ---- *)
Definition ipk_base : schema :=
  [mkTable "t" None [mkCol "id" (TSimple Integer) false None None (Some (PKBool true)) None None None; icol "a"] [pk_id]].
Definition ipk_plan : list action := [RemoveConstraint "t" pk_id].
Lemma inline_pk_refuted :
  (exists s', apply_all ipk_base ipk_plan = Ok s')
  /\ first_error true ipk_base ipk_plan = None
  /\ c02_holds true ipk_base ipk_plan = false
  /\ known_C02_inline_pk_survives ipk_base ipk_plan = true.
Proof. repeat split; try (vm_compute; reflexivity). eexists. vm_compute. reflexivity. Qed.

(* ---- a foreign key added before the key it references (the planner's order for these two actions): fine with
   foreign_keys=OFF, 'foreign key mismatch' at the rebuild's INSERT with foreign_keys=ON ---- *)
Definition rbk_base : schema :=
  [mkTable "u" None [mkCol "idx" (TSimple BigInt) false None None None None None None] [];
   mkTable "item" None [idcol; mkCol "u_idx" (TSimple BigInt) true None None None None None None] [pk_id]].
Definition rbk_plan : list action :=
  [AddConstraint "item" (CForeignKey None ["u_idx"] "u" ["idx"] None None);
   AddConstraint "u" (CPrimaryKey false ["idx"])].
Lemma reference_before_key_refuted :
  (exists s', apply_all rbk_base rbk_plan = Ok s')
  /\ first_error true rbk_base rbk_plan = Some (1%nat, EForeignKey "item_temp")
  /\ c02_holds false rbk_base rbk_plan = true
  /\ known_C02_reference_before_key rbk_base rbk_plan = true.
Proof. repeat split; try (vm_compute; reflexivity). eexists. vm_compute. reflexivity. Qed.

(* ---- non-vacuity: a two-table plan with a rebuild on which the C02 statement holds in the model, both pragmas ---- *)
Definition ok_base : schema :=
  [mkTable "u" None [idcol; icol "a"] [pk_id; CIndex None ["a"]];
   mkTable "p" None [idcol; icol "u_id"] [pk_id; CForeignKey None ["u_id"] "u" ["id"] (Some Cascade) None]].
Definition ok_plan : list action :=
  [ModifyColumnNullable "u" "a" false (Some "0");
   AddColumn "p" (mkCol "n" (TSimple Text) true None None None None None None) None;
   AddConstraint "p" (CUnique None ["n"]);
   CreateTable "q" [idcol] [pk_id]].
Lemma c02_holds_somewhere : c02_holds true ok_base ok_plan = true /\ c02_holds false ok_base ok_plan = true.
Proof. split; vm_compute; reflexivity. Qed.
