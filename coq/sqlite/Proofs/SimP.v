(* SQLITE layer, C02: the simulation between the replayed baseline and the SQLite catalog, action by action.
   Sim s c := c holds exactly the tables of catalog_of s (in order) and the same indexes up to order. *)
From Coq Require Import Lia Permutation.
From VV.SQLITE Require Import Corr Known RowsP RebuildP.

Definition Sim (s : schema) (c : catalog) : Prop :=
  Permutation (cat_tables c) (map table_entry s) /\ Permutation (cat_indexes c) (flat_map index_entries s).

Lemma Sim_refl s : Sim s (catalog_of s).
Proof. split; apply Permutation_refl. Qed.

(* ---------- map_option ---------- *)
Lemma map_option_forall2 {A B} (f : A -> option B) : forall l l',
  map_option f l = Some l' -> Forall2 (fun x y => f x = Some y) l l'.
Proof.
  induction l as [|x l IH]; intros l' H; cbn [map_option] in H.
  - injection H as <-. constructor.
  - destruct (f x) eqn:E; [|discriminate]. destruct (map_option f l) eqn:E2; [|discriminate].
    injection H as <-. constructor; [exact E|now apply IH].
Qed.

(* ---------- sanity of the primary key of a normalised table (A2, A5) ---------- *)
Fixpoint nodup_names (l : list string) : bool :=
  match l with [] => true | x :: r => (negb (mem_str x r) && nodup_names r)%bool end.

(* no column still carries an inline primary_key field (outside known_C02_inline_pk_survives: create_table.rs:46 turns
   such a field into a column-level PRIMARY KEY as soon as no table-level key is left) *)
Definition no_inline_pk (n : table_def) : bool :=
  forallb (fun c => match c_primary_key c with None => true | Some _ => false end) (t_columns n).

Definition pk_sane (n : table_def) : bool :=
  (nodup_names (map c_name (t_columns n)) &&
   match filter is_pk (t_constraints n) with
   | [] => no_inline_pk n                      (* a table without a primary key *)
   | [CPrimaryKey false _] => true
   | [CPrimaryKey true [p]] =>
       match find_col p (t_columns n) with
       | Some c => supports_auto_increment (c_type c)
       | None => false
       end
   | _ => false
   end)%bool.

(* what the single primary key says *)
Definition the_pk (n : table_def) : bool * list string :=
  match pk_of n with Some p => p | None => (false, []) end.

Lemma filter_pk_find cs k : filter is_pk cs = [k] -> find is_pk cs = Some k.
Proof.
  induction cs as [|x cs IH]; cbn [filter find]; [discriminate|].
  destruct (is_pk x); [intro H; now injection H as -> _|exact IH].
Qed.

Lemma auto_cols_single cs a cols : filter is_pk cs = [CPrimaryKey a cols] ->
  auto_increment_columns cs = if a then cols else [].
Proof.
  unfold auto_increment_columns.
  revert a cols. induction cs as [|x cs IH]; intros a cols H; cbn [filter] in H; [discriminate|].
  cbn [flat_map]. destruct x as [a' c'| | | |]; cbn [is_pk] in H; try (rewrite (IH _ _ H); reflexivity).
  injection H as -> -> H.
  assert (E : flat_map (fun k => match k with CPrimaryKey true cols0 => cols0 | _ => [] end) cs = []).
  { clear -H. induction cs as [|x cs IH]; [reflexivity|]. cbn [filter flat_map] in *.
    destruct x; cbn [is_pk] in H; try discriminate; cbn [app]; now apply IH. }
  rewrite E. destruct a; now rewrite ?app_nil_r.
Qed.

Lemma table_pks_single cols cs a pkc : filter is_pk cs = [CPrimaryKey a pkc] ->
  table_pks cols cs =
  if (a && forallb (fun n => match find_col n cols with Some c => supports_auto_increment (c_type c) | None => false end) pkc)%bool
  then [] else [pkc].
Proof.
  unfold table_pks. revert a pkc. induction cs as [|x cs IH]; intros a pkc H; cbn [filter] in H; [discriminate|].
  cbn [flat_map]. destruct x as [a' c'| | | |]; cbn [is_pk] in H; try (rewrite (IH _ _ H); reflexivity).
  injection H as -> -> H.
  assert (E : forall cols', flat_map (fun k => match k with
                | CPrimaryKey auto pk_cols =>
                    if (auto && forallb (fun n => match find_col n cols' with Some c => supports_auto_increment (c_type c) | None => false end) pk_cols)%bool
                    then [] else [pk_cols]
                | _ => [] end) cs = []).
  { intro cols'. clear -H. induction cs as [|x cs IH]; [reflexivity|]. cbn [filter flat_map] in *.
    destruct x; cbn [is_pk] in H; try discriminate; cbn [app]; now apply IH. }
  rewrite E. now rewrite app_nil_r.
Qed.

Lemma table_fks_filter p cs : (forall k, is_fk k = true -> p k = true) -> table_fks (filter p cs) = table_fks cs.
Proof.
  intro H. unfold table_fks. induction cs as [|k cs IH]; [reflexivity|]. cbn [filter flat_map].
  destruct (p k) eqn:E; cbn [flat_map]; [now rewrite IH|].
  destruct k as [| |nm co rt rc od ou| |]; try exact IH.
  pose proof (H (CForeignKey nm co rt rc od ou) eq_refl). congruence.
Qed.

Lemma filter_pk_not_unique cs : filter is_pk (filter (fun k => negb (is_unique k)) cs) = filter is_pk cs.
Proof.
  induction cs as [|k cs IH]; [reflexivity|]. cbn [filter]. destruct k; cbn [is_unique negb filter is_pk]; now rewrite ?IH.
Qed.

Lemma existsb_pk_filter cs : existsb is_pk cs = nonempty (filter is_pk cs).
Proof. induction cs as [|k cs IH]; [reflexivity|]. cbn [existsb filter]. destruct (is_pk k); [reflexivity|exact IH]. Qed.

Lemma mem_str_single x p : mem_str x [p] = String.eqb x p.
Proof. unfold mem_str. cbn [existsb]. now rewrite Bool.orb_false_r. Qed.

Lemma all_checks_no_explicit t cols cs : explicit_checks cs = [] -> all_checks t cols cs = enum_checks t cols.
Proof. unfold all_checks. now intros ->. Qed.

(* position of a name among distinct names: only the column called p is at position 1 of [p] *)
Lemma position_single x p : position_ci x [p] 1 = if ieq p x then 1 else 0.
Proof. reflexivity. Qed.

Lemma filter_pk_none cs : filter is_pk cs = [] -> find is_pk cs = None.
Proof.
  induction cs as [|x cs IH]; cbn [filter find]; [reflexivity|]. destruct (is_pk x); [discriminate|exact IH].
Qed.
Lemma auto_cols_none cs : filter is_pk cs = [] -> auto_increment_columns cs = [].
Proof.
  unfold auto_increment_columns. induction cs as [|x cs IH]; [reflexivity|]. cbn [filter flat_map].
  destruct x; cbn [is_pk]; try discriminate; intro H; cbn [app]; now apply IH.
Qed.
Lemma table_pks_none cols cs : filter is_pk cs = [] -> table_pks cols cs = [].
Proof.
  unfold table_pks. induction cs as [|x cs IH]; [reflexivity|]. cbn [filter flat_map].
  destruct x; cbn [is_pk]; try discriminate; intro H; cbn [app]; now apply IH.
Qed.

(* ---------- the entry a CREATE TABLE of the generator builds is the believed entry ----------
   [used] is the constraint list handed to build_create_table_for_backend (all constraints for a temp table, the
   non-unique ones for CREATE TABLE): only its primary keys and foreign keys matter *)
Lemma entry_believed : forall t n scols used checks,
  t_name n = t ->
  pk_sane n = true ->
  filter is_pk used = filter is_pk (t_constraints n) ->
  table_fks used = table_fks (t_constraints n) ->
  checks = all_checks t (t_columns n) (t_constraints n) ->
  map_option (gen_coldef (existsb is_pk used) (auto_increment_columns used)) (t_columns n) = Some scols ->
  table_of_create t scols (table_pks (t_columns n) used) (table_fks used) checks = table_entry n.
Proof.
  intros t n scols tcs checks Hname Hsane Hfp Hfk Hck Hmap.
  unfold pk_sane in Hsane. apply andb_prop in Hsane as [Hnd Hpk].
  rewrite Hfk. unfold table_entry, table_of_create. rewrite Hck, Hname.
  destruct (filter is_pk (t_constraints n)) as [|k1 rest1] eqn:Ef.
  { (* no primary key: nothing is a key column, neither in the statement nor in the believed entry *)
    assert (Hpkof : pk_of n = None) by (unfold pk_of; now rewrite (filter_pk_none _ Ef)).
    rewrite Hpkof, (table_pks_none _ _ Hfp).
    rewrite (auto_cols_none _ Hfp) in Hmap.
    assert (Hhas : existsb is_pk tcs = false) by (rewrite existsb_pk_filter, Hfp; reflexivity).
    rewrite Hhas in Hmap. apply map_option_forall2 in Hmap. unfold no_inline_pk in Hpk.
    assert (Hcols : filter sc_pk scols = [] /\ existsb sc_autoinc scols = false
                    /\ map (fun c => mkCCol (sc_name c) (sc_type c) (sc_notnull c) (norm_default (sc_default c)) 0) scols
                       = map (fun c => mkCCol (c_name c)
                                         (match render_type (c_type c) false with Some ty => ty | None => "?" end)
                                         (negb (c_nullable c)) (norm_default (column_default_text c)) 0) (t_columns n)).
    { clear -Hmap Hpk. induction Hmap as [|c sc cols scs Hc Hrest IH]; [repeat split; reflexivity|].
      cbn [forallb] in Hpk. apply andb_prop in Hpk as [Hp1 Hp2]. destruct (IH Hp2) as (I1 & I2 & I3).
      unfold gen_coldef in Hc. cbn [mem_str existsb andb] in Hc.
      destruct (c_primary_key c); [discriminate|]. cbn [andb orb] in Hc.
      destruct (render_type (c_type c) false) eqn:R; [|discriminate]. injection Hc as <-.
      cbn [filter sc_pk existsb sc_autoinc orb map sc_name sc_type sc_notnull sc_default]. rewrite I1, I2, I3, R. repeat split; reflexivity. }
    destruct Hcols as (Hf0 & Ha0 & Hc0). rewrite Hf0, Ha0. cbn [map andb position_ci].
    f_equal. exact Hc0. }
  destruct k1 as [a pkc| | | |]; destruct rest1 as [|k2 rest]; try discriminate;
    try (destruct a as [|]; [destruct pkc as [|? [|? ?]]|]; discriminate).
  pose proof (filter_pk_find _ _ Ef) as Hfind.
  assert (Hpkof : pk_of n = Some (a, pkc)) by (unfold pk_of; now rewrite Hfind).
  rewrite Hpkof.
  assert (Haut : auto_increment_columns tcs = if a then pkc else []) by (apply auto_cols_single; exact Hfp).
  assert (Hhas : existsb is_pk tcs = true) by (rewrite existsb_pk_filter, Hfp; reflexivity).
  rewrite Haut, Hhas in Hmap.
  rewrite (table_pks_single _ _ a pkc) by exact Hfp.
  apply map_option_forall2 in Hmap.
  destruct a.
  - (* AUTOINCREMENT: a single supporting column p *)
    destruct pkc as [|p [|p2 pr]]; try discriminate.
    destruct (find_col p (t_columns n)) as [pc|] eqn:Fp; [|discriminate].
    cbn [forallb andb]. rewrite Fp, Hpk. cbn [andb].
    assert (Hin : exists c, In c (t_columns n) /\ c_name c = p /\ supports_auto_increment (c_type c) = true).
    { exists pc. unfold find_col in Fp. apply find_some in Fp as [H1 H2]. apply String.eqb_eq in H2. auto. }
    (* columns, the autoincrement flag and the inline key *)
    assert (Hcols : map (fun c => mkCCol (sc_name c) (sc_type c) (sc_notnull c) (norm_default (sc_default c))
                                         (position_ci (sc_name c) (map sc_name (filter sc_pk scols)) 1)) scols
                    = map (fun c => mkCCol (c_name c)
                                      (match render_type (c_type c) (true && mem_str (c_name c) [p])%bool with Some ty => ty | None => "?" end)
                                      (negb (c_nullable c)) (norm_default (column_default_text c)) (position_ci (c_name c) [p] 1)) (t_columns n)
                    /\ existsb sc_autoinc scols = true).
    { (* the inline primary-key columns are exactly [p] *)
      assert (Hinl : map sc_name (filter sc_pk scols) = [p] /\ existsb sc_autoinc scols = true).
      { revert Hnd Hin. clear -Hmap.
        induction Hmap as [|c sc cols scs Hc Hrest IH]; intros Hnd (pc & Hin & Hn & Hs); [destruct Hin|].
        cbn [map nodup_names] in Hnd. apply andb_prop in Hnd as [Hnot Hnd].
        unfold gen_coldef in Hc. rewrite mem_str_single in Hc.
        destruct (render_type (c_type c) _) eqn:R; [|discriminate]. injection Hc as <-.
        cbn [filter sc_pk sc_autoinc existsb map sc_name].
        destruct Hin as [->|Hin].
        - (* this is column p *)
          rewrite Hn, String.eqb_refl, Hs. cbn [andb orb negb]. rewrite Bool.orb_true_r.
          assert (filter sc_pk scs = []).
          { clear -Hrest Hnot Hn. rewrite Hn in Hnot. induction Hrest as [|c sc cols scs Hc Hrest IH]; [reflexivity|].
            cbn [map mem_str existsb] in Hnot. unfold mem_str in *. cbn [existsb] in Hnot.
            apply Bool.negb_true_iff, Bool.orb_false_iff in Hnot as [H1 H2].
            unfold gen_coldef in Hc. rewrite mem_str_single in Hc. destruct (render_type _ _); [|discriminate]. injection Hc as <-.
            cbn [filter sc_pk negb]. rewrite String.eqb_sym, H1, Bool.andb_false_r. cbn [andb orb]. apply IH. now rewrite H2. }
          rewrite H. split; reflexivity.
        - (* p is further down: this column is not p *)
          assert (String.eqb (c_name c) p = false).
          { destruct (String.eqb (c_name c) p) eqn:E; [|reflexivity]. apply String.eqb_eq in E.
            exfalso. apply Bool.negb_true_iff in Hnot. assert (mem_str (c_name c) (map c_name cols) = true).
            { unfold mem_str. apply existsb_exists. exists (c_name pc). split; [now apply in_map|]. rewrite Hn, E. apply String.eqb_refl. }
            congruence. }
          rewrite H. cbn [andb orb negb]. rewrite Bool.andb_false_r. cbn [orb].
          destruct (IH Hnd (ex_intro _ pc (conj Hin (conj Hn Hs)))) as [I1 I2]. rewrite I1, I2.
          split; reflexivity. }
      destruct Hinl as [Hinl Hauto]. rewrite Hinl. split; [|exact Hauto].
      clear -Hmap. induction Hmap as [|c sc cols scs Hc Hrest IH]; [reflexivity|]. cbn [map]. rewrite IH. f_equal.
      unfold gen_coldef in Hc. rewrite mem_str_single in Hc. cbn [andb]. rewrite mem_str_single.
      destruct (String.eqb (c_name c) p) eqn:E.
      - (* render_type only looks at the flag for BigInt, which supports auto increment *)
        cbn [andb] in Hc.
        assert (R : render_type (c_type c) true = render_type (c_type c) (supports_auto_increment (c_type c))).
        { destruct (c_type c) as [[]| | | | |]; reflexivity. }
        rewrite R. destruct (render_type (c_type c) (supports_auto_increment (c_type c))); [|discriminate].
        injection Hc as <-. reflexivity.
      - cbn [andb] in Hc. destruct (render_type (c_type c) false); [|discriminate]. injection Hc as <-. reflexivity. }
    destruct Hcols as [-> ->]. reflexivity.
  - (* plain primary key: a table-level PRIMARY KEY clause *)
    cbn [andb].
    assert (Hcols : map (fun c => mkCCol (sc_name c) (sc_type c) (sc_notnull c) (norm_default (sc_default c)) (position_ci (sc_name c) pkc 1)) scols
                    = map (fun c => mkCCol (c_name c)
                                      (match render_type (c_type c) (false && mem_str (c_name c) pkc)%bool with Some ty => ty | None => "?" end)
                                      (negb (c_nullable c)) (norm_default (column_default_text c)) (position_ci (c_name c) pkc 1)) (t_columns n)
                    /\ existsb sc_autoinc scols = false).
    { clear -Hmap. induction Hmap as [|c sc cols scs Hc Hrest IH]; [split; reflexivity|].
      destruct IH as [I1 I2]. cbn [map existsb andb] in *.
      unfold gen_coldef in Hc. cbn [mem_str existsb andb] in Hc.
      destruct (render_type (c_type c) false) eqn:R; [|discriminate]. injection Hc as <-.
      cbn [sc_name sc_type sc_notnull sc_default sc_autoinc orb andb]. rewrite I1, I2. split; reflexivity. }
    destruct Hcols as [-> ->]. reflexivity.
Qed.

Lemma create_entry_believed : forall t n scols,
  t_name n = t ->
  pk_sane n = true ->
  explicit_checks (t_constraints n) = [] ->
  map_option (gen_coldef (existsb is_pk (filter (fun k => negb (is_unique k)) (t_constraints n)))
                         (auto_increment_columns (filter (fun k => negb (is_unique k)) (t_constraints n)))) (t_columns n) = Some scols ->
  table_of_create t scols (table_pks (t_columns n) (filter (fun k => negb (is_unique k)) (t_constraints n)))
                  (table_fks (filter (fun k => negb (is_unique k)) (t_constraints n))) (enum_checks t (t_columns n))
  = table_entry n.
Proof.
  intros t n scols Hname Hsane Hchk Hmap. apply entry_believed; try assumption.
  - apply filter_pk_not_unique.
  - apply table_fks_filter. intros k Hk; destruct k; try discriminate; reflexivity.
  - symmetry. now apply all_checks_no_explicit.
Qed.

(* ---------- index statements of CREATE TABLE: uniques first, then indexes — a permutation of the believed entries ---------- *)
Lemma index_stmts_specs t : forall cs,
  flat_map (index_stmt t) cs = map (index_stmt_of t) (specs_of t (flat_map (index_stmt t) cs)).
Proof.
  assert (FC : forall A B (f : A -> list B) k l, flat_map f (k :: l) = f k ++ flat_map f l) by reflexivity.
  unfold specs_of. induction cs as [|k cs IH]; [reflexivity|].
  rewrite !(FC _ _ _ k cs), flat_map_app, map_app. f_equal; [|exact IH].
  destruct k; reflexivity.
Qed.

Lemma index_entries_of_stmts t : forall cs,
  map (index_of_spec t) (specs_of t (flat_map (index_stmt t) cs))
  = flat_map (fun k => match k with
                       | CIndex n cols => [mkCIndex (build_index_name t cols n) t false cols]
                       | CUnique n cols => [mkCIndex (build_unique_constraint_name t cols n) t true cols]
                       | _ => []
                       end) cs.
Proof.
  assert (FC : forall A B (f : A -> list B) k l, flat_map f (k :: l) = f k ++ flat_map f l) by reflexivity.
  unfold specs_of. induction cs as [|k cs IH]; [reflexivity|].
  rewrite !(FC _ _ _ k cs), flat_map_app, map_app. f_equal; [|exact IH].
  destruct k; reflexivity.
Qed.

Lemma uniques_then_indexes_perm {B} (f : table_constraint -> list B) : forall cs,
  (forall k, is_unique k = false -> is_index k = false -> f k = []) ->
  Permutation (flat_map f (filter is_unique cs) ++ flat_map f (filter is_index cs)) (flat_map f cs).
Proof.
  intros cs Hf. induction cs as [|k cs IH]; [apply Permutation_refl|].
  cbn [filter flat_map].
  destruct (is_unique k) eqn:U, (is_index k) eqn:I.
  - destruct k; discriminate.
  - cbn [flat_map]. rewrite <- app_assoc. now apply Permutation_app_head.
  - cbn [flat_map].
    eapply Permutation_trans; [apply Permutation_app_swap_app|]. now apply Permutation_app_head.
  - rewrite (Hf k U I). exact IH.
Qed.

(* ---------- sim_sqlite_create_table ---------- *)
Theorem sim_sqlite_create_table : forall fk s c t cols cs n l c',
  Sim s c ->
  normalize (mkTable t None cols cs) = Ok n ->
  explicit_checks (t_constraints n) = [] ->           (* outside the class of known_C02_explicit_check *)
  pk_sane n = true ->                                  (* A2, A5 *)
  gen_create_table t cols cs = GOk l ->
  exec_all fk c l 0 = Ok c' ->
  Sim (s ++ [n]) c'.
Proof.
  intros fk s c t cols cs n l c' [Ht Hi] Hn Hchk Hsane Hgen Hrun.
  unfold gen_create_table in Hgen. rewrite Hn in Hgen.
  assert (Hname : t_name n = t).
  { unfold normalize in Hn. cbn [t_columns t_constraints] in Hn. destruct (normalize_constraints cols cs); [|discriminate].
    now injection Hn as <-. }
  unfold create_table_stmt in Hgen.
  destruct (map_option _ (t_columns n)) as [scols|] eqn:Hmap.
  2:{ destruct (enum_checks t (t_columns n)); discriminate. }
  injection Hgen as <-.
  cbn [exec_all] in Hrun.
  destruct (exec fk c (SCreateTable t scols _ _ _)) as [c1|] eqn:E1; [|discriminate].
  apply exec_create_cat in E1 as (T1 & ->).
  rewrite (create_entry_believed t n scols Hname Hsane Hchk Hmap) in Hrun.
  rewrite <- flat_map_app in Hrun.
  assert (Hspec : flat_map (index_stmt t) (filter is_unique (t_constraints n)) ++ flat_map (index_stmt t) (filter is_index (t_constraints n))
                  = flat_map (index_stmt t) (filter is_unique (t_constraints n) ++ filter is_index (t_constraints n)))
    by (now rewrite flat_map_app).
  rewrite flat_map_app in Hrun. rewrite Hspec, index_stmts_specs in Hrun.
  assert (Hnone : find (fun x => ieq (ct_name x) t) (cat_tables c) = None).
  { unfold name_taken in T1. apply Bool.orb_false_iff in T1 as [T1 _]. unfold has_ctable, find_ctable in T1.
    now destruct (find (fun t0 => ieq (ct_name t0) t) (cat_tables c)). }
  eapply exec_indexes in Hrun; [|exact Hnone|unfold table_entry; destruct (pk_of n) as [[? ?]|]; exact Hname].
  subst c'. split; cbn [cat_tables cat_indexes].
  - rewrite map_app. cbn [map]. now apply Permutation_app_tail.
  - rewrite (flat_map_app index_entries s [n]). cbn [flat_map]. rewrite app_nil_r.
    apply Permutation_app; [exact Hi|].
    rewrite ?Hspec. rewrite index_entries_of_stmts, flat_map_app. unfold index_entries. rewrite Hname.
    apply (uniques_then_indexes_perm (fun k => match k with
             | CIndex n0 cols0 => [mkCIndex (build_index_name t cols0 n0) t false cols0]
             | CUnique n0 cols0 => [mkCIndex (build_unique_constraint_name t cols0 n0) t true cols0]
             | _ => [] end)).
    intros k U I. destruct k; try reflexivity; discriminate.
Qed.
