(* SQLITE layer, C14: the whole generator is equivariant under the literal renaming of the project:
     gen_plan (literal_schema p s) (map (literal_action p) acts) = map (map (rename_stmt p chk)) (gen_plan s acts)
   under decidable side conditions (no user-chosen CHECK name looks like a derived one, no table named *_temp, M1's
   side condition of apply_equivariant).  Builds on VV.M1's PrefixP / PrefixApplyP. *)
From Coq Require Import Lia.
From VV.M1 Require Import Validate Oracles PrefixHyp PrefixStrP PrefixP PrefixDiffP PrefixApplyP.
From VV.SQLITE Require Import Corr Known Prefix NamesP.

Local Notation lit_c := literal_constraint.
Local Notation lit_col := literal_col.

(* ---------- columns ---------- *)
Lemma column_default_text_literal p c : column_default_text (lit_col p c) = column_default_text c.
Proof. reflexivity. Qed.
Lemma gen_coldef_literal p h a c : gen_coldef h a (lit_col p c) = gen_coldef h a c.
Proof. reflexivity. Qed.
Lemma gen_add_coldef_literal p c : gen_add_coldef (lit_col p c) = gen_add_coldef c.
Proof. reflexivity. Qed.
Lemma map_option_literal p h a : forall cols,
  map_option (gen_coldef h a) (map (lit_col p) cols) = map_option (gen_coldef h a) cols.
Proof. induction cols as [|c cols IH]; [reflexivity|]. cbn [map map_option]. now rewrite gen_coldef_literal, IH. Qed.
Lemma col_names_literal p cols : col_names (map (lit_col p) cols) = col_names cols.
Proof. unfold col_names. rewrite map_map. reflexivity. Qed.
Lemma copy_all_literal p cols : copy_all (map (lit_col p) cols) = copy_all cols.
Proof. unfold copy_all. rewrite map_map. reflexivity. Qed.
Lemma find_col_literal p n cols : find_col n (map (lit_col p) cols) = option_map (lit_col p) (find_col n cols).
Proof. unfold find_col. induction cols as [|c cols IH]; [reflexivity|]. cbn [map find]. rewrite lc_name. destruct (String.eqb (c_name c) n); [reflexivity|exact IH]. Qed.

Lemma forallb_ext_local {A} (f g : A -> bool) l : (forall x, f x = g x) -> forallb f l = forallb g l.
Proof. intro H. induction l as [|x l IH]; [reflexivity|]. cbn [forallb]. now rewrite H, IH. Qed.

(* ---------- constraints ---------- *)
Lemma is_pk_literal p k : is_pk (lit_c p k) = is_pk k. Proof. now destruct k. Qed.
Lemma is_unique_literal p k : is_unique (lit_c p k) = is_unique k. Proof. now destruct k. Qed.
Lemma is_index_literal p k : is_index (lit_c p k) = is_index k. Proof. now destruct k. Qed.
Lemma constraint_columns_literal p k : constraint_columns (lit_c p k) = constraint_columns k. Proof. now destruct k. Qed.

Lemma existsb_pk_literal p cs : existsb is_pk (map (lit_c p) cs) = existsb is_pk cs.
Proof. rewrite existsb_map. apply existsb_ext_in. intros k _. apply is_pk_literal. Qed.
Lemma auto_cols_literal p cs : auto_increment_columns (map (lit_c p) cs) = auto_increment_columns cs.
Proof. unfold auto_increment_columns. rewrite flat_map_map. apply flat_map_ext_in. intros k _. now destruct k. Qed.
Lemma table_pks_literal p cols cs : table_pks (map (lit_col p) cols) (map (lit_c p) cs) = table_pks cols cs.
Proof.
  unfold table_pks. rewrite flat_map_map. apply flat_map_ext_in. intros k _. destruct k; try reflexivity.
  cbn [lit_c].
  assert (E : forallb (fun n => match find_col n (map (lit_col p) cols) with Some c => supports_auto_increment (c_type c) | None => false end) columns
              = forallb (fun n => match find_col n cols with Some c => supports_auto_increment (c_type c) | None => false end) columns).
  { apply forallb_ext_local. intros n. rewrite find_col_literal. destruct (find_col n cols); reflexivity. }
  now rewrite E.
Qed.
Lemma table_fks_literal p cs : table_fks (map (lit_c p) cs) = map (rename_fk p) (table_fks cs).
Proof. unfold table_fks. rewrite flat_map_map, map_flat_map. apply flat_map_ext_in. intros k _. now destruct k. Qed.
Lemma explicit_checks_literal p cs : explicit_checks (map (lit_c p) cs) = explicit_checks cs.
Proof. unfold explicit_checks. rewrite flat_map_map. apply flat_map_ext_in. intros k _. now destruct k. Qed.
Lemma filter_literal p (q : table_constraint -> bool) cs : (forall k, q (lit_c p k) = q k) ->
  filter q (map (lit_c p) cs) = map (lit_c p) (filter q cs).
Proof. intro H. rewrite filter_map_comm. f_equal. apply filter_ext. exact H. Qed.

Lemma filter_literal2 p (q q' : table_constraint -> bool) cs : (forall k, q' (lit_c p k) = q k) ->
  filter q' (map (lit_c p) cs) = map (lit_c p) (filter q cs).
Proof. intro H. induction cs as [|k cs IH]; [reflexivity|]. cbn [map filter]. rewrite H. destruct (q k); cbn [map]; now rewrite IH. Qed.

(* ---------- CHECK clauses ---------- *)
Definition chkN (p t : string) (names : list string) (k : string * string) : string * string :=
  if existsb (fun c => String.eqb (fst k) (build_check_constraint_name t c)) names
  then (rename_check_name p (fst k), snd k) else k.

Lemma chk_by_columns_names p n scols k :
  chk_by_columns p n scols k = chkN p (base_table n) (map sc_name scols) k.
Proof. unfold chk_by_columns, chkN. now rewrite existsb_map. Qed.

(* a user-chosen CHECK name is no derived enum CHECK name of the table, plain or prefixed *)
Definition explicit_name_ok (p t : string) (names : list string) (k : string * string) : bool :=
  negb (existsb (fun c => (String.eqb (fst k) (build_check_constraint_name t c)
                           || String.eqb (fst k) (build_check_constraint_name (p +++ t) c))%bool) names).
Definition checks_ok (p t : string) (names : list string) (cs : list table_constraint) : bool :=
  forallb (explicit_name_ok p t names) (explicit_checks cs).

Lemma explicit_ok_fix p t names k : explicit_name_ok p t names k = true -> chkN p t names k = k.
Proof.
  unfold explicit_name_ok, chkN. intro H. apply Bool.negb_true_iff in H.
  assert (E : existsb (fun c => String.eqb (fst k) (build_check_constraint_name t c)) names = false).
  { induction names as [|c names IH]; [reflexivity|]. cbn [existsb] in *. apply Bool.orb_false_iff in H as [H1 H2].
    apply Bool.orb_false_iff in H1 as [H1 _]. now rewrite H1, IH. }
  now rewrite E.
Qed.

Lemma enum_check_literal p t names c : In (c_name c) names ->
  enum_check (p +++ t) (lit_col p c) = map (chkN p t names) (enum_check t c).
Proof.
  intro Hin. unfold enum_check. rewrite lc_type, lc_name. destruct (c_type c); try reflexivity.
  cbn [map]. unfold chkN. cbn [fst snd].
  assert (E : existsb (fun c0 => String.eqb (build_check_constraint_name t (c_name c)) (build_check_constraint_name t c0)) names = true).
  { apply existsb_exists. exists (c_name c). split; [exact Hin|apply String.eqb_refl]. }
  now rewrite E, rename_check_name_enum.
Qed.

Lemma enum_checks_literal p t names cols : incl (map c_name cols) names ->
  enum_checks (p +++ t) (map (lit_col p) cols) = map (chkN p t names) (enum_checks t cols).
Proof.
  unfold enum_checks. induction cols as [|c cols IH]; intro H; [reflexivity|]. cbn [map flat_map].
  rewrite map_app, <- IH by (intros x Hx; apply H; now right).
  f_equal. apply enum_check_literal. apply H. now left.
Qed.

(* elements of the accumulator: derived enum clauses of the table, or user clauses that pass explicit_name_ok *)
Definition enum_like (t : string) (names : list string) (x : string * string) : Prop :=
  exists c, In c names /\ fst x = build_check_constraint_name t c.

Lemma check_eqb_chkN p t names k x :
  explicit_name_ok p t names k = true ->
  (enum_like t names x \/ explicit_name_ok p t names x = true) ->
  check_eqb k (chkN p t names x) = check_eqb k x.
Proof.
  intros Hk [ (c & Hc & Hx) | Hx ]; [|now rewrite (explicit_ok_fix _ _ _ _ Hx)].
  unfold explicit_name_ok in Hk. apply Bool.negb_true_iff in Hk.
  assert (N : String.eqb (fst k) (build_check_constraint_name t c) = false /\ String.eqb (fst k) (build_check_constraint_name (p +++ t) c) = false).
  { clear -Hk Hc. induction names as [|y names IH]; [contradiction|]. cbn [existsb] in Hk. apply Bool.orb_false_iff in Hk as [H1 H2].
    destruct Hc as [->|Hc]; [now apply Bool.orb_false_iff in H1|now apply IH]. }
  destruct N as [N1 N2].
  unfold chkN. assert (E : existsb (fun c0 => String.eqb (fst x) (build_check_constraint_name t c0)) names = true).
  { apply existsb_exists. exists c. split; [exact Hc|]. rewrite Hx. apply String.eqb_refl. }
  rewrite E. unfold check_eqb. cbn [fst snd]. rewrite Hx, rename_check_name_enum, N1, N2. reflexivity.
Qed.

Lemma dedupe_literal p t names : forall expl acc,
  (forall k, In k expl -> explicit_name_ok p t names k = true) ->
  (forall x, In x acc -> enum_like t names x \/ explicit_name_ok p t names x = true) ->
  fold_left (fun a k => if existsb (check_eqb k) a then a else a ++ [k]) expl (map (chkN p t names) acc)
  = map (chkN p t names) (fold_left (fun a k => if existsb (check_eqb k) a then a else a ++ [k]) expl acc).
Proof.
  induction expl as [|k expl IH]; intros acc He Ha; [reflexivity|]. cbn [fold_left].
  assert (Hk : explicit_name_ok p t names k = true) by (apply He; now left).
  assert (E : existsb (check_eqb k) (map (chkN p t names) acc) = existsb (check_eqb k) acc).
  { rewrite existsb_map. apply existsb_ext_in. intros x Hx. apply check_eqb_chkN; auto. }
  rewrite E. destruct (existsb (check_eqb k) acc).
  - apply IH; [intros; apply He; now right|exact Ha].
  - assert (M : map (chkN p t names) acc ++ [k] = map (chkN p t names) (acc ++ [k])).
    { rewrite map_app. cbn [map]. now rewrite (explicit_ok_fix p t names k Hk). }
    rewrite M.
    apply IH; [intros; apply He; now right|].
    intros x Hx. apply in_app_or in Hx as [Hx|[<-|[]]]; [now apply Ha|now right].
Qed.

Lemma all_checks_literal p t names cols cs :
  incl (map c_name cols) names -> checks_ok p t names cs = true ->
  all_checks (p +++ t) (map (lit_col p) cols) (map (lit_c p) cs) = map (chkN p t names) (all_checks t cols cs).
Proof.
  intros Hincl Hok. unfold all_checks. rewrite explicit_checks_literal, (enum_checks_literal p t names cols Hincl).
  apply dedupe_literal.
  - unfold checks_ok in Hok. rewrite forallb_forall in Hok. exact Hok.
  - intros x Hx. left. unfold enum_checks in Hx. apply in_flat_map in Hx as (c & Hc & Hx).
    unfold enum_check in Hx. destruct (c_type c); try contradiction. destruct Hx as [<-|[]].
    exists (c_name c). split; [apply Hincl; now apply in_map|reflexivity].
Qed.

(* ---------- base_table ---------- *)
Lemma append_length_local : forall a b, String.length (a +++ b) = String.length a + String.length b.
Proof. induction a as [|x a IH]; intro b; cbn [String.append String.length]; [reflexivity|now rewrite IH]. Qed.
Lemma rev_string_acc_app : forall s a, rev_string_acc s a = rev_string_acc s "" +++ a.
Proof.
  induction s as [|c s IH]; intro a; cbn [rev_string_acc]; [reflexivity|].
  rewrite IH, (IH (String c "")). now rewrite NamesP.append_assoc.
Qed.
Lemma rev_string_app a b : rev_string (a +++ b) = rev_string b +++ rev_string a.
Proof.
  unfold rev_string. revert b. induction a as [|c a IH]; intro b; cbn [String.append rev_string_acc].
  - induction (rev_string_acc b "") as [|x r IHr]; [reflexivity|]. cbn [String.append]. now rewrite <- IHr.
  - rewrite rev_string_acc_app, IH, (rev_string_acc_app a (String c "")). now rewrite NamesP.append_assoc.
Qed.
Lemma starts_with_app a b : starts_with a (a +++ b) = true.
Proof. induction a as [|c a IH]; [reflexivity|]. cbn [String.append starts_with]. now rewrite Ascii.eqb_refl. Qed.
Lemma ends_with_temp t : ends_with "_temp" (temp_name t) = true.
Proof. unfold ends_with, temp_name. rewrite rev_string_app. apply starts_with_app. Qed.
Lemma str_take_app a b : str_take (String.length a) (a +++ b) = a.
Proof.
  unfold str_take. induction a as [|c a IH]; cbn [String.length String.append String.substring].
  - now destruct b.
  - now rewrite IH.
Qed.
Lemma base_table_temp t : base_table (temp_name t) = t.
Proof.
  unfold base_table. rewrite ends_with_temp. unfold temp_name at 1. rewrite append_length_local. cbn [String.length].
  replace (String.length t + 5 - 5) with (String.length t) by lia. apply str_take_app.
Qed.

(* ---------- statements ---------- *)
Definition R (p : string) : stmt -> stmt := rename_stmt p (chk_by_columns p).
Definition lift_gen (p : string) (o : gen_out) : gen_out := match o with GOk l => GOk (map (R p) l) | x => x end.

Lemma scols_names h a : forall cols scols, map_option (gen_coldef h a) cols = Some scols -> map sc_name scols = map c_name cols.
Proof.
  induction cols as [|c cols IH]; intros scols H; cbn [map_option] in H.
  - now injection H as <-.
  - destruct (gen_coldef h a c) as [sc|] eqn:E; [|discriminate]. destruct (map_option (gen_coldef h a) cols) as [r|]; [|discriminate].
    injection H as <-. cbn [map]. rewrite (IH r eq_refl). f_equal.
    unfold gen_coldef in E. destruct (render_type _ _); [|discriminate]. now injection E as <-.
Qed.

Lemma create_stmt_literal p n t cols cs checks : base_table n = t ->
  create_table_stmt (p +++ n) (map (lit_col p) cols) (map (lit_c p) cs) (map (chkN p t (map c_name cols)) checks)
  = option_map (R p) (create_table_stmt n cols cs checks).
Proof.
  intro Hb. unfold create_table_stmt. rewrite existsb_pk_literal, auto_cols_literal, map_option_literal.
  destruct (map_option _ cols) as [scols|] eqn:E; [|reflexivity]. cbn [option_map R rename_stmt].
  rewrite table_pks_literal, table_fks_literal. f_equal. f_equal.
  apply map_ext. intro k. now rewrite chk_by_columns_names, Hb, (scols_names _ _ _ _ E).
Qed.

Lemma index_stmts_literal p t cs :
  flat_map (index_stmt (p +++ t)) (map (lit_c p) cs) = map (R p) (flat_map (index_stmt t) cs).
Proof.
  rewrite flat_map_map, map_flat_map. apply flat_map_ext_in. intros k _. apply index_stmt_prefix.
Qed.

Lemma rebuild_literal p t nc ncs dst exprs ics pend before :
  checks_ok p t (map c_name nc) ncs = true ->
  rebuild (p +++ t) (map (lit_col p) nc) (map (lit_c p) ncs) dst exprs (map (lit_c p) ics) (map (lit_c p) pend) (map (R p) before)
  = lift_gen p (rebuild t nc ncs dst exprs ics pend before).
Proof.
  intro Hok. unfold rebuild, temp_table_create.
  rewrite (all_checks_literal p t (map c_name nc) nc ncs (incl_refl _) Hok).
  rewrite temp_name_prefix, (create_stmt_literal p (temp_name t) t nc ncs _ (base_table_temp t)).
  destruct (create_table_stmt (temp_name t) nc ncs (all_checks t nc ncs)) as [ct|]; cbn [option_map].
  - cbn [lift_gen]. f_equal. rewrite !map_app. cbn [map]. f_equal. f_equal.
    + unfold copy_stmt, R. cbn [rename_stmt]. now rewrite temp_name_prefix.
    + f_equal. f_equal. apply recreate_indexes_prefix.
  - destruct (all_checks t nc ncs); reflexivity.
Qed.

Lemma find_table_literal p t s : find_table (p +++ t) (literal_schema p s) = option_map (literal_table p) (find_table t s).
Proof.
  unfold find_table. induction s as [|x s IH]; [reflexivity|]. cbn [literal_schema map find].
  change (t_name (literal_table p x)) with (p +++ t_name x). rewrite eqb_prefix.
  destruct (String.eqb (t_name x) t); [reflexivity|exact IH].
Qed.

(* ---------- the side condition of one step ---------- *)
(* the (table, new columns, new constraints) of the rebuild a builder performs *)
Definition rebuild_inputs (s : schema) (a : action) : option (string * list column_def * list table_constraint) :=
  let on t f := match find_table t s with Some td => f td | None => None end in
  match a with
  | AddColumn t c _ => on t (fun td => Some (t, t_columns td ++ [c], t_constraints td))
  | DeleteColumn t col =>
      on t (fun td => Some (t, filter (fun c => negb (String.eqb (c_name c) col)) (t_columns td),
                            filter (fun k => match k with CCheck _ e => negb (check_mentions col e)
                                                       | _ => negb (mem_str col (constraint_columns k)) end) (t_constraints td)))
  | ModifyColumnType t col ty _ =>
      on t (fun td => match update_first_col col (set_type ty) (t_columns td) with
                      | Some nc => Some (t, nc, t_constraints td) | None => None end)
  | ModifyColumnNullable t col b _ => on t (fun td => Some (t, modify_first_named col (set_nullable b) (t_columns td), t_constraints td))
  | ModifyColumnDefault t col d => on t (fun td => Some (t, modify_first_named col (set_default (option_map DStr d)) (t_columns td), t_constraints td))
  | AddConstraint t k => on t (fun td => Some (t, t_columns td, merge_constraint (t_constraints td) k))
  | RemoveConstraint t k => on t (fun td => Some (t, t_columns td, filter (keep_after_remove k) (t_constraints td)))
  | _ => None
  end.

Definition prefix_step_ok (p : string) (s : schema) (a : action) : bool :=
  (no_user_name_equals_derived p s a
   && match a with CreateTable t _ _ => negb (ends_with "_temp" t) | _ => true end
   && match rebuild_inputs s a with
      | Some (t, nc, ncs) => checks_ok p t (map c_name nc) ncs
      | None => true
      end)%bool.

Lemma base_table_plain t : ends_with "_temp" t = false -> base_table t = t.
Proof. unfold base_table. now intros ->. Qed.

(* small commutations *)
Lemma check_mentions_lit p col k :
  match lit_c p k with CCheck _ e => negb (check_mentions col e) | k' => negb (mem_str col (constraint_columns k')) end
  = match k with CCheck _ e => negb (check_mentions col e) | k' => negb (mem_str col (constraint_columns k')) end.
Proof. now destruct k. Qed.

Lemma constraints_overlap_literal p a b : constraints_overlap (lit_c p a) (lit_c p b) = constraints_overlap a b.
Proof. destruct a, b; reflexivity. Qed.
Lemma merge_aux_literal p k : forall cs b,
  merge_aux (map (lit_c p) cs) (lit_c p k) b = (map (lit_c p) (fst (merge_aux cs k b)), snd (merge_aux cs k b)).
Proof.
  induction cs as [|c cs IH]; intro b; [reflexivity|]. cbn [map merge_aux]. rewrite constraints_overlap_literal.
  destruct (constraints_overlap c k).
  - rewrite IH. destruct (merge_aux cs k true) as [o r]. cbn [fst snd]. destruct b; reflexivity.
  - rewrite IH. destruct (merge_aux cs k b) as [o r]. reflexivity.
Qed.
Lemma merge_constraint_literal p cs k :
  merge_constraint (map (lit_c p) cs) (lit_c p k) = map (lit_c p) (merge_constraint cs k).
Proof.
  unfold merge_constraint. rewrite merge_aux_literal. destruct (merge_aux cs k false) as [o r]. cbn [fst snd].
  destruct r; [reflexivity|]. rewrite map_app. reflexivity.
Qed.
Lemma keep_after_remove_literal p k c : keep_after_remove (lit_c p k) (lit_c p c) = keep_after_remove k c.
Proof. destruct k, c; reflexivity. Qed.

Lemma scan_literal p t col : forall cs acc,
  delete_column_scan (p +++ t) col (map (lit_c p) cs) (map (R p) acc)
  = match delete_column_scan t col cs acc with DcTemp => DcTemp | DcDrops l => DcDrops (map (R p) l) end.
Proof.
  induction cs as [|k cs IH]; intro acc; [reflexivity|]. cbn [map delete_column_scan].
  destruct k as [a pc|n uc|n fc rt rc od ou|n e|n ic]; cbn [lit_c constraint_columns].
  - destruct (negb (mem_str col pc)); [apply IH|reflexivity].
  - destruct (negb (mem_str col uc)); [apply IH|].
    rewrite <- rename_name_with_uq.
    change (map (R p) acc ++ [SDropIndex (rename_index_name p (build_unique_constraint_name t uc n))])
      with (map (R p) acc ++ map (R p) [SDropIndex (build_unique_constraint_name t uc n)]).
    rewrite <- map_app. apply IH.
  - destruct (negb (mem_str col fc)); [apply IH|reflexivity].
  - destruct (check_mentions col e); [reflexivity|apply IH].
  - destruct (negb (mem_str col ic)); [apply IH|].
    rewrite <- rename_name_with_ix.
    change (map (R p) acc ++ [SDropIndex (rename_index_name p (build_index_name t ic n))])
      with (map (R p) acc ++ map (R p) [SDropIndex (build_index_name t ic n)]).
    rewrite <- map_app. apply IH.
Qed.

Lemma modify_first_named_literal p col f : (forall c, f (lit_col p c) = lit_col p (f c)) ->
  forall cols, modify_first_named col f (map (lit_col p) cols) = map (lit_col p) (modify_first_named col f cols).
Proof. intros H cols. unfold modify_first_named. apply modify_first_literal; [reflexivity|exact H]. Qed.

Lemma mysql_needs_column_literal p s t col : mysql_needs_column (literal_schema p s) (p +++ t) col = mysql_needs_column s t col.
Proof.
  unfold mysql_needs_column. rewrite find_table_literal. destruct (find_table t s) as [td|]; [|reflexivity]. cbn [option_map].
  change (t_columns (literal_table p td)) with (map (lit_col p) (t_columns td)). rewrite find_col_literal.
  destruct (find_col col (t_columns td)); reflexivity.
Qed.

Lemma fill_updates_literal p t col fw : fill_updates (p +++ t) col fw = map (R p) (fill_updates t col fw).
Proof. unfold fill_updates. destruct fw; [|reflexivity]. rewrite map_map. reflexivity. Qed.

(* ---------- gen ---------- *)
Theorem gen_literal : forall p s P a, no_dot p -> prefix_step_ok p s a = true ->
  gen (literal_schema p s) (map (lit_c p) P) (literal_action p a) = lift_gen p (gen s P a).
Proof.
  intros p s P a Hp Hok. unfold prefix_step_ok in Hok. apply andb_prop in Hok as [Hok Hchk]. apply andb_prop in Hok as [_ Htemp].
  destruct a; cbn [literal_action gen]; try reflexivity.
  - (* CreateTable *)
    unfold gen_create_table.
    change (mkTable (p +++ table) None (map (lit_col p) columns) (map (lit_c p) constraints))
      with (literal_table p (mkTable table None columns constraints)).
    rewrite (normalize_literal_full p _ Hp). destruct (normalize (mkTable table None columns constraints)) as [n|]; [|reflexivity].
    change (t_columns (literal_table p n)) with (map (lit_col p) (t_columns n)).
    change (t_constraints (literal_table p n)) with (map (lit_c p) (t_constraints n)).
    rewrite !filter_literal by (intro k; now destruct k).
    rewrite (enum_checks_literal p table (map c_name (t_columns n)) (t_columns n) (incl_refl _)).
    apply Bool.negb_true_iff in Htemp.
    rewrite (create_stmt_literal p table table _ _ _ (base_table_plain _ Htemp)).
    destruct (create_table_stmt table (t_columns n) _ (enum_checks table (t_columns n))) as [ct|]; cbn [option_map].
    + cbn [lift_gen map]. f_equal. f_equal. rewrite map_app, !index_stmts_literal. reflexivity.
    + destruct (enum_checks table (t_columns n)); reflexivity.
  - (* AddColumn *)
    unfold gen_add_column. rewrite lc_nullable, lc_type, lc_name, lc_default.
    destruct (negb (c_nullable column) || is_enum_type (c_type column))%bool.
    + rewrite find_table_literal. cbn [rebuild_inputs] in Hchk. destruct (find_table table s) as [td|]; [|reflexivity]. cbn [option_map].
      change (t_columns (literal_table p td)) with (map (lit_col p) (t_columns td)).
      change (t_constraints (literal_table p td)) with (map (lit_c p) (t_constraints td)).
      rewrite col_names_literal, copy_all_literal.
      change (map (lit_col p) (t_columns td) ++ [lit_col p column]) with (map (lit_col p) (t_columns td) ++ map (lit_col p) [column]).
      rewrite <- map_app.
      apply (rebuild_literal p table (t_columns td ++ [column]) (t_constraints td) _ _ (t_constraints td) [] []). exact Hchk.
    + rewrite gen_add_coldef_literal. destruct (gen_add_coldef column); reflexivity.
  - (* DeleteColumn *)
    unfold gen_delete_column. rewrite find_table_literal. cbn [rebuild_inputs] in Hchk.
    destruct (find_table table s) as [td|]; [|reflexivity]. cbn [option_map].
    change (t_columns (literal_table p td)) with (map (lit_col p) (t_columns td)).
    change (t_constraints (literal_table p td)) with (map (lit_c p) (t_constraints td)).
    assert (Htempp : delete_column_temp (p +++ table) column (literal_table p td) = lift_gen p (delete_column_temp table column td)).
    { unfold delete_column_temp.
      change (t_columns (literal_table p td)) with (map (lit_col p) (t_columns td)).
      change (t_constraints (literal_table p td)) with (map (lit_c p) (t_constraints td)).
      rewrite (filter_map_comm (lit_col p)). rewrite filter_literal by (intro k; now destruct k).
      rewrite col_names_literal, copy_all_literal.
      apply (rebuild_literal p table _ _ _ _ _ [] []). exact Hchk. }
    rewrite find_col_literal. pose proof (scan_literal p table column (t_constraints td) []) as Hs. cbn [map] in Hs.
    destruct (find_col column (t_columns td)) as [cd|]; cbn [option_map].
    + rewrite lc_type. destruct (is_enum_type (c_type cd)); [exact Htempp|]. rewrite Hs.
      destruct (delete_column_scan table column (t_constraints td) []); [exact Htempp|].
      cbn [lift_gen]. now rewrite map_app.
    + rewrite Hs. destruct (delete_column_scan table column (t_constraints td) []); [exact Htempp|].
      cbn [lift_gen]. now rewrite map_app.
  - (* ModifyColumnType *)
    unfold gen_modify_type. rewrite find_table_literal. cbn [rebuild_inputs] in Hchk.
    destruct (find_table table s) as [td|]; [|reflexivity]. cbn [option_map].
    change (t_columns (literal_table p td)) with (map (lit_col p) (t_columns td)).
    change (t_constraints (literal_table p td)) with (map (lit_c p) (t_constraints td)).
    rewrite (update_first_col_literal p column (set_type new_type)) by (intro c; apply set_type_lc).
    destruct (update_first_col column (set_type new_type) (t_columns td)) as [nc|]; [|reflexivity]. cbn [option_map].
    rewrite col_names_literal, copy_all_literal, fill_updates_literal.
    apply (rebuild_literal p table nc (t_constraints td) _ _ (t_constraints td) []). exact Hchk.
  - (* ModifyColumnNullable *)
    unfold gen_modify_nullable. rewrite mysql_needs_column_literal. destruct (negb (mysql_needs_column s table column)); [reflexivity|].
    rewrite find_table_literal. cbn [rebuild_inputs] in Hchk. destruct (find_table table s) as [td|]; [|reflexivity]. cbn [option_map].
    change (t_columns (literal_table p td)) with (map (lit_col p) (t_columns td)).
    change (t_constraints (literal_table p td)) with (map (lit_c p) (t_constraints td)).
    rewrite (modify_first_named_literal p column (set_nullable nullable)) by (intro c; apply set_nullable_lc).
    rewrite col_names_literal, copy_all_literal.
    assert (U : (match (if nullable then None else normalize_fill_with fill_with) with
                 | Some f => [SUpdate (p +++ table) column (convert_default f) (WIsNull column)] | None => [] end)
                = map (R p) (match (if nullable then None else normalize_fill_with fill_with) with
                             | Some f => [SUpdate table column (convert_default f) (WIsNull column)] | None => [] end)).
    { destruct (if nullable then None else normalize_fill_with fill_with); reflexivity. }
    rewrite U. apply (rebuild_literal p table _ (t_constraints td) _ _ (t_constraints td) []). exact Hchk.
  - (* ModifyColumnDefault *)
    unfold gen_modify_default. rewrite mysql_needs_column_literal. destruct (negb (mysql_needs_column s table column)); [reflexivity|].
    rewrite find_table_literal. cbn [rebuild_inputs] in Hchk. destruct (find_table table s) as [td|]; [|reflexivity]. cbn [option_map].
    change (t_columns (literal_table p td)) with (map (lit_col p) (t_columns td)).
    change (t_constraints (literal_table p td)) with (map (lit_c p) (t_constraints td)).
    rewrite (modify_first_named_literal p column (set_default (option_map DStr new_default))) by (intro c; apply set_default_lc).
    rewrite col_names_literal, copy_all_literal.
    apply (rebuild_literal p table _ (t_constraints td) _ _ (t_constraints td) [] []). exact Hchk.
  - (* ModifyColumnComment *)
    unfold gen_modify_comment. rewrite mysql_needs_column_literal. destruct (negb (mysql_needs_column s table column)); reflexivity.
  - (* AddConstraint *)
    unfold gen_add_constraint.
    assert (G : match find_table (p +++ table) (literal_schema p s) with
                | Some td => rebuild (p +++ table) (t_columns td) (merge_constraint (t_constraints td) (lit_c p constraint))
                               (col_names (t_columns td)) (copy_all (t_columns td)) (t_constraints td) (map (lit_c p) P) []
                | None => GErr end
                = lift_gen p match find_table table s with
                             | Some td => rebuild table (t_columns td) (merge_constraint (t_constraints td) constraint)
                                            (col_names (t_columns td)) (copy_all (t_columns td)) (t_constraints td) P []
                             | None => GErr end).
    { rewrite find_table_literal. cbn [rebuild_inputs] in Hchk. destruct (find_table table s) as [td|]; [|reflexivity]. cbn [option_map].
      change (t_columns (literal_table p td)) with (map (lit_col p) (t_columns td)).
      change (t_constraints (literal_table p td)) with (map (lit_c p) (t_constraints td)).
      rewrite merge_constraint_literal, col_names_literal, copy_all_literal.
      apply (rebuild_literal p table (t_columns td) _ _ _ (t_constraints td) P []). exact Hchk. }
    destruct constraint; cbn [lit_c]; try exact G.
    + cbn [index_stmt lift_gen map R rename_stmt]. now rewrite rename_name_with_uq.
    + cbn [index_stmt lift_gen map R rename_stmt]. now rewrite rename_name_with_ix.
  - (* RemoveConstraint *)
    unfold gen_remove_constraint.
    assert (G : forall k (idx : list table_constraint -> list table_constraint -> list table_constraint),
                (forall a b, idx (map (lit_c p) a) (map (lit_c p) b) = map (lit_c p) (idx a b)) ->
                rebuild_inputs s (RemoveConstraint table k) = rebuild_inputs s (RemoveConstraint table constraint) ->
                match find_table (p +++ table) (literal_schema p s) with
                | Some td => rebuild (p +++ table) (t_columns td) (filter (keep_after_remove (lit_c p k)) (t_constraints td))
                               (col_names (t_columns td)) (copy_all (t_columns td))
                               (idx (filter (keep_after_remove (lit_c p k)) (t_constraints td)) (t_constraints td)) [] []
                | None => GErr end
                = lift_gen p match find_table table s with
                             | Some td => rebuild table (t_columns td) (filter (keep_after_remove k) (t_constraints td))
                                            (col_names (t_columns td)) (copy_all (t_columns td))
                                            (idx (filter (keep_after_remove k) (t_constraints td)) (t_constraints td)) [] []
                             | None => GErr end).
    { intros k idx Hidx Hri. rewrite find_table_literal. rewrite <- Hri in Hchk. cbn [rebuild_inputs] in Hchk.
      destruct (find_table table s) as [td|]; [|reflexivity]. cbn [option_map].
      change (t_columns (literal_table p td)) with (map (lit_col p) (t_columns td)).
      change (t_constraints (literal_table p td)) with (map (lit_c p) (t_constraints td)).
      rewrite (filter_literal2 p (keep_after_remove k)) by (intro c; apply keep_after_remove_literal).
      rewrite Hidx, col_names_literal, copy_all_literal.
      apply (rebuild_literal p table (t_columns td) _ _ _ _ [] []). exact Hchk. }
    destruct constraint as [a pc|n uc|n fc rt rc od ou|n e|n ic]; cbn [lit_c].
    + exact (G (CPrimaryKey a pc) (fun _ b => b) (fun _ _ => eq_refl) eq_refl).
    + exact (G (CUnique n uc) (fun a _ => a) (fun _ _ => eq_refl) eq_refl).
    + exact (G (CForeignKey n fc rt rc od ou) (fun _ b => b) (fun _ _ => eq_refl) eq_refl).
    + exact (G (CCheck n e) (fun _ b => b) (fun _ _ => eq_refl) eq_refl).
    + cbn [lift_gen map R rename_stmt]. now rewrite rename_name_with_ix.
Qed.

(* ---------- the plan ---------- *)
Lemma index_like_literal p k : (is_index (lit_c p k) || is_unique (lit_c p k))%bool = (is_index k || is_unique k)%bool.
Proof. now destruct k. Qed.

Lemma pending_for_literal p a r :
  pending_for (literal_action p a) (map (literal_action p) r) = map (lit_c p) (pending_for a r).
Proof.
  destruct a; try reflexivity. cbn [literal_action pending_for].
  induction r as [|b r IH]; [reflexivity|]. cbn [map flat_map]. rewrite IH, map_app. f_equal.
  destruct b; try reflexivity. cbn [literal_action]. rewrite eqb_prefix, index_like_literal.
  destruct (String.eqb table0 table && (is_index constraint0 || is_unique constraint0))%bool; reflexivity.
Qed.

Lemma apply_ignoring_literal p s a : no_dot p -> no_user_name_equals_derived p s a = true ->
  apply_ignoring (literal_schema p s) (literal_action p a) = literal_schema p (apply_ignoring s a).
Proof.
  intros Hp Hside. unfold apply_ignoring. rewrite (apply_equivariant p s a Hp Hside).
  destruct (apply_action s a) as [s'|e]; cbn [lift_apply]; [reflexivity|].
  destruct e; cbn [literal_perr]; try reflexivity.
  destruct a; cbn [literal_action]; try reflexivity.
  rewrite (update_table_literal p table
             (fun t => Ok (mkTable (t_name t) (t_description t) (t_columns t ++ [column]) (t_constraints t)))).
  - destruct (update_table table _ s); reflexivity.
  - intro t. cbn beta. f_equal. unfold literal_table. cbn [t_name t_description t_columns t_constraints]. now rewrite map_app.
Qed.

Lemma drop_empty_literal p l : drop_empty (map (R p) l) = map (R p) (drop_empty l).
Proof.
  unfold drop_empty. induction l as [|st l IH]; [reflexivity|]. cbn [map filter].
  destruct st; cbn [R rename_stmt]; cbn [map]; try now rewrite IH.
  destruct (negb (String.eqb text "")); cbn [map]; now rewrite IH.
Qed.

Fixpoint prefix_plan_ok (p : string) (s : schema) (acts : list action) : bool :=
  match acts with
  | [] => true
  | a :: r => (prefix_step_ok p s a && prefix_plan_ok p (apply_ignoring s a) r)%bool
  end.

Definition lift_plan (p : string) (r : result (list (list stmt)) gen_error) : result (list (list stmt)) gen_error :=
  match r with Ok ls => Ok (map (map (R p)) ls) | Err e => Err e end.

Lemma gen_plan_aux_literal p : no_dot p -> forall acts s b, prefix_plan_ok p s acts = true ->
  gen_plan_aux (literal_schema p s) (map (literal_action p) acts) b = lift_plan p (gen_plan_aux s acts b).
Proof.
  intros Hp. induction acts as [|a r IH]; intros s b Hok; cbn [map gen_plan_aux prefix_plan_ok] in *.
  - destruct b; reflexivity.
  - apply andb_prop in Hok as [Hstep Hrest].
    assert (Hside : no_user_name_equals_derived p s a = true).
    { unfold prefix_step_ok in Hstep. apply andb_prop in Hstep as [H _]. now apply andb_prop in H as [H _]. }
    rewrite pending_for_literal, (gen_literal p s _ a Hp Hstep), (apply_ignoring_literal p s a Hp Hside).
    destruct (gen s (pending_for a r) a) as [l| | |]; cbn [lift_gen]; try reflexivity.
    + rewrite (IH _ b Hrest). destruct (gen_plan_aux (apply_ignoring s a) r b); cbn [lift_plan map]; [|reflexivity].
      now rewrite drop_empty_literal.
    + rewrite (IH _ true Hrest). destruct (gen_plan_aux (apply_ignoring s a) r true); reflexivity.
Qed.

(* C14, SQLite generator: generating for the literally renamed project is renaming the generated statements *)
Theorem gen_plan_prefix_equivariant : forall p s acts, no_dot p -> prefix_plan_ok p s acts = true ->
  gen_plan (literal_schema p s) (map (literal_action p) acts) = lift_plan p (gen_plan s acts).
Proof. intros p s acts Hp H. unfold gen_plan. now apply gen_plan_aux_literal. Qed.

(* the side conditions are satisfiable on a plan with rebuilds, an enum column, a user CHECK and a foreign key *)
Definition eq_demo_base : schema :=
  [mkTable "u" None [mkCol "id" (TSimple Integer) false None None None None None None;
                     mkCol "e" (TEnum "lvl" (EVString ["a"; "b"])) true None None None None None None]
     [CPrimaryKey false ["id"]; CCheck "ck_pos" "id > 0"; CIndex None ["e"]];
   mkTable "p" None [mkCol "id" (TSimple Integer) false None None None None None None;
                     mkCol "u_id" (TSimple Integer) true None None None None None None] [CPrimaryKey false ["id"]]].
Definition eq_demo_plan : list action :=
  [ModifyColumnNullable "u" "e" false (Some "'a'");
   AddConstraint "p" (CForeignKey None ["u_id"] "u" ["id"] (Some Cascade) None);
   AddConstraint "p" (CIndex None ["u_id"]);
   DeleteColumn "u" "e";
   CreateTable "q" [mkCol "id" (TSimple Integer) false None None None None None None;
                    mkCol "s" (TEnum "st" (EVString ["x"])) true None None None None None None] [CPrimaryKey true ["id"]];
   RenameTable "p" "r"].
Lemma eq_demo_ok : prefix_plan_ok "app_" eq_demo_base eq_demo_plan = true /\ (exists ls, gen_plan eq_demo_base eq_demo_plan = Ok ls).
Proof. split; [vm_compute; reflexivity|]. eexists. vm_compute. reflexivity. Qed.
