(* SQLITE layer, C02: the 5-step temp-table rebuild shared by eight builders, on the catalog model.
     CREATE TABLE t_temp(td') ; INSERT INTO t_temp … SELECT … FROM t ; DROP TABLE t ; ALTER TABLE t_temp RENAME TO t ;
     CREATE [UNIQUE] INDEX … ON t …
   If the statements execute, the catalog afterwards is the old one without t and without t's indexes, plus the entry
   the CREATE TABLE describes (under t's name) and exactly the indexes the trailing statements create.  Hence the
   catalog is the believed one provided the created entry is [table_entry td'] and the recreated index set equals
   [index_entries td'] — the side condition the individual builders satisfy or fail (D17, D18). *)
From Coq Require Import Lia Permutation.
From VV.SQLITE Require Import Corr Known RowsP.

Definition no_fk_to (n : string) (c : catalog) : bool :=
  forallb (fun x => forallb (fun f => negb (ieq (sf_table f) n)) (ct_fks x)) (cat_tables c).
Definition no_index_on (n : string) (c : catalog) : bool :=
  forallb (fun i => negb (ieq (ci_table i) n)) (cat_indexes c).

Definition index_spec := (bool * string * list string)%type.        (* unique, name, columns *)
Definition index_stmt_of (t : string) (i : index_spec) : stmt := let '(u, n, cols) := i in SCreateIndex u n t cols.
Definition index_of_spec (t : string) (i : index_spec) : cindex := let '(u, n, cols) := i in mkCIndex n t u cols.

Definition without_table (t : string) (l : list ctable) : list ctable := filter (fun x => negb (ieq (ct_name x) t)) l.
Definition without_indexes_of (t : string) (l : list cindex) : list cindex := filter (fun i => negb (ieq (ci_table i) t)) l.

(* ---------- single statements ---------- *)
Lemma exec_create_cat fk c n cols pks fks checks c1 :
  exec fk c (SCreateTable n cols pks fks checks) = Ok c1 ->
  name_taken n c = false /\ c1 = mkCat (cat_tables c ++ [table_of_create n cols pks fks checks]) (cat_indexes c).
Proof.
  cbn [exec]. destruct (name_taken n c); [discriminate|].
  destruct (negb (create_ok cols pks fks checks)); [discriminate|]. intro H. injection H as <-. auto.
Qed.

Lemma exec_insert_cat fk c dst cs src ex c2 : exec fk c (SInsertSelect dst cs src ex) = Ok c2 -> c2 = c.
Proof.
  cbn [exec]. destruct (find_ctable dst c); [|discriminate]. destruct (find_ctable src c); [|discriminate].
  destruct (find _ cs); [discriminate|].
  destruct (find _ ex) as [[?|? ?]|]; try discriminate.
  destruct (negb (Nat.eqb _ _)); [discriminate|]. destruct (fk && _)%bool; [discriminate|]. intro H; now injection H.
Qed.

Lemma exec_drop_cat fk c t c3 :
  exec fk c (SDropTable t) = Ok c3 ->
  c3 = mkCat (without_table t (cat_tables c)) (without_indexes_of t (cat_indexes c)).
Proof.
  cbn [exec]. destruct (has_ctable t c); [|discriminate].
  destruct (fk && _)%bool; [discriminate|]. intro H. now injection H.
Qed.

Lemma ctable_eta x : mkCTable (ct_name x) (ct_cols x) (ct_autoinc x) (ct_fks x) (ct_checks x) = x.
Proof. now destruct x. Qed.
Lemma cindex_eta i : mkCIndex (ci_name i) (ci_table i) (ci_unique i) (ci_cols i) = i.
Proof. now destruct i. Qed.
Lemma sfk_eta f : mkSFk (sf_cols f) (sf_table f) (sf_refcols f) (sf_on_delete f) (sf_on_update f) = f.
Proof. now destruct f. Qed.

Lemma map_id_when {A} (f : A -> A) (l : list A) : (forall x, In x l -> f x = x) -> map f l = l.
Proof.
  induction l as [|x l IH]; cbn [map]; intro H; [reflexivity|].
  rewrite H by now left. f_equal. apply IH. intros y Hy. apply H. now right.
Qed.

(* ---------- the rename of the temp table: nothing else moves when nothing refers to the temp name ---------- *)
Definition rename_table_entry (temp t : string) (x : ctable) : ctable :=
  mkCTable (if ieq (ct_name x) temp then t else ct_name x) (ct_cols x) (ct_autoinc x)
    (map (fun f => if ieq (sf_table f) temp
                   then mkSFk (sf_cols f) t (sf_refcols f) (sf_on_delete f) (sf_on_update f) else f) (ct_fks x))
    (ct_checks x).

Lemma rename_entry_id temp t x :
  ieq (ct_name x) temp = false -> forallb (fun f => negb (ieq (sf_table f) temp)) (ct_fks x) = true ->
  rename_table_entry temp t x = x.
Proof.
  intros Hn Hf. unfold rename_table_entry. rewrite Hn.
  rewrite map_id_when; [apply ctable_eta|].
  intros f Hin. rewrite forallb_forall in Hf. specialize (Hf f Hin).
  destruct (ieq (sf_table f) temp); [discriminate|reflexivity].
Qed.

Lemma exec_rename_cat fk c a b c4 :
  exec fk c (SRenameTable a b) = Ok c4 ->
  name_taken b c = false
  /\ c4 = mkCat (map (rename_table_entry a b) (cat_tables c))
                (map (fun i => if ieq (ci_table i) a then mkCIndex (ci_name i) b (ci_unique i) (ci_cols i) else i) (cat_indexes c)).
Proof.
  cbn [exec]. destruct (find_ctable a c); [|discriminate]. destruct (name_taken b c); [discriminate|].
  intro H. injection H as <-. split; reflexivity.
Qed.

(* ---------- trailing CREATE INDEX statements ---------- *)
Lemma find_ctable_last l t T :
  find (fun x => ieq (ct_name x) t) l = None -> ct_name T = t ->
  find_ctable t (mkCat (l ++ [T]) []) = Some T.
Proof.
  intros Hn HT. unfold find_ctable. cbn [cat_tables]. rewrite (find_app_none _ _ _ Hn). cbn [find].
  rewrite HT, ieq_refl. reflexivity.
Qed.

Lemma exec_indexes fk t T : forall (idx : list index_spec) tabs ixs c' i,
  find (fun x => ieq (ct_name x) t) tabs = None -> ct_name T = t ->
  exec_all fk (mkCat (tabs ++ [T]) ixs) (map (index_stmt_of t) idx) i = Ok c' ->
  c' = mkCat (tabs ++ [T]) (ixs ++ map (index_of_spec t) idx).
Proof.
  induction idx as [|[[u n] cols] idx IH]; intros tabs ixs c' i Hn HT H; cbn [map exec_all] in H.
  - injection H as <-. now rewrite app_nil_r.
  - cbn [index_stmt_of] in H.
    destruct (exec fk (mkCat (tabs ++ [T]) ixs) (SCreateIndex u n t cols)) as [c1|] eqn:E; [|discriminate].
    cbn [exec] in E. destruct (name_taken n _); [discriminate|].
    assert (F : find_ctable t (mkCat (tabs ++ [T]) ixs) = Some T).
    { unfold find_ctable. cbn [cat_tables]. rewrite (find_app_none _ _ _ Hn). cbn [find]. now rewrite HT, ieq_refl. }
    rewrite F in E. destruct (find _ cols); [discriminate|]. injection E as <-. cbn [cat_tables cat_indexes] in H.
    apply IH in H; [|exact Hn|exact HT]. rewrite H. cbn [map index_of_spec]. rewrite HT. now rewrite <- app_assoc.
Qed.

Lemma without_table_none t l : find (fun x => ieq (ct_name x) t) (without_table t l) = None.
Proof.
  unfold without_table. induction l as [|x l IH]; cbn [filter find]; [reflexivity|].
  destruct (ieq (ct_name x) t) eqn:E; cbn [negb find]; [exact IH|]. now rewrite E.
Qed.

Lemma exec_all_app fk : forall l1 l2 c i c',
  exec_all fk c (l1 ++ l2) i = Ok c' ->
  exists c1, exec_all fk c l1 i = Ok c1 /\ exec_all fk c1 l2 (i + List.length l1) = Ok c'.
Proof.
  induction l1 as [|st l1 IH]; intros l2 c i c' H; cbn [app exec_all List.length] in *.
  - exists c. split; [reflexivity|]. now rewrite Nat.add_0_r.
  - destruct (exec fk c st) as [c0|]; [|discriminate].
    destruct (IH _ _ _ _ H) as (c1 & H1 & H2). exists c1. split; [exact H1|].
    replace (i + S (List.length l1)) with (S i + List.length l1) by lia. exact H2.
Qed.

Lemma exec_all_ok_index fk : forall l c i c', exec_all fk c l i = Ok c' -> forall j, exec_all fk c l j = Ok c'.
Proof.
  induction l as [|st l IH]; intros c i c' H j; cbn [exec_all] in *; [exact H|].
  destruct (exec fk c st); [|discriminate]. eapply IH. exact H.
Qed.

(* ---------- rebuild_generic ---------- *)
Theorem rebuild_generic : forall fk c c' t cols pks fks checks cs exprs (idx : list index_spec),
  let temp := temp_name t in
  ieq temp t = false ->
  no_fk_to temp c = true -> no_index_on temp c = true ->
  forallb (fun f => negb (ieq (sf_table f) temp)) fks = true ->
  exec_all fk c ([SCreateTable temp cols pks fks checks; SInsertSelect temp cs t exprs; SDropTable t; SRenameTable temp t]
                 ++ map (index_stmt_of t) idx) 0 = Ok c' ->
  c' = mkCat (without_table t (cat_tables c) ++ [table_of_create t cols pks fks checks])
             (without_indexes_of t (cat_indexes c) ++ map (index_of_spec t) idx).
Proof.
  intros fk c c' t cols pks fks checks cs exprs idx temp Hne Hfk Hix Hown Hrun.
  apply exec_all_app in Hrun as (c4 & H4 & Hidx). cbn [exec_all] in H4.
  destruct (exec fk c (SCreateTable temp cols pks fks checks)) as [c1|] eqn:E1; [|discriminate].
  destruct (exec fk c1 (SInsertSelect temp cs t exprs)) as [c2|] eqn:E2; [|discriminate].
  destruct (exec fk c2 (SDropTable t)) as [c3|] eqn:E3; [|discriminate].
  destruct (exec fk c3 (SRenameTable temp t)) as [c4'|] eqn:E4; [|discriminate].
  injection H4 as <-.
  apply exec_create_cat in E1 as (T1 & ->). apply exec_insert_cat in E2 as ->.
  apply exec_drop_cat in E3 as ->. apply exec_rename_cat in E4 as (_ & ->).
  cbn [cat_tables cat_indexes] in Hidx.
  (* tables *)
  assert (Htabs : map (rename_table_entry temp t) (without_table t (cat_tables c ++ [table_of_create temp cols pks fks checks]))
                  = without_table t (cat_tables c) ++ [table_of_create t cols pks fks checks]).
  { unfold without_table. rewrite filter_app. cbn [filter]. unfold table_of_create at 1. cbn [ct_name]. rewrite Hne. cbn [negb].
    rewrite map_app. cbn [map]. f_equal.
    - apply map_id_when. intros x Hin. apply filter_In in Hin as [Hin _]. apply rename_entry_id.
      + unfold name_taken in T1. apply Bool.orb_false_iff in T1 as [T1 _]. unfold has_ctable, find_ctable in T1.
        destruct (find (fun t0 => ieq (ct_name t0) temp) (cat_tables c)) eqn:F; [discriminate|].
        eapply find_none in F; [|exact Hin]. exact F.
      + unfold no_fk_to in Hfk. rewrite forallb_forall in Hfk. exact (Hfk x Hin).
    - f_equal. unfold rename_table_entry, table_of_create. cbn [ct_name ct_cols ct_autoinc ct_fks ct_checks].
      rewrite ieq_refl. f_equal. apply map_id_when. intros f Hin. rewrite forallb_forall in Hown. specialize (Hown f Hin).
      destruct (ieq (sf_table f) temp); [discriminate|reflexivity]. }
  (* indexes *)
  assert (Hixs : map (fun i => if ieq (ci_table i) temp then mkCIndex (ci_name i) t (ci_unique i) (ci_cols i) else i)
                     (without_indexes_of t (cat_indexes c)) = without_indexes_of t (cat_indexes c)).
  { apply map_id_when. intros i Hin. apply filter_In in Hin as [Hin _]. unfold no_index_on in Hix.
    rewrite forallb_forall in Hix. specialize (Hix i Hin). destruct (ieq (ci_table i) temp); [discriminate|reflexivity]. }
  rewrite Htabs, Hixs in Hidx.
  eapply exec_indexes in Hidx; [exact Hidx|apply without_table_none|reflexivity].
Qed.

(* the believed catalog after the rebuild: stated for the generator's own statement list *)
Definition specs_of (t : string) (l : list stmt) : list index_spec :=
  flat_map (fun st => match st with SCreateIndex u n _ cols => [(u, n, cols)] | _ => [] end) l.

Lemma recreate_specs t cs pending :
  recreate_indexes t cs pending = map (index_stmt_of t) (specs_of t (recreate_indexes t cs pending)).
Proof.
  unfold recreate_indexes, specs_of. induction cs as [|k cs IH]; cbn [flat_map map]; [reflexivity|].
  destruct (contains_constraint k pending); cbn [app]; [exact IH|].
  destruct k; cbn [index_stmt app flat_map map index_stmt_of]; try exact IH; now rewrite <- IH.
Qed.

(* index entries of a table are exactly what recreate_indexes creates when nothing is pending *)
Lemma recreate_all_entries_gen t : forall cs,
  map (index_of_spec t) (specs_of t (recreate_indexes t cs []))
  = flat_map (fun k => match k with
                       | CIndex n cols => [mkCIndex (build_index_name t cols n) t false cols]
                       | CUnique n cols => [mkCIndex (build_unique_constraint_name t cols n) t true cols]
                       | _ => []
                       end) cs.
Proof.
  assert (FC : forall A B (f : A -> list B) k l, flat_map f (k :: l) = f k ++ flat_map f l) by reflexivity.
  unfold recreate_indexes, specs_of, contains_constraint. cbn [existsb].
  induction cs as [|k cs IH]; [reflexivity|].
  rewrite !(FC _ _ _ k cs), flat_map_app, map_app. f_equal; [|exact IH].
  destruct k; cbn [index_stmt flat_map map index_of_spec app]; reflexivity.
Qed.
Lemma recreate_all_entries td :
  map (index_of_spec (t_name td)) (specs_of (t_name td) (recreate_indexes (t_name td) (t_constraints td) [])) = index_entries td.
Proof. apply recreate_all_entries_gen. Qed.

(* rebuild_generic in the form the simulation uses: the generator's rebuild of table [t_name td'] (all indexes of td'
   recreated, nothing pending), whose CREATE TABLE describes [table_entry td'], ends in the old catalog with the table's
   entry and indexes replaced by those of td' *)
Theorem rebuild_to_believed : forall fk c c' td' cols pks fks checks cs exprs before,
  let t := t_name td' in
  let temp := temp_name t in
  ieq temp t = false ->
  no_fk_to temp c = true -> no_index_on temp c = true ->
  forallb (fun f => negb (ieq (sf_table f) temp)) fks = true ->
  table_of_create t cols pks fks checks = table_entry td' ->
  exec_all fk c ([SCreateTable temp cols pks fks checks; SInsertSelect temp cs t exprs; SDropTable t; SRenameTable temp t]
                 ++ recreate_indexes t (t_constraints td') []) before = Ok c' ->
  c' = mkCat (without_table t (cat_tables c) ++ [table_entry td'])
             (without_indexes_of t (cat_indexes c) ++ index_entries td').
Proof.
  intros fk c c' td' cols pks fks checks cs exprs before t temp Hne Hfk Hix Hown Hent Hrun.
  rewrite recreate_specs in Hrun.
  assert (Hrun0 : exec_all fk c ([SCreateTable temp cols pks fks checks; SInsertSelect temp cs t exprs; SDropTable t; SRenameTable temp t]
                 ++ map (index_stmt_of t) (specs_of t (recreate_indexes t (t_constraints td') []))) 0 = Ok c').
  { eapply exec_all_ok_index. exact Hrun. }
  apply rebuild_generic in Hrun0; try assumption.
  rewrite Hrun0, Hent. unfold t. now rewrite recreate_all_entries.
Qed.
